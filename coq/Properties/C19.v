(* Properties/C19.v — Pattern validators accept exactly the language of their published regex.
   One theorem per validator, all [U]: for EVERY byte string (any length).
   text_n / rx_n / tbl_n / acc_n are regenerated from regex.rs + specification.rs on every run (Gen/RegexData.v);
   v_n is the combinator model of a hand-written validator (translator/regexes.py pins the Rust text it mirrors).
   Each statement has three parts:
     (1) the concrete syntax tree prints to exactly the published text and has precedence-correct shape
         (so the untrusted Python parser cannot have changed the regex);
     (2) for every byte string the validator model answers true  iff  the string is in the denotation L of
         the regex (Regex/Regex.v: whole-string match, byte alphabet, `.` = any byte but LF, \d = [0-9]);
     (3) the validator model never panics (index / slice out of range).
   Proofs: certificate-checked bisimulation of Brzozowski derivatives (Regex/Bisim.v), certificates evaluated
   by vm_compute in Gen/RegexCertNN.v. *)
From AV Require Import Base.Bytes Regex.Regex Regex.Bisim Regex.Syntax Regex.SyntaxWf Regex.Vexpr.
From AV.Gen Require Import RegexData.
From AV.Gen Require Import RegexCert01 RegexCert02 RegexCert03 RegexCert04 RegexCert05 RegexCert06 RegexCert07 RegexCert08 RegexCert09 RegexCert10 RegexCert11 RegexCert12 RegexCert13 RegexCert14 RegexCert15 RegexCert16 RegexCert17 RegexCert18 RegexCert19 RegexCert20 RegexCert21 RegexCert22 RegexCert23 RegexCert24 RegexCert25 RegexCert26 RegexCert27 RegexCert28.
Open Scope N_scope.

Theorem C19_1 : rx_text rx_1 = text_1 /\ rx_wf rx_1 = true /\
  forall s, bytes_ok s = true -> exists b, veval v_1 s = Some b /\ (b = true <-> L (rx_sem rx_1) s).
Proof. exact (conj (proj1 text_ok_1) (conj (proj2 text_ok_1) validator_1_correct)). Qed.
Theorem C19_2 : rx_text rx_2 = text_2 /\ rx_wf rx_2 = true /\
  forall s, bytes_ok s = true ->
    (dfa_run tbl_2 acc_2 s = Some true <-> L (rx_sem rx_2) s) /\ dfa_run tbl_2 acc_2 s <> None.
Proof. exact (conj (proj1 text_ok_2) (conj (proj2 text_ok_2) validator_2_correct)). Qed.
Theorem C19_3 : rx_text rx_3 = text_3 /\ rx_wf rx_3 = true /\
  forall s, bytes_ok s = true ->
    (dfa_run tbl_3 acc_3 s = Some true <-> L (rx_sem rx_3) s) /\ dfa_run tbl_3 acc_3 s <> None.
Proof. exact (conj (proj1 text_ok_3) (conj (proj2 text_ok_3) validator_3_correct)). Qed.
Theorem C19_4 : rx_text rx_4 = text_4 /\ rx_wf rx_4 = true /\
  forall s, bytes_ok s = true -> exists b, veval v_4 s = Some b /\ (b = true <-> L (rx_sem rx_4) s).
Proof. exact (conj (proj1 text_ok_4) (conj (proj2 text_ok_4) validator_4_correct)). Qed.
Theorem C19_5 : rx_text rx_5 = text_5 /\ rx_wf rx_5 = true /\
  forall s, bytes_ok s = true -> exists b, veval v_5 s = Some b /\ (b = true <-> L (rx_sem rx_5) s).
Proof. exact (conj (proj1 text_ok_5) (conj (proj2 text_ok_5) validator_5_correct)). Qed.
Theorem C19_6 : rx_text rx_6 = text_6 /\ rx_wf rx_6 = true /\
  forall s, bytes_ok s = true -> exists b, veval v_6 s = Some b /\ (b = true <-> L (rx_sem rx_6) s).
Proof. exact (conj (proj1 text_ok_6) (conj (proj2 text_ok_6) validator_6_correct)). Qed.
Theorem C19_7 : rx_text rx_7 = text_7 /\ rx_wf rx_7 = true /\
  forall s, bytes_ok s = true -> exists b, veval v_7 s = Some b /\ (b = true <-> L (rx_sem rx_7) s).
Proof. exact (conj (proj1 text_ok_7) (conj (proj2 text_ok_7) validator_7_correct)). Qed.
Theorem C19_8 : rx_text rx_8 = text_8 /\ rx_wf rx_8 = true /\
  forall s, bytes_ok s = true -> exists b, veval v_8 s = Some b /\ (b = true <-> L (rx_sem rx_8) s).
Proof. exact (conj (proj1 text_ok_8) (conj (proj2 text_ok_8) validator_8_correct)). Qed.
Theorem C19_9 : rx_text rx_9 = text_9 /\ rx_wf rx_9 = true /\
  forall s, bytes_ok s = true ->
    (dfa_run tbl_9 acc_9 s = Some true <-> L (rx_sem rx_9) s) /\ dfa_run tbl_9 acc_9 s <> None.
Proof. exact (conj (proj1 text_ok_9) (conj (proj2 text_ok_9) validator_9_correct)). Qed.
Theorem C19_10 : rx_text rx_10 = text_10 /\ rx_wf rx_10 = true /\
  forall s, bytes_ok s = true -> exists b, veval v_10 s = Some b /\ (b = true <-> L (rx_sem rx_10) s).
Proof. exact (conj (proj1 text_ok_10) (conj (proj2 text_ok_10) validator_10_correct)). Qed.
Theorem C19_11 : rx_text rx_11 = text_11 /\ rx_wf rx_11 = true /\
  forall s, bytes_ok s = true -> exists b, veval v_11 s = Some b /\ (b = true <-> L (rx_sem rx_11) s).
Proof. exact (conj (proj1 text_ok_11) (conj (proj2 text_ok_11) validator_11_correct)). Qed.
Theorem C19_12 : rx_text rx_12 = text_12 /\ rx_wf rx_12 = true /\
  forall s, bytes_ok s = true ->
    (dfa_run tbl_12 acc_12 s = Some true <-> L (rx_sem rx_12) s) /\ dfa_run tbl_12 acc_12 s <> None.
Proof. exact (conj (proj1 text_ok_12) (conj (proj2 text_ok_12) validator_12_correct)). Qed.
Theorem C19_13 : rx_text rx_13 = text_13 /\ rx_wf rx_13 = true /\
  forall s, bytes_ok s = true ->
    (dfa_run tbl_13 acc_13 s = Some true <-> L (rx_sem rx_13) s) /\ dfa_run tbl_13 acc_13 s <> None.
Proof. exact (conj (proj1 text_ok_13) (conj (proj2 text_ok_13) validator_13_correct)). Qed.
Theorem C19_14 : rx_text rx_14 = text_14 /\ rx_wf rx_14 = true /\
  forall s, bytes_ok s = true ->
    (dfa_run tbl_14 acc_14 s = Some true <-> L (rx_sem rx_14) s) /\ dfa_run tbl_14 acc_14 s <> None.
Proof. exact (conj (proj1 text_ok_14) (conj (proj2 text_ok_14) validator_14_correct)). Qed.
Theorem C19_15 : rx_text rx_15 = text_15 /\ rx_wf rx_15 = true /\
  forall s, bytes_ok s = true -> exists b, veval v_15 s = Some b /\ (b = true <-> L (rx_sem rx_15) s).
Proof. exact (conj (proj1 text_ok_15) (conj (proj2 text_ok_15) validator_15_correct)). Qed.
Theorem C19_16 : rx_text rx_16 = text_16 /\ rx_wf rx_16 = true /\
  forall s, bytes_ok s = true ->
    (dfa_run tbl_16 acc_16 s = Some true <-> L (rx_sem rx_16) s) /\ dfa_run tbl_16 acc_16 s <> None.
Proof. exact (conj (proj1 text_ok_16) (conj (proj2 text_ok_16) validator_16_correct)). Qed.
Theorem C19_17 : rx_text rx_17 = text_17 /\ rx_wf rx_17 = true /\
  forall s, bytes_ok s = true -> exists b, veval v_17 s = Some b /\ (b = true <-> L (rx_sem rx_17) s).
Proof. exact (conj (proj1 text_ok_17) (conj (proj2 text_ok_17) validator_17_correct)). Qed.
Theorem C19_18 : rx_text rx_18 = text_18 /\ rx_wf rx_18 = true /\
  forall s, bytes_ok s = true ->
    (dfa_run tbl_18 acc_18 s = Some true <-> L (rx_sem rx_18) s) /\ dfa_run tbl_18 acc_18 s <> None.
Proof. exact (conj (proj1 text_ok_18) (conj (proj2 text_ok_18) validator_18_correct)). Qed.
Theorem C19_19 : rx_text rx_19 = text_19 /\ rx_wf rx_19 = true /\
  forall s, bytes_ok s = true -> exists b, veval v_19 s = Some b /\ (b = true <-> L (rx_sem rx_19) s).
Proof. exact (conj (proj1 text_ok_19) (conj (proj2 text_ok_19) validator_19_correct)). Qed.
Theorem C19_20 : rx_text rx_20 = text_20 /\ rx_wf rx_20 = true /\
  forall s, bytes_ok s = true -> exists b, veval v_20 s = Some b /\ (b = true <-> L (rx_sem rx_20) s).
Proof. exact (conj (proj1 text_ok_20) (conj (proj2 text_ok_20) validator_20_correct)). Qed.
Theorem C19_21 : rx_text rx_21 = text_21 /\ rx_wf rx_21 = true /\
  forall s, bytes_ok s = true ->
    (dfa_run tbl_21 acc_21 s = Some true <-> L (rx_sem rx_21) s) /\ dfa_run tbl_21 acc_21 s <> None.
Proof. exact (conj (proj1 text_ok_21) (conj (proj2 text_ok_21) validator_21_correct)). Qed.
Theorem C19_22 : rx_text rx_22 = text_22 /\ rx_wf rx_22 = true /\
  forall s, bytes_ok s = true ->
    (dfa_run tbl_22 acc_22 s = Some true <-> L (rx_sem rx_22) s) /\ dfa_run tbl_22 acc_22 s <> None.
Proof. exact (conj (proj1 text_ok_22) (conj (proj2 text_ok_22) validator_22_correct)). Qed.
Theorem C19_23 : rx_text rx_23 = text_23 /\ rx_wf rx_23 = true /\
  forall s, bytes_ok s = true -> exists b, veval v_23 s = Some b /\ (b = true <-> L (rx_sem rx_23) s).
Proof. exact (conj (proj1 text_ok_23) (conj (proj2 text_ok_23) validator_23_correct)). Qed.
Theorem C19_24 : rx_text rx_24 = text_24 /\ rx_wf rx_24 = true /\
  forall s, bytes_ok s = true -> exists b, veval v_24 s = Some b /\ (b = true <-> L (rx_sem rx_24) s).
Proof. exact (conj (proj1 text_ok_24) (conj (proj2 text_ok_24) validator_24_correct)). Qed.
Theorem C19_25 : rx_text rx_25 = text_25 /\ rx_wf rx_25 = true /\
  forall s, bytes_ok s = true ->
    (dfa_run tbl_25 acc_25 s = Some true <-> L (rx_sem rx_25) s) /\ dfa_run tbl_25 acc_25 s <> None.
Proof. exact (conj (proj1 text_ok_25) (conj (proj2 text_ok_25) validator_25_correct)). Qed.
Theorem C19_26 : rx_text rx_26 = text_26 /\ rx_wf rx_26 = true /\
  forall s, bytes_ok s = true ->
    (dfa_run tbl_26 acc_26 s = Some true <-> L (rx_sem rx_26) s) /\ dfa_run tbl_26 acc_26 s <> None.
Proof. exact (conj (proj1 text_ok_26) (conj (proj2 text_ok_26) validator_26_correct)). Qed.
Theorem C19_27 : rx_text rx_27 = text_27 /\ rx_wf rx_27 = true /\
  forall s, bytes_ok s = true -> exists b, veval v_27 s = Some b /\ (b = true <-> L (rx_sem rx_27) s).
Proof. exact (conj (proj1 text_ok_27) (conj (proj2 text_ok_27) validator_27_correct)). Qed.
Theorem C19_28 : rx_text rx_28 = text_28 /\ rx_wf rx_28 = true /\
  forall s, bytes_ok s = true ->
    (dfa_run tbl_28 acc_28 s = Some true <-> L (rx_sem rx_28) s) /\ dfa_run tbl_28 acc_28 s <> None.
Proof. exact (conj (proj1 text_ok_28) (conj (proj2 text_ok_28) validator_28_correct)). Qed.
