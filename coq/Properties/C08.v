(* Properties/C08.v — Strict and lenient validation agree; strict validation has no holes.
   Model: Xml/Parser.v (funnel monad).  Theory: Xml/Funnel.v (relation `agree`, proved once for the combinators),
   Xml/FunnelParser.v (instantiated for every parser function up to `load`).
   Statements are for EVERY table set, name tables, validator function, float oracle and byte string. *)
From AV Require Import Base.Bytes Base.Outcome Hash.HashModel Spec.SpecOps Xml.Lexer Xml.Parser Xml.Funnel Xml.FunnelParser.

(* [U] strict loading succeeds exactly when lenient loading succeeds without warnings (same tree, same final parser
   state: identifiables, references, version, compatibility mask); lenient warnings (stored newest first) => strict
   fails with the oldest one; lenient hard error => strict fails with the oldest warning collected before it, or with
   the same error if there was none. *)
Theorem C08_agree :
  forall (T : tables) (tab_el tab_at tab_en : nametab) (check_fn : N -> list N -> res bool)
         (float_parse : list N -> option N) (bs : list N),
  let l := load false T tab_el tab_at tab_en check_fn float_parse bs in
  let s := load true T tab_el tab_at tab_en check_fn float_parse bs in
  (forall t st, l = Val (Ret t st) -> p_warnings st = [] -> s = Val (Ret t st)) /\
  (forall t st w ws, l = Val (Ret t st) -> p_warnings st = ws ++ [w] -> exists sx, s = Val (Raise w sx)) /\
  (forall e st, l = Val (Raise e st) -> exists sx, s = Val (Raise (last (p_warnings st) e) sx)) /\
  (forall t st, s = Val (Ret t st) -> l = Val (Ret t st) /\ p_warnings st = []) /\
  (forall site, l = Pan site -> s = Pan site \/ exists w sx, s = Val (Raise w sx)) /\
  (l = Fuel -> s = Fuel \/ exists w sx, s = Val (Raise w sx)).
Proof. exact load_agree. Qed.
