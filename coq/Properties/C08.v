(* Properties/C08.v — Strict and lenient validation agree; strict validation has no holes.
   Model: Xml/Parser.v (funnel monad).  Theory: Xml/Funnel.v (relation `agree`, proved once for the combinators),
   Xml/FunnelParser.v (instantiated for every parser function up to `load`).
   Statements are for EVERY table set, name tables, validator function, float oracle and byte string. *)
From AV Require Import Base.Bytes Base.Outcome Hash.HashModel Spec.SpecOps Spec.SpecReal Spec.Versions Xml.Lexer Xml.Parser Xml.Funnel Xml.FunnelParser
  Xml.StrictValidDef Xml.StrictValid Xml.ParserExamples
  Xml.Serializer Xml.RoundTripFile Xml.RoundTripCanon Xml.RoundTripCanonFinal Xml.StrictValidNoHoles Xml.StrictValidHoles Xml.StrictValidEntities.
From AV Require Import Spec.SpecTypes Xml.TablesOk.
From AV Require Import Hash.HashRealElement Hash.HashRealAttr Hash.HashRealEnum.
Open Scope list_scope.

(* [U] strict loading succeeds exactly when lenient loading succeeds without warnings (same tree, same final parser
   state: identifiables, references, version, compatibility mask); lenient warnings (stored newest first) => strict
   fails with the oldest one; lenient hard error => strict fails with the oldest warning collected before it, or with
   the same error if there was none. *)
Theorem C08_agree :
  forall (T : tables) (tab_el tab_at tab_en : nametab) (check_fn : N -> list N -> res bool)
         (float_parse : list N -> option N) (bs : list N),
  let l := load false T tab_el tab_at tab_en check_fn float_parse bs in
  let s := load true T tab_el tab_at tab_en check_fn float_parse bs in
  (forall t st, l = Val (Ret t st) -> p_warnings st = [] -> s = Val (Ret t st)) /\
  (forall t st w ws, l = Val (Ret t st) -> p_warnings st = ws ++ [w] -> exists sx, s = Val (Raise w sx)) /\
  (forall e st, l = Val (Raise e st) -> exists sx, s = Val (Raise (last (p_warnings st) e) sx)) /\
  (forall t st, s = Val (Ret t st) -> l = Val (Ret t st) /\ p_warnings st = []) /\
  (forall site, l = Pan site -> s = Pan site \/ exists w sx, s = Val (Raise w sx)) /\
  (l = Fuel -> s = Fuel \/ exists w sx, s = Val (Raise w sx)).
Proof. exact load_agree. Qed.

(* [U] C08_accepted_is_valid_partial: a tree that strict loading returns satisfies StrictValid (Xml/StrictValidDef.v, a
   predicate on the tree and the specification lookups only) for the file's version p_version st:
     - every child element is findable in its parent's type in the file version (find_sub_element), with the recorded type;
     - consecutive child elements are not different alternatives of a Choice group;
     - no repeated child of multiplicity <> Any under a Sequence / Choice container;
     - a type that is named in the file version has a SHORT-NAME child;
     - every attribute is known for the type, in version, its value valid; every required attribute is present;
     - every enum value is listed for its spec and in version; every pattern value is within max_length, accepted by
       the validator and UTF-8; every plain string is within max_length; every text item belongs to a type with
       character data;
   for every element below the root (children_ok contains StrictValid of every child, recursively).
   PARTIAL, exactly: (a) the ROOT element's attributes are validated against the placeholder version Autosar_4_0_1
   (the file version is read from them), so attrs_valid is stated for v401 there; (b) for plain (CString) values StrictValid
   states max_length of the unescaped text; entity syntax is a property of the bytes before unescaping and is not in
   StrictValid - it is stated separately, exactly: C08_entities (the signed references "&#x+41;" / "&#+65;" found here are repaired: fix 5f62213, Examples fixed_entity_sign_hex / _dec);
   (c) StrictValid does not say that an element which must carry a value has a text item — that fails, see
   C08_value_required_refuted (known finding empty-value-never-checked); at most one is C08_single_value. *)
Theorem C08_accepted_is_valid_partial :
  forall (T : tables) (tab_el tab_at tab_en : nametab) (check_fn : N -> list N -> res bool)
         (float_parse : list N -> option N) (bs : list N) (t : etree) (st : pstate),
  load true T tab_el tab_at tab_en check_fn float_parse bs = Val (Ret t st) ->
  exists v401 name ty attrs content comment,
    version_of_ident "Autosar_4_0_1" = Some v401 /\ t = ENode name ty attrs content comment /\
    attrs_valid T check_fn v401 ty attrs /\
    children_ok T check_fn (p_version st) ty [] [] content /\ shortname_ok T (p_version st) ty content.
Proof. exact load_strict_valid. Qed.

(* [U] the same for a lenient load without warnings *)
Theorem C08_lenient_clean_is_valid_partial :
  forall (T : tables) (tab_el tab_at tab_en : nametab) (check_fn : N -> list N -> res bool)
         (float_parse : list N -> option N) (bs : list N) (t : etree) (st : pstate),
  load false T tab_el tab_at tab_en check_fn float_parse bs = Val (Ret t st) -> p_warnings st = [] ->
  exists v401 name ty attrs content comment,
    version_of_ident "Autosar_4_0_1" = Some v401 /\ t = ENode name ty attrs content comment /\
    attrs_valid T check_fn v401 ty attrs /\
    children_ok T check_fn (p_version st) ty [] [] content /\ shortname_ok T (p_version st) ty content.
Proof. exact load_lenient_clean_valid. Qed.

(* [U] data after the root element is never accepted by strict loading: when it returns, the lexer is at the end *)
Theorem C08_no_trailing_data :
  forall (T : tables) (tab_el tab_at tab_en : nametab) (check_fn : N -> list N -> res bool)
         (float_parse : list N -> option N) (bs : list N) (t : etree) (st : pstate),
  load true T tab_el tab_at tab_en check_fn float_parse bs = Val (Ret t st) ->
  l_rest (p_lex st) = [] /\ l_deferred (p_lex st) = None.
Proof. exact load_strict_consumed. Qed.

(* [U] a character data element (content mode Characters) holds at most one value, in every node of a loaded tree, in
   both modes (fix 00b10f0: text continuing after a comment / processing instruction used to become a second value) *)
Theorem C08_single_value :
  forall (T : tables) (tab_el tab_at tab_en : nametab) (check_fn : N -> list N -> res bool)
         (float_parse : list N -> option N) (strict : bool) (bs : list N) (t : etree) (st : pstate),
  load strict T tab_el tab_at tab_en check_fn float_parse bs = Val (Ret t st) -> single_valued T t.
Proof. exact load_single_valued. Qed.

(* [U] C08_no_holes, on bytes (C08's StrictValid composed with C01's "what the loader returns is canonical and is read back
   from its serialization"): a byte string accepted in strict mode - or accepted leniently without a warning (b = false) -
   yields a tree that
     (i)  is what strict loading returns, is StrictValid for the file version (as in C08_accepted_is_valid_partial, with
          its exclusions (a)-(c)), holds at most one value per character data element, and nothing follows the root;
     (ii) outside the recorded classes (RoundTripCanon.knownb T t = false; the classes are listed at
          C01_loader_canonical) is not an artefact of how the bytes were read: serializing it gives a text that strict
          loading accepts again with the SAME tree, no warning, the same version, which is StrictValid again, and which
          serializes to the same text.
   Hypotheses of (ii), and why they remain: canon_hyps = boolean well-formedness of the tables and the three name tables
   (true for the regenerated tables by evaluation: C01_real_canon_hyps) and the print/parse law of the std float
   functions (oracle); knownb = false because for the recorded classes the re-loaded tree differs (C01_reload_identity_refuted;
   what is read back instead: C01_value_reload, C01_reload_merged); set_version t = t because ArxmlFile::serialize first rewrites the
   root's xsi:schemaLocation to the canonical spelling - for a root with another accepted spelling the statement holds
   for the rewritten tree, not for t: C08_no_holes_rewritten. *)
Theorem C08_no_holes :
  forall (T : tables) (tab_el tab_at tab_en : nametab) (check_fn : N -> list N -> res bool)
         (float_fmt : N -> list N) (float_parse : list N -> option N) (b : bool) (bs : list N) (t : etree) (st : pstate),
  load b T tab_el tab_at tab_en check_fn float_parse bs = Val (Ret t st) -> p_warnings st = [] ->
  load true T tab_el tab_at tab_en check_fn float_parse bs = Val (Ret t st) /\
  AcceptedValid T check_fn (p_version st) t /\ single_valued T t /\
  l_rest (p_lex st) = [] /\
  (canon_hyps T tab_el tab_at tab_en float_fmt float_parse -> knownb T t = false ->
   Serializer.set_version T tab_at check_fn (p_version st) t = Val t ->
   forall sa, exists bs',
     serialize_file T tab_el tab_at tab_en check_fn float_fmt (p_version st) sa t = Val bs' /\
     exists st', load true T tab_el tab_at tab_en check_fn float_parse bs' = Val (Ret t st') /\
       p_warnings st' = [] /\ p_version st' = p_version st /\ AcceptedValid T check_fn (p_version st') t /\
       serialize_file T tab_el tab_at tab_en check_fn float_fmt (p_version st') sa t = Val bs').
Proof. exact no_holes. Qed.

(* [U] part (ii) without the premise on the root's xsi:schemaLocation spelling: t' is the tree after ArxmlFile::serialize
   rewrote that attribute (set_version; it changes nothing else, and t' = t for the canonical spelling: C01_set_version_shape).
   The written document of t is accepted strictly with the tree t', which is StrictValid.  The premise set_version = Val t'
   only says that the rewrite did not stop (it can only for a Pattern-typed attribute whose validator panics). *)
Theorem C08_no_holes_rewritten :
  forall (T : tables) (tab_el tab_at tab_en : nametab) (check_fn : N -> list N -> res bool)
         (float_fmt : N -> list N) (float_parse : list N -> option N) (b : bool) (bs : list N) (t : etree) (st : pstate) (t' : etree),
  load b T tab_el tab_at tab_en check_fn float_parse bs = Val (Ret t st) -> p_warnings st = [] ->
  canon_hyps T tab_el tab_at tab_en float_fmt float_parse -> knownb T t = false ->
  Serializer.set_version T tab_at check_fn (p_version st) t = Val t' ->
  forall sa, exists bs',
    serialize_file T tab_el tab_at tab_en check_fn float_fmt (p_version st) sa t = Val bs' /\
    exists st', load true T tab_el tab_at tab_en check_fn float_parse bs' = Val (Ret t' st') /\
      p_warnings st' = [] /\ p_version st' = p_version st /\ AcceptedValid T check_fn (p_version st') t' /\
      serialize_file T tab_el tab_at tab_en check_fn float_fmt (p_version st') sa t' = Val bs'.
Proof. exact no_holes_rewritten. Qed.

(* AcceptedValid T check_fn ver t (Xml/StrictValidNoHoles.v) is, verbatim, the conclusion of C08_accepted_is_valid_partial *)
Theorem C08_accepted_valid_unfold :
  forall (T : tables) (check_fn : N -> list N -> res bool) (ver : N) (t : etree),
  AcceptedValid T check_fn ver t <->
  exists v401 name ty attrs content comment,
    version_of_ident "Autosar_4_0_1" = Some v401 /\ t = ENode name ty attrs content comment /\
    attrs_valid T check_fn v401 ty attrs /\
    children_ok T check_fn ver ty [] [] content /\ shortname_ok T ver ty content.
Proof. exact accepted_valid_unfold. Qed.

(* The remaining hole of strict validation, witnessed on the REAL tables (LOAD = load over Spec/SpecReal.v and the real
   name tables; Xml/ParserExamples.v) and replayed on the implementation (strict load_buffer returns Ok).
   Repaired since: signed character references (5f62213), second text run (00b10f0) — Examples fixed_* there. *)
(* <SHORT-NAME/> : an element that must carry a value has no text item and is never value-checked *)
Theorem C08_value_required_refuted :
  exists bs, match LOAD true bs with
             | Val (Ret t _) => any_node (chars_node_with (Nat.eqb 0)) t = true
             | _ => False
             end.
Proof. exact ParserExamples.C08_value_required_refuted. Qed.

(* ---------- the known class `empty-value-never-checked`, characterised ----------
   A character data element without a text item is never value-checked (C08_value_required_refuted).  The hole is
   OBSERVABLE where strict checking of the empty value would have rejected it.
   empty_rejectedb tab_en check_fn float_parse cs : bool (Xml/StrictValidHoles.v) =
     Enum: the empty name is no enumeration item | Pattern fn: check_fn fn [] is not `true` | plain String: false
     | UInt: true | Float: float_parse [] = None. *)
(* [U] where empty_rejectedb says true, strict value checking does not return on the empty value *)
Theorem C08_empty_value_rejected :
  forall (tab_en : nametab) (check_fn : N -> list N -> res bool) (float_parse : list N -> option N)
         (cs : cdspec) (st : pstate) (v : cdata) (st' : pstate),
  empty_rejectedb tab_en check_fn float_parse cs = true ->
  parse_character_data true tab_en check_fn float_parse [] cs st = Val (Ret v st') -> False.
Proof. exact empty_rejected. Qed.

(* [U] for Pattern and plain String specifications where it says false, the empty value passes as the empty string *)
Theorem C08_empty_value_accepted :
  forall (tab_en : nametab) (check_fn : N -> list N -> res bool) (float_parse : list N -> option N)
         (cs : cdspec) (st : pstate),
  empty_rejectedb tab_en check_fn float_parse cs = false -> texty cs = true ->
  parse_character_data true tab_en check_fn float_parse [] cs st = Val (Ret (DString []) st).
Proof. exact empty_accepted. Qed.

(* [F] the sweep over the regenerated tables (Spec/SpecReal.v), the real enumeration name table and the C19 validator
   models (check_real = the hand-written v_n and dfa_run on the real REGEX_n tables); float oracle: float_parse [] = None
   (f64::from_str of nothing).  chars_types = every (datatype index, specification) with content mode Characters:
     - every such datatype has a specification; there are 1525: 339 Enum, 1171 Pattern, 11 plain String, 2 UInt, 2 Float;
     - the empty value is rejected for a datatype EXACTLY when its specification is not a plain String: the hole is
       observable for 1514 of the 1525 types, and not for the 11 String types (indices listed);
     - reasons: each of the 28 validators rejects the empty string (index 0 is no validator); the empty name is no
       enumeration item;
     - per element definition (9160): 422 Enum, 3390 Pattern, 2 UInt, 349 Float (observable: 4163), 357 plain String (not);
     - validators with other than exactly one Characters-mode type: 8 (2), 16 (2), 24 (1145), none for 22, 27, 28. *)
Theorem C08_empty_value_sweep :
  chars_all_have_spec = true /\ sweep fp_none = true /\
  (count_kind 0, count_kind 1, count_kind 2, count_kind 3, count_kind 4) = (339, 1171, 11, 2, 2)%nat /\
  forallb (fun n => match check_real n [] with Val false => true | _ => false end) (iota 29) = false /\
  forallb (fun n => match check_real n [] with Val false => true | _ => false end) (tl (iota 29)) = true /\
  name_of tab_enum [] = Val None /\
  (elem_count 0, elem_count 1, elem_count 2, elem_count 3, elem_count 4) = (422, 3390, 357, 2, 349)%nat /\
  map fst (filter (fun p => N.eqb (kind_of (snd p)) 2) chars_types) = [3056; 3077; 3835; 4393; 4423; 4582; 4933; 4978; 4979; 5048; 5078]%N /\
  filter (fun p => negb (Nat.eqb (snd p) 1)) (map (fun n => (n, fn_count n)) (tl (iota 29))) = [(8, 2%nat); (16, 2%nat); (22, 0%nat); (24, 1145%nat); (27, 0%nat); (28, 0%nat)]%N.
Proof. exact sweep_real. Qed.

(* what `sweep` says, unfolded for one datatype *)
Theorem C08_empty_value_sweep_meaning :
  forall (fp : list N -> option N) (i : N) (cs : cdspec), sweep fp = true -> In (i, cs) chars_types ->
  (empty_rejectedb tab_enum check_real fp cs = true <-> kind_of cs <> 2%N).
Proof. exact sweep_meaning. Qed.

(* ---------- exclusion (b), as a theorem: entity syntax (Xml/StrictValidEntities.v) ----------
   Unesc text u : the grammar of an accepted text and what it denotes -
     bytes other than '&' stand for themselves; the five named references &lt; &gt; &amp; &apos; &quot; for the byte they name;
     &#x<d>; and &#<d>; (d up to the first ';', no '+' first, for the decimal form no 'x' first) for the UTF-8 encoding of
     v, where u32::from_str_radix(d, 16 / 10) = v (Base/Radix.v) and v is a char. *)
(* [U] strict unescaping returns u for text exactly when Unesc text u; the parser state is untouched *)
Theorem C08_entities :
  forall (text : list N) (st : pstate) (u : list N),
  (exists st', unescape_string true text st = Val (Ret u st')) <-> Unesc text u.
Proof. exact unescape_strict_iff. Qed.

Theorem C08_entities_state :
  forall (text : list N) (st : pstate) (u : list N) (st' : pstate),
  unescape_string true text st = Val (Ret u st') -> st' = st /\ Unesc text u.
Proof. exact unescape_sound. Qed.

(* [U] and a text of the grammar is accepted in both modes, silently *)
Theorem C08_entities_complete :
  forall (strict : bool) (text u : list N) (st : pstate), Unesc text u -> unescape_string strict text st = Val (Ret u st).
Proof. exact unesc_complete. Qed.

(* [U] at the value: what strict loading stores for a plain String is the denotation of the (trimmed, unless
   preserve_whitespace) text of the file *)
Theorem C08_string_value_entities :
  forall (tab_en : nametab) (check_fn : N -> list N -> res bool) (float_parse : list N -> option N)
         (input : list N) (preserve : bool) (maxlen : option N) (st : pstate) (v : cdata) (st' : pstate),
  parse_character_data true tab_en check_fn float_parse input (CString preserve maxlen) st = Val (Ret v st') ->
  exists trimmed u, trim_byte_string input = Val trimmed /\ v = DString u /\ Unesc (if preserve then input else trimmed) u.
Proof. exact pcd_string_entities. Qed.

(* non-vacuity: every kind of reference occurs in an accepted text; a signed reference and a bare '&' are outside *)
Theorem C08_entities_examples :
  Unesc (BS "a&#x41;&lt;&#66;&amp;") (BS "aA<B&") /\ (forall u, ~ Unesc (BS "&#x+41;") u) /\ (forall u, ~ Unesc (BS "a & b") u).
Proof. exact (conj unesc_ex (conj unesc_signed_out unesc_bare_amp_out)). Qed.

(* ---------- an identifiable element without SHORT-NAME (Xml/StrictValidShortName.v) ---------- *)
From AV Require Import Xml.RoundTripElem Xml.StrictValidShortName.
(* [U] in EVERY node of a strictly loaded tree whose type is named in the file version the first content item is a
   SHORT-NAME sub-element (named_first: hereditarily).  So an identifiable element without SHORT-NAME is never accepted
   by strict loading, whatever its spelling - <X/> and <X></X> are both read as an element without content - and neither
   is one whose SHORT-NAME is not the first sub element (fix f86b268).  Every table set, every byte string. *)
Theorem C08_named_first :
  forall (T : tables) (tab_el tab_at tab_en : nametab) (check_fn : N -> list N -> res bool)
         (float_parse : list N -> option N) (bs : list N) (t : etree) (st : pstate),
  load true T tab_el tab_at tab_en check_fn float_parse bs = Val (Ret t st) -> named_first T (p_version st) t.
Proof. exact load_named_first. Qed.

(* named_first at a node, in words *)
Theorem C08_named_first_unfold :
  forall (T : tables) (ver name : N) (ty : etype) (attrs : list (N * cdata)) (content : list (etree + cdata)) (comment : option (list N)),
  named_first T ver (ENode name ty attrs content comment) -> is_named_in_version T ty ver = Val true ->
  exists sn rest, content = inl sn :: rest /\ e_name sn = name_short_name T.
Proof. exact named_first_root. Qed.

(* [F] both spellings of an AR-PACKAGE without content are rejected by strict loading (RequiredSubelementMissing) *)
Theorem C08_nameless_rejected_example :
  strict_err doc_empty_tag = Some RequiredSubelementMissing /\ strict_err doc_empty_pair = Some RequiredSubelementMissing.
Proof. exact nameless_rejected. Qed.

(* ---------- every malformed entity is reported, wherever it stands (Xml/StrictValidEntitiesTotal.v) ---------- *)
From AV Require Import Xml.StrictValidEntitiesTotal.
(* [U] strict: unescape_string (the one place where the references of String-typed values - attribute values and
   character data - are decoded) never panics and never runs out of fuel; a text of the grammar Unesc is decoded with the
   parser state untouched; EVERY other text - a '&' that begins no well-formed reference, anywhere in the text - is the
   error InvalidXmlEntity at the untouched state *)
Theorem C08_malformed_entity_strict :
  forall (text : list N) (st : pstate),
  (forall u, Unesc text u -> unescape_string true text st = Val (Ret u st)) /\
  (~ InGrammar text -> unescape_string true text st = Val (Raise (ErrParse (p_line st) InvalidXmlEntity 0 0) st)).
Proof. exact strict_exact. Qed.

(* [U] lenient: decoding always returns; the warnings it adds are InvalidXmlEntity warnings only; none is added exactly
   when the text is in the grammar (and the result is then its denotation); a text outside the grammar gives at least one *)
Theorem C08_malformed_entity_lenient :
  forall (text : list N) (st : pstate),
  exists u st' ws, unescape_string false text st = Val (Ret u st') /\ p_warnings st' = (ws ++ p_warnings st)%list /\ Forall is_ixe ws /\
    (ws = [] <-> Unesc text u) /\ (~ InGrammar text -> ws <> []).
Proof. exact lenient_exact. Qed.

(* [F] wherever it stands: two malformed references in one value give two warnings; the well-formed ones are decoded and
   the malformed ones kept as they are *)
Theorem C08_malformed_entity_example :
  match unescape_string false (BS "a&b;&lt;c&#x;d&amp;") (init_pstate [] 0 0) with
  | Val (Ret u st') => u = BS "a&b;<c&#x;d&" /\ List.length (p_warnings st') = 2%nat
  | _ => False
  end.
Proof. exact two_malformed. Qed.
