(* Properties/C05.v — Referrer lists and the invalid-reference report match the model's references.
   Specification side (Tree/Index.v, Tree/Refs.v), from the tree only:
     RefSet w m p r     r is an element of model m of a reference type whose text is the string p
     RefsExact w m      for every p the list reference_origins(m)[p] (empty if absent) is duplicate-free and its
                        members are exactly RefSet w m p  (= a permutation of the references with text p)
     OriginsTidy w m    no key twice, no key with an empty list
     Inv05 w            RefsExact + OriginsTidy for every model
     Broken w m r       r has string text that does not resolve in identifiables(m), or resolves to an element whose
                        type does not accept r's DEST (missing / not an enum value / not in the target's list)
   C05 builds on C04: Inv04 is a hypothesis.  Known05 = K05-setref, K05-move-late (witnesses below).
   Pending05 (for Inv05 given Inv04, C05_inv_partial) = OpCopy OpCopyAt OpMove OpMoveAt OpSetItemName, OpRemoveFile of the
   last file of a model; Pending45 (both invariants, C45_inv_partial) = the same without OpSetItemName; Pending45m (C45_inv,
   C05_history) = OpCopy OpCopyAt, OpMove/OpMoveAt of a non-identifiable element or between two models; Pending45x
   (C45_inv_x, C05_history_x) = OpMove/OpMoveAt between two models only.
   References WITHOUT string text are in neither map: never reported, and resolving them fails (C05_textless) —
   so "absent from the report iff resolving returns the target" holds for references with text only (C05_resolve).
   [P] C05_inv_partial, C45_inv_partial (with set_item_name), C05_history_partial (steps: Pending45),
       C45_inv (with local moves), C05_history (closed: from the empty world), C05_history_real [F],
       C45_inv_x (copies, container moves), C05_history_x, C05_history_x_real [F]
   [U] C05_report, C05_resolve, C05_textless *)
From AV Require Import Base.Bytes Base.Outcome Hash.HashModel Tree.Heap Tree.Ops Tree.Script.
From AV Require Import Tree.Index Tree.IndexProofs Tree.Refs Tree.RefsProofsReport Tree.RefsProofsOps Tree.IndexProofsTiny.
From AV Require Import Tree.Inv Spec.SpecReal Tree.CheckFn Tree.IndexProofsClosed Tree.IndexProofsTinyMove.
From AV Require Import Tree.RefsAll Tree.IndexProofsNodeInv Tree.IndexProofsAll Tree.Script2 Tree.IndexProofsOp2 Tree.SortProofsNames Tree.IndexProofsSortReal Tree.RefsAllB Tree.IndexProofsAllB.
Import Tiny.
Open Scope list_scope.
Open Scope N_scope.

Theorem C05_inv_partial :
  forall (T : tables) (tab_el tab_en : nametab) (check_fn : N -> list N -> res bool) (LATEST : N)
         (root_attrs : list (N * cdata)),
  TablesOK T check_fn ->
  forall (w : world) (o : op) (r : out value) (w' : world),
  TreeFacts w -> Inv04 T check_fn w -> Inv05 T w ->
  Known04 T LATEST w o = false -> Known05 T tab_el tab_en check_fn LATEST root_attrs w o = false ->
  Pending05 w o = false ->
  run_op T tab_el tab_en check_fn LATEST root_attrs o w = Val (r, w') -> Inv05 T w'.
Proof. exact RefsProofsOps.C05_inv_partial. Qed.

(* C04 and C05 together, one step: covers Element::set_item_name too (it needs both invariants: RefsExact to know
   that the rewritten referrers are reference elements, IndexExact for the freshness of the re-keyed paths).
   Pending45 = OpCopy OpCopyAt OpMove OpMoveAt, OpRemoveFile of the last file of a model. *)
Theorem C45_inv_partial :
  forall (T : tables) (tab_el tab_en : nametab) (check_fn : N -> list N -> res bool) (LATEST : N)
         (root_attrs : list (N * cdata)),
  TablesOK T check_fn ->
  forall (w : world) (o : op) (r : out value) (w' : world),
  TreeFacts w -> Inv04 T check_fn w -> Inv05 T w ->
  Known04 T LATEST w o = false -> Known05 T tab_el tab_en check_fn LATEST root_attrs w o = false ->
  Pending45 w o = false ->
  run_op T tab_el tab_en check_fn LATEST root_attrs o w = Val (r, w') -> Inv04 T check_fn w' /\ Inv05 T w'.
Proof. exact RefsProofsOps.C45_inv_partial. Qed.

Theorem C05_history_partial :
  forall (T : tables) (tab_el tab_en : nametab) (check_fn : N -> list N -> res bool) (LATEST : N)
         (root_attrs : list (N * cdata)),
  TablesOK T check_fn ->
  forall (l : list op) (w w' : world),
  Inv04 T check_fn w -> Inv05 T w -> steps_ok5 T tab_el tab_en check_fn LATEST root_attrs l w ->
  run_hist T tab_el tab_en check_fn LATEST root_attrs l w = Val w' -> Inv04 T check_fn w' /\ Inv05 T w'.
Proof. exact RefsProofsOps.C05_history_partial. Qed.

(* one step with the refined pending list: Element::move_element_here[_at] inside one model, the moved element being
   identifiable, keeps both invariants (the path index is re-keyed, the referrers are re-targeted) *)
Theorem C45_inv :
  forall (T : tables) (tab_el tab_en : nametab) (check_fn : N -> list N -> res bool) (LATEST : N)
         (root_attrs : list (N * cdata)),
  TablesOK T check_fn ->
  forall (w : world) (o : op) (r : out value) (w' : world),
  TreeFacts w -> Inv04 T check_fn w -> Inv05 T w ->
  Known04 T LATEST w o = false -> Known05 T tab_el tab_en check_fn LATEST root_attrs w o = false ->
  Pending45m T w o = false ->
  run_op T tab_el tab_en check_fn LATEST root_attrs o w = Val (r, w') -> Inv04 T check_fn w' /\ Inv05 T w'.
Proof. exact IndexProofsClosed.C45_inv. Qed.

(* closed form: every history from the empty world whose steps avoid the finding classes of C03, C04, C05 and the
   constructors that are still pending (a decidable condition evaluated along the history) *)
Theorem C05_history :
  forall (T : tables) (tab_el tab_en : nametab) (check_fn : N -> list N -> res bool) (LATEST : N)
         (root_attrs : list (N * cdata)),
  TablesOK T check_fn ->
  forall (l : list op) (w' : world),
  clean45m T tab_el tab_en check_fn LATEST root_attrs l empty_world = true ->
  run_ops T tab_el tab_en check_fn LATEST root_attrs l empty_world = Val w' ->
  TreeFacts w' /\ Inv04 T check_fn w' /\ Inv05 T w'.
Proof. exact C04_C05_history. Qed.

Theorem C05_history_real :
  forall (dfas : N -> option (list (list N) * list N)) (tab_el tab_en : nametab) (LATEST : N) (root_attrs : list (N * cdata))
         (l : list op) (w' : world),
  clean45m RT tab_el tab_en (check_fn_model dfas) LATEST root_attrs l empty_world = true ->
  run_ops RT tab_el tab_en (check_fn_model dfas) LATEST root_attrs l empty_world = Val w' ->
  TreeFacts w' /\ Inv04 RT (check_fn_model dfas) w' /\ Inv05 RT w'.
Proof. exact C04_C05_history_rt. Qed.

(* second refinement: copies and every move inside one model *)
Theorem C45_inv_x :
  forall (T : tables) (tab_el tab_en : nametab) (check_fn : N -> list N -> res bool) (LATEST : N)
         (root_attrs : list (N * cdata)),
  TablesOK T check_fn ->
  forall (w : world) (o : op) (r : out value) (w' : world),
  TreeFacts w -> Inv04 T check_fn w -> Inv05 T w ->
  Known04 T LATEST w o = false -> Known05 T tab_el tab_en check_fn LATEST root_attrs w o = false ->
  Pending45x w o = false ->
  run_op T tab_el tab_en check_fn LATEST root_attrs o w = Val (r, w') -> Inv04 T check_fn w' /\ Inv05 T w'.
Proof. exact IndexProofsClosed.C45_inv_x. Qed.

Theorem C05_history_x :
  forall (T : tables) (tab_el tab_en : nametab) (check_fn : N -> list N -> res bool) (LATEST : N)
         (root_attrs : list (N * cdata)),
  TablesOK T check_fn ->
  forall (l : list op) (w' : world),
  clean45x T tab_el tab_en check_fn LATEST root_attrs l empty_world = true ->
  run_ops T tab_el tab_en check_fn LATEST root_attrs l empty_world = Val w' ->
  TreeFacts w' /\ Inv04 T check_fn w' /\ Inv05 T w'.
Proof. exact C04_C05_history_x. Qed.

Theorem C05_history_x_real :
  forall (dfas : N -> option (list (list N) * list N)) (tab_el tab_en : nametab) (LATEST : N) (root_attrs : list (N * cdata))
         (l : list op) (w' : world),
  clean45x RT tab_el tab_en (check_fn_model dfas) LATEST root_attrs l empty_world = true ->
  run_ops RT tab_el tab_en (check_fn_model dfas) LATEST root_attrs l empty_world = Val w' ->
  TreeFacts w' /\ Inv04 RT (check_fn_model dfas) w' /\ Inv05 RT w'.
Proof. exact C04_C05_history_x_rt. Qed.

(* ---------- all 26 constructors (no pending constructor): see Properties/C04.v for the classes Known04a / Known05a and RX *)
Theorem C05_inv :
  forall (T : tables) (tab_el tab_en : nametab) (check_fn : N -> list N -> res bool) (LATEST : N)
         (root_attrs : list (N * cdata)),
  TablesOK T check_fn ->
  forall (w : world) (o : op) (r : out value) (w' : world),
  TreeFacts w -> Inv04 T check_fn w -> Inv05 T w -> RX T w ->
  Known04a T LATEST w o = false -> Known05a T tab_el tab_en check_fn LATEST root_attrs w o = false ->
  run_op T tab_el tab_en check_fn LATEST root_attrs o w = Val (r, w') -> Inv05 T w'.
Proof. exact C05_inv_all. Qed.

Theorem C45_history_all :
  forall (T : tables) (tab_el tab_en : nametab) (check_fn : N -> list N -> res bool) (LATEST : N)
         (root_attrs : list (N * cdata)),
  TablesOK T check_fn ->
  (forall ty, et_new T (autosar_element T) = Val ty -> plainty T ty) ->
  forall (l : list op) (w w' : world),
  Inv04 T check_fn w -> Inv05 T w -> RX T w ->
  steps_ok_all T tab_el tab_en check_fn LATEST root_attrs l w ->
  run_hist T tab_el tab_en check_fn LATEST root_attrs l w = Val w' -> Inv04 T check_fn w' /\ Inv05 T w' /\ RX T w'.
Proof. exact IndexProofsAll.C45_history_all. Qed.

Theorem C05_history_all :
  forall (T : tables) (tab_el tab_en : nametab) (check_fn : N -> list N -> res bool) (LATEST : N)
         (root_attrs : list (N * cdata)),
  TablesOK T check_fn ->
  (forall ty, et_new T (autosar_element T) = Val ty -> plainty T ty) ->
  forall (l : list op) (w' : world),
  clean45a T tab_el tab_en check_fn LATEST root_attrs l empty_world = true ->
  run_ops T tab_el tab_en check_fn LATEST root_attrs l empty_world = Val w' ->
  TreeFacts w' /\ Inv04 T check_fn w' /\ Inv05 T w'.
Proof. exact C04_C05_history_all. Qed.

Theorem C05_history_all_real :
  forall (dfas : N -> option (list (list N) * list N)) (tab_el tab_en : nametab) (LATEST : N) (root_attrs : list (N * cdata))
         (l : list op) (w' : world),
  clean45a RT tab_el tab_en (check_fn_model dfas) LATEST root_attrs l empty_world = true ->
  run_ops RT tab_el tab_en (check_fn_model dfas) LATEST root_attrs l empty_world = Val w' ->
  TreeFacts w' /\ Inv04 RT (check_fn_model dfas) w' /\ Inv05 RT w'.
Proof. exact C04_C05_history_all_rt. Qed.

(* the same with the smaller class Known05b (copies: no duplicate check on the walk of the copy; Properties/C04.v C04_copy_walk_nodup) *)
Theorem C45_inv_b :
  forall (T : tables) (tab_el tab_en : nametab) (check_fn : N -> list N -> res bool) (LATEST : N)
         (root_attrs : list (N * cdata)),
  TablesOK T check_fn ->
  forall (w : world) (o : op) (r : out value) (w' : world),
  TreeFacts w -> Inv04 T check_fn w -> Inv05 T w -> RX T w ->
  Known04a T LATEST w o = false -> Known05b T tab_el tab_en check_fn LATEST root_attrs w o = false ->
  run_op T tab_el tab_en check_fn LATEST root_attrs o w = Val (r, w') -> Inv04 T check_fn w' /\ Inv05 T w'.
Proof. exact C45_inv_allb. Qed.

Theorem C05_history_allb :
  forall (T : tables) (tab_el tab_en : nametab) (check_fn : N -> list N -> res bool) (LATEST : N)
         (root_attrs : list (N * cdata)),
  TablesOK T check_fn ->
  (forall ty, et_new T (autosar_element T) = Val ty -> plainty T ty) ->
  forall (l : list op) (w' : world),
  clean45b T tab_el tab_en check_fn LATEST root_attrs l empty_world = true ->
  run_ops T tab_el tab_en check_fn LATEST root_attrs l empty_world = Val w' ->
  TreeFacts w' /\ Inv04 T check_fn w' /\ Inv05 T w'.
Proof. exact C04_C05_history_allb. Qed.

(* ---------- the extended alphabet op2 (Tree/Script2.v), as far as it is cheap: the 26 constructors, set_version,
   check_version_compatibility, serialize (file / element).  Pending45_2: sort (element / model), duplicate, load_buffer. *)
Theorem C45_inv2_partial :
  forall (T : tables) (tab_el tab_at tab_en : nametab) (check_fn : N -> list N -> res bool)
         (float_parse : list N -> option N) (float_fmt : N -> list N)
         (LATEST name_index name_definition_ref attr_schema_location : N) (root_attrs : list (N * cdata)),
  TablesOK T check_fn ->
  (forall ty, et_new T (autosar_element T) = Val ty -> plainty T ty) ->
  forall (w : world) (o : op2) (r : out value2) (w' : world),
  TreeFacts w -> Inv04 T check_fn w -> Inv05 T w -> RX T w ->
  Known45_2 T tab_el tab_en check_fn LATEST root_attrs w o = false -> Pending45_2 o = false ->
  run_op2 T tab_el tab_at tab_en check_fn float_parse float_fmt LATEST name_index name_definition_ref attr_schema_location
          root_attrs o w = Val (r, w') ->
  Inv04 T check_fn w' /\ Inv05 T w' /\ RX T w'.
Proof. exact IndexProofsOp2.C45_inv2_partial. Qed.

Theorem C45_history2_partial :
  forall (T : tables) (tab_el tab_at tab_en : nametab) (check_fn : N -> list N -> res bool)
         (float_parse : list N -> option N) (float_fmt : N -> list N)
         (LATEST name_index name_definition_ref attr_schema_location : N) (root_attrs : list (N * cdata)),
  TablesOK T check_fn ->
  (forall ty, et_new T (autosar_element T) = Val ty -> plainty T ty) ->
  forall (l : list op2) (w w' : world),
  Inv04 T check_fn w -> Inv05 T w -> RX T w ->
  steps_ok2 T tab_el tab_at tab_en check_fn float_parse float_fmt LATEST name_index name_definition_ref attr_schema_location
            root_attrs l w ->
  run_hist2 T tab_el tab_at tab_en check_fn float_parse float_fmt LATEST name_index name_definition_ref attr_schema_location
            root_attrs l w = Val w' ->
  Inv04 T check_fn w' /\ Inv05 T w' /\ RX T w'.
Proof. exact IndexProofsOp2.C45_history2_partial. Qed.

(* the whole alphabet op2 except load_buffer (Pending45_3): additionally sort (side condition: no late SHORT-NAME element,
   late_short), duplicate (dup_clean).  MaskOk is agent-c14's table hypothesis; real_mask_ok: it holds for the generated tables *)
Theorem C45_inv2 :
  forall (T : tables) (tab_el tab_at tab_en : nametab) (check_fn : N -> list N -> res bool)
         (float_parse : list N -> option N) (float_fmt : N -> list N)
         (LATEST name_index name_definition_ref attr_schema_location : N) (root_attrs : list (N * cdata)),
  TablesOK T check_fn ->
  (forall ty, et_new T (autosar_element T) = Val ty -> plainty T ty) ->
  MaskOk T ->
  forall (w : world) (o : op2) (r : out value2) (w' : world),
  TreeInv w -> Inv04 T check_fn w -> Inv05 T w -> RX T w ->
  Side45_2 T tab_el tab_en check_fn LATEST root_attrs w o -> Pending45_3 o = false ->
  run_op2 T tab_el tab_at tab_en check_fn float_parse float_fmt LATEST name_index name_definition_ref attr_schema_location
          root_attrs o w = Val (r, w') ->
  Inv04 T check_fn w' /\ Inv05 T w' /\ RX T w'.
Proof. exact IndexProofsOp2.C45_inv2. Qed.

Theorem C45_history2 :
  forall (T : tables) (tab_el tab_at tab_en : nametab) (check_fn : N -> list N -> res bool)
         (float_parse : list N -> option N) (float_fmt : N -> list N)
         (LATEST name_index name_definition_ref attr_schema_location : N) (root_attrs : list (N * cdata)),
  TablesOK T check_fn ->
  (forall ty, et_new T (autosar_element T) = Val ty -> plainty T ty) ->
  MaskOk T ->
  forall (l : list op2) (w w' : world),
  Inv04 T check_fn w -> Inv05 T w -> RX T w ->
  steps_ok2a T tab_el tab_at tab_en check_fn float_parse float_fmt LATEST name_index name_definition_ref attr_schema_location
             root_attrs l w ->
  run_hist2 T tab_el tab_at tab_en check_fn float_parse float_fmt LATEST name_index name_definition_ref attr_schema_location
            root_attrs l w = Val w' ->
  Inv04 T check_fn w' /\ Inv05 T w' /\ RX T w'.
Proof. exact IndexProofsOp2.C45_history2. Qed.

Theorem C05_mask_ok_real : MaskOk RT.
Proof. exact real_mask_ok. Qed.

Theorem C05_report :
  forall (T : tables) (check_fn : N -> list N -> res bool) (w : world) (m : N) (r : out (list id)) (w' : world),
  TreeFacts w -> Inv04 T check_fn w -> Inv05 T w ->
  q_check_references T m w = Val (r, w') ->
  w' = w /\ exists l, r = OK l /\ NoDup l /\ forall i, In i l <-> Broken T w m i.
Proof. exact RefsProofsReport.C05_report. Qed.

Theorem C05_resolve :
  forall (T : tables) (check_fn : N -> list N -> res bool) (w : world) (m : N) (p : list N) (i : id) (rr : out id) (w' : world),
  TreeFacts w -> Inv04 T check_fn w -> Inv05 T w -> RefSet T w m p i ->
  e_get_reference_target T i w = Val (rr, w') ->
  w' = w /\
  ( (exists x t, model_at w m = Some x /\ rr = OK t /\ assoc_get p (m_idents x) = Some t /\ dest_fits T w i t /\ ~ Broken T w m i)
    \/ (rr = ER InvalidReference /\ Broken T w m i) ).
Proof. exact RefsProofsReport.C05_resolve. Qed.

Theorem C05_textless :
  forall (T : tables) (w : world) (m : N) (i : id) (n : node),
  Inv05 T w -> w_nodes w i = Some n -> ref_text T w i = None ->
  (forall x p, model_at w m = Some x -> ~ In i (origins_of x p)) /\
  ~ Broken T w m i /\
  forall rr w', e_get_reference_target T i w = Val (rr, w') ->
    w' = w /\ (rr = ER InvalidReference \/ rr = ER NotReferenceElement).
Proof. exact RefsProofsReport.C05_textless. Qed.

(* ---------- non-vacuity: see Properties/C04.v (C04_demo_world: Inv05 holds in a world with a reference /B <- 7) *)
Example C05_demo_report :
  exists w', q_check_references tiny 0 (wof demo) = Val (OK [], w') /\
  exists w'', e_get_reference_target tiny 7 (wof demo) = Val (OK 8, w'').
Proof. split with (wof demo). split; [vm_compute; reflexivity|]. eexists. vm_compute. reflexivity. Qed.

(* ---------- finding: set_reference_target updates the map before the text write that can still fail *)
Example C05_set_reference_target_refuted :
  (TreeFacts (wof sr_pre) /\ Inv04 tiny tiny_check_fn (wof sr_pre) /\ Inv05 tiny (wof sr_pre)) /\
  Known05 tiny tiny_el tiny_en tiny_check_fn LATEST [] (wof sr_pre) sr_op = true /\
  (exists w', Tiny.run sr_op (wof sr_pre) = Val (ER IncorrectContentType, w')) /\
  ~ Inv05 tiny (wof (sr_pre ++ [sr_op])).
Proof. exact K05_set_reference_target_refuted. Qed.

(* ---------- finding: a move that fails after the element was unlinked, re-parented and re-keyed (the rewrite of a
   referrer is rejected): the referrer list of the old path is gone, the reference still has the old text *)
Example C05_move_late_refuted :
  (TreeFacts (wof ml_pre) /\ Inv04 tiny tiny_check_fn (wof ml_pre) /\ Inv05 tiny (wof ml_pre)) /\
  Known05 tiny tiny_el tiny_en tiny_check_fn LATEST [] (wof ml_pre) ml_op = true /\
  (exists w', Tiny.run ml_op (wof ml_pre) = Val (ER IncorrectContentType, w')) /\
  ~ Inv05 tiny (wof (ml_pre ++ [ml_op])).
Proof. exact K05_move_late_refuted. Qed.
