(* Properties/C03.v — The element hierarchy is always a well-formed tree that all navigation agrees on.
   All theorems are [U]: for EVERY table set T, name tables, check_fn, LATEST, root attributes, every world and
   every operation of the alphabet `op` of Tree/Script.v (26 constructors, none pending), for OK and ER results.
   Model: Tree/Heap.v, Tree/Ops.v, Tree/Script.v (tied to the code by the history correspondence), Tree/Iter.v.

   Invariant (Tree/Inv.v): TreeInv w := Core w /\ NoOrphan w.
     Core     : allocation bound; a listed sub-element is allocated and its parent link is the lister; no id twice in
                a content list; every model root exists with parent link PModel (own index); parent chains are finite.
                Preserved by EVERY operation unconditionally (C03_core_inv).
     NoOrphan : a node with parent link PElem p is listed by p; a node with parent link PModel m is the root of m.
                Preserved unless (world, op) is in a Known class (C03_inv):
                  Known_failed_reparent : move / copy that returns an error AFTER the element was re-parented
                                          (FINDING, witness C03_failed_reparent_refuted);
                  Known_setcdata        : set_character_data on an element that has sub-elements (since fix 9caed4a
                                          only for a Characters-mode element, which no table set lets one build);
                  Known_refhead         : an element recorded in the reference-origin index has a sub-element as its
                                          first content item (cannot occur when reference elements have no children).
   Real tables: C03_charsleaf_inv, C03_originsref_inv (all table sets), C03_inv_refchars, C03_refchars_real [F],
   C03_inv_real / C03_histories_real: on RT only Known_failed_reparent can break TreeInv.
   Extended alphabet op2 (Tree/Script2.v: + sort, duplicate, load, set_version, check_version_compatibility, serialize):
     C03_core_inv2 / C03_core_histories2: Core is preserved by EVERY op2 outside the two classes of OpLoad (Tree/InvLoad.v)
       Known_load_shared   : FINDING (confirmed on the library, findings/C03-merge-shared-partner-dag.json): the merge
                             walk makes one incoming element the partner of two model elements, or imports an incoming
                             element and later merges it; an element ends up in two content lists
                             (witness C03_load_shared_refuted, the class is decided by an instrumented re-run);
       Known_load_rejected : the load returns InvalidFileMerge (rollback path): NOT needed for Core any more, see
                             C03_core_inv2_full / C03_core_histories2_full (Known_load_shared is the only class);
     C03_core_inv2_partial: the earlier statement without OpLoad.  C03_load_master_core: non-vacuity.
     C03_inv2_partial / C03_inv2_real_partial / C03_histories2_real_partial: RealInv = TreeInv /\ CharsLeaf /\ OriginsRef
       over op2 WITHOUT OpLoad (pending_op2; CharsLeaf / OriginsRef of a loaded tree need facts about the parser's
       typing that are not part of this property), outside Known_real2 = failed re-parenting (Op1 move / copy) or a
       duplicate that fails half-way (Known_dup_failed: the dropped copy's nodes keep the parent link of a model that
       no longer exists).  C03_detfiles_inv2_partial: DF over op2 without OpDuplicate / OpLoad (a load leaves dead
       nodes with the membership marker [65535], which are detached: DetFiles is not an invariant of loads as stated).
   Navigation: C03_position*, C03_walk_preorder, C03_dfs_ids_preorder, C03_iter_dfs*, C03_no_fuel_*.
   Stale handles: C03_live_or_detached, C03_detached_not_live, C03_stale*, (DetFiles = detached chains carry no local
   file sets; needed only by the four requests that ask for min_version and not for the model).
   Iterators: C03_iter_dfs (element- and model-scoped, every max_depth), C03_iter_sub_elements, C03_iter_file.
   DetFiles: C03_detfiles_inv / _histories show DF (hence DetFiles) is an invariant under TreeInv, so C03_stale_inv and
   C03_stale_reachable need no extra hypothesis.
   Stale handles over op2 (sort, duplicate, set_version, compat check, serialize; OpLoad pending = pending_op2):
     C03_detfiles_duplicate: AutosarModel::duplicate keeps DF whatever it returns (and TreeInv when it returns Ok).
     C03_td_inv2_partial / C03_td_histories2_partial: TreeInv /\ DF along op2 histories without OpLoad outside Known2
       (= Inv.Known on Op1, Known_dup_failed on OpDuplicate).
     C03_stale_histories2_partial: in every world reached that way from the empty world, every place-dependent request
       through a handle of a detached (removed) element fails and leaves the world unchanged.
     C03_stale_histories2_example: non-vacuity (tiny tables: build /a/b/c, remove /a/b, duplicate the model).
     C03_stale_every_world: the requests that do not ask for min_version alone (all place-dependent ones except
       create_sub_element(_at), set_attribute, get_or_create_sub_element) fail through a detached handle in EVERY world,
       so also after loads and inside the known classes; what stays open across OpLoad is DF for these four.
     C03_stale_live: in EVERY world with Core, whatever is requested through a handle of a detached element (also the
       four requests above, which may succeed when DetFiles fails), models, files and all live nodes stay as they were.
     C03_stale_live_histories2: hence along every op2 history from the empty world, loads and all other known classes
       included, outside Known_load_shared: stale handles cannot change the live model, and all place-dependent
       requests except the four fail without any change.
     C03_sort_local: Element::sort(h) changes only nodes reachable from h.  C03_stale_live2 / _histories2: the same
       "cannot change the live model" for requests of op2 through a handle (principal2: Op1 requests, Element::sort,
       Element::serialize), in every Core world and along every op2 history outside Known_load_shared.
     C03_stale_chain: the per-handle form of C03_stale: the four min_version-only requests fail through a detached
       handle h as soon as the file sets on h's own chain are empty (ChainFiles w h; implied by DetFiles): this is the
       one fact about detached elements that is not yet carried across OpLoad.
   Locality of loads (Tree/InvProofsLoadLocal.v): C03_merge_local — at every exit of merge_file_data (accepted or
       rejected) every node that is neither incoming nor attached to a model is as before (Q = FR /\ KL).
     C03_load_parsed_local / C03_load_keeps_stale: an ACCEPTED load_buffer (first file or merge) leaves every detached
       element exactly as it was; a stale handle stays stale and the file sets on its chain stay empty.
     C03_stale_after_load / C03_stale_histories2_then_load: so every place-dependent request through it (the four
       min_version-only ones included) still fails after the load — e.g. after any clean op2 history without loads
       followed by an accepted load.  Open: loads that FAIL (overlap, rejected merge: rollback + renamed file marker)
       and the invariant form over histories with several loads (dead nodes).
   HEADLINE: C03_histories2_headline — the property text as one statement over op2 histories from the empty world
     outside Known_load_shared: Core (well-formed tree), sub_elements / parent / position agree, elements_dfs = the
     reachable elements once each in pre-order, the sub-element iterator = the content list, stale handles cannot
     change the live model (and fail for all place-dependent requests but the four min_version-only ones).
   C03_histories2_navigation — the remaining clauses over the same histories: an element reachable from the root of
     model k answers model() = k (C03_model_of_live), parent() of a listed element is its lister, the element-scoped
     iterator for every depth limit and the file-scoped iterator enumerate the tree in document order, and the
     queries model / path / parent through a handle of a detached element fail. *)
From AV Require Import Base.Bytes Base.Outcome Hash.HashModel Tree.Heap Tree.Ops Tree.Script Tree.Inv Tree.Iter
  Tree.InvProofsTree Tree.InvProofsNav Tree.InvProofs Tree.StaleProofs Tree.IterProofs Tree.IterProofsFile
  Tree.InvProofsDetFiles Tree.InvProofsDetFilesMain Tree.InvProofsOp2 Tree.InvExamples
  Tree.InvProofsChars Tree.InvProofsChars5 Tree.InvProofsOrigins3 Tree.InvProofsReal Tree.InvProofsRealTables Spec.SpecReal.
From AV Require Import Tree.Script2 Tree.InvLoad Tree.InvProofsOp2Full Tree.InvProofsLoadExamples Tree.InvProofsOp2Lift
  Tree.InvProofsOp2Real Tree.InvEBase Tree.InvProofsLoadLive Tree.InvProofsOp2Live Tree.InvProofsOp2Rej Tree.InvE_Main Tree.InvL_Base Tree.InvL_Main Tree.InvL_Op2 Tree.InvProofsStale2 Tree.InvProofsStale2Examples Tree.InvProofsStale3 Tree.InvProofsHeadline Tree.InvProofsStale4 Tree.InvProofsLoadLocal.
From AV Require Xml.TablesOk.
From AV Require Tree.Load Tree.MergeSpec Tree.LoadProofsRefuted.
Open Scope string_scope.
Open Scope list_scope.
Open Scope N_scope.

(* ---------- the invariant ---------- *)
Theorem C03_init : TreeInv empty_world.
Proof. exact empty_treeinv. Qed.

Theorem C03_core_inv :
  forall (T : tables) (tab_el tab_en : nametab) (check_fn : N -> list N -> res bool) (LATEST : N)
         (root_attrs : list (N * cdata)) (o : op) (w : world) (r : out value) (w' : world),
    Core w -> Inv.run T tab_el tab_en check_fn LATEST root_attrs o w = Val (r, w') -> Core w'.
Proof. exact Core_step. Qed.

Theorem C03_inv :
  forall (T : tables) (tab_el tab_en : nametab) (check_fn : N -> list N -> res bool) (LATEST : N)
         (root_attrs : list (N * cdata)) (o : op) (w : world) (r : out value) (w' : world),
    TreeInv w -> Inv.Known T tab_el tab_en check_fn LATEST root_attrs w o = false ->
    Inv.run T tab_el tab_en check_fn LATEST root_attrs o w = Val (r, w') -> TreeInv w'.
Proof. exact TreeInv_step. Qed.

Theorem C03_core_histories :
  forall (T : tables) (tab_el tab_en : nametab) (check_fn : N -> list N -> res bool) (LATEST : N)
         (root_attrs : list (N * cdata)) (l : list op) (w w' : world),
    Core w -> Inv.run_ops T tab_el tab_en check_fn LATEST root_attrs l w = Val w' -> Core w'.
Proof. exact Core_histories. Qed.

Theorem C03_histories :
  forall (T : tables) (tab_el tab_en : nametab) (check_fn : N -> list N -> res bool) (LATEST : N)
         (root_attrs : list (N * cdata)) (l : list op) (w w' : world),
    TreeInv w -> Inv.clean_ops T tab_el tab_en check_fn LATEST root_attrs l w = true ->
    Inv.run_ops T tab_el tab_en check_fn LATEST root_attrs l w = Val w' -> TreeInv w'.
Proof. exact TreeInv_histories. Qed.

Theorem C03_reachable_core :
  forall (T : tables) (tab_el tab_en : nametab) (check_fn : N -> list N -> res bool) (LATEST : N)
         (root_attrs : list (N * cdata)) (l : list op) (w' : world),
    Inv.run_ops T tab_el tab_en check_fn LATEST root_attrs l empty_world = Val w' -> Core w'.
Proof. exact Core_reachable. Qed.

(* the extended alphabet op2 (Tree/Script2.v): sort, duplicate, set_version, check_version_compatibility, serialize;
   PARTIAL: pending_op2 = OpLoad (Tree/Load.v is not covered) *)
Theorem C03_core_inv2_partial :
  forall (T : tables) (tab_el tab_at tab_en : nametab) (check_fn : N -> list N -> res bool)
         (float_parse : list N -> option N) (float_fmt : N -> list N)
         (LATEST name_index name_definition_ref attr_schema_location : N) (root_attrs : list (N * cdata))
         (o : op2) (w : world) (r : out value2) (w' : world),
    pending_op2 o = false -> Core w ->
    run_op2 T tab_el tab_at tab_en check_fn float_parse float_fmt LATEST name_index name_definition_ref
            attr_schema_location root_attrs o w = Val (r, w') -> Core w'.
Proof. exact Core_step2_partial. Qed.

(* the WHOLE alphabet op2: OpLoad included, outside Known_load = Known_load_shared || Known_load_rejected *)
Theorem C03_core_inv2 :
  forall (T : tables) (tab_el tab_at tab_en : nametab) (check_fn : N -> list N -> res bool)
         (float_parse : list N -> option N) (float_fmt : N -> list N)
         (LATEST name_index name_definition_ref attr_schema_location : N) (root_attrs : list (N * cdata))
         (o : op2) (w : world) (r : out value2) (w' : world),
    Known_load T tab_el tab_at tab_en check_fn float_parse float_fmt LATEST name_index name_definition_ref
               attr_schema_location root_attrs w o = false ->
    Core w ->
    run_op2 T tab_el tab_at tab_en check_fn float_parse float_fmt LATEST name_index name_definition_ref
            attr_schema_location root_attrs o w = Val (r, w') -> Core w'.
Proof. exact Core_step2. Qed.

Theorem C03_core_histories2 :
  forall (T : tables) (tab_el tab_at tab_en : nametab) (check_fn : N -> list N -> res bool)
         (float_parse : list N -> option N) (float_fmt : N -> list N)
         (LATEST name_index name_definition_ref attr_schema_location : N) (root_attrs : list (N * cdata))
         (l : list op2) (w w' : world),
    Core w ->
    clean_load_ops2 T tab_el tab_at tab_en check_fn float_parse float_fmt LATEST name_index name_definition_ref
                    attr_schema_location root_attrs l w = true ->
    run_ops2 T tab_el tab_at tab_en check_fn float_parse float_fmt LATEST name_index name_definition_ref
             attr_schema_location root_attrs l w = Val w' -> Core w'.
Proof. exact Core_histories2. Qed.

(* Core over the whole alphabet outside the ONE genuine class: rejected loads (InvalidFileMerge, rollback by
   Element::remove_from_file, drop of the incoming tree) are covered *)
Theorem C03_core_inv2_full :
  forall (T : tables) (tab_el tab_at tab_en : nametab) (check_fn : N -> list N -> res bool)
         (float_parse : list N -> option N) (float_fmt : N -> list N)
         (LATEST name_index name_definition_ref attr_schema_location : N) (root_attrs : list (N * cdata))
         (o : op2) (w : world) (r : out value2) (w' : world),
    Known_load_shared T tab_el tab_at tab_en check_fn float_parse LATEST name_definition_ref w o = false ->
    Core w ->
    run_op2 T tab_el tab_at tab_en check_fn float_parse float_fmt LATEST name_index name_definition_ref
            attr_schema_location root_attrs o w = Val (r, w') -> Core w'.
Proof. exact Core_step2_full. Qed.

Theorem C03_core_histories2_full :
  forall (T : tables) (tab_el tab_at tab_en : nametab) (check_fn : N -> list N -> res bool)
         (float_parse : list N -> option N) (float_fmt : N -> list N)
         (LATEST name_index name_definition_ref attr_schema_location : N) (root_attrs : list (N * cdata))
         (l : list op2) (w w' : world),
    Core w ->
    clean_shared_ops2 T tab_el tab_at tab_en check_fn float_parse float_fmt LATEST name_index name_definition_ref
                      attr_schema_location root_attrs l w = true ->
    run_ops2 T tab_el tab_at tab_en check_fn float_parse float_fmt LATEST name_index name_definition_ref
             attr_schema_location root_attrs l w = Val w' -> Core w'.
Proof. exact Core_histories2_full. Qed.

(* the class Known_load_shared is real (tiny tables of Tree/MergeSpec.v): both loads succeed, afterwards node 14 is
   listed by the nodes 6 and 7 and its parent link names 7: Core fails; merge_shared flags the second load *)
Theorem C03_load_shared_refuted :
  MergeSpec.TinyM.load_tree "a" shared_a MergeSpec.TinyM.new_world = Val (OK 0, w_shared_a) /\
  MergeSpec.TinyM.load_tree "b" shared_b w_shared_a = Val (OK 1, w_shared_b) /\
  lists w_shared_b 6 14 /\ lists w_shared_b 7 14 /\ par w_shared_b 14 7 /\ ~ par w_shared_b 14 6 /\
  ~ Core w_shared_b.
Proof. exact load_shared_refuted. Qed.

Theorem C03_load_shared_flagged :
  exists t w1 x,
    Load.install PNone shared_b w_shared_a = Val (OK t, w1) /\
    nth_opt (w_models w_shared_mp) 0 = Some x /\ is_empty (m_files x) = false /\
    merge_shared MergeSpec.TinyM.tiny MergeSpec.TinyM.LATEST MergeSpec.TinyM.DEFREF (fuel_of w_shared_mp) (m_root x)
                 (fold_right set_add [] (m_files x)) (Load.it_id t) (N.of_nat (List.length (w_files w_shared_a))) w_shared_mp = true.
Proof. exact load_shared_flagged. Qed.

(* non-vacuity: the two files of MergeSpec.TinyM.master, one merged into the other; Core by the theorem *)
Theorem C03_load_master_core :
  MergeSpec.TinyM.load_tree "f0" MergeSpec.TinyM.file0 MergeSpec.TinyM.new_world = Val (OK 0, w_f0) /\
  MergeSpec.TinyM.load_tree "f1" MergeSpec.TinyM.file1 w_f0 = Val (OK 1, w_f01) /\ Core w_f01.
Proof. exact load_master_core. Qed.

(* ---------- RealInv and DF over op2 (PARTIAL: without OpLoad; DF also without OpDuplicate) ---------- *)
Theorem C03_inv2_partial :
  forall (T : tables) (tab_el tab_at tab_en : nametab) (check_fn : N -> list N -> res bool)
         (float_parse : list N -> option N) (float_fmt : N -> list N)
         (LATEST name_index name_definition_ref attr_schema_location : N) (root_attrs : list (N * cdata))
         (o : op2) (w : world) (r : out value2) (w' : world),
    RefChars T -> RealInv T w -> pending_op2 o = false ->
    Known_real2 T tab_el tab_at tab_en check_fn float_parse float_fmt LATEST name_index name_definition_ref
                attr_schema_location root_attrs w o = false ->
    run_op2 T tab_el tab_at tab_en check_fn float_parse float_fmt LATEST name_index name_definition_ref
            attr_schema_location root_attrs o w = Val (r, w') -> RealInv T w'.
Proof. exact RealInv_step2_partial. Qed.

Theorem C03_inv2_real_partial :
  forall (tab_el tab_at tab_en : nametab) (check_fn : N -> list N -> res bool)
         (float_parse : list N -> option N) (float_fmt : N -> list N)
         (LATEST name_index name_definition_ref attr_schema_location : N) (root_attrs : list (N * cdata))
         (o : op2) (w : world) (r : out value2) (w' : world),
    RealInv RT w -> pending_op2 o = false ->
    Known_real2 RT tab_el tab_at tab_en check_fn float_parse float_fmt LATEST name_index name_definition_ref
                attr_schema_location root_attrs w o = false ->
    run_op2 RT tab_el tab_at tab_en check_fn float_parse float_fmt LATEST name_index name_definition_ref
            attr_schema_location root_attrs o w = Val (r, w') -> RealInv RT w'.
Proof. exact RealInv_step2_real_partial. Qed.

(* every history over op2 without OpLoad from the empty world, on the regenerated tables *)
Theorem C03_histories2_real_partial :
  forall (tab_el tab_at tab_en : nametab) (check_fn : N -> list N -> res bool)
         (float_parse : list N -> option N) (float_fmt : N -> list N)
         (LATEST name_index name_definition_ref attr_schema_location : N) (root_attrs : list (N * cdata))
         (l : list op2) (w' : world),
    clean_real_ops2 RT tab_el tab_at tab_en check_fn float_parse float_fmt LATEST name_index name_definition_ref
                    attr_schema_location root_attrs l empty_world = true ->
    run_ops2 RT tab_el tab_at tab_en check_fn float_parse float_fmt LATEST name_index name_definition_ref
             attr_schema_location root_attrs l empty_world = Val w' -> RealInv RT w'.
Proof. exact RealInv_histories2_real_partial. Qed.

Theorem C03_detfiles_inv2_partial :
  forall (T : tables) (tab_el tab_at tab_en : nametab) (check_fn : N -> list N -> res bool)
         (float_parse : list N -> option N) (float_fmt : N -> list N)
         (LATEST name_index name_definition_ref attr_schema_location : N) (root_attrs : list (N * cdata))
         (o : op2) (w : world) (r : out value2) (w' : world),
    TreeInv w -> DF w -> pending_real2 o = false ->
    run_op2 T tab_el tab_at tab_en check_fn float_parse float_fmt LATEST name_index name_definition_ref
            attr_schema_location root_attrs o w = Val (r, w') -> DF w'.
Proof. exact DF_step2_partial. Qed.

(* ---------- the whole alphabet op2, loads included: the invariant without RootsOnly ---------- *)
Theorem C03_roots_only_live :
  forall (w : world) (i : id) (n : node) (m : N),
    Core w -> Live w i -> w_nodes w i = Some n -> n_parent n = PModel m -> nth_error (roots w) (N.to_nat m) = Some i.
Proof. exact roots_only_live. Qed.

Theorem C03_treeinv_live : forall w : world, TreeInv w -> TreeInvL w.
Proof. exact TreeInv_TreeInvL. Qed.

Theorem C03_inv2 :
  forall (T : tables) (tab_el tab_at tab_en : nametab) (check_fn : N -> list N -> res bool)
         (float_parse : list N -> option N) (float_fmt : N -> list N)
         (LATEST name_index name_definition_ref attr_schema_location : N) (root_attrs : list (N * cdata))
         (o : op2) (w : world) (r : out value2) (w' : world),
    RefChars T -> TablesOk.tables_ok T = true -> RealInvL T w ->
    Known_real2 T tab_el tab_at tab_en check_fn float_parse float_fmt LATEST name_index name_definition_ref
                attr_schema_location root_attrs w o = false ->
    Known_load T tab_el tab_at tab_en check_fn float_parse float_fmt LATEST name_index name_definition_ref
               attr_schema_location root_attrs w o = false ->
    run_op2 T tab_el tab_at tab_en check_fn float_parse float_fmt LATEST name_index name_definition_ref
            attr_schema_location root_attrs o w = Val (r, w') -> RealInvL T w'.
Proof. exact RealInvL_step2. Qed.

Theorem C03_inv2_real :
  forall (tab_el tab_at tab_en : nametab) (check_fn : N -> list N -> res bool)
         (float_parse : list N -> option N) (float_fmt : N -> list N)
         (LATEST name_index name_definition_ref attr_schema_location : N) (root_attrs : list (N * cdata))
         (o : op2) (w : world) (r : out value2) (w' : world),
    RealInvL RT w ->
    Known_real2 RT tab_el tab_at tab_en check_fn float_parse float_fmt LATEST name_index name_definition_ref
                attr_schema_location root_attrs w o = false ->
    Known_load RT tab_el tab_at tab_en check_fn float_parse float_fmt LATEST name_index name_definition_ref
               attr_schema_location root_attrs w o = false ->
    run_op2 RT tab_el tab_at tab_en check_fn float_parse float_fmt LATEST name_index name_definition_ref
            attr_schema_location root_attrs o w = Val (r, w') -> RealInvL RT w'.
Proof. exact RealInvL_step2_real. Qed.

(* every history over op2 from the empty world on the regenerated tables *)
Theorem C03_histories2_real :
  forall (tab_el tab_at tab_en : nametab) (check_fn : N -> list N -> res bool)
         (float_parse : list N -> option N) (float_fmt : N -> list N)
         (LATEST name_index name_definition_ref attr_schema_location : N) (root_attrs : list (N * cdata))
         (l : list op2) (w' : world),
    clean_ops2 RT tab_el tab_at tab_en check_fn float_parse float_fmt LATEST name_index name_definition_ref
               attr_schema_location root_attrs l empty_world = true ->
    run_ops2 RT tab_el tab_at tab_en check_fn float_parse float_fmt LATEST name_index name_definition_ref
             attr_schema_location root_attrs l empty_world = Val w' -> RealInvL RT w'.
Proof. exact RealInvL_histories2_real. Qed.

(* the final form: rejected loads are covered as well; the classes are failed re-parenting (Op1 move / copy), a duplicate
   that fails half-way, and the finding Known_load_shared *)
Theorem C03_inv2_full :
  forall (T : tables) (tab_el tab_at tab_en : nametab) (check_fn : N -> list N -> res bool)
         (float_parse : list N -> option N) (float_fmt : N -> list N)
         (LATEST name_index name_definition_ref attr_schema_location : N) (root_attrs : list (N * cdata))
         (o : op2) (w : world) (r : out value2) (w' : world),
    RefChars T -> TablesOk.tables_ok T = true -> RealInvL T w ->
    Known_real2 T tab_el tab_at tab_en check_fn float_parse float_fmt LATEST name_index name_definition_ref
                attr_schema_location root_attrs w o = false ->
    Known_load_shared T tab_el tab_at tab_en check_fn float_parse LATEST name_definition_ref w o = false ->
    run_op2 T tab_el tab_at tab_en check_fn float_parse float_fmt LATEST name_index name_definition_ref
            attr_schema_location root_attrs o w = Val (r, w') -> RealInvL T w'.
Proof. exact RealInvL_step2_full. Qed.

Theorem C03_histories2_real_full :
  forall (tab_el tab_at tab_en : nametab) (check_fn : N -> list N -> res bool)
         (float_parse : list N -> option N) (float_fmt : N -> list N)
         (LATEST name_index name_definition_ref attr_schema_location : N) (root_attrs : list (N * cdata))
         (l : list op2) (w' : world),
    clean_ops2_full RT tab_el tab_at tab_en check_fn float_parse float_fmt LATEST name_index name_definition_ref
                    attr_schema_location root_attrs l empty_world = true ->
    run_ops2 RT tab_el tab_at tab_en check_fn float_parse float_fmt LATEST name_index name_definition_ref
             attr_schema_location root_attrs l empty_world = Val w' -> RealInvL RT w'.
Proof. exact RealInvL_histories2_real_full. Qed.

(* non-vacuity of the rejected-load and of the RealInvL theorems (tiny tables) *)
Theorem C03_load_rejected_core :
  MergeSpec.TinyM.load_tree "b" LoadProofsRefuted.conf_b w_rej_before = Val (ER InvalidFileMerge, w_rej_after) /\ Core w_rej_after.
Proof. exact load_rejected_core. Qed.

Theorem C03_load_master_real : RealInvL MergeSpec.TinyM.tiny w_f01.
Proof. exact load_master_real. Qed.

(* ---------- DetFiles for live nodes: DFL = a detached node has no local file set or is a dead node ([65535]) ---------- *)
Theorem C03_treeinv_live_inv :
  forall (T : tables) (tab_el tab_en : nametab) (check_fn : N -> list N -> res bool) (LATEST : N)
         (root_attrs : list (N * cdata)) (o : op) (w : world) (r : out value) (w' : world),
    TreeInvL w -> Inv.Known T tab_el tab_en check_fn LATEST root_attrs w o = false ->
    Inv.run T tab_el tab_en check_fn LATEST root_attrs o w = Val (r, w') -> TreeInvL w'.
Proof. exact TreeInvL_step. Qed.

Theorem C03_detfiles_live_inv :
  forall (T : tables) (tab_el tab_en : nametab) (check_fn : N -> list N -> res bool) (LATEST : N)
         (root_attrs : list (N * cdata)) (o : op) (w : world) (r : out value) (w' : world),
    TreeInvL w -> DFL w -> Inv.run T tab_el tab_en check_fn LATEST root_attrs o w = Val (r, w') -> DFL w'.
Proof. exact DF_stepL. Qed.

Theorem C03_detfiles_live_inv2_partial :
  forall (T : tables) (tab_el tab_at tab_en : nametab) (check_fn : N -> list N -> res bool)
         (float_parse : list N -> option N) (float_fmt : N -> list N)
         (LATEST name_index name_definition_ref attr_schema_location : N) (root_attrs : list (N * cdata))
         (o : op2) (w : world) (r : out value2) (w' : world),
    TreeInvL w -> DFL w -> pending_real2 o = false ->
    run_op2 T tab_el tab_at tab_en check_fn float_parse float_fmt LATEST name_index name_definition_ref
            attr_schema_location root_attrs o w = Val (r, w') -> DFL w'.
Proof. exact DFL_step2_partial. Qed.

Theorem C03_detfiles_live_of : forall w : world, DF w -> DFL w /\ (DFL w -> DetFilesL w).
Proof. exact (fun w D => conj (DF_DFL w D) (DFL_DetFilesL w)). Qed.

(* ---------- the artefact classes are empty on the real tables ---------- *)
(* CharsLeaf: an element whose content mode is Characters has no sub-elements; kept by every operation, every table set *)
Theorem C03_charsleaf_inv :
  forall (T : tables) (tab_el tab_en : nametab) (check_fn : N -> list N -> res bool) (LATEST : N)
         (root_attrs : list (N * cdata)) (o : op) (w : world) (r : out value) (w' : world),
    Core w -> CharsLeaf T w -> Inv.run T tab_el tab_en check_fn LATEST root_attrs o w = Val (r, w') -> CharsLeaf T w'.
Proof. exact CharsLeaf_step. Qed.

(* no operation changes the type of a node *)
Theorem C03_types_kept :
  forall (T : tables) (tab_el tab_en : nametab) (check_fn : N -> list N -> res bool) (LATEST : N)
         (root_attrs : list (N * cdata)) (o : op) (w : world) (r : out value) (w' : world) (i : id) (n : node),
    Core w -> CharsLeaf T w -> Inv.run T tab_el tab_en check_fn LATEST root_attrs o w = Val (r, w') ->
    w_nodes w i = Some n -> exists n', w_nodes w' i = Some n' /\ n_type n' = n_type n.
Proof. exact types_kept. Qed.

(* OriginsRef: every element recorded in the reference-origin index is an allocated node of a reference type *)
Theorem C03_originsref_inv :
  forall (T : tables) (tab_el tab_en : nametab) (check_fn : N -> list N -> res bool) (LATEST : N)
         (root_attrs : list (N * cdata)) (o : op) (w : world) (r : out value) (w' : world),
    Core w -> CharsLeaf T w -> OriginsRef T w ->
    Inv.run T tab_el tab_en check_fn LATEST root_attrs o w = Val (r, w') -> OriginsRef T w'.
Proof. exact OriginsRef_step. Qed.

(* for every table set whose reference types are Characters-mode types: only failed re-parenting breaks TreeInv *)
Theorem C03_inv_refchars :
  forall (T : tables) (tab_el tab_en : nametab) (check_fn : N -> list N -> res bool) (LATEST : N)
         (root_attrs : list (N * cdata)) (o : op) (w : world) (r : out value) (w' : world),
    RefChars T -> RealInv T w ->
    Inv.Known_failed_reparent T tab_el tab_en check_fn LATEST root_attrs w o = false ->
    Inv.run T tab_el tab_en check_fn LATEST root_attrs o w = Val (r, w') -> RealInv T w'.
Proof. exact RealInv_step. Qed.

(* [F] the regenerated tables *)
Theorem C03_refchars_real : ref_chars_b RT = true /\ RefChars RT.
Proof. exact refchars_real_both. Qed.

Theorem C03_inv_real :
  forall (tab_el tab_en : nametab) (check_fn : N -> list N -> res bool) (LATEST : N)
         (root_attrs : list (N * cdata)) (o : op) (w : world) (r : out value) (w' : world),
    Inv.Known_failed_reparent RT tab_el tab_en check_fn LATEST root_attrs w o = false ->
    TreeInv w /\ CharsLeaf RT w /\ OriginsRef RT w ->
    Inv.run RT tab_el tab_en check_fn LATEST root_attrs o w = Val (r, w') ->
    TreeInv w' /\ CharsLeaf RT w' /\ OriginsRef RT w'.
Proof. exact inv_real. Qed.

Theorem C03_histories_real :
  forall (tab_el tab_en : nametab) (check_fn : N -> list N -> res bool) (LATEST : N)
         (root_attrs : list (N * cdata)) (l : list op) (w w' : world),
    RealInv RT w -> Inv.clean_rep_ops RT tab_el tab_en check_fn LATEST root_attrs l w = true ->
    Inv.run_ops RT tab_el tab_en check_fn LATEST root_attrs l w = Val w' -> RealInv RT w'.
Proof. exact RealInv_histories_real. Qed.

Theorem C03_realinv_init : forall T : tables, RealInv T empty_world.
Proof. exact RealInv_empty. Qed.

(* ---------- navigation ---------- *)
Theorem C03_position :
  forall (w : world) (c : id) (r : out (option N)) (w' : world),
    Core w -> q_position c w = Val (r, w') ->
    w' = w /\
    match r with
    | OK (Some k) => exists p pn, par w c p /\ w_nodes w p = Some pn /\
                                  nth_opt (n_content pn) (N.to_nat k) = Some (CElem c) /\
                                  forall j, nth_opt (n_content pn) j = Some (CElem c) -> j = N.to_nat k
    | OK None => forall p, par w c p -> ~ lists w p c
    | ER _ => False
    end.
Proof. exact position_spec. Qed.

Theorem C03_position_listed :
  forall (w : world) (p c : id), Core w -> lists w p c -> exists k, q_position c w = Val (OK (Some k), w).
Proof. exact position_listed. Qed.

Theorem C03_walk_preorder :
  forall (w : world) (i : id), Core w -> allocated w i ->
    let l := walk (S (N.to_nat (w_next w))) w i in
    Pre w i l /\ NoDup l /\ forall x, In x l <-> Reach w i x.
Proof. exact walk_preorder. Qed.

Theorem C03_dfs_ids_preorder :
  forall (w : world) (i : id), Core w -> allocated w i ->
    exists l, dfs_ids (fuel_of w) i w = Val (OK l, w) /\ Pre w i l /\ NoDup l /\ forall x, In x l <-> Reach w i x.
Proof. exact dfs_ids_preorder. Qed.

Theorem C03_preorder_unique :
  forall (w : world) (i : id) (l l' : list id), Core w -> Pre w i l -> Pre w i l' -> l = l'.
Proof. exact pre_unique. Qed.

Theorem C03_iter_dfs :
  forall (w : world) (i : id) (max : N), Core w -> allocated w i ->
    exists l f0, PreD w (lim_of max) 0 i l /\ forall f, (f0 <= f)%nat -> elements_dfs f i max w = Val l.
Proof. exact dfs_iter_spec. Qed.

Theorem C03_iter_dfs_unlimited :
  forall (w : world) (i : id), Core w -> allocated w i ->
    exists l f0, (forall f, (f0 <= f)%nat -> elements_dfs f i 0 w = Val l) /\
                 Pre w i (map snd l) /\ NoDup (map snd l) /\ forall x, In x (map snd l) <-> Reach w i x.
Proof. exact dfs_iter_unlimited. Qed.

Theorem C03_iter_sub_elements :
  forall (w : world) (e : id) (n : node), Core w -> w_nodes w e = Some n ->
    forall f, (List.length (kids n) + 1 <= f)%nat -> ei_drain f (ei_new e) w = Val (kids n).
Proof. exact ei_iter_spec. Qed.

(* ElementsIterator between two calls: the content list may have changed arbitrarily *)
Theorem C03_iter_sub_elements_tolerant :
  forall (s : ei_state) (w : world) (n : node), w_nodes w (ei_elem s) = Some n ->
    exists o s', ei_next s w = Val (o, s') /\ ei_elem s' = ei_elem s /\
      (forall e, o = Some e -> ei_last s <> Some e /\ ei_last s' = Some e /\ In e (kids n)) /\
      (o = None -> ei_index s' = USIZE_MAX /\ ei_last s' = ei_last s).
Proof. exact ei_next_tolerant. Qed.

Theorem C03_iter_file :
  forall (w : world) (file max : N) (fl : Heap.file) (x : model), Core w ->
    nth_opt (w_files w) (N.to_nat file) = Some fl -> nth_opt (w_models w) (N.to_nat (f_model fl)) = Some x ->
    exists l f0, PreF w (lim_of max) file 0 (m_root x) l /\
                 forall f, (f0 <= f)%nat -> file_elements_dfs f file max w = Val l.
Proof. exact fi_iter_spec. Qed.

Theorem C03_no_fuel_model :
  forall (w : world) (i : id), Core w -> allocated w i -> model_of i w <> Fuel.
Proof. exact model_of_no_fuel. Qed.
Theorem C03_no_fuel_file_membership :
  forall (w : world) (i : id), Core w -> allocated w i -> file_membership i w <> Fuel.
Proof. exact file_membership_no_fuel. Qed.
Theorem C03_no_fuel_ancestor :
  forall (w : world) (i : id) (n : node) (other : id), Core w -> w_nodes w i = Some n ->
    ancestor_is (fuel_of w) (n_parent n) other w <> Fuel.
Proof. exact ancestor_is_no_fuel. Qed.
Theorem C03_depth_bound :
  forall (w : world) (x : id) (h : nat), Core w -> Depth w x h -> (S h <= N.to_nat (w_next w))%nat.
Proof. exact depth_bound. Qed.

(* ---------- stale handles ---------- *)
Theorem C03_live_or_detached :
  forall (w : world) (x : id), TreeInv w -> allocated w x -> Live w x \/ Detached w x.
Proof. exact live_or_detached. Qed.

Theorem C03_detached_not_live :
  forall (w : world) (x : id), Core w -> Detached w x -> ~ Live w x.
Proof. exact detached_not_live. Qed.

Theorem C03_stale :
  forall (T : tables) (tab_el tab_en : nametab) (check_fn : N -> list N -> res bool) (LATEST : N)
         (root_attrs : list (N * cdata)) (o : op) (h : id) (w : world) (r : out value) (w' : world),
    (needs_version_only o = true -> DetFiles w) ->
    Detached w h -> principal o = Some h -> place_dependent o = true ->
    Inv.run T tab_el tab_en check_fn LATEST root_attrs o w = Val (r, w') -> w' = w /\ failed r.
Proof. exact stale_fails. Qed.

Theorem C03_stale_moved :
  forall (T : tables) (tab_el tab_en : nametab) (check_fn : N -> list N -> res bool) (LATEST : N)
         (root_attrs : list (N * cdata)) (h mv : id) (w : world) (r : out value) (w' : world),
    Detached w mv ->
    (Inv.run T tab_el tab_en check_fn LATEST root_attrs (OpMove h mv) w = Val (r, w') -> w' = w /\ failed r) /\
    (forall pos, Inv.run T tab_el tab_en check_fn LATEST root_attrs (OpMoveAt h mv pos) w = Val (r, w') ->
                 w' = w /\ failed r).
Proof. exact stale_moved. Qed.

Theorem C03_stale_target :
  forall (T : tables) (tab_el tab_en : nametab) (check_fn : N -> list N -> res bool) (LATEST : N)
         (root_attrs : list (N * cdata)) (h target : id) (w : world) (r : out value) (w' : world),
    Detached w target ->
    Inv.run T tab_el tab_en check_fn LATEST root_attrs (OpSetRefTarget h target) w = Val (r, w') ->
    w' = w /\ failed r.
Proof. exact stale_target. Qed.

Theorem C03_stale_local :
  forall (T : tables) (tab_el tab_en : nametab) (check_fn : N -> list N -> res bool) (LATEST : N)
         (root_attrs : list (N * cdata)) (o : op) (h : id) (w : world) (r : out value) (w' : world),
    Core w -> Detached w h -> principal o = Some h -> place_dependent o = false ->
    Inv.run T tab_el tab_en check_fn LATEST root_attrs o w = Val (r, w') -> live_eq w w'.
Proof. exact stale_local. Qed.

Theorem C03_stale_queries :
  forall (T : tables) (h : id) (w : world),
    Detached w h ->
    (forall r w', q_model h w = Val (r, w') -> w' = w /\ r = ER ItemDeleted) /\
    (forall r w', q_path T h w = Val (r, w') -> w' = w /\ failed r) /\
    (forall r w', DetFiles w -> q_file_membership h w = Val (r, w') -> w' = w /\ r = ER ItemDeleted) /\
    (forall r w', parent_in w h = PNone -> q_parent h w = Val (r, w') -> w' = w /\ r = ER ItemDeleted).
Proof. exact stale_queries. Qed.

(* DF w: detached elements carry no local file set (implies DetFiles); an invariant of every operation under TreeInv *)
Theorem C03_detfiles_init : DF empty_world /\ (forall w, DF w -> DetFiles w).
Proof. exact (conj DF_empty DF_DetFiles). Qed.

Theorem C03_detfiles_inv :
  forall (T : tables) (tab_el tab_en : nametab) (check_fn : N -> list N -> res bool) (LATEST : N)
         (root_attrs : list (N * cdata)) (o : op) (w : world) (r : out value) (w' : world),
    TreeInv w -> DF w -> Inv.run T tab_el tab_en check_fn LATEST root_attrs o w = Val (r, w') -> DF w'.
Proof. exact DF_step. Qed.

Theorem C03_detfiles_histories :
  forall (T : tables) (tab_el tab_en : nametab) (check_fn : N -> list N -> res bool) (LATEST : N)
         (root_attrs : list (N * cdata)) (l : list op) (w w' : world),
    TreeInv w -> DF w -> Inv.clean_ops T tab_el tab_en check_fn LATEST root_attrs l w = true ->
    Inv.run_ops T tab_el tab_en check_fn LATEST root_attrs l w = Val w' -> TreeInv w' /\ DF w'.
Proof. exact DF_histories. Qed.

(* the stale-handle theorem without the extra hypothesis *)
Theorem C03_stale_inv :
  forall (T : tables) (tab_el tab_en : nametab) (check_fn : N -> list N -> res bool) (LATEST : N)
         (root_attrs : list (N * cdata)) (o : op) (h : id) (w : world) (r : out value) (w' : world),
    DF w -> Detached w h -> principal o = Some h -> place_dependent o = true ->
    Inv.run T tab_el tab_en check_fn LATEST root_attrs o w = Val (r, w') -> w' = w /\ failed r.
Proof. exact stale_fails_inv. Qed.

Theorem C03_stale_reachable :
  forall (T : tables) (tab_el tab_en : nametab) (check_fn : N -> list N -> res bool) (LATEST : N)
         (root_attrs : list (N * cdata)) (l : list op) (w : world) (o : op) (h : id) (r : out value) (w' : world),
    Inv.run_ops T tab_el tab_en check_fn LATEST root_attrs l empty_world = Val w ->
    Inv.clean_ops T tab_el tab_en check_fn LATEST root_attrs l empty_world = true ->
    Detached w h -> principal o = Some h -> place_dependent o = true ->
    Inv.run T tab_el tab_en check_fn LATEST root_attrs o w = Val (r, w') -> w' = w /\ failed r.
Proof. exact stale_fails_reachable. Qed.

(* ---------- the stale-handle half over the larger alphabet op2 (OpLoad pending) ---------- *)
Theorem C03_detfiles_duplicate :
  forall (T : tables) (tab_el tab_en : nametab) (check_fn : N -> list N -> res bool) (LATEST : N)
         (root_attrs : list (N * cdata)) (m : N) (w : world) (r : out N) (w' : world),
    TreeInv w -> DF w ->
    Copy.m_duplicate T tab_el tab_en check_fn LATEST root_attrs m w = Val (r, w') ->
    DF w' /\ (forall c : N, r = OK c -> TreeInv w').
Proof. exact DF_duplicate. Qed.

Theorem C03_td_inv2_partial :
  forall (T : tables) (tab_el tab_at tab_en : nametab) (check_fn : N -> list N -> res bool)
         (float_parse : list N -> option N) (float_fmt : N -> list N)
         (LATEST name_index name_definition_ref attr_schema_location : N) (root_attrs : list (N * cdata))
         (o : op2) (w : world) (r : out value2) (w' : world),
    TreeInv w -> DF w -> pending_op2 o = false ->
    Known2 T tab_el tab_at tab_en check_fn float_parse float_fmt LATEST name_index name_definition_ref
      attr_schema_location root_attrs w o = false ->
    run_op2 T tab_el tab_at tab_en check_fn float_parse float_fmt LATEST name_index name_definition_ref
      attr_schema_location root_attrs o w = Val (r, w') -> TreeInv w' /\ DF w'.
Proof. exact TD_step2_partial. Qed.

Theorem C03_td_histories2_partial :
  forall (T : tables) (tab_el tab_at tab_en : nametab) (check_fn : N -> list N -> res bool)
         (float_parse : list N -> option N) (float_fmt : N -> list N)
         (LATEST name_index name_definition_ref attr_schema_location : N) (root_attrs : list (N * cdata))
         (l : list op2) (w w' : world),
    TreeInv w -> DF w ->
    clean_stale_ops2 T tab_el tab_at tab_en check_fn float_parse float_fmt LATEST name_index
      name_definition_ref attr_schema_location root_attrs l w = true ->
    run_ops2 T tab_el tab_at tab_en check_fn float_parse float_fmt LATEST name_index name_definition_ref
      attr_schema_location root_attrs l w = Val w' -> TreeInv w' /\ DF w'.
Proof. exact TD_histories2_partial. Qed.

Theorem C03_stale_histories2_partial :
  forall (T : tables) (tab_el tab_at tab_en : nametab) (check_fn : N -> list N -> res bool)
         (float_parse : list N -> option N) (float_fmt : N -> list N)
         (LATEST name_index name_definition_ref attr_schema_location : N) (root_attrs : list (N * cdata))
         (l : list op2) (w : world) (o : op) (h : id) (r : out value) (w' : world),
    run_ops2 T tab_el tab_at tab_en check_fn float_parse float_fmt LATEST name_index name_definition_ref
      attr_schema_location root_attrs l empty_world = Val w ->
    clean_stale_ops2 T tab_el tab_at tab_en check_fn float_parse float_fmt LATEST name_index
      name_definition_ref attr_schema_location root_attrs l empty_world = true ->
    Detached w h -> principal o = Some h -> place_dependent o = true ->
    Inv.run T tab_el tab_en check_fn LATEST root_attrs o w = Val (r, w') -> w' = w /\ failed r.
Proof. exact stale_fails_histories2_partial. Qed.

Theorem C03_stale_every_world :
  forall (T : tables) (tab_el tab_en : nametab) (check_fn : N -> list N -> res bool) (LATEST : N)
         (root_attrs : list (N * cdata)) (o : op) (h : id) (w : world) (r : out value) (w' : world),
    needs_version_only o = false -> Detached w h -> principal o = Some h -> place_dependent o = true ->
    Inv.run T tab_el tab_en check_fn LATEST root_attrs o w = Val (r, w') -> w' = w /\ failed r.
Proof. exact stale_fails_every_world. Qed.

Theorem C03_stale_histories2_example :
  run_ops2 Tiny.T0 Tiny.nt0 Tiny.nt0 Tiny.nt0 Tiny.chk0 Tiny2.fp0 Tiny2.ff0 1 0 0 0 [] Tiny2.opsD empty_world = Val Tiny2.wD /\
  clean_stale_ops2 Tiny.T0 Tiny.nt0 Tiny.nt0 Tiny.nt0 Tiny.chk0 Tiny2.fp0 Tiny2.ff0 1 0 0 0 [] Tiny2.opsD empty_world = true /\
  In (OpDuplicate 0) Tiny2.opsD /\
  (List.length (w_models Tiny2.wD) = 2%nat /\ map m_root (w_models Tiny2.wD) = [0; 7]) /\
  Detached Tiny2.wD 5 /\
  (principal (OpCreateNamed 5 Tiny.PKG Tiny.na) = Some 5 /\ place_dependent (OpCreateNamed 5 Tiny.PKG Tiny.na) = true /\
   exists e, Inv.run Tiny.T0 Tiny.nt0 Tiny.nt0 Tiny.chk0 1 [] (OpCreateNamed 5 Tiny.PKG Tiny.na) Tiny2.wD = Val (ER e, Tiny2.wD)).
Proof. exact Tiny2.wD_example. Qed.

Theorem C03_stale_live :
  forall (T : tables) (tab_el tab_en : nametab) (check_fn : N -> list N -> res bool) (LATEST : N)
         (root_attrs : list (N * cdata)) (o : op) (h : id) (w : world) (r : out value) (w' : world),
    Core w -> Detached w h -> principal o = Some h ->
    Inv.run T tab_el tab_en check_fn LATEST root_attrs o w = Val (r, w') -> live_eq w w'.
Proof. exact stale_live. Qed.

Theorem C03_stale_live_histories2 :
  forall (T : tables) (tab_el tab_at tab_en : nametab) (check_fn : N -> list N -> res bool)
         (float_parse : list N -> option N) (float_fmt : N -> list N)
         (LATEST name_index name_definition_ref attr_schema_location : N) (root_attrs : list (N * cdata))
         (l : list op2) (w : world) (o : op) (h : id) (r : out value) (w' : world),
    run_ops2 T tab_el tab_at tab_en check_fn float_parse float_fmt LATEST name_index name_definition_ref
      attr_schema_location root_attrs l empty_world = Val w ->
    clean_shared_ops2 T tab_el tab_at tab_en check_fn float_parse float_fmt LATEST name_index
      name_definition_ref attr_schema_location root_attrs l empty_world = true ->
    Detached w h -> principal o = Some h ->
    Inv.run T tab_el tab_en check_fn LATEST root_attrs o w = Val (r, w') ->
    live_eq w w' /\ (place_dependent o = true -> needs_version_only o = false -> w' = w /\ failed r).
Proof. exact stale_live_histories2. Qed.

Theorem C03_histories2_headline :
  forall (T : tables) (tab_el tab_at tab_en : nametab) (check_fn : N -> list N -> res bool)
         (float_parse : list N -> option N) (float_fmt : N -> list N)
         (LATEST name_index name_definition_ref attr_schema_location : N) (root_attrs : list (N * cdata))
         (l : list op2) (w : world),
    run_ops2 T tab_el tab_at tab_en check_fn float_parse float_fmt LATEST name_index name_definition_ref
      attr_schema_location root_attrs l empty_world = Val w ->
    clean_shared_ops2 T tab_el tab_at tab_en check_fn float_parse float_fmt LATEST name_index
      name_definition_ref attr_schema_location root_attrs l empty_world = true ->
    Core w /\
    (forall p c, lists w p c -> par w c p /\ exists k, q_position c w = Val (OK (Some k), w)) /\
    (forall i, allocated w i ->
       exists l f0, (forall f, (f0 <= f)%nat -> elements_dfs f i 0 w = Val l) /\
                    Pre w i (map snd l) /\ NoDup (map snd l) /\ forall x, In x (map snd l) <-> Reach w i x) /\
    (forall e n, w_nodes w e = Some n ->
       forall f, (List.length (kids n) + 1 <= f)%nat -> ei_drain f (ei_new e) w = Val (kids n)) /\
    (forall o h r w', Detached w h -> principal o = Some h ->
       Inv.run T tab_el tab_en check_fn LATEST root_attrs o w = Val (r, w') ->
       live_eq w w' /\ (place_dependent o = true -> needs_version_only o = false -> w' = w /\ failed r)).
Proof. exact headline_histories2. Qed.

Theorem C03_sort_local :
  forall (T : tables) (tab_el tab_at tab_en : nametab) (name_index name_definition_ref : N)
         (h : id) (w : world) (r : out unit) (w' : world),
    Sort.e_sort T tab_el tab_at tab_en name_index name_definition_ref h w = Val (r, w') ->
    w_models w' = w_models w /\ w_files w' = w_files w /\
    (forall x : id, ~ Reach w h x -> w_nodes w' x = w_nodes w x).
Proof. exact sort_local. Qed.

Theorem C03_stale_live2 :
  forall (T : tables) (tab_el tab_at tab_en : nametab) (check_fn : N -> list N -> res bool)
         (float_parse : list N -> option N) (float_fmt : N -> list N)
         (LATEST name_index name_definition_ref attr_schema_location : N) (root_attrs : list (N * cdata))
         (o : op2) (h : id) (w : world) (r : out value2) (w' : world),
    Core w -> Detached w h -> principal2 o = Some h ->
    run_op2 T tab_el tab_at tab_en check_fn float_parse float_fmt LATEST name_index name_definition_ref
      attr_schema_location root_attrs o w = Val (r, w') -> live_eq w w'.
Proof. exact stale_live2. Qed.

Theorem C03_stale_live2_histories2 :
  forall (T : tables) (tab_el tab_at tab_en : nametab) (check_fn : N -> list N -> res bool)
         (float_parse : list N -> option N) (float_fmt : N -> list N)
         (LATEST name_index name_definition_ref attr_schema_location : N) (root_attrs : list (N * cdata))
         (l : list op2) (w : world) (o : op2) (h : id) (r : out value2) (w' : world),
    run_ops2 T tab_el tab_at tab_en check_fn float_parse float_fmt LATEST name_index name_definition_ref
      attr_schema_location root_attrs l empty_world = Val w ->
    clean_shared_ops2 T tab_el tab_at tab_en check_fn float_parse float_fmt LATEST name_index
      name_definition_ref attr_schema_location root_attrs l empty_world = true ->
    Detached w h -> principal2 o = Some h ->
    run_op2 T tab_el tab_at tab_en check_fn float_parse float_fmt LATEST name_index name_definition_ref
      attr_schema_location root_attrs o w = Val (r, w') -> live_eq w w'.
Proof. exact stale_live2_histories2. Qed.

Theorem C03_model_of_live :
  forall (w : world) (k : nat) (r x : id),
    Core w -> nth_error (roots w) k = Some r -> Reach w r x -> model_of x w = Val (OK (N.of_nat k), w).
Proof. exact model_of_live. Qed.

Theorem C03_histories2_navigation :
  forall (T : tables) (tab_el tab_at tab_en : nametab) (check_fn : N -> list N -> res bool)
         (float_parse : list N -> option N) (float_fmt : N -> list N)
         (LATEST name_index name_definition_ref attr_schema_location : N) (root_attrs : list (N * cdata))
         (l : list op2) (w : world),
    run_ops2 T tab_el tab_at tab_en check_fn float_parse float_fmt LATEST name_index name_definition_ref
      attr_schema_location root_attrs l empty_world = Val w ->
    clean_shared_ops2 T tab_el tab_at tab_en check_fn float_parse float_fmt LATEST name_index
      name_definition_ref attr_schema_location root_attrs l empty_world = true ->
    (forall k r x, nth_error (roots w) k = Some r -> Reach w r x -> q_model x w = Val (OK (N.of_nat k), w)) /\
    (forall p c, lists w p c -> q_parent c w = Val (OK (Some p), w)) /\
    (forall i max, allocated w i ->
       exists l f0, PreD w (lim_of max) 0 i l /\ forall f, (f0 <= f)%nat -> elements_dfs f i max w = Val l) /\
    (forall file max fl x, nth_opt (w_files w) (N.to_nat file) = Some fl ->
       nth_opt (w_models w) (N.to_nat (f_model fl)) = Some x ->
       exists l f0, PreF w (lim_of max) file 0 (m_root x) l /\
                    forall f, (f0 <= f)%nat -> file_elements_dfs f file max w = Val l) /\
    (forall h, Detached w h ->
       (forall r w', q_model h w = Val (r, w') -> w' = w /\ r = ER ItemDeleted) /\
       (forall r w', q_path T h w = Val (r, w') -> w' = w /\ failed r) /\
       (forall r w', parent_in w h = PNone -> q_parent h w = Val (r, w') -> w' = w /\ r = ER ItemDeleted)).
Proof. exact navigation_histories2. Qed.

Theorem C03_stale_chain :
  forall (T : tables) (tab_el tab_en : nametab) (check_fn : N -> list N -> res bool) (LATEST : N)
         (root_attrs : list (N * cdata)) (o : op) (h : id) (w : world) (r : out value) (w' : world),
    (needs_version_only o = true -> ChainFiles w h) ->
    Detached w h -> principal o = Some h -> place_dependent o = true ->
    Inv.run T tab_el tab_en check_fn LATEST root_attrs o w = Val (r, w') -> w' = w /\ failed r.
Proof. exact stale_fails_chain. Qed.

Theorem C03_chainfiles_of : forall (w : world) (h : id), DetFiles w -> Detached w h -> ChainFiles w h.
Proof. exact DetFiles_ChainFiles. Qed.

(* ---------- loads are local: detached elements are not touched ---------- *)
Theorem C03_merge_local :
  forall (T : tables) (LATEST ndr base : N) (w0 : world) (m re fid : N),
    base <= re ->
    (forall x : model,
       nth_opt (w_models w0) (N.to_nat m) = Some x -> exists k : N, Top w0 (m_root x) (PModel k)) ->
    forall (w : world) (r : out unit) (w' : world),
      w_models w = w_models w0 ->
      Q base w0 w -> Load.merge_file_data T LATEST ndr m re fid w = Val (r, w') -> Q base w0 w'.
Proof. exact merge_file_data_local. Qed.

Theorem C03_load_parsed_local :
  forall (T : tables) (LATEST name_definition_ref m : N) (filename : list N) (root : Parser.etree)
         (st : Parser.pstate) (w : world) (f : N) (w' : world),
    Core w ->
    Load.load_parsed T LATEST name_definition_ref m filename root st w = Val (OK f, w') ->
    forall x : id, Detached w x -> w_nodes w' x = w_nodes w x.
Proof. exact load_parsed_local. Qed.

Theorem C03_load_keeps_stale :
  forall (T : tables) (tab_el tab_at tab_en : nametab) (check_fn : N -> list N -> res bool)
         (float_parse : list N -> option N) (float_fmt : N -> list N)
         (LATEST name_index name_definition_ref attr_schema_location : N) (root_attrs : list (N * cdata))
         (m : N) (buffer filename : list N) (strict : bool) (w : world) (v : value2) (w' : world),
    Core w ->
    run_op2 T tab_el tab_at tab_en check_fn float_parse float_fmt LATEST name_index name_definition_ref
      attr_schema_location root_attrs (OpLoad m buffer filename strict) w = Val (OK v, w') ->
    (forall x : id, Detached w x -> w_nodes w' x = w_nodes w x) /\
    (forall h : id, Detached w h -> Detached w' h) /\
    (forall h : id, Detached w h -> ChainFiles w h -> ChainFiles w' h).
Proof. exact load_keeps_stale. Qed.

Theorem C03_stale_after_load :
  forall (T : tables) (tab_el tab_at tab_en : nametab) (check_fn : N -> list N -> res bool)
         (float_parse : list N -> option N) (float_fmt : N -> list N)
         (LATEST name_index name_definition_ref attr_schema_location : N) (root_attrs : list (N * cdata))
         (m : N) (buffer filename : list N) (strict : bool) (w : world) (v : value2) (w' : world)
         (h : id) (o : op) (r1 : out value) (w1 : world),
    Core w ->
    run_op2 T tab_el tab_at tab_en check_fn float_parse float_fmt LATEST name_index name_definition_ref
      attr_schema_location root_attrs (OpLoad m buffer filename strict) w = Val (OK v, w') ->
    Detached w h -> ChainFiles w h -> principal o = Some h -> place_dependent o = true ->
    Inv.run T tab_el tab_en check_fn LATEST root_attrs o w' = Val (r1, w1) -> w1 = w' /\ failed r1.
Proof. exact stale_after_load. Qed.

Theorem C03_stale_histories2_then_load :
  forall (T : tables) (tab_el tab_at tab_en : nametab) (check_fn : N -> list N -> res bool)
         (float_parse : list N -> option N) (float_fmt : N -> list N)
         (LATEST name_index name_definition_ref attr_schema_location : N) (root_attrs : list (N * cdata))
         (l : list op2) (w : world) (m : N) (buffer filename : list N) (strict : bool)
         (v : value2) (w' : world) (h : id) (o : op) (r1 : out value) (w1 : world),
    run_ops2 T tab_el tab_at tab_en check_fn float_parse float_fmt LATEST name_index name_definition_ref
      attr_schema_location root_attrs l empty_world = Val w ->
    clean_stale_ops2 T tab_el tab_at tab_en check_fn float_parse float_fmt LATEST name_index
      name_definition_ref attr_schema_location root_attrs l empty_world = true ->
    run_op2 T tab_el tab_at tab_en check_fn float_parse float_fmt LATEST name_index name_definition_ref
      attr_schema_location root_attrs (OpLoad m buffer filename strict) w = Val (OK v, w') ->
    Detached w h -> principal o = Some h -> place_dependent o = true ->
    Inv.run T tab_el tab_en check_fn LATEST root_attrs o w' = Val (r1, w1) ->
    Detached w' h /\ w_nodes w' h = w_nodes w h /\ w1 = w' /\ failed r1.
Proof. exact stale_histories2_then_load. Qed.

(* ---------- the finding: an error after the point of no return leaves an orphan ---------- *)
Theorem C03_failed_reparent_refuted :
  TreeInv Tiny.wM /\
  (exists e, Inv.run Tiny.T0 Tiny.nt0 Tiny.nt0 Tiny.chk0 1 [] (OpMove 5 3) Tiny.wM = Val (ER e, Tiny.wM')) /\
  Inv.Known Tiny.T0 Tiny.nt0 Tiny.nt0 Tiny.chk0 1 [] Tiny.wM (OpMove 5 3) = true /\
  par Tiny.wM' 3 5 /\ ~ lists Tiny.wM' 5 3 /\ ~ NoOrphan Tiny.wM' /\ ~ TreeInv Tiny.wM' /\ Core Tiny.wM'.
Proof. exact Tiny.move_failed_reparent_refuted. Qed.

(* ---------- non-vacuity ---------- *)
Theorem C03_example_treeinv : TreeInv Tiny.w3r /\ Detached Tiny.w3r 5.
Proof. exact (conj Tiny.w3r_treeinv Tiny.w3r_detached). Qed.

Theorem C03_example_three_levels :
  skel Tiny.w3 0 = Some (PModel 0, [1]) /\ skel Tiny.w3 1 = Some (PElem 0, [2; 3]) /\
  skel Tiny.w3 3 = Some (PElem 1, [4; 5]) /\ skel Tiny.w3 5 = Some (PElem 3, [6]).
Proof. exact Tiny.w3_three_levels. Qed.
