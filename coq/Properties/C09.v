(* Properties/C09.v — Merging files keeps each file's content and yields their union in any load order
   (and the load half of C11: a rejected load has no effect).
   Only statements; every proof is `exact <lemma>` (lemmas: Tree/LoadProofs.v, Tree/LoadProofsWalk.v, Tree/LoadProofsRefuted.v,
   Tree/MergePureProofs*.v).

   Model      : Tree/Load.v — load_buffer_internal, merge_file_data, merge_element (the positional two-pointer walk
                `walk` with `merge_action`, calc_identifiables_merge, calc_element_merge, find_merge_partner),
                import_new_items, merge_sub_elements, the rollback, the overlap check and the index fills, over the
                abstract tables T (any table set) and the parser model Xml/Parser.v.
   Pure merge : Tree/MergePure.v — [pmerge]: merge_element on pure trees (element trees with the local membership of
                every element) with the SAME walk (Load.walk).  The heap merge computes the pure merge of the trees it
                reads (C09_merge_refines, C09_load_refines: Tree/LoadRefine*.v — abstraction [AbsA] of the reachable heap
                subtree with its footprint, frame lemmas, equivariance of the walk under the renaming position <-> node
                id), so the union theorems hold for load_parsed / m_load_buffer themselves (C09_merge_union); the model
                runner additionally evaluates MergePure.check_load for every load of the correspondence streams.  What
                C09_full (Tree/MergePureProofsKeys.v, stated, not proved) still needs are the classes outside [Good].
   Spec side  : Tree/MergeSpec.v — masters with an assignment of elements to files ([mtree]), partial views
                ([project], [split]), ancestor-closed assignments that split only below splittable parents
                ([Splittable]), the merged model read back from the heap ([abs_model]) and what it must be
                ([expected]: the master restricted to the loaded files, local membership empty = inherited);
                Tree/Observe.v — the observation of C11 ([obs_eq_upto_garbage]).

   Findings (see known_findings.json): the positional walk duplicated shared elements when kinds interleave and then
   missed non-splittable divergences (fixed 7da9f6b); the overlap check ran after the merge (fixed b692965); a path
   defined twice in one file loaded silently (fixed 9e78914); a rejected MERGE still leaves traces
   (C11_load_merge_conflict_refuted, known finding C11-load-merge-rollback); unnamed elements below a splittable
   parent are merged by position (known finding C09-unnamed-below-splittable, outside the class of the theorems:
   they have no key). *)
From AV Require Import Base.Bytes Base.Outcome Hash.HashModel Tree.Heap Tree.Ops Tree.Script Tree.Load Tree.Observe
  Tree.MergeSpec Tree.MergePure Tree.LoadProofs Tree.LoadProofsWalk Tree.LoadProofsRefuted
  Tree.MergePureProofsBase Tree.MergePureProofs Tree.MergePureProofsMain Tree.MergePureProofsKeys
  Tree.LoadRefineBase Tree.LoadRefinePure Tree.LoadRefineHeap Tree.LoadRefineMain Tree.LoadRefineGood Tree.LoadRefineTop
  Tree.LoadEffects Tree.MergeGoodExamples Tree.LoadResidue Tree.LoadRefineIndex Tree.MergePureVersions.
From AV Require Xml.Lexer Xml.Parser.
Open Scope N_scope.

(* ---- C11, load half [U]: for every table set, model state, buffer, file name and mode — a load that returns an error
        other than InvalidFileMerge (duplicate file name, lexer or parser error, overlapping paths) changes nothing
        that existed before: every node a handle can name, the files and the models (root, file list, both indexes)
        are the same; at most dead nodes of the rejected tree were allocated beyond the old bound.  Except for the
        overlap case the world is literally the same. *)
Theorem C11_load_fail_no_effect_partial :
  forall (T : tables) (tab_el tab_at tab_en : nametab) (check_fn : N -> list N -> res bool)
         (float_parse : list N -> option N) (LATEST name_definition_ref : N)
         (m : N) (buffer filename : list N) (strict : bool) (w : world) (e : err) (w' : world),
    m_load_buffer T tab_el tab_at tab_en check_fn float_parse LATEST name_definition_ref m buffer filename strict w
      = Val (ER e, w') ->
    e <> InvalidFileMerge ->
    obs_eq_upto_garbage w w' /\ (e = OverlappingDataError \/ w' = w).
Proof. exact load_fail_no_effect. Qed.

(* the errors of the stages after the parse: only these two *)
Theorem C11_load_errors :
  forall (T : tables) (LATEST name_definition_ref : N) (m : N) (filename : list N) (root : Parser.etree)
         (st : Parser.pstate) (w : world) (e : err) (w' : world),
    load_parsed T LATEST name_definition_ref m filename root st w = Val (ER e, w') ->
    e = InvalidFileMerge \/ e = OverlappingDataError.
Proof. exact (fun T L d m f r st w e w' H => errs_load_parsed T L d m f r st w e w' H). Qed.

(* ---- C11 REFUTED for merge conflicts (finding): a load rejected with InvalidFileMerge changes a node that existed *)
Theorem C11_load_merge_conflict_refuted :
  exists (w : world) (e : Parser.etree) (w' : world) (i : id),
    TinyM.load_tree "b" e w = Val (ER InvalidFileMerge, w') /\ i < w_next w /\ w_nodes w' i <> w_nodes w i.
Proof. exact load_merge_conflict_changes_state. Qed.

(* ---- the two-pointer walk of merge_element [U]: for EVERY order of the two child lists (keys unique per list, whether
        an element is identifiable depends on its kind only, node ids distinct), the walk merges every element of the
        model with its partner in the new file (same kind and item name, else same DEFINITION-REF), keeps the others as
        a-only, and reports the elements of the new file without partner as b-only, each exactly once; it cannot fail
        when the parent is splittable or every identifiable element has its partner. *)
Theorem C09_walk_partition :
  forall (la0 lb0 : list pk) (sp : bool) (cnt : N),
    Keyed la0 lb0 -> NoConflict la0 lb0 sp ->
    exists wk,
      walk (S (List.length la0 + List.length lb0)) (map inj la0) (map inj lb0) sp cnt 0 (map inj la0) (map inj lb0)
           (mkWalked [] [] []) = Val (OK wk) /\
      wk_merge wk = merges_of la0 lb0 /\ wk_a_only wk = a_only_of la0 lb0 /\
      map fst (wk_b_only wk) = b_only_of la0 lb0.
Proof. exact walk_partition. Qed.

(* ---- conflicting files are rejected [U]: below a parent that is not splittable (in the version the merge works with),
        two lists of identifiable elements of one kind that diverge in both directions make merge_element return
        InvalidFileMerge, and nothing is modified at this level. *)
Theorem C09_conflict_rejected :
  forall (T : tables) (LATEST name_definition_ref : N) (f : nat) (w : world) (pa pb : id) (files : list N) (nf : N)
         (na nb : node) (la0 lb0 : list pk) (name : N),
    w_nodes w pa = Some na -> w_nodes w pb = Some nb ->
    keys_of T name_definition_ref w (n_type na) (n_content na) = Val (map inj la0) ->
    keys_of T name_definition_ref w (n_type na) (n_content nb) = Val (map inj lb0) ->
    splittable_in T (n_type na)
      (N.min (files_min_version LATEST w files)
             (match nth_opt (w_files w) (N.to_nat nf) with Some x => f_version x | None => LATEST end)) = Val false ->
    Keyed la0 lb0 ->
    (forall x, In x (la0 ++ lb0) -> pk_name x = name /\ pk_ident x = true) ->
    (exists a, In a la0 /\ has_partner lb0 a = false) ->
    (exists b, In b lb0 /\ has_partner la0 b = false) ->
    merge_element T LATEST name_definition_ref (S f) pa files pb nf w = Val (ER InvalidFileMerge, w).
Proof. exact merge_element_conflict. Qed.

(* ---- one merge [U], pure level: t is any master of the class Good (every element starts with its SHORT-NAME or is
        unnamed; an element is a leaf, or has sub-elements only; the sub-elements are all in the files of the parent,
        or the parent is a bag — unnamed, bag content, splittable — and they are in any subset; keys unique per parent;
        all files of one version v).  If `a` is the merged model of the files F (Rep: every element that is in some
        file of F exactly once, below bags in ANY order, local membership normalised) and g is a new file that has the
        element, then merging the view of g into `a` succeeds and gives the merged model of g :: F. *)
Theorem C09_merge_step :
  forall (T : tables) (LATEST defref v : N) (fver : N -> option N), (forall f, fver f = Some v) ->
  forall (fuel : nat) (t : mtree), (depth t < fuel)%nat -> Good T defref v t ->
  forall (F : list N) (g : N) (inh : option (list N)) (a : htree),
    ~ In g F -> In g (mfiles t) -> Rep T F inh t a ->
    exists a', pmerge T LATEST defref fver fuel a (inF F (mfiles t)) (pview g t) g = Val (OK a') /\
               h_local a' = h_local a /\
               forall inh', Rep T (g :: F) inh' t (h_set_local a' (norm inh' (inF (g :: F) (mfiles t)))).
Proof. exact pmerge_rep. Qed.

(* ---- the union [U], pure level: loading the partial views of a master of the class Good in the files g0, gs — ANY
        distinct files that together contain every element, in ANY order — yields the master up to the order of
        siblings: every element exactly once, local membership = the files that contain it (empty = inherited).
        (pview g t is the parsed view: pview_project.) *)
Theorem C09_merge_union_partial :
  forall (T : tables) (LATEST defref v : N) (fver : N -> option N), (forall f, fver f = Some v) ->
  forall (fuel : nat) (t : mtree) (g0 : N) (gs : list N),
    (depth t < fuel)%nat -> Good T defref v t ->
    NoDup (g0 :: gs) -> (forall g, In g (g0 :: gs) -> In g (mfiles t)) -> covers (g0 :: gs) t ->
    exists a, load_all_pure T LATEST defref fver fuel t [g0] (first_view g0 t) gs = Val (OK a) /\
              Rep T (rev gs ++ [g0]) None t a /\ hperm a (expected None t).
Proof. exact pure_union. Qed.

(* ---- every file, filtered out of the merged model the way serialize does it (local membership empty or contains the
        file), is the partial view of that file, up to the order of siblings [U, class Good] *)
Theorem C09_file_projection :
  forall (T : tables) (defref v : N) (n : nat) (t : mtree), (depth t <= n)%nat -> Good T defref v t ->
  forall (F : list N) (inh : option (list N)) (a : htree) (f : N),
    In f F -> In f (mfiles t) -> Rep T F inh t a -> hperm (hproj f a) (pview f t).
Proof. exact Rep_project. Qed.

Theorem C09_view_is_projection :
  forall (n : nat) (t : mtree), (depth t <= n)%nat -> forall (g : N) (e : Parser.etree),
    project g t = Some e -> htree_of_etree e = pview g t.
Proof. exact pview_project. Qed.

(* the semantic hypothesis of the class (the merge key of a sub-element is the same in every view) follows from the
   shape of the master *)
Theorem C09_key_of_named_element :
  forall (T : tables) (defref : N) (pty : N * N) (name : N) (ty : N * N) (attrs : list (N * Parser.cdata))
         (rest : list (mtree + Parser.cdata)) (comment : option (list N)) (files : list N) (idx : list N) (sub : N * N)
         (tys : N * N) (nm : list N) (sattrs : list (N * Parser.cdata)) (scomment : option (list N)),
    is_named T ty = Val true -> content_mode T tys = Val MCharacters ->
    find_sub_element T pty name 4294967295 = Val (Some (sub, idx)) -> files <> [] ->
    (forall c, In c (kids rest) -> m_name c <> defref) -> name_short_name T <> defref ->
    KeyStable T defref pty
      (MNode name ty attrs (inl (MNode (name_short_name T) tys sattrs [inr (Parser.DString nm)] scomment files) :: rest) comment files)
      (mkCore name true (Some nm) None idx).
Proof. exact keystable_named. Qed.

Theorem C09_key_of_unnamed_element :
  forall (T : tables) (defref : N) (pty : N * N) (name : N) (ty : N * N) (attrs : list (N * Parser.cdata))
         (content : list (mtree + Parser.cdata)) (comment : option (list N)) (files : list N) (idx : list N) (sub : N * N),
    is_named T ty = Val false -> find_sub_element T pty name 4294967295 = Val (Some (sub, idx)) ->
    (forall c, In c (kids content) -> m_name c <> defref) ->
    KeyStable T defref pty (MNode name ty attrs content comment files) (mkCore name false None None idx).
Proof. exact keystable_unnamed. Qed.

(* non-vacuity of the class: the tiny master is in it, and the union theorem applies to it *)
Theorem C09_class_nonvacuous : Good TinyM.tiny TinyM.DEFREF 2 TinyM.master.
Proof. exact TinyGood.master_good. Qed.

(* ---- non-vacuity: the two partial views of a master over the tiny table set merge to the master *)
Theorem C09_example_merge_01 :
  final [("f0"%string, TinyM.file0); ("f1"%string, TinyM.file1)] = Some (expected None TinyM.master).
Proof. exact merge_01. Qed.
Theorem C09_example_merge_10 :
  final [("f1"%string, TinyM.file1); ("f0"%string, TinyM.file0)] = Some (expected None master_10).
Proof. exact merge_10. Qed.
Theorem C09_example_conflict_rejected :
  results [("a"%string, conf_a); ("b"%string, conf_b)] = Some [OK 0; ER InvalidFileMerge] /\
  results [("b"%string, conf_b); ("a"%string, conf_a)] = Some [OK 0; ER InvalidFileMerge].
Proof. exact (conj conflict_rejected conflict_rejected_rev). Qed.

(* ====================================================================== the heap merge IS the pure merge *)
(* ---- merge_element refines pmerge [U]: for every table set and world, if the subtrees below parent_a and parent_b are
        the (id-annotated) trees ta and tb (AbsA: every node of the tree is the heap node with that id — name, type,
        content, attributes, comment, local membership), no node id occurs twice in them, the walk results of the pure
        merge name every sub-element at most once (Clean) and the pure merge of the erased trees succeeds, then the heap
        merge succeeds, the subtree below parent_a afterwards is a tree ta' whose erasure is the pure result, built from
        the nodes of the two trees (each at most once), and no other node, no file and no model record is touched. *)
Theorem C09_merge_refines :
  forall (T : tables) (LATEST defref : N) (fuel : nat) (ta tb : atree) (files : list N) (nf : N) (w : world) (ha' : htree),
    AbsA w ta -> AbsA w tb -> NoDup (aids ta ++ aids tb) ->
    Clean T LATEST defref (fver_of w) fuel (erase ta) files (erase tb) nf ->
    pmerge T LATEST defref (fver_of w) fuel (erase ta) files (erase tb) nf = Val (OK ha') ->
    exists w' ta',
      merge_element T LATEST defref fuel (a_id ta) files (a_id tb) nf w = Val (OK tt, w') /\
      AbsA w' ta' /\ erase ta' = ha' /\ a_id ta' = a_id ta /\ NoDup (aids ta') /\
      incl (aids ta') (aids ta ++ aids tb) /\ same_except w w' (aids ta ++ aids tb).
Proof. exact (fun T L d fuel => merge_refine T L d fuel). Qed.

(* the merges of the class Good are Clean, for every fuel *)
Theorem C09_good_is_clean :
  forall (T : tables) (LATEST defref v : N) (fver : N -> option N) (fuel : nat) (t : mtree), Good T defref v t ->
  forall (F : list N) (g : N) (inh : option (list N)) (a : htree),
    (forall f, In f (g :: F) -> fver f = Some v) ->
    ~ In g F -> In g (mfiles t) -> Rep T F inh t a ->
    Clean T LATEST defref fver fuel a (inF F (mfiles t)) (pview g t) g.
Proof. exact rep_clean. Qed.

(* ---- load_parsed (all of load_buffer_internal after the parse) refines the pure merge [U]: the model m is the tree ta
        with the files `files` (ModelTree: root and file list of the model record, AbsA, no id twice, ids below w_next).
        If the pure merge of the model tree with the parsed tree is Clean and succeeds with a result satisfying P for
        every sufficient fuel, then a load that returns is rejected by the overlap check or succeeds with the next file
        id, registers the file, and the model is the tree ta' with erase ta' = the pure result where the root joined the
        new file — in particular it is never rejected with InvalidFileMerge. *)
Theorem C09_load_refines :
  forall (T : tables) (LATEST defref : N) (m : N) (filename : list N) (root : Parser.etree) (st : Parser.pstate)
         (w : world) (ta : atree) (files : list N) (r : out N) (w' : world) (P : htree -> Prop),
    ModelTree w m ta files -> files <> [] ->
    let fid := N.of_nat (List.length (w_files w)) in
    let fl := mkFile m filename (Parser.p_version st) (Parser.p_standalone st) in
    let fver := fver_files (w_files w ++ [fl]) in
    (forall fuel, (adepth ta < fuel)%nat ->
       Clean T LATEST defref fver fuel (erase ta) (fold_right set_add [] files) (htree_of_etree root) fid /\
       exists ha', pmerge T LATEST defref fver fuel (erase ta) (fold_right set_add [] files) (htree_of_etree root) fid = Val (OK ha') /\
                   P ha') ->
    load_parsed T LATEST defref m filename root st w = Val (r, w') ->
    r = ER OverlappingDataError \/
    (r = OK fid /\ w_files w' = w_files w ++ [fl] /\
     exists ta' ha', ModelTree w' m ta' (files ++ [fid]) /\ erase ta' = h_set_local ha' (set_add fid (h_local ha')) /\ P ha').
Proof. exact load_parsed_merge. Qed.

(* the first file of a model: the parsed tree becomes the model tree, the root is in that file *)
Theorem C09_load_first :
  forall (T : tables) (LATEST defref : N) (m : N) (filename : list N) (root : Parser.etree) (st : Parser.pstate)
         (w : world) (x : model) (r : out N) (w' : world),
    nth_opt (w_models w) (N.to_nat m) = Some x -> m_files x = [] ->
    load_parsed T LATEST defref m filename root st w = Val (r, w') ->
    let fid := N.of_nat (List.length (w_files w)) in
    r = ER OverlappingDataError \/
    (r = OK fid /\ w_files w' = w_files w ++ [mkFile m filename (Parser.p_version st) (Parser.p_standalone st)] /\
     exists ta, ModelTree w' m ta [fid] /\ erase ta = h_set_local (htree_of_etree root) [fid]).
Proof. exact load_parsed_first. Qed.

(* the abstraction is what the readback of the model runner / of C09_full computes *)
Theorem C09_model_tree_readback :
  forall (w : world) (m : N) (ta : atree) (files : list N), ModelTree w m ta files -> abs_model w m = Some (erase ta).
Proof. exact ModelTree_abs_model. Qed.

(* ---- C09 on the heap model, class Good, for AutosarModel::load_buffer [U over tables, worlds, masters of the class,
        splits, buffers]: M is a master of the class Good whose files are numbered in load order (file k = file id b + k,
        b = number of files of the world; every load order of every split is the id order of a relabelled master), the
        buffers parse to the partial views of M (all of version v) and are loaded into an empty model m.  Then no load
        is rejected by the merge; if the loads return and none is rejected for a duplicate file name or by the overlap
        check of the path index, then EVERY load succeeds with its file id, and the tree of the model — read back from
        the heap — is the master restricted to the loaded files: every element exactly once, below bags in any order,
        local membership = the files that contain it (empty = inherited).  It is the master up to the order of siblings
        when the files cover it, and filtering any file out of it (the way serialize does) gives that file's view. *)
Theorem C09_merge_union :
  forall (T : tables) (tab_el tab_at tab_en : nametab) (check_fn : N -> list N -> res bool)
         (float_parse : list N -> option N) (LATEST defref v : N)
         (M : mtree) (m : N) (x : model) (w0 : world) (n : nat) (strict : bool)
         (bufs : list (list N * list N)) (items : list item)
         (os : list (out (N * list Parser.perror))) (w : world),
    Good T defref v M ->
    nth_opt (w_models w0) (N.to_nat m) = Some x -> m_files x = [] ->
    let gs := n_range (S n) (N.of_nat (List.length (w_files w0))) in
    Forall2 (parses_to T tab_el tab_at tab_en check_fn float_parse strict) bufs items ->
    Forall2 (is_view v M) gs items ->
    (forall g, In g gs -> In g (mfiles M)) ->
    load_bufs T tab_el tab_at tab_en check_fn float_parse LATEST defref m strict bufs w0 = Val (os, w) ->
    Forall (fun o => o <> ER DuplicateFilenameError /\ o <> ER OverlappingDataError) os ->
    Forall2 (fun g o => exists ws, o = OK (g, ws)) gs os /\
    exists ta, ModelTree w m ta gs /\ abs_model w m = Some (erase ta) /\
               Rep T (rev gs) None M (erase ta) /\
               (covers gs M -> hperm (erase ta) (expected None M)) /\
               (forall f, In f gs -> hperm (hproj f (erase ta)) (pview f M)).
Proof. exact heap_union_buffers. Qed.

(* the same for the load sequence C09_full is phrased with (load_parsed on the projected views, parser state pstate_of) *)
Theorem C09_merge_union_views :
  forall (T : tables) (LATEST defref v : N) (M : mtree) (m : N) (x : model) (w0 : world) (n : nat)
         (os : list (out N)) (w : world),
    Good T defref v M ->
    nth_opt (w_models w0) (N.to_nat m) = Some x -> m_files x = [] ->
    let gs := n_range (S n) (N.of_nat (List.length (w_files w0))) in
    (forall g, In g gs -> In g (mfiles M)) ->
    load_views T LATEST defref m M (fun _ => v) gs w0 = Val (os, w) ->
    Forall (fun o => o <> ER OverlappingDataError) os ->
    Forall2 (fun g o => o = OK g) gs os /\
    exists ta, ModelTree w m ta gs /\ abs_model w m = Some (erase ta) /\
               Rep T (rev gs) None M (erase ta) /\
               (covers gs M -> hperm (erase ta) (expected None M)) /\
               (forall f, In f gs -> hperm (hproj f (erase ta)) (pview f M)).
Proof. exact heap_union. Qed.

(* ====================================================================== C11, load half: the rejected merge, precisely *)
(* ---- what a merge rejected with InvalidFileMerge has changed when it is rejected [U: every table set, world, model,
        parsed tree]: the only error is InvalidFileMerge; the allocation bound, the files and ALL model records (root,
        file list, both index maps: they are only filled after a successful merge) are untouched; no node appears or
        disappears; and for every node, name, type, attributes and comment are the same, the parent is the same or an
        element (an imported element of the new tree), the content list only got elements inserted (ContentEff: nothing
        removed, nothing reordered, no character data touched), and the file membership only changed by steps
        "empty (inherited) -> explicit" (restrict_a_only on the elements that only the model has) and "add the new
        file" (FilesEff).  The rollback Element::remove_from_file(new file) then removes the new file from every
        membership and deletes the elements that become empty (the imported ones); it cannot undo the first kind of
        step: C11_load_merge_conflict_residue, known finding C11-load-merge-rollback (with the index entries the
        deletion of an imported element takes with it when an element of the model has the same path). *)
Theorem C11_load_merge_conflict_effects :
  forall (T : tables) (LATEST name_definition_ref : N) (m new_root nf : N) (w : world) (e : err) (w' : world),
    merge_file_data T LATEST name_definition_ref m new_root nf w = Val (ER e, w') ->
    e = InvalidFileMerge /\
    (w_next w' = w_next w /\ w_files w' = w_files w /\ w_models w' = w_models w /\
     forall i, match w_nodes w i, w_nodes w' i with
               | Some n, Some n' => NodeEff nf n n'
               | None, None => True
               | _, _ => False
               end).
Proof. exact merge_conflict_effects. Qed.

(* the same bound for every merge, whatever its outcome *)
Theorem C11_merge_effects :
  forall (T : tables) (LATEST name_definition_ref : N) (nf : N) (fuel : nat) (pa : id) (files : list N) (pb : id)
         (w : world) (r : out unit) (w' : world),
    merge_element T LATEST name_definition_ref fuel pa files pb nf w = Val (r, w') -> WorldEff nf w w'.
Proof. exact (fun T L d nf fuel pa files pb => merge_effects T L d nf fuel pa files pb). Qed.

(* the residue of a rejected load on the tiny tables: the explicit membership of the element that only the model has;
   files and path index are as before *)
Theorem C11_load_merge_conflict_residue :
  exists (w : world) (e : Parser.etree) (w' : world) (i : id) (n : node),
    TinyM.load_tree "b" e w = Val (ER InvalidFileMerge, w') /\ w_nodes w i = Some n /\ n_files n = [] /\
    w_nodes w' i = Some (set_files n [0]) /\
    w_files w' = w_files w /\ option_map m_idents (nth_opt (w_models w') 0) = option_map m_idents (nth_opt (w_models w) 0).
Proof. exact load_merge_conflict_residue. Qed.

(* ====================================================================== the extended class Good *)
(* The class of the union theorems (MergePureProofs.Good) now also contains
     * split points with SEQUENCE content (NodeOK, third case: the parent is splittable, not a bag, and its sub-elements
       are of pairwise different kinds listed in schema order — SeqKids —, each in any subset of the parent's files):
       import_new_items inserts a new sub-element at its place in the schema order whatever was loaded before;
     * sub-elements keyed by their DEFINITION-REF (C09_key_of_defref_element), e.g. parameter values inside the bag of an
       ECUC container.
   C09_merge_step / C09_merge_union_partial / C09_file_projection / C09_merge_union are statements about this class. *)
Theorem C09_key_of_defref_element :
  forall (T : tables) (defref : N) (pty : N * N) (name : N) (ty : N * N) (attrs : list (N * Parser.cdata))
         (content : list (mtree + Parser.cdata)) (comment : option (list N)) (files : list N) (idx : list N) (sub : N * N)
         (tyd : N * N) (dr : list N) (dattrs : list (N * Parser.cdata)) (dcomment : option (list N)),
    is_named T ty = Val false -> content_mode T tyd = Val MCharacters ->
    find_sub_element T pty name 4294967295 = Val (Some (sub, idx)) -> files <> [] ->
    let d := MNode defref tyd dattrs [inr (Parser.DString dr)] dcomment files in
    In d (kids content) -> (forall c, In c (kids content) -> m_name c = defref -> c = d) ->
    KeyStable T defref pty (MNode name ty attrs content comment files) (mkCore name false None (Some dr) idx).
Proof. exact keystable_defref. Qed.

(* the insertion range of a new kind among the present kinds of a sequence is ONE position: after the smaller kinds *)
Theorem C09_sequence_insert_position :
  forall (T : tables) (v : N) (ty : N * N) (idx : mtree -> list N) (c : mtree) (A B : list mtree) (i : N),
    (forall x, In x (A ++ B) -> exists sub, find_sub_element T ty (m_name x) v = Val (Some (sub, idx x))) ->
    (forall x, In x (A ++ B) -> exists g gd, find_common_group T ty (idx c) (idx x) = Val g /\ dt T g = Val gd /\
                                             dt_mode gd = MSequence) ->
    (forall x, In x A -> lex_cmp (idx c) (idx x) = Gt) -> (forall x, In x B -> lex_cmp (idx c) (idx x) = Lt) ->
    p_range_loop T ty v (idx c) (map (fun x => Some (m_name x)) (A ++ B)) i i i =
    Val (OK (i + N.of_nat (List.length A), i + N.of_nat (List.length A))).
Proof. exact p_range_loop_seq. Qed.

(* non-vacuity of the two extensions: a master over a second tiny table set with a sequence split point (B only in
   file 1, C only in file 0) and DEFINITION-REF keyed PARAMs in a bag is in the class, and the heap model merges its
   two views to the master in both load orders (B is inserted between VALUES and C) *)
Theorem C09_class_extended_nonvacuous : Good TinyS.tinyS TinyS.DEFREF 2 TinyS.master.
Proof. exact TinyS.master_good. Qed.
Theorem C09_example_sequence_merge :
  TinyS.final [("f0"%string, TinyS.file0); ("f1"%string, TinyS.file1)] = Some (expected None TinyS.master) /\
  TinyS.final [("f1"%string, TinyS.file1); ("f0"%string, TinyS.file0)] = Some (expected None TinyS.master_10).
Proof. exact (conj TinyS.merge_01 TinyS.merge_10). Qed.

(* ====================================================================== C11, load half: the WHOLE rejected load *)
(* ---- [U: every table set, world, model, buffer, file name, mode] a load rejected with InvalidFileMerge parsed, and the
        world after it is in [Residue] (Tree/LoadResidue.v): there are worlds w1, wM, wR, wK such that
          w  -> w1   the parsed tree was installed on fresh nodes (nothing below the old bound touched: LoadProofs.above),
          w1' = w1 with the new file record appended,
          w1' -> wM  the effects of the merge stage (LoadEffects.WorldEff, C11_load_merge_conflict_effects),
          wM -> wR   the effects of the rollback Element::remove_from_file(new file) at the root (RemEff: files and bound
                     untouched; a model record keeps root and file list and only LOSES entries of the path index
                     (swap_remove) and origins of the reference index; a node keeps name, type, attributes, comment; its
                     parent is kept or cleared, its content only loses items, its membership is kept, or the new file is
                     removed from a set, or it is cleared — a deleted element),
          wR -> wK   nodes of the parsed tree that are not reachable from the model root die (nothing below the old bound),
          wK -> w'   the file record is dropped; memberships that still name it name a dead file id instead. *)
Theorem C11_load_reject_residue :
  forall (T : tables) (tab_el tab_at tab_en : nametab) (check_fn : N -> list N -> res bool)
         (float_parse : list N -> option N) (LATEST name_definition_ref : N)
         (m : N) (buffer filename : list N) (strict : bool) (w w' : world),
    m_load_buffer T tab_el tab_at tab_en check_fn float_parse LATEST name_definition_ref m buffer filename strict w
      = Val (ER InvalidFileMerge, w') ->
    exists root st,
      Parser.load strict T tab_el tab_at tab_en check_fn float_parse buffer = Val (Parser.Ret root st) /\
      Residue m (N.of_nat (List.length (w_files w))) (mkFile m filename (Parser.p_version st) (Parser.p_standalone st)) w w'.
Proof. exact load_reject_residue. Qed.

(* the rollback alone: Element::remove_from_file has only the effects listed above, whatever it returns *)
Theorem C11_rollback_effects :
  forall (T : tables) (f e : N) (w : world) (r : out unit) (w' : world),
    e_remove_from_file T e f w = Val (r, w') -> RemEff f w w'.
Proof. exact (fun T f e w r w' H => rem_e_remove_from_file T f e w r w' H). Qed.

(* ---- the consequence for the observation of C11 (Tree/Observe.v) [U]: after a load rejected with InvalidFileMerge the
        observations differ at most in
          - the number of handles (it grows: dead nodes of the rejected tree),
          - per model, entries LOST from the two index maps (root and file list are the same),
          - per old node: parent (same, an element, or cleared), membership (steps "empty -> explicit" and "add the new
            file", then removals of the new file / clearing, then the renaming of the dropped file id), and content
            (insertions of elements, then removals);
        the files, and name, type, attributes and comment of every node, are the same. *)
Theorem C11_load_reject_observable :
  forall (T : tables) (tab_el tab_at tab_en : nametab) (check_fn : N -> list N -> res bool)
         (float_parse : list N -> option N) (LATEST name_definition_ref : N)
         (m : N) (buffer filename : list N) (strict : bool) (w w' : world),
    m_load_buffer T tab_el tab_at tab_en check_fn float_parse LATEST name_definition_ref m buffer filename strict w
      = Val (ER InvalidFileMerge, w') ->
    let fid := N.of_nat (List.length (w_files w)) in
    o_next (observe w) <= o_next (observe w') /\
    o_files (observe w') = o_files (observe w) /\
    Forall2 ModelRem (o_models (observe w)) (o_models (observe w')) /\
    exists d, forall k, (k < N.to_nat (o_next (observe w)))%nat ->
      match nth_error (o_nodes (observe w)) k, nth_error (o_nodes (observe w')) k with
      | Some (Some n), Some (Some n') => NodeResidue fid d n n'
      | Some None, Some None => True
      | _, _ => False
      end.
Proof. exact load_reject_observable. Qed.

(* ---- a decidable sufficient condition for NO observable change [U]: [quiet_load] (a boolean computed from the world and
        the parsed tree: install, then follow the merge as long as every executed step is the identity on the node it
        touches — sub-elements that only the model has already have an explicit membership, nothing is imported, the pairs
        merged before the conflict merge without change and inherit their membership — until the walk of some level
        reports the conflict), for a world in which no membership names the file id the load would get (FreshIn: ids of
        registered files only).  Then the rejected load satisfies the conclusion of C11. *)
Theorem C11_load_reject_quiet :
  forall (T : tables) (tab_el tab_at tab_en : nametab) (check_fn : N -> list N -> res bool)
         (float_parse : list N -> option N) (LATEST name_definition_ref : N)
         (m : N) (buffer filename : list N) (strict : bool) (w w' : world) (root : Parser.etree) (st : Parser.pstate),
    Parser.load strict T tab_el tab_at tab_en check_fn float_parse buffer = Val (Parser.Ret root st) ->
    FreshIn (N.of_nat (List.length (w_files w))) w ->
    quiet_load T LATEST name_definition_ref m filename root st w = true ->
    m_load_buffer T tab_el tab_at tab_en check_fn float_parse LATEST name_definition_ref m buffer filename strict w
      = Val (ER InvalidFileMerge, w') ->
    obs_eq_upto_garbage w w'.
Proof. exact load_reject_quiet. Qed.

(* the condition is met by a conflict below a freshly loaded model, and not by the residue example *)
Theorem C11_load_reject_quiet_examples :
  quiet_load TinyM.tiny TinyM.LATEST TinyM.DEFREF 0 (BS "b") QuietExample.conf_b
             (pstate_of TinyM.tiny 2 QuietExample.conf_b) (QuietExample.after QuietExample.conf_a2) = true /\
  quiet_load TinyM.tiny TinyM.LATEST TinyM.DEFREF 0 (BS "b") QuietExample.conf_b
             (pstate_of TinyM.tiny 2 QuietExample.conf_b) (QuietExample.after QuietExample.conf_a) = false.
Proof. exact (conj QuietExample.quiet_yes QuietExample.quiet_no). Qed.

(* ====================================================================== C09 without conditions on the outcome of the loads *)
(* ---- [U over tables, worlds, masters of the class, splits, buffers] as C09_merge_union, but EVERY load returns OK:
        the model is empty (no files, empty path index), the buffers parse to the views of the master M (class Good, one
        version v) and the parser state records exactly the named elements and references of the parsed tree (StOf — what
        MergeSpec.pstate_of models; the relation to the real parser is C02/C08's), the file names are pairwise distinct,
        and the paths of M are consistent (PathsOK: over all views, a path names elements of one kind only, and no view
        has a path twice — decidable: C09_paths_ok_decidable).  Then the duplicate-file-name check, the overlap check
        and the merge cannot reject any load, the index fills return, and the conclusions of C09_merge_union hold. *)
Theorem C09_merge_union_total :
  forall (T : tables) (tab_el tab_at tab_en : nametab) (check_fn : N -> list N -> res bool)
         (float_parse : list N -> option N) (LATEST defref v : N)
         (M : mtree) (m : N) (x : model) (w0 : world) (n : nat) (strict : bool)
         (bufs : list (list N * list N)) (items : list item),
    Good T defref v M ->
    nth_opt (w_models w0) (N.to_nat m) = Some x -> m_files x = [] -> m_idents x = [] ->
    let gs := n_range (S n) (N.of_nat (List.length (w_files w0))) in
    Forall2 (parses_to T tab_el tab_at tab_en check_fn float_parse strict) bufs items ->
    Forall2 (fun g it => is_view v M g it /\ StOf T (snd it) (snd (fst it))) gs items ->
    NoDup (map snd bufs) ->
    (forall g, In g gs -> In g (mfiles M)) -> PathsOK T M gs ->
    exists os w,
      load_bufs T tab_el tab_at tab_en check_fn float_parse LATEST defref m strict bufs w0 = Val (os, w) /\
      Forall2 (fun g o => exists ws, o = OK (g, ws)) gs os /\
      exists ta, ModelTree w m ta gs /\ abs_model w m = Some (erase ta) /\
                 Rep T (rev gs) None M (erase ta) /\
                 (covers gs M -> hperm (erase ta) (expected None M)) /\
                 (forall f, In f gs -> hperm (hproj f (erase ta)) (pview f M)).
Proof. exact heap_union_buffers_total. Qed.

(* the same for the load sequence of C09_full (load_parsed on the projected views with the parser state pstate_of):
   its conclusion, for masters of the class Good with consistent paths and one version *)
Theorem C09_merge_union_views_total :
  forall (T : tables) (LATEST defref v : N) (M : mtree) (m : N) (x : model) (w0 : world) (n : nat),
    Good T defref v M ->
    nth_opt (w_models w0) (N.to_nat m) = Some x -> m_files x = [] -> m_idents x = [] ->
    let gs := n_range (S n) (N.of_nat (List.length (w_files w0))) in
    (forall g, In g gs -> In g (mfiles M)) -> PathsOK T M gs ->
    exists os w,
      load_views T LATEST defref m M (fun _ => v) gs w0 = Val (os, w) /\ Forall2 (fun g o => o = OK g) gs os /\
      exists ta, ModelTree w m ta gs /\ abs_model w m = Some (erase ta) /\
                 Rep T (rev gs) None M (erase ta) /\
                 (covers gs M -> hperm (erase ta) (expected None M)) /\
                 (forall f, In f gs -> hperm (hproj f (erase ta)) (pview f M)).
Proof. exact heap_union_views_total. Qed.

(* one load, unconditionally: a further file of a model whose path index only names elements of the kinds in S *)
Theorem C09_load_refines_total :
  forall (T : tables) (LATEST defref : N) (S : list (list N * N)) (m : N) (filename : list N) (root : Parser.etree)
         (st : Parser.pstate) (w : world) (ta : atree) (files : list N) (P : htree -> Prop),
    ModelTree w m ta files -> files <> [] ->
    IdxNames S w m -> Functional S -> StOf T st root -> NamesIn T S root -> KeysNoDup T root ->
    let fid := N.of_nat (List.length (w_files w)) in
    let fl := mkFile m filename (Parser.p_version st) (Parser.p_standalone st) in
    let fver := fver_files (w_files w ++ [fl]) in
    (forall fuel, (adepth ta < fuel)%nat ->
       Clean T LATEST defref fver fuel (erase ta) (fold_right set_add [] files) (htree_of_etree root) fid /\
       exists ha', pmerge T LATEST defref fver fuel (erase ta) (fold_right set_add [] files) (htree_of_etree root) fid = Val (OK ha') /\
                   P ha') ->
    exists w', load_parsed T LATEST defref m filename root st w = Val (OK fid, w') /\ IdxNames S w' m /\
               w_files w' = w_files w ++ [fl] /\
               exists ta' ha', ModelTree w' m ta' (files ++ [fid]) /\ erase ta' = h_set_local ha' (set_add fid (h_local ha')) /\ P ha'.
Proof. exact load_parsed_merge_total. Qed.

(* the side condition is decidable, and the tiny master has it; the unconditional theorem instantiated *)
Theorem C09_paths_ok_decidable :
  forall (T : tables) (M : mtree) (gs : list N), paths_okb T M gs = true -> PathsOK T M gs.
Proof. exact paths_okb_sound. Qed.
Theorem C09_example_union_total :
  exists os w,
    load_views TinyM.tiny TinyM.LATEST TinyM.DEFREF 0 TinyM.master (fun _ => 2) [0; 1] TinyM.new_world = Val (os, w) /\
    Forall2 (fun g o => o = OK g) [0; 1] os /\
    exists ta, abs_model w 0 = Some (erase ta) /\ hperm (erase ta) (expected None TinyM.master).
Proof. exact tiny_union_total. Qed.

(* ====================================================================== class Good: choice groups, versions *)
(* a choice group inside a sequence is inside the class (SeqKids asks for a SEQUENCE as the common group of any two
   sub-elements; two alternatives of one choice cannot coexist anyway: calc_element_insert_range rejects the second) *)
Theorem C09_class_choice_group_nonvacuous :
  Good TinyC.tinyC TinyC.DEFREF 2 TinyC.master /\
  find_sub_element TinyC.tinyC (0, 0) TinyC.nB 2 = Val (Some ((2, 2), [1; 0])) /\
  TinyC.final [("f0"%string, TinyC.file0); ("f1"%string, TinyC.file1)] = Some (expected None TinyC.master) /\
  TinyC.final [("f1"%string, TinyC.file1); ("f0"%string, TinyC.file0)] = Some (expected None TinyC.master_10).
Proof. exact (conj TinyC.master_good (conj TinyC.idx_B (conj TinyC.merge_01 TinyC.merge_10))). Qed.

(* ---- files of different versions [U]: the pure merge does not depend on WHICH versions of a set vs the files have, as
        long as splittable_in and find_sub_element agree over vs on the types and element names of the two trees (HU) *)
Theorem C09_merge_version_independent :
  forall (T : tables) (LATEST defref : N) (vs : list N) (v0 : N) (NM : list N) (fver fver' : N -> option N),
    VOK LATEST vs fver -> VOK LATEST vs fver' ->
    forall (fuel : nat) (a : htree) (files : list N) (b : htree) (nf : N),
      HU T vs v0 NM a -> HU T vs v0 NM b ->
      pmerge T LATEST defref fver fuel a files b nf = pmerge T LATEST defref fver' fuel a files b nf.
Proof. exact pmerge_versions. Qed.

(* the merge step (C09_merge_step) for files whose versions are in vs, for a master of the class (at one version v0 of vs)
   whose elements have the same type and split behaviour in all versions of vs — uniformb, a boolean on the master *)
Theorem C09_merge_step_versions :
  forall (T : tables) (LATEST defref : N) (vs : list N) (v0 : N) (fver : N -> option N),
    VOK LATEST vs fver -> In v0 vs ->
  forall (fuel : nat) (t : mtree), Good T defref v0 t -> uniformb T vs v0 t = true ->
  forall (F : list N) (g : N) (inh : option (list N)) (a : htree),
    (depth t < fuel \/ hdepth a < fuel)%nat ->
    ~ In g F -> In g (mfiles t) -> Rep T F inh t a ->
    exists a', pmerge T LATEST defref fver fuel a (inF F (mfiles t)) (pview g t) g = Val (OK a') /\
               h_local a' = h_local a /\
               forall inh', Rep T (g :: F) inh' t (h_set_local a' (norm inh' (inF (g :: F) (mfiles t)))).
Proof.
  exact (fun T L d vs v0 fver HV Hv fuel t HG HU =>
           pmerge_rep_versions T L d vs v0 (mnames t) fver HV Hv fuel t HG (uniformb_sound T vs v0 t HU)).
Qed.

(* ---- C09 on the heap model for files of different versions, unconditionally (as C09_merge_union_views_total, for
        parsed files; every file of the world has a version of vs, LATEST is one of them) *)
Theorem C09_merge_union_versions :
  forall (T : tables) (LATEST defref : N) (vs : list N) (v0 : N) (M : mtree) (m : N) (x : model) (w0 : world) (n : nat)
         (items : list item),
    Good T defref v0 M -> uniformb T vs v0 M = true -> In v0 vs ->
    nth_opt (w_models w0) (N.to_nat m) = Some x -> m_files x = [] -> m_idents x = [] ->
    VOK LATEST vs (fver_files (w_files w0)) ->
    let gs := n_range (S n) (N.of_nat (List.length (w_files w0))) in
    Forall2 (fun g it => (project g M = Some (snd (fst it)) /\ In (Parser.p_version (snd it)) vs) /\
                         StOf T (snd it) (snd (fst it))) gs items ->
    (forall g, In g gs -> In g (mfiles M)) -> PathsOK T M gs ->
    exists os w,
      load_seq T LATEST defref m items w0 = Val (os, w) /\ Forall2 (fun g o => o = OK g) gs os /\
      exists ta, ModelTree w m ta gs /\ abs_model w m = Some (erase ta) /\
                 Rep T (rev gs) None M (erase ta) /\
                 (covers gs M -> hperm (erase ta) (expected None M)) /\
                 (forall f, In f gs -> hperm (hproj f (erase ta)) (pview f M)).
Proof. exact heap_union_versions. Qed.

(* non-vacuity: the tiny master is uniform over the versions 1 and 2, and its views loaded as files of versions 1 and 2
   merge to the master *)
Theorem C09_example_versions :
  uniformb TinyM.tiny [1; 2] 2 TinyM.master = true /\
  match load_seq TinyM.tiny TinyM.LATEST TinyM.DEFREF 0
          [(BS "f0", TinyM.file0, pstate_of TinyM.tiny 1 TinyM.file0); (BS "f1", TinyM.file1, pstate_of TinyM.tiny 2 TinyM.file1)]
          TinyM.new_world with
  | Val (os, w) => (os, abs_model w 0)
  | _ => ([], None)
  end = ([OK 0; OK 1], Some (expected None TinyM.master)).
Proof. exact (conj tiny_uniform tiny_mixed_versions). Qed.

(* ====================================================================== C11, load half: rejected loads that import nothing *)
(* ---- [U] a second decidable class, between "quiet" and the general residue: [import_free_load] (a boolean computed from
        the world and the parsed tree: install, then follow the merge — executing the restrictions of the elements that only
        the model has and the additions of the new file to merged elements — as long as no level that is reached imports an
        element of the new tree, until the walk of some level reports the conflict).  Then the rollback has nothing to
        delete: the files and ALL model records (both index maps) are exactly as before the load, and so are parent, content,
        name, type, attributes and comment of every node that existed (same_but_files).  Only file memberships differ, and
        exactly so: the membership is what the merge stage made of the old one (FilesIF: "empty -> an explicit set without
        the new file", "non-empty -> add the new file"), with the new file removed again where the rollback came by
        (set_remove), or renamed to the dead file id where it did not.  In particular the loss of index entries named in the
        known finding C11-load-merge-rollback needs an imported element.  The residue example is in this class. *)
Theorem C11_load_reject_import_free :
  forall (T : tables) (tab_el tab_at tab_en : nametab) (check_fn : N -> list N -> res bool)
         (float_parse : list N -> option N) (LATEST name_definition_ref : N)
         (m : N) (buffer filename : list N) (strict : bool) (w w' : world) (root : Parser.etree) (st : Parser.pstate),
    Parser.load strict T tab_el tab_at tab_en check_fn float_parse buffer = Val (Parser.Ret root st) ->
    FreshIn (N.of_nat (List.length (w_files w))) w ->
    import_free_load T LATEST name_definition_ref m filename root st w = true ->
    m_load_buffer T tab_el tab_at tab_en check_fn float_parse LATEST name_definition_ref m buffer filename strict w
      = Val (ER InvalidFileMerge, w') ->
    let fid := N.of_nat (List.length (w_files w)) in
    w_next w <= w_next w' /\ w_files w' = w_files w /\ w_models w' = w_models w /\
    exists d, forall i, i < w_next w ->
      match w_nodes w i, w_nodes w' i with
      | Some n, Some n' =>
        same_but_files n n' /\
        exists f1, FilesIF fid (n_files n) f1 /\
                   (n_files n' = rename_files fid d f1 \/ n_files n' = set_remove fid f1)
      | None, None => True
      | _, _ => False
      end.
Proof. exact load_reject_import_free. Qed.

(* the rollback when no membership is exactly {f}: nothing is deleted; f is removed from the memberships it visits *)
Theorem C11_rollback_without_deletion :
  forall (T : tables) (e f : N) (w : world) (r : out unit) (w' : world),
    ND f w -> (forall n, w_nodes w e = Some n -> n_files n <> []) ->
    e_remove_from_file T e f w = Val (r, w') -> SE f w w'.
Proof. exact rollback_strip. Qed.

Theorem C11_load_reject_import_free_example :
  import_free_load TinyM.tiny TinyM.LATEST TinyM.DEFREF 0 (BS "b") QuietExample.conf_b
                   (pstate_of TinyM.tiny 2 QuietExample.conf_b) (QuietExample.after QuietExample.conf_a) = true.
Proof. exact import_free_example. Qed.
