(* Properties/C04.v — Path lookup is exact: one entry per identifiable element, none stale or missing.
   Model: Tree/Heap.v, Ops.v, Script.v (tied to the library by the history correspondence harness).
   Specification side (Tree/Index.v), defined from the tree top-down, never through the caches:
     dpath / reach / spath   path of an element = "/" ++ item name over its identifiable ancestors-or-self
     PathSet w m p i         i is part of model m, identifiable, and p is its path
     IndexExact w m          identifiables(m) maps p to i  <->  PathSet w m p i
     Inv04 w                 IndexExact + duplicate-free keys for every model (+ typing side invariants)
   Hypotheses: TablesOK (facts about the specification tables; C04_tables_real: true of the generated tables),
   TreeFacts w (= C03's TreeInv, see Tree/IndexProofsBridge.v).  Known04 = finding classes (witnesses below).
   Constructors covered for Inv04 alone (C04_inv_partial): all except OpCopy OpCopyAt OpMove OpMoveAt OpSetItemName
   (Pending04).  Together with Inv05: C04_history (Pending45m: + OpSetItemName, moves of an identifiable element inside
   one model), C04_history_x (Pending45x: + OpCopy OpCopyAt and moves of a container inside one model); what remains
   pending is OpMove / OpMoveAt between two models.
   [P] C04_inv_partial, C04_history_partial, C04_reachable_partial, C04_set_item_name (one operation, given Inv05),
       C04_history, C04_history_x (closed: from the empty world, refined pending lists), C04_history_real, C04_history_x_real [F]
   [F] C04_tables_real
   [U] C04_lookup, C04_enumeration,
   C04_unique_paths, C04_path_concat, C04_rekey (the prefix re-keying loop of fix_identifiables). *)
From AV Require Import Base.Bytes Base.Outcome Hash.HashModel Tree.Heap Tree.Ops Tree.Script Tree.Inv.
From AV Require Import Tree.Index Tree.IndexProofsAssoc Tree.IndexProofs Tree.Refs Tree.IndexProofsSetName Tree.IndexProofsBridge Tree.IndexProofsTiny.
From AV Require Import Spec.SpecReal Tree.CheckFn Tree.IndexProofsTablesReal Tree.IndexProofsClosed Tree.IndexProofsTinyMove.
From AV Require Import Tree.RefsAll Tree.IndexProofsNodeInv Tree.IndexProofsAll Tree.IndexProofsTinyCross.
From AV Require Import Tree.SortProofsHeap Tree.SortProofsNames Tree.IndexProofsSort Tree.Copy Tree.IndexProofsDup Tree.IndexProofsRemoveOp.
From AV Require Import Tree.RefsAllB Tree.IndexProofsCopyC Tree.IndexProofsAllB Tree.IndexProofsTinyAllB.
Import Tiny.
Open Scope list_scope.
Open Scope N_scope.

Theorem C04_inv_partial :
  forall (T : tables) (tab_el tab_en : nametab) (check_fn : N -> list N -> res bool) (LATEST : N)
         (root_attrs : list (N * cdata)),
  TablesOK T check_fn ->
  forall (w : world) (o : op) (r : out value) (w' : world),
  TreeFacts w -> Inv04 T check_fn w -> Known04 T LATEST w o = false -> Pending04 w o = false ->
  run_op T tab_el tab_en check_fn LATEST root_attrs o w = Val (r, w') -> Inv04 T check_fn w'.
Proof. exact IndexProofs.C04_inv_partial. Qed.

Theorem C04_history_partial :
  forall (T : tables) (tab_el tab_en : nametab) (check_fn : N -> list N -> res bool) (LATEST : N)
         (root_attrs : list (N * cdata)),
  TablesOK T check_fn ->
  forall (l : list op) (w w' : world),
  Inv04 T check_fn w -> steps_ok T tab_el tab_en check_fn LATEST root_attrs l w ->
  run_hist T tab_el tab_en check_fn LATEST root_attrs l w = Val w' -> Inv04 T check_fn w'.
Proof. exact IndexProofs.C04_history_partial. Qed.

(* Element::set_item_name: needs C05's invariant as well (the members of the referrer lists must be reference
   elements: their first content item is overwritten); it is therefore in Pending04 for C04_inv_partial (no Inv05
   hypothesis there) but covered by the combined theorems C45_inv_partial / C05_history_partial /
   C04_reachable_partial (Properties/C05.v, Pending45). *)
Theorem C04_set_item_name :
  forall (T : tables) (check_fn : N -> list N -> res bool) (LATEST : N),
  TablesOK T check_fn ->
  forall (h : id) (nn : list N) (w : world) (r : out unit) (w' : world),
  TreeFacts w -> Inv04 T check_fn w -> Inv05 T w ->
  e_set_item_name T check_fn LATEST h nn w = Val (r, w') -> Inv04 T check_fn w'.
Proof. exact IndexProofsSetName.C04_set_item_name. Qed.

(* closed form: every history from the empty world whose steps avoid the finding classes of C03, C04, C05 and the
   pending constructors (a decidable condition on the history) *)
Theorem C04_reachable_partial :
  forall (T : tables) (tab_el tab_en : nametab) (check_fn : N -> list N -> res bool) (LATEST : N)
         (root_attrs : list (N * cdata)),
  TablesOK T check_fn ->
  forall (l : list op) (w' : world),
  clean45 T tab_el tab_en check_fn LATEST root_attrs l empty_world = true ->
  run_ops T tab_el tab_en check_fn LATEST root_attrs l empty_world = Val w' ->
  TreeFacts w' /\ Inv04 T check_fn w' /\ Inv05 T w'.
Proof. exact C04_C05_reachable_partial. Qed.

(* the closed form with the refined pending list (Pending45m: a move inside one model whose moved element is
   identifiable is covered; remove_from_file, remove_file of a file that is not the last one are covered) *)
Theorem C04_history :
  forall (T : tables) (tab_el tab_en : nametab) (check_fn : N -> list N -> res bool) (LATEST : N)
         (root_attrs : list (N * cdata)),
  TablesOK T check_fn ->
  forall (l : list op) (w' : world),
  clean45m T tab_el tab_en check_fn LATEST root_attrs l empty_world = true ->
  run_ops T tab_el tab_en check_fn LATEST root_attrs l empty_world = Val w' ->
  TreeFacts w' /\ Inv04 T check_fn w' /\ Inv05 T w'.
Proof. exact C04_C05_history. Qed.

(* [F] the generated tables satisfy TablesOK, with the validator model of Tree/CheckFn.v (any DFA tables) *)
Theorem C04_tables_real :
  forall dfas : N -> option (list (list N) * list N), TablesOK RT (check_fn_model dfas).
Proof. exact real_tables_ok. Qed.

Theorem C04_history_real :
  forall (dfas : N -> option (list (list N) * list N)) (tab_el tab_en : nametab) (LATEST : N) (root_attrs : list (N * cdata))
         (l : list op) (w' : world),
  clean45m RT tab_el tab_en (check_fn_model dfas) LATEST root_attrs l empty_world = true ->
  run_ops RT tab_el tab_en (check_fn_model dfas) LATEST root_attrs l empty_world = Val w' ->
  TreeFacts w' /\ Inv04 RT (check_fn_model dfas) w' /\ Inv05 RT w'.
Proof. exact C04_C05_history_rt. Qed.

(* second refinement (Pending45x): create_copied_sub_element[_at] (outside the classes of Known05: a copy whose result is
   not `copy_clean`, a failed copy that left garbage) and every move inside one model (containers outside the class
   K04-move-container) are covered; pending: moves between two models *)
Theorem C04_history_x :
  forall (T : tables) (tab_el tab_en : nametab) (check_fn : N -> list N -> res bool) (LATEST : N)
         (root_attrs : list (N * cdata)),
  TablesOK T check_fn ->
  forall (l : list op) (w' : world),
  clean45x T tab_el tab_en check_fn LATEST root_attrs l empty_world = true ->
  run_ops T tab_el tab_en check_fn LATEST root_attrs l empty_world = Val w' ->
  TreeFacts w' /\ Inv04 T check_fn w' /\ Inv05 T w'.
Proof. exact C04_C05_history_x. Qed.

Theorem C04_history_x_real :
  forall (dfas : N -> option (list (list N) * list N)) (tab_el tab_en : nametab) (LATEST : N) (root_attrs : list (N * cdata))
         (l : list op) (w' : world),
  clean45x RT tab_el tab_en (check_fn_model dfas) LATEST root_attrs l empty_world = true ->
  run_ops RT tab_el tab_en (check_fn_model dfas) LATEST root_attrs l empty_world = Val w' ->
  TreeFacts w' /\ Inv04 RT (check_fn_model dfas) w' /\ Inv05 RT w'.
Proof. exact C04_C05_history_x_rt. Qed.

(* ---------- all 26 constructors (no pending constructor).  Moves between two models (move_element_full) are covered; the
   finding classes are Known04a / Known05a of Tree/RefsAll.v (Known04 without the side condition on the type of a model root,
   Known05 plus the two-model form of the container-move collision `collision_x`; for copies Known04a has K04-front and
   late_short, and Known05a the result condition copy_clean_b: nobody twice in the walk of the copy, no two identifiable elements of
   the copy with one path, and for a copy that is not identifiable itself no path of an element inside it already in the
   destination's index - the other conditions of copy_clean (left-over leaves of dropped sub-elements, '/'-free new name,
   character leaves, names of identifiable copies) are derived from the source world: Tree/IndexProofsCopyA.v, IndexProofsCopyB.v).  RX (Tree/IndexProofsNodeInv.v: every reference element
   holds string data, every model root has a type that is neither named nor a reference type) is kept by every operation
   without any exception class and holds in the empty world. *)
Theorem C04_nodes_inv :
  forall (T : tables) (tab_el tab_en : nametab) (check_fn : N -> list N -> res bool) (LATEST : N)
         (root_attrs : list (N * cdata)),
  TablesOK T check_fn ->
  (forall ty, et_new T (autosar_element T) = Val ty -> plainty T ty) ->
  forall (w : world) (o : op) (r : out value) (w' : world),
  RX T w -> run_op T tab_el tab_en check_fn LATEST root_attrs o w = Val (r, w') -> RX T w'.
Proof. exact RX_step. Qed.

Theorem C04_inv :
  forall (T : tables) (tab_el tab_en : nametab) (check_fn : N -> list N -> res bool) (LATEST : N)
         (root_attrs : list (N * cdata)),
  TablesOK T check_fn ->
  forall (w : world) (o : op) (r : out value) (w' : world),
  TreeFacts w -> Inv04 T check_fn w -> Inv05 T w -> RX T w ->
  Known04a T LATEST w o = false -> Known05a T tab_el tab_en check_fn LATEST root_attrs w o = false ->
  run_op T tab_el tab_en check_fn LATEST root_attrs o w = Val (r, w') -> Inv04 T check_fn w'.
Proof. exact C04_inv_all. Qed.

Theorem C04_history_all :
  forall (T : tables) (tab_el tab_en : nametab) (check_fn : N -> list N -> res bool) (LATEST : N)
         (root_attrs : list (N * cdata)),
  TablesOK T check_fn ->
  (forall ty, et_new T (autosar_element T) = Val ty -> plainty T ty) ->
  forall (l : list op) (w' : world),
  clean45a T tab_el tab_en check_fn LATEST root_attrs l empty_world = true ->
  run_ops T tab_el tab_en check_fn LATEST root_attrs l empty_world = Val w' ->
  TreeFacts w' /\ Inv04 T check_fn w' /\ Inv05 T w'.
Proof. exact C04_C05_history_all. Qed.

Theorem C04_root_plain_real : forall ty, et_new RT (autosar_element RT) = Val ty -> plainty RT ty.
Proof. exact real_root_plain. Qed.

Theorem C04_history_all_real :
  forall (dfas : N -> option (list (list N) * list N)) (tab_el tab_en : nametab) (LATEST : N) (root_attrs : list (N * cdata))
         (l : list op) (w' : world),
  clean45a RT tab_el tab_en (check_fn_model dfas) LATEST root_attrs l empty_world = true ->
  run_ops RT tab_el tab_en (check_fn_model dfas) LATEST root_attrs l empty_world = Val w' ->
  TreeFacts w' /\ Inv04 RT (check_fn_model dfas) w' /\ Inv05 RT w'.
Proof. exact C04_C05_history_all_rt. Qed.

(* ---------- the copy clauses, last reduction (class Known05b of Tree/RefsAllB.v).  The pre-order walk of the copy made by
   create_copied_sub_element lists nobody twice (deep_copy allocates the copy of a sub-element after everything allocated for its
   elder siblings: disjoint id ranges above the parent), so the duplicate check on the walk is redundant: Known05b = false implies
   Known05a = false, and the statements for all 26 constructors hold with Known05b.  What the copy clauses of Known05b still decide by
   running the model: a FAILED copy that allocated nodes; two identifiable elements of the copy with one path (GENUINE on the
   generated tables and in the library: a sweep of RT finds the element kinds whose SHORT-NAME is valid in fewer versions than the
   element itself and that keep named descendants in both versions - CAN-TP-ADDRESS / CAN-TP-CHANNEL, no SHORT-NAME in 4.0.1.
   Input: in a 00050 file CAN-TP-CONFIG cfg / TP-ADDRESSS / CAN-TP-ADDRESS a and b, each with VARIATION-POINT / SDG / SDG-CAPTION
   cap (paths /pkg/cfg/a/cap, /pkg/cfg/b/cap); create_copied_sub_element of the TP-ADDRESSS into a CAN-TP-CONFIG cfg2 of a
   model whose file has version 4.0.1 returns Ok, both copied CAN-TP-ADDRESS lose their SHORT-NAME and the copy holds two
   SDG-CAPTION with the one path /pkg/cfg2/cap, of which get_element_by_path finds the second only; probed against the library
   with the harness set-up, source kept in work/coq/idx/c04probe_version_filter_main.rs); a copy that is not identifiable itself
   holding an element whose path is already in the destination's index (finding C04-copy-container-duplicates-paths). *)
Theorem C04_copy_walk_nodup :
  forall (T : tables) (check_fn : N -> list N -> res bool) (self other : id) (pos m v : N) (w : world) (c : id) (w' : world),
  TreeFacts w -> Inv04 T check_fn w -> MReach T w m self ->
  create_copied_sub_element_inner T self other pos m v w = Val (OK c, w') ->
  forall f, NoDup (walk f w' c).
Proof. exact copy_walk_nodup. Qed.

Theorem C04_known05b_implies_a :
  forall (T : tables) (check_fn : N -> list N -> res bool) (tab_el tab_en : nametab) (LATEST : N) (root_attrs : list (N * cdata))
         (w : world) (o : op) (r : out value) (w' : world),
  TreeFacts w -> Inv04 T check_fn w ->
  Known05b T tab_el tab_en check_fn LATEST root_attrs w o = false ->
  run_op T tab_el tab_en check_fn LATEST root_attrs o w = Val (r, w') ->
  Known05a T tab_el tab_en check_fn LATEST root_attrs w o = false.
Proof. exact known05b_a. Qed.

Theorem C04_history_allb :
  forall (T : tables) (tab_el tab_en : nametab) (check_fn : N -> list N -> res bool) (LATEST : N)
         (root_attrs : list (N * cdata)),
  TablesOK T check_fn ->
  (forall ty, et_new T (autosar_element T) = Val ty -> plainty T ty) ->
  forall (l : list op) (w' : world),
  clean45b T tab_el tab_en check_fn LATEST root_attrs l empty_world = true ->
  run_ops T tab_el tab_en check_fn LATEST root_attrs l empty_world = Val w' ->
  TreeFacts w' /\ Inv04 T check_fn w' /\ Inv05 T w'.
Proof. exact C04_C05_history_allb. Qed.

Theorem C04_history_allb_real :
  forall (dfas : N -> option (list (list N) * list N)) (tab_el tab_en : nametab) (LATEST : N) (root_attrs : list (N * cdata))
         (l : list op) (w' : world),
  clean45b RT tab_el tab_en (check_fn_model dfas) LATEST root_attrs l empty_world = true ->
  run_ops RT tab_el tab_en (check_fn_model dfas) LATEST root_attrs l empty_world = Val w' ->
  TreeFacts w' /\ Inv04 RT (check_fn_model dfas) w' /\ Inv05 RT w'.
Proof. exact C04_C05_history_allb_rt. Qed.

(* ---------- sort and duplicate (op2).
   Sort: agent-c14's relation `kept` (Tree/SortProofsNames.v: maps, parents, names, types untouched; content lists unchanged or - for
   types without character data - permuted; the SHORT-NAME child of a named element stays in front) carries both invariants, given
   NameFirst (a SHORT-NAME child of a named element is its first and only one).
   Duplicate: new model + files + one copy per root child; under dup_clean (the finding classes of C03/C04/C05 of the copy
   steps, decided along the run) the invariants hold afterwards - also after a failed duplicate, whose model is dropped. *)
Theorem C04_sort :
  forall (T : tables) (check_fn : N -> list N -> res bool) (w w' : world),
  TreeFacts w /\ Inv04 T check_fn w /\ Inv05 T w -> kept T w w' -> NameFirst T w ->
  TreeFacts w' /\ Inv04 T check_fn w' /\ Inv05 T w'.
Proof. exact sort_j5. Qed.

Theorem C04_sort_name_first : forall (T : tables) (w : world), NoLate T w -> NameFirst T w.
Proof. exact nolate_namefirst. Qed.

Theorem C04_duplicate :
  forall (T : tables) (tab_el tab_en : nametab) (check_fn : N -> list N -> res bool) (LATEST : N)
         (root_attrs : list (N * cdata)),
  TablesOK T check_fn ->
  (forall ty, et_new T (autosar_element T) = Val ty -> plainty T ty) ->
  forall (m : N) (w : world) (r : out N) (w' : world),
  TreeInv w /\ Inv04 T check_fn w /\ Inv05 T w /\ RX T w ->
  dup_clean T tab_el tab_en check_fn LATEST root_attrs w m = true ->
  m_duplicate T tab_el tab_en check_fn LATEST root_attrs m w = Val (r, w') ->
  Inv04 T check_fn w' /\ Inv05 T w' /\ RX T w' /\ (forall c, r = OK c -> TreeInv w').
Proof. exact C45_duplicate. Qed.

Theorem C04_lookup :
  forall (T : tables) (check_fn : N -> list N -> res bool) (w : world) (m : N) (p : list N) (r : out (option id)) (w' : world),
  Inv04 T check_fn w -> q_get_by_path m p w = Val (r, w') ->
  w' = w /\ exists x, model_at w m = Some x /\ r = OK (assoc_get p (m_idents x)) /\
  forall i, assoc_get p (m_idents x) = Some i <-> PathSet T w m p i.
Proof. exact IndexProofs.C04_lookup. Qed.

Theorem C04_enumeration :
  forall (T : tables) (check_fn : N -> list N -> res bool) (w : world) (m : N) (x : model),
  TreeFacts w -> Inv04 T check_fn w -> model_at w m = Some x ->
  (forall p i, In (p, i) (m_idents x) <-> PathSet T w m p i) /\
  NoDup (map fst (m_idents x)) /\ NoDup (map snd (m_idents x)).
Proof. exact IndexProofs.C04_enumeration. Qed.

Theorem C04_unique_paths :
  forall (T : tables) (check_fn : N -> list N -> res bool) (w : world) (m : N),
  Inv04 T check_fn w -> UniquePaths T w m.
Proof. exact IndexProofs.C04_unique_paths. Qed.

Theorem C04_path_concat :
  forall (T : tables) (w : world) (m : N) (i : id) (n : node),
  TreeFacts w -> w_nodes w i = Some n -> MReach T w m i ->
  path_of T n w <> Fuel /\
  forall r w', path_of T n w = Val (r, w') ->
    w' = w /\
    if identifiable T w i then exists p, r = OK p /\ SpecPath T w m i p else r = ER ElementNotIdentifiable.
Proof. exact IndexProofs.C04_path_concat. Qed.

(* the loop of fix_identifiables over the snapshot of the keys: keys equal to `old` or below it ("old/...") are
   re-keyed, everything else (e.g. "/pkg10" for old = "/pkg1") is untouched, elements stay the same *)
Theorem C04_rekey :
  forall (A : Type) (old new : list N) (l : list (list N * A)),
  NoDupKeys l ->
  (forall k k', In k (keys l) -> rekey old new k = Some k' -> ~ In k' (keys l)) ->
  let l' := fold_left (rekey_step old new) (map fst l) l in
  NoDupKeys l' /\
  forall k2 e, assoc_get k2 l' = Some e <->
     (exists k, rekey old new k = Some k2 /\ assoc_get k l = Some e)
     \/ (rekey old new k2 = None /\ assoc_get k2 l = Some e).
Proof. exact (@rekey_all). Qed.

(* ---------- non-vacuity *)
Example C04_tables_ok : TablesOK tiny tiny_check_fn.
Proof. exact tiny_tables_ok. Qed.

Example C04_demo_world :
  (TreeFacts (wof demo) /\ Inv04 tiny tiny_check_fn (wof demo) /\ Inv05 tiny (wof demo)) /\
  idents_of (wof demo) 0 = [(BS "/A", 2); (BS "/A/S", 5); (BS "/B", 8)] /\ origins_list (wof demo) 0 = [(BS "/B", [7])].
Proof. exact (conj demo_inv demo_content). Qed.

(* remove_from_file / remove_file: /B loses its last file and is removed from the model; its entry goes, the reference to
   it keeps its text and its referrer entry *)
Example C04_files_demo :
  (TreeFacts (wof files_demo) /\ Inv04 tiny tiny_check_fn (wof files_demo) /\ Inv05 tiny (wof files_demo)) /\
  idents_of (wof files_demo) 0 = [(BS "/A", 2); (BS "/A/S", 5)] /\ origins_list (wof files_demo) 0 = [(BS "/B", [7])].
Proof. exact files_demo_summary. Qed.

(* moves: /A/S is moved into /B (paths and the text of its referrer follow); a second /A/S moved next to it becomes /B/S_1 *)
Example C04_move_demo :
  (TreeFacts (wof move_demo2) /\ Inv04 tiny tiny_check_fn (wof move_demo2) /\ Inv05 tiny (wof move_demo2)) /\
  idents_of (wof move_demo2) 0 = [(BS "/A", 2); (BS "/B/T", 11); (BS "/B", 8); (BS "/B/S", 5); (BS "/B/S_1", 14)] /\
  origins_list (wof move_demo2) 0 = [(BS "/B", [7]); (BS "/B/S", [13])].
Proof. exact (conj move_demo2_inv move_demo2_content). Qed.

(* remove_file of the last file: every sub-element of the root is removed, both maps are empty *)
Example C04_lastfile_demo :
  (TreeFacts (wof lastfile_demo) /\ Inv04 tiny tiny_check_fn (wof lastfile_demo) /\ Inv05 tiny (wof lastfile_demo)) /\
  idents_of (wof lastfile_demo) 0 = [] /\ origins_list (wof lastfile_demo) 0 = [] /\
  option_map n_content (w_nodes (wof lastfile_demo) 0) = Some [].
Proof. exact lastfile_demo_summary. Qed.

(* copies (an element next to itself: S_1; a whole package: /A_1 with its contents) and a container move *)
Example C04_copy_demo :
  (TreeFacts (wof copy_demo) /\ Inv04 tiny tiny_check_fn (wof copy_demo) /\ Inv05 tiny (wof copy_demo)) /\
  idents_of (wof copy_demo) 0 =
    [(BS "/A", 2); (BS "/A_1/S_1", 19); (BS "/B", 8); (BS "/B/S", 5); (BS "/A_1", 13); (BS "/A_1/S", 16); (BS "/B/S_1", 10)] /\
  NoDup (map fst (origins_list (wof copy_demo) 0)).
Proof. exact copy_demo_summary. Qed.

(* ---------- findings: the invariant really breaks on the classes excluded by Known04 *)
Example C04_front_refuted :
  (TreeFacts (wof front_pre) /\ Inv04 tiny tiny_check_fn (wof front_pre)) /\
  Known04 tiny LATEST (wof front_pre) front_op = true /\
  (exists i, trace_script (front_pre ++ [front_op]) empty_world = map OOk [VModel 0; VFile 0; VElem 1; VElem 2; VElem 4; VElem 5; VElem i]) /\
  ~ Inv04 tiny tiny_check_fn (wof (front_pre ++ [front_op])).
Proof. exact K04_front_refuted. Qed.

Example C04_late_short_name_refuted :
  (TreeFacts (wof late_pre) /\ Inv04 tiny tiny_check_fn (wof late_pre)) /\
  Known04 tiny LATEST (wof late_pre) late_op = true /\
  ~ Inv04 tiny tiny_check_fn (wof (late_pre ++ [late_op])) /\
  (exists w', q_path tiny 5 (wof (late_pre ++ [late_op])) = Val (OK (BS "/A"), w')).
Proof. exact K04_late_short_name_refuted. Qed.

Example C04_move_short_name_refuted :
  (TreeFacts (wof mv_pre) /\ Inv04 tiny tiny_check_fn (wof mv_pre)) /\
  Known04 tiny LATEST (wof mv_pre) mv_op = true /\
  ~ Inv04 tiny tiny_check_fn (wof (mv_pre ++ [mv_op])).
Proof. exact K04_move_short_name_refuted. Qed.

Example C04_copy_container_refuted :
  (TreeFacts (wof cc_pre) /\ Inv04 tiny tiny_check_fn (wof cc_pre)) /\
  Known04 tiny LATEST (wof cc_pre) cc_op = true /\
  (exists i w', Tiny.run cc_op (wof cc_pre) = Val (OK (VElem i), w')) /\
  ~ Inv04 tiny tiny_check_fn (wof (cc_pre ++ [cc_op])).
Proof. exact K04_copy_container_refuted. Qed.

(* the container move without uniqueness check (finding C04-move-container-duplicates-paths; the class is part of Known05,
   which is evaluated by running the model) *)
Example C04_move_container_refuted :
  (TreeFacts (wof mc_pre) /\ Inv04 tiny tiny_check_fn (wof mc_pre) /\ Inv05 tiny (wof mc_pre)) /\
  Known05 tiny tiny_el tiny_en tiny_check_fn LATEST [] (wof mc_pre) mc_op = true /\
  (exists w', Tiny.run mc_op (wof mc_pre) = Val (OK (VElem 4), w')) /\
  ~ Inv04 tiny tiny_check_fn (wof (mc_pre ++ [mc_op])).
Proof. exact K04_move_container_refuted. Qed.

(* ---------- moves between two models (tiny tables): an identifiable element with a reference to itself; a container *)
Example C04_move_cross_demo :
  (TreeFacts (wof cross_demo) /\ Inv04 tiny tiny_check_fn (wof cross_demo) /\ Inv05 tiny (wof cross_demo)) /\
  idents_of (wof x_pre) 0 = [(BS "/A", 2); (BS "/A/S", 5); (BS "/A/T", 8)] /\
  idents_of (wof cross_demo) 0 = [(BS "/A", 2); (BS "/A/T", 8)] /\ origins_list (wof cross_demo) 0 = [(BS "/A/T", [10])] /\
  idents_of (wof cross_demo) 1 = [(BS "/B", 13); (BS "/B/S", 5)] /\ origins_list (wof cross_demo) 1 = [(BS "/B/S", [7])].
Proof. exact cross_demo_summary. Qed.

Example C04_move_cross_container_demo :
  (TreeFacts (wof cross_container_demo) /\ Inv04 tiny tiny_check_fn (wof cross_container_demo) /\ Inv05 tiny (wof cross_container_demo)) /\
  idents_of (wof cross_container_demo) 0 = [(BS "/A", 2)] /\ origins_list (wof cross_container_demo) 0 = [] /\
  idents_of (wof cross_container_demo) 1 = [(BS "/B", 13); (BS "/B/S", 5); (BS "/B/T", 8)] /\
  origins_list (wof cross_container_demo) 1 = [(BS "/B/S", [7; 10])].
Proof. exact cross_container_demo_summary. Qed.

(* ---------- finding (two-model form of C04-move-container-duplicates-paths): a container moved to another model whose index
   already has the path of an element it holds *)
Example C04_move_cross_container_refuted :
  (TreeFacts (wof x3_pre) /\ Inv04 tiny tiny_check_fn (wof x3_pre) /\ Inv05 tiny (wof x3_pre)) /\
  Known05 tiny tiny_el tiny_en tiny_check_fn LATEST [] (wof x3_pre) x2_op = false /\
  Known05a tiny tiny_el tiny_en tiny_check_fn LATEST [] (wof x3_pre) x2_op = true /\
  (exists w', Tiny.run x2_op (wof x3_pre) = Val (OK (VElem 4), w')) /\
  ~ Inv04 tiny tiny_check_fn (wof (x3_pre ++ [x2_op])).
Proof. exact K05_move_cross_container_refuted. Qed.

(* ---------- copies under the classes of the all-constructor statement; duplicate of the demo model *)
Example C04_copy_container_in_class :
  Known04a tiny LATEST (wof cc_pre) cc_op = false /\ Known05a tiny tiny_el tiny_en tiny_check_fn LATEST [] (wof cc_pre) cc_op = true.
Proof. exact copy_container_in_class. Qed.

Example C04_duplicate_demo :
  dup_clean tiny tiny_el tiny_en tiny_check_fn LATEST [] (wof demo) 0 = true /\
  exists w', m_duplicate tiny tiny_el tiny_en tiny_check_fn LATEST [] 0 (wof demo) = Val (OK 1, w') /\
    (Inv04 tiny tiny_check_fn w' /\ Inv05 tiny w') /\
    idents_of w' 0 = [(BS "/A", 2); (BS "/A/S", 5); (BS "/B", 8)] /\
    idents_of w' 1 = [(BS "/A", 12); (BS "/A/S", 15); (BS "/B", 18)] /\ origins_list w' 1 = [(BS "/B", [17])].
Proof. exact dup_demo_summary. Qed.

Example C04_copy_demo_b :
  script_okb copy_demo = true /\
  Known05b tiny tiny_el tiny_en tiny_check_fn LATEST [] (wof cc_pre) cc_op = true.
Proof. exact copy_demo_b. Qed.

