(* Properties/C17.v — The version-compatibility check is exact and changing a file's version is safe.
   Only statements; every proof is `exact <lemma>` (lemmas: Tree/CompatProofs1-4.v; model: Tree/Compat.v, tied to
   element.rs / arxmlfile.rs / chardata.rs by the correspondence runs of checks/c17.py; independent statement of validity:
   Tree/CompatSpec.v).
   All theorems are [U]: every table set, every world (heap state), every file id and every version value, no bounds.

   f_check T w f v      = ArxmlFile::check_version_compatibility(v) of file f in state w: Val (errors, mask) | Pan (an unwrap panics)
   ValidIn T w f v      = every element of file f is listed by its parent's v-type in version v, every attribute is known to
                          the v-type with a mask containing v, every enumeration value (attribute AND element text) is listed
                          with a mask containing v; v-types are assigned top-down from the root as strict loading does
   NoKnown T w f v      = K_recalc /\ K_mixup /\ K_skip: the three places where the code consults another table entry than
                          strict loading (parent's stored type; stored type + new index list; unlisted name skipped).  None of
                          them occurs with the real tables on the generated documents (oracle sweep), each of them is a real
                          difference on suitable tables (`..._refuted`, `C17_mixup_panics`).
   Fixed in /repo while building this (both found by the oracle on the real library): enumeration values in element text
   were never checked; attributes unknown to the target version's element type were skipped.  Fixed later (found by C12's panic
   search, predicted by this model as class K_mixup): the sub-element mask was read from the stored type with the recalculated
   type's index list; since then K_mixup is not needed for exactness (C17_exact_fixed). *)
From AV Require Import Base.Bytes Base.Outcome Hash.HashModel Spec.SpecReal Tree.Heap Tree.Ops Tree.Compat Tree.CompatSpec
  Tree.CompatProofs1 Tree.CompatProofs2 Tree.CompatProofs3 Tree.CompatProofs4 Tree.Serialize
  Tree.CompatTyped Tree.CompatProofs5 Tree.CompatReal Tree.CompatBridge Tree.CompatProofs6 Tree.CompatProofs7 Tree.CompatProofs8
  Tree.CompatHist1 Tree.CompatHist4 Tree.CompatHist5 Tree.CompatHist6 Tree.CompatHistReal
  Tree.CompatSerLink Tree.CompatSerLink2.
From AV Require Tree.Inv Tree.Script Tree.Script2.
From AV Require Xml.Serializer Xml.RoundTripCanonb.
From AV Require Xml.Parser.
Open Scope list_scope.
Open Scope N_scope.

(* [U] the check lists nothing exactly when the file's content is valid in the target version *)
Theorem C17_exact : forall (T : tables) (w : world) (f v : N),
  K_mixup T w f v -> K_skip T w f v -> K_recalc T w f v ->
  forall r : cres, f_check T w f v = Val r -> (fst r = [] <-> ValidIn T w f v).
Proof. exact f_check_exact. Qed.

(* [U] the returned mask: a clean check leaves the target's bit set; conversely the bit is set only for a clean check, unless
   an error carries the mask u32::MAX (`the value is not an enumeration item although the target type wants one`) *)
Theorem C17_mask : forall (T : tables) (v : N) (w : world) (f : N) (errs : list compat_err) (mask : N),
  f_check T w f v = Val (errs, mask) -> version_bit v ->
  (errs = [] -> N.land mask v <> 0) /\
  ((forall e, In e errs -> emask e <> U32MAX) -> N.land mask v <> 0 -> errs = []).
Proof. exact f_check_mask. Qed.

(* [U] set_version succeeds exactly when the check is clean; then ONLY f_version of that file changes (nodes, indexes, models,
   other files: `with_version`), otherwise nothing changes *)
Theorem C17_set_version : forall (T : tables) (w : world) (f v : N) (errs : list compat_err) (mask : N),
  f_check T w f v = Val (errs, mask) ->
  f_set_version T f v w =
    if is_empty errs then Val (OK tt, with_version w f v) else Val (ER VersionIncompatibleData, w).
Proof. exact set_version_spec. Qed.

(* [U] no verdict of the check depends on any file's version: checks before and after a version change agree *)
Theorem C17_check_ignores_versions : forall (T : tables) (w : world) (g u f v : N),
  f_check T (with_version w g u) f v = f_check T w f v.
Proof. exact f_check_with_version. Qed.

(* [U] with the C01/C08 round trip as an EXPLICIT hypothesis: clean <-> the text of the file relabelled to v loads strictly as v,
   and after a successful set_version the re-serialized file loads strictly as the new version *)
Theorem C17_exact_load : forall (T : tables) (tab_el tab_at tab_en : nametab) (check_fn : N -> list N -> res bool)
    (float_parse : list N -> option N) (float_fmt : N -> list N) (attr_schema_location : N)
    (StrictRest : world -> N -> N -> Prop),
  (forall w f v text,
      file_text T tab_el tab_at tab_en check_fn float_fmt attr_schema_location (with_version w f v) f text ->
      StrictRest w f v ->
      (strict_accepts T tab_el tab_at tab_en check_fn float_parse text v <-> ValidIn T w f v)) ->
  forall w f v errs mask text,
    f_check T w f v = Val (errs, mask) -> NoKnown T w f v -> StrictRest w f v ->
    file_text T tab_el tab_at tab_en check_fn float_fmt attr_schema_location (with_version w f v) f text ->
    (errs = [] <-> strict_accepts T tab_el tab_at tab_en check_fn float_parse text v).
Proof. exact check_exact_load. Qed.

Theorem C17_set_version_reload : forall (T : tables) (tab_el tab_at tab_en : nametab) (check_fn : N -> list N -> res bool)
    (float_parse : list N -> option N) (float_fmt : N -> list N) (attr_schema_location : N)
    (StrictRest : world -> N -> N -> Prop),
  (forall w f v text,
      file_text T tab_el tab_at tab_en check_fn float_fmt attr_schema_location (with_version w f v) f text ->
      StrictRest w f v ->
      (strict_accepts T tab_el tab_at tab_en check_fn float_parse text v <-> ValidIn T w f v)) ->
  forall w f v w' text,
    f_set_version T f v w = Val (OK tt, w') -> NoKnown T w f v -> StrictRest w f v ->
    file_text T tab_el tab_at tab_en check_fn float_fmt attr_schema_location w' f text ->
    strict_accepts T tab_el tab_at tab_en check_fn float_parse text v.
Proof. exact set_version_reload. Qed.

(* [U] the specification lookups the walk relies on: the index list of find_sub_element leads to a mask containing the version;
   an entry found only by the all-versions fallback has a mask that excludes the version *)
Theorem C17_lookup_mask : forall (T : tables) (t : N * N) (name version : N) (et : N * N) (ixs : list N),
  find_sub_element T t name version = Val (Some (et, ixs)) ->
  exists m, get_sub_element_version_mask T t ixs = Val (Some m) /\ N.land version m <> 0.
Proof. exact find_sub_element_mask. Qed.
Theorem C17_lookup_fallback : forall (T : tables) (t : N * N) (name version version' : N) (et : N * N) (ixs : list N) (m : N),
  find_sub_element T t name version = Val None ->
  find_sub_element T t name version' = Val (Some (et, ixs)) ->
  get_sub_element_version_mask T t ixs = Val (Some m) -> N.land version m = 0.
Proof. exact find_sub_element_fallback. Qed.

(* ---- the side conditions cannot be dropped (witness states over a nine-type table set) ---- *)
(* the walk takes the child's type from the parent's STORED type: clean although the content is not valid *)
Theorem C17_exact_refuted_recalc :
  exists T w f v r, f_check T w f v = Val r /\ fst r = [] /\ K_mixup T w f v /\ K_skip T w f v /\ ~ ValidIn T w f v.
Proof. exact recalc_refuted. Qed.
(* a sub element whose name the type lists in no version is skipped silently *)
Theorem C17_exact_refuted_skip :
  exists T w f v r, f_check T w f v = Val r /\ fst r = [] /\ K_recalc T w f v /\ K_mixup T w f v /\ ~ ValidIn T w f v.
Proof. exact skip_refuted. Qed.
(* the mask is read from the stored type with the index list of the recalculated type: the check can panic *)
Theorem C17_mixup_panics : exists T w f v site, f_check T w f v = Pan site.
Proof. exact mixup_panics. Qed.

(* ---- after the fix of the mask lookup in element.rs (fix: the mask is read from the recalculated type, for which the index list
   was computed; it used to be read from the element's STORED type: class K_mixup, an index-out-of-bounds panic on the real
   library after a move / copy below a parent that lists the name with another type, findings/C12-panic-check-compat-mixup.json).
   K_mixup is no longer a side condition of exactness; C17_exact above keeps its (weaker) statement.  C17_mixup_panics keeps its
   statement too: the only panics left in f_check are dangling ids; the former witness state is checked without a panic.
   That the lookup cannot miss with the right type is C17_lookup_mask (for the target version and for u32::MAX alike). *)
(* [U] exactness outside K_skip / K_recalc only *)
Theorem C17_exact_fixed : forall (T : tables) (w : world) (f v : N),
  K_skip T w f v -> K_recalc T w f v ->
  forall r : cres, f_check T w f v = Val r -> (fst r = [] <-> ValidIn T w f v).
Proof. exact f_check_exact_fixed. Qed.
(* the former panic witness (toy tables TT, state W3, target 2): clean now *)
Theorem C17_mixup_state_fixed : f_check TT W3 0 2 = Val ([], 2).
Proof. exact mixup_state_fixed. Qed.
(* an error with mask u32::MAX: errors are listed and the mask still contains the target *)
Theorem C17_mask_refuted :
  exists T w f v errs mask, version_bit v /\ f_check T w f v = Val (errs, mask) /\ errs <> [] /\ N.land mask v <> 0.
Proof. exact mask_refuted. Qed.

(* ================= the K classes are impossible in typed worlds; on the real tables unconditionally =================
   PairOK T  : whenever a datatype lists one name for two version sets, both listed types have the same datatype or both
               datatypes have no sub-elements (every lookup of the walk and of strict validation reads only the datatype)
   Typed T w : every element's parent link points to the element that lists it, and its stored datatype is the one its
               parent's stored type lists for its name in SOME version set within u32 (what create / load establish;
               move / copy keep the stored type and may break it: C07)
   RootOk w f: the root element of the file's model is nobody's child *)

(* [U] in a typed world over tables with PairOK none of the three classes occurs *)
Theorem C17_no_known_typed : forall (T : tables) (w : world) (f v : N),
  PairOK T -> Typed T w -> RootOk w f -> NoKnown T w f v.
Proof. exact typed_no_known. Qed.

(* [U] hence exactness without the K hypotheses *)
Theorem C17_exact_typed : forall (T : tables) (w : world) (f v : N),
  PairOK T -> Typed T w -> RootOk w f ->
  forall r : cres, f_check T w f v = Val r -> (fst r = [] <-> ValidIn T w f v).
Proof. exact f_check_exact_typed. Qed.

(* [F] the regenerated real tables satisfy PairOK (sweep over all datatypes, Gen/CompatSweep*.v) *)
Theorem C17_pair_ok_real : PairOK RT.
Proof. exact PairOK_real. Qed.

(* [U over worlds, F over the tables] on the real tables the check is exact in every typed world *)
Theorem C17_exact_real : forall (w : world) (f v : N) (r : cres),
  Typed RT w -> RootOk w f -> f_check RT w f v = Val r -> (fst r = [] <-> ValidIn RT w f v).
Proof. exact f_check_exact_real. Qed.

(* [U over worlds, F over the tables] the `unwrap` of the mask lookup (stored type, index list of the target type) always has a
   mask on the real tables in a typed world: the walk cannot panic there *)
Theorem C17_unwrap_safe_real : forall (w : world) (f v : N) (ty : N * N) (i : id) (n : node) (c : id) (cn : node) (tc : N * N) (ixs : list N),
  Typed RT w ->
  Vis RT w f v ty i -> w_nodes w i = Some n -> In (CElem c) (n_content n) -> w_nodes w c = Some cn -> in_file f cn = true ->
  (find_sub_element RT ty (n_name cn) v = Val (Some (tc, ixs)) \/ find_sub_element RT ty (n_name cn) U32MAX = Val (Some (tc, ixs))) ->
  exists m, get_sub_element_version_mask RT (n_type n) ixs = Val (Some m).
Proof. exact mask_lookup_some_real. Qed.

(* [U] what find_sub_element returns is an entry of the listing sub_element_spec_iter drains (same name, that type) *)
Theorem C17_lookup_listed : forall (T : tables) (fuel : nat) (ty name ver : N) (et : N * N) (ixs : list N) (items : list Spec.SpecProofs.sub_item),
  find_sub T fuel ty name ver = Val (Some (et, ixs)) -> list_sub T fuel ty = Val items ->
  exists it, In it items /\ Spec.SpecProofs.it_name it = name /\ Spec.SpecProofs.it_type it = et.
Proof. exact find_sub_listed. Qed.

(* ================= the link to strict loading through the C01 theorems (no RoundTrip hypothesis) =================
   file_tree T w f v t        t is the per-file projection of the heap as an element tree, RETYPED top-down for the target version v
   relabelled_tree .. t'      t' = that projection after ArxmlFile::serialize's rewrite of the root's xsi:schemaLocation for v
                              (Xml/Serializer.set_version); the text serialize_file v sa t is xml_header sa ++ ser_elem t'
   rootrestb .. v t' = true   DECIDABLE side condition (Tree/CompatBridge.v): everything Xml/RoundTripCanonb.rootcanonb demands of a
                              canonical root (names, value spelling and patterns, required attributes, shape, choice conflicts,
                              multiplicities, SHORT-NAME where v wants one, header attributes) EXCEPT the version-mask tests of
                              attributes and enumeration values, which are taken for `all versions` - those are what ValidIn adds
   loads_strictly .. v t'     the serialization of t' (with any standalone flag) loads with strict = true, without warnings, as
                              version v, back to t'  (C01_file_roundtrip + C01_rootcanonb_sound) *)

(* [U] content valid in v + the side condition: the relabelled projection loads strictly as v *)
Theorem C17_valid_loads : forall (T : tables) (tab_el tab_at tab_en : nametab) (check_fn : N -> list N -> res bool)
    (float_fmt : N -> list N) (float_parse : list N -> option N) (w : world) (f v : N) (t' : Xml.Parser.etree),
  relabelled_tree T tab_at check_fn w f v t' -> ValidIn T w f v ->
  rootrestb T tab_el tab_at tab_en check_fn float_fmt float_parse v t' = true ->
  loads_strictly T tab_el tab_at tab_en check_fn float_fmt float_parse v t'.
Proof. exact valid_loads. Qed.

(* [U] a clean check implies it (outside the K classes) *)
Theorem C17_clean_loads : forall (T : tables) (tab_el tab_at tab_en : nametab) (check_fn : N -> list N -> res bool)
    (float_fmt : N -> list N) (float_parse : list N -> option N) (w : world) (f v : N)
    (errs : list compat_err) (mask : N) (t' : Xml.Parser.etree),
  NoKnown T w f v -> f_check T w f v = Val (errs, mask) -> errs = [] ->
  relabelled_tree T tab_at check_fn w f v t' -> rootrestb T tab_el tab_at tab_en check_fn float_fmt float_parse v t' = true ->
  loads_strictly T tab_el tab_at tab_en check_fn float_fmt float_parse v t'.
Proof. exact clean_loads. Qed.

(* [U] after a successful set_version the file as ArxmlFile::serialize writes it loads strictly as the new version *)
Theorem C17_set_version_loads : forall (T : tables) (tab_el tab_at tab_en : nametab) (check_fn : N -> list N -> res bool)
    (float_fmt : N -> list N) (float_parse : list N -> option N) (w : world) (f v : N) (w' : world) (t' : Xml.Parser.etree),
  f_set_version T f v w = Val (OK tt, w') -> NoKnown T w f v ->
  relabelled_tree T tab_at check_fn w' f v t' -> rootrestb T tab_el tab_at tab_en check_fn float_fmt float_parse v t' = true ->
  loads_strictly T tab_el tab_at tab_en check_fn float_fmt float_parse v t'.
Proof. exact set_version_loads. Qed.

(* [U over worlds, F over the tables] the same on the real tables for typed worlds, without K hypotheses *)
Theorem C17_clean_loads_real : forall (tab_el tab_at tab_en : nametab) (check_fn : N -> list N -> res bool)
    (float_fmt : N -> list N) (float_parse : list N -> option N) (w : world) (f v : N)
    (errs : list compat_err) (mask : N) (t' : Xml.Parser.etree),
  Typed RT w -> RootOk w f -> f_check RT w f v = Val (errs, mask) -> errs = [] ->
  relabelled_tree RT tab_at check_fn w f v t' -> rootrestb RT tab_el tab_at tab_en check_fn float_fmt float_parse v t' = true ->
  loads_strictly RT tab_el tab_at tab_en check_fn float_fmt float_parse v t'.
Proof. exact clean_loads_real. Qed.
Theorem C17_set_version_loads_real : forall (tab_el tab_at tab_en : nametab) (check_fn : N -> list N -> res bool)
    (float_fmt : N -> list N) (float_parse : list N -> option N) (w : world) (f v : N) (w' : world) (t' : Xml.Parser.etree),
  Typed RT w -> RootOk w f -> f_set_version RT f v w = Val (OK tt, w') ->
  relabelled_tree RT tab_at check_fn w' f v t' -> rootrestb RT tab_el tab_at tab_en check_fn float_fmt float_parse v t' = true ->
  loads_strictly RT tab_el tab_at tab_en check_fn float_fmt float_parse v t'.
Proof. exact set_version_loads_real. Qed.

(* [U] completeness on the tree: a projection that is a canonical root for v (root attributes allowed in v) has a clean check *)
Theorem C17_canonical_clean : forall (T : tables) (tab_el tab_at tab_en : nametab) (check_fn : N -> list N -> res bool)
    (float_fmt : N -> list N) (float_parse : list N -> option N) (w : world) (f v : N) (t : Xml.Parser.etree)
    (errs : list compat_err) (mask : N),
  NoKnown T w f v -> f_check T w f v = Val (errs, mask) ->
  file_tree T w f v t -> Xml.RoundTripCanonb.rootcanonb T tab_el tab_at tab_en check_fn float_fmt float_parse v t = true ->
  (forall r ty n, root_of w f r ty -> w_nodes w r = Some n -> Forall (CompatSpec.attr_valid T v ty) (n_attrs n)) ->
  errs = [].
Proof. exact canonical_clean. Qed.

(* [U] the text in question is the one ArxmlFile::serialize produces from the projection *)
Theorem C17_relabelled_text : forall (T : tables) (tab_el tab_at tab_en : nametab) (check_fn : N -> list N -> res bool)
    (float_fmt : N -> list N) (w : world) (f v : N) (t' : Xml.Parser.etree) (body : list N) (sa : option bool),
  relabelled_tree T tab_at check_fn w f v t' -> Xml.Serializer.ser_elem T tab_el tab_at tab_en float_fmt t' 0 false = Val body ->
  exists t, file_tree T w f v t /\
    Xml.Serializer.serialize_file T tab_el tab_at tab_en check_fn float_fmt v sa t = Val (Xml.Serializer.xml_header sa ++ body).
Proof. exact relabelled_text. Qed.

(* ================= where the world invariant comes from =================
   Core (Tree/Inv.v) is C03's structural invariant (parent links and child lists agree, roots hang on their models), preserved by
   every operation (C03).  TypedT T w: every element's stored DATATYPE is the one its parent's stored type lists for its name in
   some version set within u32. *)
(* [U] Core gives the parent-link half of Typed and RootOk *)
Theorem C17_typed_of_core : forall (T : tables) (w : world), Inv.Core w -> TypedT T w -> Typed T w.
Proof. exact typed_of_core. Qed.
Theorem C17_rootok_of_core : forall (w : world) (f : N), Inv.Core w -> RootOk w f.
Proof. exact rootok_of_core. Qed.

(* [U] element creation (the common core of create_sub_element, create_sub_element_at, get_or_create_sub_element) keeps TypedT when
   it is called with a version within u32.  (move_element_here / create_copied_sub_element keep the stored type of the moved /
   copied element and check only that the destination lists its NAME: not covered, C07's subject) *)
Theorem C17_create_keeps_typed : forall (T : tables) (self name pos version : N) (w : world) (r : out id) (w' : world),
  Inv.Core w -> TypedT T w -> N.land version U32MAX = version ->
  create_sub_element_inner T self name pos version w = Val (r, w') -> TypedT T w'.
Proof. exact create_inner_typed. Qed.

(* [U over worlds, F over the tables] exactness on the real tables from C03's invariant and typed stored datatypes *)
Theorem C17_exact_real_core : forall (w : world) (f v : N) (r : cres),
  Inv.Core w -> TypedT RT w -> f_check RT w f v = Val r -> (fst r = [] <-> ValidIn RT w f v).
Proof. exact f_check_exact_real_core. Qed.

(* ================= the invariant over ALL histories of the operation alphabet (no hypothesis about the world) =================
   okpair T tp nm tc  : the type tp lists the name nm, for some version set, with a type whose DATATYPE is that of tc
   TypedU T w         : every listed sub-element is an okpair with its lister
   MaskOK T           : every version mask of the tables lies within u32 (replaces the `within u32` clause of TypedT)
   attach_ok T w h c  : the SIDE CONDITION of move_element_here(_at) h c / create_copied_sub_element(_at) h c:
                        the destination's type lists the element's name with the element's stored datatype.  Without it the
                        element keeps its stored type although the destination lists another one (C07 known class
                        copy-keeps-source-type; the same holds for move): the document does not load strictly in its own version
   op_ok / ok_ops     : attach_ok for the four attaching operations of a history (at the state where they run), True for the rest *)

(* [U] TypedU + Core exclude the K classes on tables with PairOK and MaskOK: exactness *)
Theorem C17_exact_u : forall (T : tables) (w : world) (f v : N),
  PairOK T -> MaskOK T -> Inv.Core w -> TypedU T w ->
  forall r : cres, f_check T w f v = Val r -> (fst r = [] <-> ValidIn T w f v).
Proof. exact f_check_exact_u. Qed.

(* [U] every operation of the alphabet (26 constructors: create, named create, copy, move, remove, rename, character data,
   attributes, references, comments, get_or_create, new model, files, file membership) keeps Core /\ TypedU, whatever it returns,
   given the side condition for move / copy *)
Theorem C17_typed_step : forall (T : tables) (tab_el tab_en : nametab) (check_fn : N -> list N -> res bool) (LATEST : N)
    (root_attrs : list (N * cdata)) (o : Script.op) (w : world) (r : out Script.value) (w' : world),
  Inv.Core w -> TypedU T w -> op_ok T w o ->
  Inv.run T tab_el tab_en check_fn LATEST root_attrs o w = Val (r, w') -> Inv.Core w' /\ TypedU T w'.
Proof. exact typed_step. Qed.

(* [U] all histories from the empty world *)
Theorem C17_typed_histories : forall (T : tables) (tab_el tab_en : nametab) (check_fn : N -> list N -> res bool) (LATEST : N)
    (root_attrs : list (N * cdata)) (l : list Script.op) (w' : world),
  ok_ops T tab_el tab_en check_fn LATEST root_attrs l Inv.empty_world ->
  Inv.run_ops T tab_el tab_en check_fn LATEST root_attrs l Inv.empty_world = Val w' -> Inv.Core w' /\ TypedU T w'.
Proof. exact typed_histories. Qed.

(* [F] the regenerated real tables have all masks within u32 *)
Theorem C17_mask_ok_real : MaskOK RT.
Proof. exact MaskOK_real. Qed.

(* [U over histories, F over the tables] on the real tables the compatibility check is exact after EVERY history of the
   editing API from the empty world whose moves and copies satisfy the side condition - no Typed hypothesis left *)
Theorem C17_exact_histories_real : forall (tab_el tab_en : nametab) (check_fn : N -> list N -> res bool) (LATEST : N)
    (root_attrs : list (N * cdata)) (l : list Script.op) (w : world),
  Inv.run_ops RT tab_el tab_en check_fn LATEST root_attrs l Inv.empty_world = Val w ->
  ok_ops RT tab_el tab_en check_fn LATEST root_attrs l Inv.empty_world ->
  forall (f v : N) (r : cres), f_check RT w f v = Val r -> (fst r = [] <-> ValidIn RT w f v).
Proof. exact exact_histories_real. Qed.

(* [U] PARTIAL over the extended alphabet op2 (Tree/Script2.v): sort, sort of a model, set_version, check_version_compatibility,
   serialize keep Core /\ TypedU.  pending2 = OpLoad (no Core for the loader anywhere; the merge attaches incoming nodes below
   existing parents, which needs the PairOK argument along the merge walk) and OpDuplicate (needs the extra invariant that every
   model root carries the root element type) *)
Theorem C17_typed_step2_partial : forall (T : tables) (tab_el tab_at tab_en : nametab) (check_fn : N -> list N -> res bool)
    (float_parse : list N -> option N) (float_fmt : N -> list N)
    (LATEST name_index name_definition_ref attr_schema_location : N) (root_attrs : list (N * cdata))
    (o : Script2.op2) (w : world) (r : out Script2.value2) (w' : world),
  pending2 o = false -> Inv.Core w -> TypedU T w -> op2_ok T w o ->
  Script2.run_op2 T tab_el tab_at tab_en check_fn float_parse float_fmt LATEST name_index name_definition_ref
    attr_schema_location root_attrs o w = Val (r, w') -> Inv.Core w' /\ TypedU T w'.
Proof. exact typed_step2. Qed.

(* [U over histories, F over the tables] exactness after every op2 history without load / duplicate *)
Theorem C17_exact_histories2_real_partial : forall (tab_el tab_at tab_en : nametab) (check_fn : N -> list N -> res bool)
    (float_parse : list N -> option N) (float_fmt : N -> list N)
    (LATEST name_index name_definition_ref attr_schema_location : N) (root_attrs : list (N * cdata))
    (l : list Script2.op2) (w : world),
  run_ops2 RT tab_el tab_at tab_en check_fn float_parse float_fmt LATEST name_index name_definition_ref attr_schema_location root_attrs l Inv.empty_world = Val w ->
  ok_ops2 RT tab_el tab_at tab_en check_fn float_parse float_fmt LATEST name_index name_definition_ref attr_schema_location root_attrs l Inv.empty_world ->
  forall (f v : N) (r : cres), f_check RT w f v = Val r -> (fst r = [] <-> ValidIn RT w f v).
Proof. exact exact_histories2_real. Qed.

(* ================= the serializer link: the heap serializer writes the text of the projection =================
   SerCond T w f v : for every node strict validation of file f visits: the stored type and the v-type have the same content mode
                     (true whenever their datatypes are equal), a Characters-mode node does not start with a sub-element, and a
                     node with content keeps at least one item in the file (else the heap writes <X>..</X>, the projection <X/>) *)
(* [U] Element::serialize_internal with the file filter = ser_elem of the v-typed projection, on every visited node *)
Theorem C17_ser_heap_is_projection : forall (T : tables) (tab_el tab_at tab_en : nametab) (float_fmt : N -> list N)
    (w : world) (f v : N), SerCond T w f v ->
  forall (fuel : nat) (ty : N * N) (i : id) (t : Xml.Parser.etree) (indent : nat) (inline : bool),
  Vis T w f v ty i -> vproj T w f v fuel ty i = Some t ->
  ser_heap T tab_el tab_at tab_en float_fmt fuel w (Some f) i indent inline =
  Xml.Serializer.ser_elem T tab_el tab_at tab_en float_fmt t indent inline.
Proof. exact ser_heap_vproj. Qed.

(* [U] ArxmlFile::serialize: the returned text is the header plus the serialization of the projection of the world it leaves
   behind (root xsi:schemaLocation rewritten) *)
Theorem C17_file_text_is_projection : forall (T : tables) (tab_el tab_at tab_en : nametab) (check_fn : N -> list N -> res bool)
    (float_fmt : N -> list N) (attr_schema_location : N) (w : world) (f v : N) (text : list N) (w1 : world) (t : Xml.Parser.etree),
  f_serialize T tab_el tab_at tab_en check_fn float_fmt attr_schema_location f w = Val (OK text, w1) ->
  SerCond T w1 f v -> file_tree T w1 f v t ->
  exists fl body, nth_opt (w_files w1) (N.to_nat f) = Some fl /\
    text = Xml.Serializer.xml_header (f_standalone fl) ++ body /\
    Xml.Serializer.ser_elem T tab_el tab_at tab_en float_fmt t 0 false = Val body.
Proof. exact heap_text_is_projection. Qed.

(* [U] end to end for the ACTUAL text: canonical projection (decidable) + SerCond => the text ArxmlFile::serialize returns loads
   strictly as v, silently, back to the projection *)
Theorem C17_file_text_loads : forall (T : tables) (tab_el tab_at tab_en : nametab) (check_fn : N -> list N -> res bool)
    (float_fmt : N -> list N) (float_parse : list N -> option N) (attr_schema_location : N)
    (w : world) (f v : N) (text : list N) (w1 : world) (t : Xml.Parser.etree),
  f_serialize T tab_el tab_at tab_en check_fn float_fmt attr_schema_location f w = Val (OK text, w1) ->
  SerCond T w1 f v -> file_tree T w1 f v t ->
  Xml.RoundTripCanonb.rootcanonb T tab_el tab_at tab_en check_fn float_fmt float_parse v t = true ->
  exists fl st, nth_opt (w_files w1) (N.to_nat f) = Some fl /\
    Xml.Parser.load true T tab_el tab_at tab_en check_fn float_parse text = Val (Xml.Parser.Ret t st) /\
    Xml.Parser.p_warnings st = [] /\ Xml.Parser.p_version st = v /\ Xml.Parser.p_standalone st = f_standalone fl.
Proof. exact heap_text_loads. Qed.

(* ================= the whole alphabet op2: loads (first files AND merges), duplicate =================
   PM T w            : every node whose parent link is a model carries the root element type (with C03's Core: every model root
                       has the root type) - what duplicate needs to attach the copies below the copy's root.
   op3_ok w o        : move / copy: the attach side condition op_ok; OpLoad: outside C03's Known_load (Core for the loader:
                       Known_load_shared = merge partner shared by two elements, Known_load_rejected = rollback of a rejected merge);
                       True for everything else.  NOTHING is pending any more.
   The loaded tree's edges are okpairs by agent-xmlproofs' `linked` (Xml/LoadRecords.v); a merge keeps TypedU by the table fact
   PairOK (parents of a merged pair have rel_ok datatypes all along the walk, imported sub-elements transfer). *)
From AV Require Tree.CompatPM Tree.CompatHist7 Tree.CompatHist9 Tree.CompatHist9b Tree.CompatHist10 Tree.CompatHist11 Tree.CompatHistReal2.
From AV Require Tree.Copy Tree.Load Tree.InvLoad.

(* [U] AutosarModel::duplicate keeps Bounded /\ TypedU /\ PM, whatever it returns *)
Theorem C17_duplicate_keeps_typed : forall (T : tables) (tab_el tab_en : nametab) (check_fn : N -> list N -> res bool)
    (LATEST : N) (root_attrs : list (N * cdata)) (m : N) (w : world) (r : out N) (w' : world),
  Inv.Core w -> Tree.Copy.m_duplicate T tab_el tab_en check_fn LATEST root_attrs m w = Val (r, w') ->
  Tree.CompatHist7.J3 T w -> Tree.CompatHist7.J3 T w'.
Proof. exact Tree.CompatHist7.duplicate_j3. Qed.

(* [U] merge_file_data keeps Bounded /\ TypedU (and is a frame step for PM) when the two roots have the same type, given PairOK *)
Theorem C17_merge_keeps_typed : forall (T : tables) (LATEST name_definition_ref : N), PairOK T ->
  Tree.CompatHist9.merge_ok T LATEST name_definition_ref.
Proof. exact Tree.CompatHist10.merge_ok_of_pairok. Qed.

(* [U] AutosarModel::load_buffer (first file or merge) keeps Bounded /\ TypedU /\ PM, whatever it returns *)
Theorem C17_load_keeps_typed : forall (T : tables) (tab_el tab_at tab_en : nametab) (check_fn : N -> list N -> res bool)
    (float_parse : list N -> option N) (LATEST name_definition_ref : N)
    (m : N) (buffer filename : list N) (strict : bool) (w : world) (r : out (N * list Xml.Parser.perror)) (w' : world),
  Tree.CompatHist9.first_file w m \/ Tree.CompatHist9.merge_ok T LATEST name_definition_ref ->
  Inv.Core w -> Tree.CompatHist7.J3 T w ->
  Tree.Load.m_load_buffer T tab_el tab_at tab_en check_fn float_parse LATEST name_definition_ref m buffer filename strict w = Val (r, w') ->
  Tree.CompatHist7.J3 T w'.
Proof. exact Tree.CompatHist9b.load_buffer_j3. Qed.

(* [U] Core /\ TypedU /\ PM is kept by EVERY op2 step (loads outside Known_load, moves / copies under op_ok), given PairOK *)
Theorem C17_typed_step2 : forall (T : tables) (tab_el tab_at tab_en : nametab) (check_fn : N -> list N -> res bool)
    (float_parse : list N -> option N) (float_fmt : N -> list N)
    (LATEST name_index name_definition_ref attr_schema_location : N) (root_attrs : list (N * cdata)), PairOK T ->
  forall (o : Script2.op2) (w : world) (r : out Script2.value2) (w' : world),
  Tree.CompatHist11.op3_ok T tab_el tab_at tab_en check_fn float_parse float_fmt LATEST name_index name_definition_ref
    attr_schema_location root_attrs w o ->
  Tree.CompatHist11.J T w ->
  Script2.run_op2 T tab_el tab_at tab_en check_fn float_parse float_fmt LATEST name_index name_definition_ref
    attr_schema_location root_attrs o w = Val (r, w') ->
  Tree.CompatHist11.J T w'.
Proof. exact Tree.CompatHist11.typed_step3. Qed.

(* [U] ... hence after every op2 history from the empty world *)
Theorem C17_typed_histories2 : forall (T : tables) (tab_el tab_at tab_en : nametab) (check_fn : N -> list N -> res bool)
    (float_parse : list N -> option N) (float_fmt : N -> list N)
    (LATEST name_index name_definition_ref attr_schema_location : N) (root_attrs : list (N * cdata)), PairOK T ->
  forall (l : list Script2.op2) (w' : world),
  Tree.CompatHist11.ok_ops3 T tab_el tab_at tab_en check_fn float_parse float_fmt LATEST name_index name_definition_ref
    attr_schema_location root_attrs l Inv.empty_world ->
  run_ops2 T tab_el tab_at tab_en check_fn float_parse float_fmt LATEST name_index name_definition_ref attr_schema_location
    root_attrs l Inv.empty_world = Val w' ->
  Tree.CompatHist11.J T w'.
Proof. exact Tree.CompatHist11.typed_histories3. Qed.

(* [U over histories, F over the tables] exactness after EVERY op2 history (loads, merges, duplicate included): pending set empty;
   side conditions: op_ok for move / copy (library-confirmed necessary), Known_load for loads (C03's finding classes) *)
Theorem C17_exact_histories2_real : forall (tab_el tab_at tab_en : nametab) (check_fn : N -> list N -> res bool)
    (float_parse : list N -> option N) (float_fmt : N -> list N)
    (LATEST name_index name_definition_ref attr_schema_location : N) (root_attrs : list (N * cdata))
    (l : list Script2.op2) (w : world),
  run_ops2 RT tab_el tab_at tab_en check_fn float_parse float_fmt LATEST name_index name_definition_ref attr_schema_location root_attrs l Inv.empty_world = Val w ->
  Tree.CompatHist11.ok_ops3 RT tab_el tab_at tab_en check_fn float_parse float_fmt LATEST name_index name_definition_ref
    attr_schema_location root_attrs l Inv.empty_world ->
  forall (f v : N) (r : cres), f_check RT w f v = Val r -> (fst r = [] <-> ValidIn RT w f v).
Proof. exact Tree.CompatHistReal2.exact_histories3_real. Qed.

(* the same for one more step from any world satisfying the invariant *)
Theorem C17_exact_step2_real : forall (tab_el tab_at tab_en : nametab) (check_fn : N -> list N -> res bool)
    (float_parse : list N -> option N) (float_fmt : N -> list N)
    (LATEST name_index name_definition_ref attr_schema_location : N) (root_attrs : list (N * cdata))
    (o : Script2.op2) (w : world) (r0 : out Script2.value2) (w' : world),
  Tree.CompatHist11.op3_ok RT tab_el tab_at tab_en check_fn float_parse float_fmt LATEST name_index name_definition_ref
    attr_schema_location root_attrs w o ->
  Tree.CompatHist11.J RT w ->
  Script2.run_op2 RT tab_el tab_at tab_en check_fn float_parse float_fmt LATEST name_index name_definition_ref
    attr_schema_location root_attrs o w = Val (r0, w') ->
  forall (f v : N) (r : cres), f_check RT w' f v = Val r -> (fst r = [] <-> ValidIn RT w' f v).
Proof. exact Tree.CompatHistReal2.exact_step3_real. Qed.

(* [F] non-vacuity of C17_exact_histories2_real on the real tables: new model; strict load of a first file (package Pkg with a
   SYSTEM); strict load of a second file that MERGES (AR-PACKAGES / Pkg / ELEMENTS merged, an ECU-INSTANCE and a package Q imported);
   duplicate.  Both loads lie outside Known_load, all four steps succeed (file ids 0 and 1, model 1; 2 models, 4 files) *)
From AV Require Tree.CompatHistReal3.
Theorem C17_histories2_example :
  Tree.CompatHistReal3.rv2 = OK (Script2.VLoad 0 []) /\ Tree.CompatHistReal3.rv3 = OK (Script2.VLoad 1 []) /\
  Tree.CompatHistReal3.rv4 = OK (Script2.V1 (Script.VModel 1)) /\
  List.length (w_models Tree.CompatHistReal3.st4) = 2%nat /\ List.length (w_files Tree.CompatHistReal3.st4) = 4%nat.
Proof. exact Tree.CompatHistReal3.ex3_results. Qed.
Theorem C17_histories2_example_exact :
  run_ops2 RT Hash.HashRealElement.tab_element Hash.HashRealAttr.tab_attr Hash.HashRealEnum.tab_enum Xml.ParserExamples.accept_all
    Xml.ParserExamples.no_float Xml.RoundTripExamples.no_float_fmt 1048576 Tree.CompatHistReal3.c_index Tree.CompatHistReal3.c_defref
    Tree.CompatHistReal3.c_schema []
    [Tree.CompatHistReal3.o1; Tree.CompatHistReal3.o2; Tree.CompatHistReal3.o3; Tree.CompatHistReal3.o4] Inv.empty_world
  = Val Tree.CompatHistReal3.st4 /\
  Tree.CompatHist11.ok_ops3 RT Hash.HashRealElement.tab_element Hash.HashRealAttr.tab_attr Hash.HashRealEnum.tab_enum
    Xml.ParserExamples.accept_all Xml.ParserExamples.no_float Xml.RoundTripExamples.no_float_fmt 1048576 Tree.CompatHistReal3.c_index
    Tree.CompatHistReal3.c_defref Tree.CompatHistReal3.c_schema []
    [Tree.CompatHistReal3.o1; Tree.CompatHistReal3.o2; Tree.CompatHistReal3.o3; Tree.CompatHistReal3.o4] Inv.empty_world /\
  forall (f v : N) (r : cres), f_check RT Tree.CompatHistReal3.st4 f v = Val r ->
    (fst r = [] <-> ValidIn RT Tree.CompatHistReal3.st4 f v).
Proof. exact Tree.CompatHistReal3.hist3_real_example. Qed.

(* ================= the value half: CharacterData::check_version_compatibility against CharacterData::check_value =================
   For a value that fits its specification in SOME version (every value the library stores passed check_value of its stored type)
   the compatibility verdict for the target IS check_value for the target - item masks for enumerations; the pattern validator
   and the length bound `len <= max_length` do not depend on the version.  (When the target type's specification differs from the
   stored type's the premise is about another spec: known finding C17-value-revalidation.) *)
From AV Require Tree.CompatValue.
(* [U] compatible with v exactly when check_value accepts the value for v *)
Theorem C17_value_compat_is_check_value : forall (check_fn : N -> list N -> res bool) (d : cdata) (spec : Spec.SpecTypes.cdspec) (u v : N),
  check_value check_fn d spec u = Val true ->
  (value_valid v d spec <-> check_value check_fn d spec v = Val true).
Proof. exact Tree.CompatValue.value_valid_check. Qed.
(* [U] the returned mask contains the target exactly for an accepted value *)
Theorem C17_value_mask_is_check_value : forall (check_fn : N -> list N -> res bool) (d : cdata) (spec : Spec.SpecTypes.cdspec)
    (u v : N) (ok : bool) (m : N),
  N.land 4294967295 v <> 0 -> check_value check_fn d spec u = Val true -> value_compat d spec v = (ok, m) ->
  (ok = true <-> N.land m v <> 0).
Proof. exact Tree.CompatValue.value_compat_mask_check. Qed.
(* [U] element text: no error is pushed exactly when every text item passes check_value for the target *)
Theorem C17_text_is_check_value : forall (check_fn : N -> list N -> res bool) (self : id) (spec : Spec.SpecTypes.cdspec) (v : N)
    (items : list citem) (errs : list compat_err) (m : N),
  (forall d, In (CData d) items -> exists u, check_value check_fn d spec u = Val true) ->
  text_loop self spec v items = (errs, m) ->
  (errs = [] <-> forall d, In (CData d) items -> check_value check_fn d spec v = Val true).
Proof. exact Tree.CompatValue.text_loop_check. Qed.
(* the length bound: exactly max_length bytes is accepted and compatible; one byte more fits no version, and the verdict alone
   still says compatible - the premise above is needed *)
Theorem C17_value_length_bound_example : forall (check_fn : N -> list N -> res bool),
  (check_value check_fn (DString [65; 66; 67]) (Spec.SpecTypes.CString false (Some 3)) 1 = Val true /\
   value_valid 2 (DString [65; 66; 67]) (Spec.SpecTypes.CString false (Some 3))) /\
  ((forall u, check_value check_fn (DString [65; 66; 67; 68]) (Spec.SpecTypes.CString false (Some 3)) u = Val false) /\
   value_valid 2 (DString [65; 66; 67; 68]) (Spec.SpecTypes.CString false (Some 3))).
Proof. exact Tree.CompatValue.length_bound_example. Qed.
