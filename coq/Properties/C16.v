(* Properties/C16.v — Concurrent operations are serializable.
   Model: Conc/TwoPhase.v — the lock traces extended with data accesses on the locked objects (objects = their lock, shared
   store lock -> N, private read log per thread; writes compute from the private log).
   Criteria: [two_phase] (no acquisition after the first release), [well_locked] (reads under a lock, writes under the write
   lock), [dbalanced].
   All theorems [U]: any number of transactions, any interleaving, any length.
   C16_two_phase_serializable   every complete interleaved execution has the final store and the per-thread read logs (hence
                                results) of running the transactions one after the other in SOME order.
   C16_bail_ok                  a transaction that gives up after a prefix (failed timed try: drops all guards) again meets the
                                criteria, so the theorem covers executions with ParentElementLocked bail-outs;
   C16_bail_before_write_no_effect   ... and if the prefix contains no write it has no effect on the store.
   C16_guard_traces_well_locked the data trace derived from a lock trace (every guard read, write guards written) is
                                well-locked — the modelling assumption "data is only touched through the guard" made explicit.
   UNIVERSAL part: C16_serializable_footprint_classes — for EVERY world (no invariant needed) and any number of concurrent calls of the
   one-section classes (two_phase_class = true: parent / element_name / element_type / character_data / attribute_value / comment /
   iterator steps, remove_attribute / set_comment / insert+remove_character_content_item, get_element_by_path / get_references_to /
   root_element, ArxmlFile::version / filename / xml_standalone / model, item_name, is_identifiable) whose lock trace is the footprint
   FUNCTION of Conc/Footprint.v (tied to the implementation event by event on every run), every complete interleaving is serial.
   [P]artial tie: two_phase is evaluated by vm_compute on the traces produced by the implementation through hook H2; operation
   classes whose traces are not two-phase are NOT claimed serializable (most multi-step operations: see the check's evidence);
   concrete non-serializable interleavings found by the scheduler are recorded findings. *)
From Coq Require Import List NArith Bool Arith Permutation.
From AV Require Import Tree.Heap Conc.RwLock Conc.TwoPhase Conc.Eval Conc.EvalProofs Conc.Footprint Conc.FootprintProofs.
Import ListNotations.

Theorem C16_two_phase_serializable : forall (ts : list (list dev)) (st0 : store),
    Forall (fun t => two_phase t = true /\ well_locked t = true /\ dbalanced t = true) ts ->
    forall c, dreachable (dinit ts st0) c -> d_all_finished c ->
    exists order : list nat,
      Permutation order (seq 0 (length ts)) /\
      (forall l, cstore c l = fst (serial ts order st0) l) /\
      (forall t th, nth_error (cthreads c) t = Some th ->
                    In (t, dlog th) (snd (serial ts order st0))).
Proof. exact two_phase_serializable. Qed.

Theorem C16_bail_ok : forall p q,
    two_phase (p ++ q) = true /\ well_locked (p ++ q) = true /\ dbalanced (p ++ q) = true ->
    two_phase (bail p) = true /\ well_locked (bail p) = true /\ dbalanced (bail p) = true.
Proof. exact bail_ok. Qed.

Theorem C16_bail_before_write_no_effect : forall p st lg,
    no_write p = true -> fst (exec_txn (bail p) st lg) = st.
Proof. exact bail_before_write_no_effect. Qed.

Theorem C16_guard_traces_well_locked : forall t, well_locked (to_dev t) = true.
Proof. exact to_dev_well_locked. Qed.

Theorem C16_serializable_footprint_classes : forall cf fuel w (os : list lop) (st0 : store),
    Forall (fun o => two_phase_class o = true) os ->
    forall c, dreachable (dinit (map (fun o => to_dev (lock_trace cf fuel o w)) os) st0) c -> d_all_finished c ->
    exists order : list nat,
      Permutation order (seq 0 (length os)) /\
      (forall l, cstore c l = fst (serial (map (fun o => to_dev (lock_trace cf fuel o w)) os) order st0) l) /\
      (forall t th, nth_error (cthreads c) t = Some th ->
                    In (t, dlog th) (snd (serial (map (fun o => to_dev (lock_trace cf fuel o w)) os) order st0))).
Proof. exact serializable_footprint_classes. Qed.
