(* Properties/C02.v — The loader is total.
   Model: Xml/Lexer.v, Xml/Parser.v.  Proofs: Xml/LexerProofs.v, Xml/ParserProofs.v. *)
From AV Require Import Base.Bytes Base.Outcome Xml.Lexer Xml.LexerProofs.

(* [U] the attribute scan of the xml header never panics (fix d17bf18) *)
Theorem C02_header_attrs_total :
  forall pieces ver enc sa, exists v e s, header_attrs pieces ver enc sa = Val (v, e, s).
Proof. exact header_attrs_total. Qed.
