(* Properties/C02.v — The loader is total.
   Model: Xml/Lexer.v, Xml/Parser.v.  Proofs: Xml/LexerProofs.v, Xml/ParserProofs.v. *)
From AV Require Import Base.Bytes Base.Outcome Hash.HashModel Spec.SpecOps Xml.Lexer Xml.Parser Xml.LexerProofs Xml.TablesOk Xml.ParserProofs Xml.ParserCheck Xml.ParserDepth Xml.ParserExamples.
From AV Require Import Spec.SpecReal Hash.HashRealElement Hash.HashRealAttr Hash.HashRealEnum.
Open Scope list_scope.

(* [U] the attribute scan of the xml header never panics (fix d17bf18) *)
Theorem C02_header_attrs_total :
  forall pieces ver enc sa, exists v e s, header_attrs pieces ver enc sa = Val (v, e, s).
Proof. exact header_attrs_total. Qed.

(* [U] C02_lexer_total: on every input `bs` and in every state `st` the lexer can reach on it (lex_reach: the initial
   state, closed under successful `next` steps), `next st` (fuel lex_fuel st = remaining length + 1) is neither a panic
   nor out of fuel; a token step consumes a prefix of the remaining input, the line counter is monotone and grows by at
   most the line feeds consumed; every step that is not EndOfFile strictly decreases the measure
   |remaining input| + [a deferred end tag is pending]; every reported line — token or error — lies in
   [1, 1 + number of LF bytes of the input]. *)
Theorem C02_lexer_total : forall (bs : list N) (st : lstate), lex_reach bs st ->
  match next st with
  | Val (LOk line ev st') =>
      (1 <= line <= 1 + count_lines bs)%N /\ (l_line st <= line <= l_line st')%N /\
      (exists consumed, l_rest st = consumed ++ l_rest st' /\ (l_line st' <= l_line st + count_lines consumed)%N) /\
      match ev with
      | EvEOF => l_rest st' = [] /\ l_deferred st' = None
      | _ => (List.length (l_rest st') + match l_deferred st' with Some _ => 1 | None => 0 end
              < List.length (l_rest st) + match l_deferred st with Some _ => 1 | None => 0 end)%nat
      end
  | Val (LErr line e) => (1 <= line <= 1 + count_lines bs)%N
  | Pan _ => False
  | Fuel => False
  end.
Proof. exact lexer_total_full. Qed.

(* Hypotheses of the loader theorems (ParserProofs.loader_hyps), all but the last as BOOLEAN checkers:
     tables_ok T            Xml/TablesOk.v: slices in range, entries present, group nesting below SpecOps.FUEL, a
                            Characters type has no sub-elements, element definitions and the root exist
                            (tables_ok RT = true for the regenerated tables: Xml/TablesOkReal.v);
     nametab_ok t           the perfect-hash tables are as long as their moduli, moduli non-zero;
     attr_names_ok tab_at   the three header attribute names are in the attribute table;
     the validator of every pattern the tables mention returns a value on byte input (C19_n, part 3).
   Nothing is assumed about float_parse (the model of str::parse::<f64>). *)

(* [U] C02_load_total: for every byte string and both modes, `load` (fuel |bs|+1 for the recursion and for every
   loop) is neither a panic nor out of fuel: it returns a tree or an error value. *)
Theorem C02_load_total :
  forall (strict : bool) (T : tables) (tab_el tab_at tab_en : nametab) (check_fn : N -> list N -> res bool)
         (float_parse : list N -> option N) (bs : list N),
  loader_hyps T tab_el tab_at tab_en check_fn -> bytes_ok bs = true ->
  exists r, load strict T tab_el tab_at tab_en check_fn float_parse bs = Val r.
Proof. exact load_total_closed. Qed.

(* [U] C02_line_bounds: every lexer error, parser error and warning names a line in [1, 1 + number of LF bytes]. *)
Theorem C02_line_bounds :
  forall (strict : bool) (T : tables) (tab_el tab_at tab_en : nametab) (check_fn : N -> list N -> res bool)
         (float_parse : list N -> option N) (bs : list N),
  loader_hyps T tab_el tab_at tab_en check_fn -> bytes_ok bs = true ->
  forall r, load strict T tab_el tab_at tab_en check_fn float_parse bs = Val r ->
  let in_range := fun e => match e with
                           | ErrLex line _ => (1 <= line <= 1 + count_lines bs)%N
                           | ErrParse line _ _ _ => (1 <= line <= 1 + count_lines bs)%N
                           end in
  match r with
  | Ret _ st => Forall in_range (p_warnings st)
  | Raise e st => in_range e /\ Forall in_range (p_warnings st)
  end.
Proof. exact load_line_bounds. Qed.

(* [U] the header check (check_buffer = check_arxml_header in lenient mode; stated for both modes) is total as well *)
Theorem C02_check_total :
  forall (strict : bool) (T : tables) (tab_el tab_at tab_en : nametab) (check_fn : N -> list N -> res bool)
         (float_parse : list N -> option N) (bs : list N),
  loader_hyps T tab_el tab_at tab_en check_fn -> bytes_ok bs = true ->
  exists b, check_arxml_header strict T tab_el tab_at tab_en check_fn float_parse bs = Val b.
Proof. exact check_total_closed. Qed.

(* [U] C02_check_accepts: the header check (lenient, as check_buffer runs it) accepts every buffer that loading
   accepts, in either mode.  For every table set; no hypothesis. *)
Theorem C02_check_accepts :
  forall (strict : bool) (T : tables) (tab_el tab_at tab_en : nametab) (check_fn : N -> list N -> res bool)
         (float_parse : list N -> option N) (bs : list N) (t : etree) (st : pstate),
  load strict T tab_el tab_at tab_en check_fn float_parse bs = Val (Ret t st) ->
  check_arxml_header false T tab_el tab_at tab_en check_fn float_parse bs = Val true.
Proof. exact load_check_accepts. Qed.

(* [U] C02_depth: parse_element spends one unit of its first fuel per recursion level (the event loops have the
   second fuel).  If a run returns the tree t, then the same run with ANY recursion fuel >= depth t returns the same
   tree and state, and with any recursion fuel < depth t it ends in `Fuel`: the recursion depth used is exactly the
   element nesting depth (ParserDepth.depth: 1 + the maximum over the child elements) of the produced tree.
   For every table set; no hypothesis. *)
Theorem C02_depth :
  forall (strict : bool) (T : tables) (tab_el tab_at tab_en : nametab) (check_fn : N -> list N -> res bool)
         (float_parse : list N -> option N) (fuel lfuel : nat) (name : N) (ty : etype) (attrs : list (N * cdata))
         (comment : option (list N)) (path : list N) (pos : list nat) (st : pstate) (t : etree) (st' : pstate),
  parse_element strict T tab_el tab_at tab_en check_fn float_parse fuel lfuel name ty attrs comment path pos st
    = Val (Ret t st') ->
  forall fuel' : nat,
    ((depth t <= fuel')%nat ->
     parse_element strict T tab_el tab_at tab_en check_fn float_parse fuel' lfuel name ty attrs comment path pos st
       = Val (Ret t st')) /\
    ((fuel' < depth t)%nat ->
     parse_element strict T tab_el tab_at tab_en check_fn float_parse fuel' lfuel name ty attrs comment path pos st
       = Fuel).
Proof. exact parse_element_depth. Qed.

(* [U] and for a whole load: the nesting depth of a loaded tree is at most |bs| + 1 (the recursion fuel of the root call) *)
Theorem C02_depth_load :
  forall (strict : bool) (T : tables) (tab_el tab_at tab_en : nametab) (check_fn : N -> list N -> res bool)
         (float_parse : list N -> option N) (bs : list N) (t : etree) (st : pstate),
  load strict T tab_el tab_at tab_en check_fn float_parse bs = Val (Ret t st) -> (depth t <= S (List.length bs))%nat.
Proof. exact load_depth. Qed.

(* [F] the boolean hypotheses hold for the regenerated tables (Spec/SpecReal.v over Gen/SpecTables.v, the three
   regenerated name tables); evaluated by vm_compute on every run.  accept_all stands for any validator family that
   returns a value (for the real validators that is C19_n part 3). *)
Theorem C02_real_tables_ok : loader_hyps RT tab_element tab_attr tab_enum accept_all.
Proof. exact real_loader_hyps. Qed.
