(* Properties/C02.v — The loader is total.
   Model: Xml/Lexer.v, Xml/Parser.v.  Proofs: Xml/LexerProofs.v, Xml/ParserProofs.v. *)
From AV Require Import Base.Bytes Base.Outcome Xml.Lexer Xml.LexerProofs.

(* [U] the attribute scan of the xml header never panics (fix d17bf18) *)
Theorem C02_header_attrs_total :
  forall pieces ver enc sa, exists v e s, header_attrs pieces ver enc sa = Val (v, e, s).
Proof. exact header_attrs_total. Qed.

(* [U] C02_lexer_total: on every input `bs` and in every state `st` the lexer can reach on it (lex_reach: the initial
   state, closed under successful `next` steps), `next st` (fuel lex_fuel st = remaining length + 1) is neither a panic
   nor out of fuel; a token step consumes a prefix of the remaining input, the line counter is monotone and grows by at
   most the line feeds consumed; every step that is not EndOfFile strictly decreases the measure
   |remaining input| + [a deferred end tag is pending]; every reported line — token or error — lies in
   [1, 1 + number of LF bytes of the input]. *)
Theorem C02_lexer_total : forall (bs : list N) (st : lstate), lex_reach bs st ->
  match next st with
  | Val (LOk line ev st') =>
      (1 <= line <= 1 + count_lines bs)%N /\ (l_line st <= line <= l_line st')%N /\
      (exists consumed, l_rest st = consumed ++ l_rest st' /\ (l_line st' <= l_line st + count_lines consumed)%N) /\
      match ev with
      | EvEOF => l_rest st' = [] /\ l_deferred st' = None
      | _ => (List.length (l_rest st') + match l_deferred st' with Some _ => 1 | None => 0 end
              < List.length (l_rest st) + match l_deferred st with Some _ => 1 | None => 0 end)%nat
      end
  | Val (LErr line e) => (1 <= line <= 1 + count_lines bs)%N
  | Pan _ => False
  | Fuel => False
  end.
Proof. exact lexer_total_full. Qed.
