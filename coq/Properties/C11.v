(* Properties/C11.v — Failed operations have no effect (the part over the operation alphabet `op` of Tree/Script.v;
   the load / merge part of the property belongs to the loader model).
   Model: Tree/Heap.v, Ops.v, Script.v.  Definitions: Tree/Observe.v (observe, obs_eq, obs_eq_upto_garbage),
   Tree/Fail.v (Known11 classes, tables_ok11).  Proofs: Tree/FailProofs*.v.  Witnesses: Tree/FailWitness.v.
   Every statement is for EVERY table set satisfying tables_ok11, every name table, validator function and version
   constant, and EVERY world satisfying C03's Core invariant (all worlds reachable from the empty world do:
   Tree/InvProofs.v Core_reachable).  All 26 constructors of `op` are covered; none is pending.

   Findings (the literal property fails there; replay scripts in the report / Tree/FailWitness.v):
     K11_move_noname    move_element_here[_at] of an element with a SHORT-NAME without text: make_unique_item_name
                        fails (ElementNotIdentifiable) after the element was unlinked and re-parented.
     K11_move_refwrite  move_element_here[_at]: rewriting a referrer fails (IncorrectContentType) after the element was
                        unlinked, re-parented, the path index re-keyed and the referrer list taken out of the map.
     K11_setref         set_reference_target: DEST and the referrer map are updated before the text write that fails. *)
From AV Require Import Base.Bytes Base.Outcome Hash.HashModel Tree.Heap Tree.Ops Tree.Script Tree.Inv Tree.InvProofs
  Tree.Index Tree.Observe Tree.Fail Tree.FailProofs Tree.FailProofsInv Tree.FailWitness Tree.FailTables Tree.FailRepair Spec.SpecReal.
From AV Require Import Tree.Sort Tree.Copy Tree.Load Tree.Compat Tree.Serialize Tree.Script2 Tree.Fail2 Tree.FailProofsOp2.
From AV Require Xml.Parser.
Open Scope list_scope.
Open Scope N_scope.

(* [U] a call that returns an error and is not in a Known11 class leaves every node that existed, the files and the
   models (roots, file lists, path index, referrer map) exactly as they were; at most fresh ids were allocated *)
Theorem C11_fail_no_effect :
  forall (T : tables) (tab_el tab_en : nametab) (check_fn : N -> list N -> res bool) (LATEST : N)
         (root_attrs : list (N * cdata)),
  tables_ok11 T ->
  forall (w : world) (o : op) (e : err) (w' : world),
  Core w ->
  Known11 T tab_el tab_en check_fn LATEST root_attrs w o = false ->
  run_op T tab_el tab_en check_fn LATEST root_attrs o w = Val (ER e, w') ->
  obs_eq_upto_garbage w w'.
Proof. exact fail_no_effect_core. Qed.

(* [U] ... and unless the call is create_copied_sub_element[_at] the world is literally the same, so the whole
   observation is *)
Theorem C11_fail_exact :
  forall (T : tables) (tab_el tab_en : nametab) (check_fn : N -> list N -> res bool) (LATEST : N)
         (root_attrs : list (N * cdata)),
  tables_ok11 T ->
  forall (w : world) (o : op) (e : err) (w' : world),
  Core w ->
  Known11 T tab_el tab_en check_fn LATEST root_attrs w o = false ->
  is_copy o = false ->
  run_op T tab_el tab_en check_fn LATEST root_attrs o w = Val (ER e, w') ->
  w' = w /\ observe w' = observe w.
Proof. exact fail_exact_core. Qed.

(* [U] what the garbage of a failed copy is: nothing that existed (no model root, no old node) reaches it *)
Theorem C11_garbage_unreachable :
  forall (w w' : world), Core w -> obs_eq_upto_garbage w w' ->
  (forall a x, a < w_next w -> reach_from w' a x -> x < w_next w) /\
  (forall m x, In m (w_models w') -> reach_from w' (m_root m) x -> x < w_next w) /\
  map (w_nodes w') (ids_below (w_next w)) = o_nodes (observe w).
Proof. exact garbage_unreachable_core. Qed.

(* [U] the classes are narrow: a call in a Known11 class is a move that failed with one of two errors after the moved
   element got its new parent link, or a set_reference_target that failed with IncorrectContentType *)
Theorem C11_known_characterised :
  forall (T : tables) (tab_el tab_en : nametab) (check_fn : N -> list N -> res bool) (LATEST : N)
         (root_attrs : list (N * cdata)) (w : world) (o : op),
  Known11 T tab_el tab_en check_fn LATEST root_attrs w o = true ->
  exists e w', run_op T tab_el tab_en check_fn LATEST root_attrs o w = Val (ER e, w') /\
    ((exists h mv, (o = OpMove h mv \/ exists pos, o = OpMoveAt h mv pos) /\
                   (e = ElementNotIdentifiable \/ e = IncorrectContentType) /\
                   parent_link w' mv <> parent_link w mv)
     \/ (exists h t, o = OpSetRefTarget h t /\ e = IncorrectContentType)).
Proof. exact FailProofs.C11_known_characterised. Qed.

(* [F] the table assumption holds for the generated specification tables (all 5080 data types swept by vm_compute) *)
Theorem C11_real_tables_ok : tables_ok11 RT.
Proof. exact real_tables_ok11. Qed.

(* [U] what validate-before-mutate needs for K11_setref: whenever set_reference_target fails late, the text write that
   failed fails in the UNMODIFIED world too, with nothing written - doing it before the DEST / referrer-map update makes
   the call atomic *)
Theorem C11_setref_precheck :
  forall (T : tables) (tab_el tab_en : nametab) (check_fn : N -> list N -> res bool) (LATEST : N)
         (h target : id) (w : world) (e : err) (w' : world),
  e_set_reference_target T tab_el tab_en check_fn LATEST h target w = Val (ER e, w') ->
  w' = w \/
  (e = IncorrectContentType /\
   exists new_ref version,
     path_id T target w = Val (OK new_ref, w) /\ min_version LATEST h w = Val (OK version, w) /\
     raw_set_character_data T check_fn h (DString new_ref) version w = Val (ER IncorrectContentType, w)).
Proof. exact K11_setref_precheck. Qed.

(* findings: the literal statement is refuted in each class (tiny table set, reachable worlds) *)
Theorem C11_move_refwrite_refuted :
  exists l o w e w', run_ops Tiny.tiny Tiny.tiny_el Tiny.tiny_en Tiny.tiny_check_fn Tiny.LATEST [] l empty_world = Val w /\
    Core w /\ Tiny.run o w = Val (ER e, w') /\ ~ obs_eq_upto_garbage w w'.
Proof. exact move_refwrite_refuted. Qed.
Theorem C11_move_noname_refuted :
  exists l o w e w', run_ops Tiny.tiny Tiny.tiny_el Tiny.tiny_en Tiny.tiny_check_fn Tiny.LATEST [] l empty_world = Val w /\
    Core w /\ Tiny.run o w = Val (ER e, w') /\ ~ obs_eq_upto_garbage w w'.
Proof. exact move_noname_refuted. Qed.
Theorem C11_setref_refuted :
  exists l o w e w', run_ops Tiny.tiny Tiny.tiny_el Tiny.tiny_en Tiny.tiny_check_fn Tiny.LATEST [] l empty_world = Val w /\
    Core w /\ Tiny.run o w = Val (ER e, w') /\ ~ obs_eq_upto_garbage w w'.
Proof. exact setref_refuted. Qed.

(* non-vacuity: a failing call outside the classes on a reachable world *)
Theorem C11_nonvacuous :
  exists l o w e w', run_ops Tiny.tiny Tiny.tiny_el Tiny.tiny_en Tiny.tiny_check_fn Tiny.LATEST [] l empty_world = Val w /\
    Core w /\ Tiny.run o w = Val (ER e, w') /\
    Known11 Tiny.tiny Tiny.tiny_el Tiny.tiny_en Tiny.tiny_check_fn Tiny.LATEST [] w o = false.
Proof. exact nonvacuous11. Qed.

(* ====================================================================== the extended alphabet op2 (Tree/Script2.v) *)

(* [U] sort, sort model, duplicate, load, set_version, check_version_compatibility, serialize file / element, and the 26
   operations of `op`: a call that returns an error and is not in a class of Known11_2 (= the three classes of Known11 +
   a load rejected with InvalidFileMerge) leaves every node that existed, the files and the models as they were; the world
   is literally the same unless the call is a copy, duplicate or load (which may leave unreachable fresh ids).
   Uses agent-c14's e_sort_frame / m_sort_frame (sort never returns an error), agent-c13's duplicate_spec, agent-c09's
   load_fail_no_effect; set_version agrees with agent-c17's C17_set_version. *)
Theorem C11_fail_no_effect2 :
  forall (T : tables) (tab_el tab_at tab_en : nametab) (check_fn : N -> list N -> res bool)
         (float_parse : list N -> option N) (float_fmt : N -> list N)
         (LATEST name_index name_definition_ref attr_schema_location : N) (root_attrs : list (N * cdata)),
  tables_ok11 T ->
  forall (w : world) (o : op2) (e : err) (w' : world),
  Core w ->
  Known11_2 T tab_el tab_at tab_en check_fn float_parse float_fmt LATEST name_index name_definition_ref
            attr_schema_location root_attrs w o = false ->
  run_op2 T tab_el tab_at tab_en check_fn float_parse float_fmt LATEST name_index name_definition_ref
          attr_schema_location root_attrs o w = Val (ER e, w') ->
  obs_eq_upto_garbage w w' /\ (may_leave_garbage o = false -> w' = w).
Proof. exact C11_fail_no_effect2. Qed.

(* [U] ONE statement for every operation: a failing call has no effect, or it is in exactly one of four classes:
   move failing in make_unique_item_name after the unlinking, move failing in a referrer rewrite after the unlinking,
   set_reference_target failing in the text write after DEST / referrer map, load rejected with InvalidFileMerge. *)
Theorem C11_all_ops :
  forall (T : tables) (tab_el tab_at tab_en : nametab) (check_fn : N -> list N -> res bool)
         (float_parse : list N -> option N) (float_fmt : N -> list N)
         (LATEST name_index name_definition_ref attr_schema_location : N) (root_attrs : list (N * cdata)),
  tables_ok11 T ->
  forall (w : world) (o : op2) (e : err) (w' : world),
  Core w ->
  run_op2 T tab_el tab_at tab_en check_fn float_parse float_fmt LATEST name_index name_definition_ref
          attr_schema_location root_attrs o w = Val (ER e, w') ->
  obs_eq_upto_garbage w w' \/
  (exists o1, o = Op1 o1 /\ K11_move_noname T tab_el tab_en check_fn LATEST root_attrs w o1 = true) \/
  (exists o1, o = Op1 o1 /\ K11_move_refwrite T tab_el tab_en check_fn LATEST root_attrs w o1 = true) \/
  (exists o1, o = Op1 o1 /\ K11_setref T tab_el tab_en check_fn LATEST root_attrs w o1 = true) \/
  (exists m buffer filename strict, o = OpLoad m buffer filename strict /\ e = InvalidFileMerge).
Proof. exact C11_all_ops. Qed.
