(* Properties/C11.v — Failed operations have no effect (the part over the operation alphabet `op` of Tree/Script.v;
   the load / merge part of the property belongs to the loader model).
   Model: Tree/Heap.v, Ops.v, Script.v.  Definitions: Tree/Observe.v (observe, obs_eq, obs_eq_upto_garbage),
   Tree/Fail.v (Known11 classes, tables_ok11).  Proofs: Tree/FailProofs*.v.  Witnesses: Tree/FailWitness.v.
   Every statement is for EVERY table set satisfying tables_ok11, every name table, validator function and version
   constant, and EVERY world satisfying C03's Core invariant (all worlds reachable from the empty world do:
   Tree/InvProofs.v Core_reachable).  All 26 constructors of `op` are covered; none is pending.

   Findings (the literal property fails there; replay scripts in the report / Tree/FailWitness.v):
     K11_move_noname    move_element_here[_at] of an element with a SHORT-NAME without text: make_unique_item_name
                        fails (ElementNotIdentifiable) after the element was unlinked and re-parented.
     K11_move_refwrite  move_element_here[_at]: rewriting a referrer fails (IncorrectContentType) after the element was
                        unlinked, re-parented, the path index re-keyed and the referrer list taken out of the map.
     K11_setref         set_reference_target: DEST and the referrer map are updated before the text write that fails. *)
From AV Require Import Base.Bytes Base.Outcome Hash.HashModel Tree.Heap Tree.Ops Tree.Script Tree.Inv Tree.InvProofs
  Tree.Index Tree.Observe Tree.Fail Tree.FailProofs Tree.FailProofsInv Tree.FailWitness Tree.FailTables Tree.FailRepair Spec.SpecReal.
From AV Require Import Tree.Sort Tree.Copy Tree.Load Tree.Compat Tree.Serialize Tree.Script2 Tree.Fail2 Tree.FailProofsOp2 Tree.FailResidue.
From AV Require Xml.Parser.
Open Scope list_scope.
Open Scope N_scope.

(* [U] a call that returns an error and is not in a Known11 class leaves every node that existed, the files and the
   models (roots, file lists, path index, referrer map) exactly as they were; at most fresh ids were allocated *)
Theorem C11_fail_no_effect :
  forall (T : tables) (tab_el tab_en : nametab) (check_fn : N -> list N -> res bool) (LATEST : N)
         (root_attrs : list (N * cdata)),
  tables_ok11 T ->
  forall (w : world) (o : op) (e : err) (w' : world),
  Core w ->
  Known11 T tab_el tab_en check_fn LATEST root_attrs w o = false ->
  run_op T tab_el tab_en check_fn LATEST root_attrs o w = Val (ER e, w') ->
  obs_eq_upto_garbage w w'.
Proof. exact fail_no_effect_core. Qed.

(* [U] ... and unless the call is create_copied_sub_element[_at] the world is literally the same, so the whole
   observation is *)
Theorem C11_fail_exact :
  forall (T : tables) (tab_el tab_en : nametab) (check_fn : N -> list N -> res bool) (LATEST : N)
         (root_attrs : list (N * cdata)),
  tables_ok11 T ->
  forall (w : world) (o : op) (e : err) (w' : world),
  Core w ->
  Known11 T tab_el tab_en check_fn LATEST root_attrs w o = false ->
  is_copy o = false ->
  run_op T tab_el tab_en check_fn LATEST root_attrs o w = Val (ER e, w') ->
  w' = w /\ observe w' = observe w.
Proof. exact fail_exact_core. Qed.

(* [U] what the garbage of a failed copy is: nothing that existed (no model root, no old node) reaches it *)
Theorem C11_garbage_unreachable :
  forall (w w' : world), Core w -> obs_eq_upto_garbage w w' ->
  (forall a x, a < w_next w -> reach_from w' a x -> x < w_next w) /\
  (forall m x, In m (w_models w') -> reach_from w' (m_root m) x -> x < w_next w) /\
  map (w_nodes w') (ids_below (w_next w)) = o_nodes (observe w).
Proof. exact garbage_unreachable_core. Qed.

(* [U] the classes are narrow: a call in a Known11 class is a move that failed with one of two errors after the moved
   element got its new parent link, or a set_reference_target that failed with IncorrectContentType *)
Theorem C11_known_characterised :
  forall (T : tables) (tab_el tab_en : nametab) (check_fn : N -> list N -> res bool) (LATEST : N)
         (root_attrs : list (N * cdata)) (w : world) (o : op),
  Known11 T tab_el tab_en check_fn LATEST root_attrs w o = true ->
  exists e w', run_op T tab_el tab_en check_fn LATEST root_attrs o w = Val (ER e, w') /\
    ((exists h mv, (o = OpMove h mv \/ exists pos, o = OpMoveAt h mv pos) /\
                   (e = ElementNotIdentifiable \/ e = IncorrectContentType) /\
                   parent_link w' mv <> parent_link w mv)
     \/ (exists h t, o = OpSetRefTarget h t /\ e = IncorrectContentType)).
Proof. exact FailProofs.C11_known_characterised. Qed.

(* [F] the table assumption holds for the generated specification tables (all 5080 data types swept by vm_compute) *)
Theorem C11_real_tables_ok : tables_ok11 RT.
Proof. exact real_tables_ok11. Qed.

(* [U] what validate-before-mutate needs for K11_setref: whenever set_reference_target fails late, the text write that
   failed fails in the UNMODIFIED world too, with nothing written - doing it before the DEST / referrer-map update makes
   the call atomic *)
Theorem C11_setref_precheck :
  forall (T : tables) (tab_el tab_en : nametab) (check_fn : N -> list N -> res bool) (LATEST : N)
         (h target : id) (w : world) (e : err) (w' : world),
  e_set_reference_target T tab_el tab_en check_fn LATEST h target w = Val (ER e, w') ->
  w' = w \/
  (e = IncorrectContentType /\
   exists new_ref version,
     path_id T target w = Val (OK new_ref, w) /\ min_version LATEST h w = Val (OK version, w) /\
     raw_set_character_data T check_fn h (DString new_ref) version w = Val (ER IncorrectContentType, w)).
Proof. exact K11_setref_precheck. Qed.

(* findings: the literal statement is refuted in each class (tiny table set, reachable worlds) *)
Theorem C11_move_refwrite_refuted :
  exists l o w e w', run_ops Tiny.tiny Tiny.tiny_el Tiny.tiny_en Tiny.tiny_check_fn Tiny.LATEST [] l empty_world = Val w /\
    Core w /\ Tiny.run o w = Val (ER e, w') /\ ~ obs_eq_upto_garbage w w'.
Proof. exact move_refwrite_refuted. Qed.
Theorem C11_move_noname_refuted :
  exists l o w e w', run_ops Tiny.tiny Tiny.tiny_el Tiny.tiny_en Tiny.tiny_check_fn Tiny.LATEST [] l empty_world = Val w /\
    Core w /\ Tiny.run o w = Val (ER e, w') /\ ~ obs_eq_upto_garbage w w'.
Proof. exact move_noname_refuted. Qed.
Theorem C11_setref_refuted :
  exists l o w e w', run_ops Tiny.tiny Tiny.tiny_el Tiny.tiny_en Tiny.tiny_check_fn Tiny.LATEST [] l empty_world = Val w /\
    Core w /\ Tiny.run o w = Val (ER e, w') /\ ~ obs_eq_upto_garbage w w'.
Proof. exact setref_refuted. Qed.

(* non-vacuity: a failing call outside the classes on a reachable world *)
Theorem C11_nonvacuous :
  exists l o w e w', run_ops Tiny.tiny Tiny.tiny_el Tiny.tiny_en Tiny.tiny_check_fn Tiny.LATEST [] l empty_world = Val w /\
    Core w /\ Tiny.run o w = Val (ER e, w') /\
    Known11 Tiny.tiny Tiny.tiny_el Tiny.tiny_en Tiny.tiny_check_fn Tiny.LATEST [] w o = false.
Proof. exact nonvacuous11. Qed.

(* ====================================================================== the extended alphabet op2 (Tree/Script2.v) *)

(* [U] sort, sort model, duplicate, load, set_version, check_version_compatibility, serialize file / element, and the 26
   operations of `op`: a call that returns an error and is not in a class of Known11_2 (= the three classes of Known11 +
   a load rejected with InvalidFileMerge) leaves every node that existed, the files and the models as they were; the world
   is literally the same unless the call is a copy, duplicate or load (which may leave unreachable fresh ids).
   Uses agent-c14's e_sort_frame / m_sort_frame (sort never returns an error), agent-c13's duplicate_spec, agent-c09's
   load_fail_no_effect; set_version agrees with agent-c17's C17_set_version. *)
Theorem C11_fail_no_effect2 :
  forall (T : tables) (tab_el tab_at tab_en : nametab) (check_fn : N -> list N -> res bool)
         (float_parse : list N -> option N) (float_fmt : N -> list N)
         (LATEST name_index name_definition_ref attr_schema_location : N) (root_attrs : list (N * cdata)),
  tables_ok11 T ->
  forall (w : world) (o : op2) (e : err) (w' : world),
  Core w ->
  Known11_2 T tab_el tab_at tab_en check_fn float_parse float_fmt LATEST name_index name_definition_ref
            attr_schema_location root_attrs w o = false ->
  run_op2 T tab_el tab_at tab_en check_fn float_parse float_fmt LATEST name_index name_definition_ref
          attr_schema_location root_attrs o w = Val (ER e, w') ->
  obs_eq_upto_garbage w w' /\ (may_leave_garbage o = false -> w' = w).
Proof. exact C11_fail_no_effect2. Qed.

(* [U] ONE statement for every operation: a failing call has no effect, or it is in exactly one of four classes:
   move failing in make_unique_item_name after the unlinking, move failing in a referrer rewrite after the unlinking,
   set_reference_target failing in the text write after DEST / referrer map, load rejected with InvalidFileMerge. *)
Theorem C11_all_ops :
  forall (T : tables) (tab_el tab_at tab_en : nametab) (check_fn : N -> list N -> res bool)
         (float_parse : list N -> option N) (float_fmt : N -> list N)
         (LATEST name_index name_definition_ref attr_schema_location : N) (root_attrs : list (N * cdata)),
  tables_ok11 T ->
  forall (w : world) (o : op2) (e : err) (w' : world),
  Core w ->
  run_op2 T tab_el tab_at tab_en check_fn float_parse float_fmt LATEST name_index name_definition_ref
          attr_schema_location root_attrs o w = Val (ER e, w') ->
  obs_eq_upto_garbage w w' \/
  (exists o1, o = Op1 o1 /\ K11_move_noname T tab_el tab_en check_fn LATEST root_attrs w o1 = true) \/
  (exists o1, o = Op1 o1 /\ K11_move_refwrite T tab_el tab_en check_fn LATEST root_attrs w o1 = true) \/
  (exists o1, o = Op1 o1 /\ K11_setref T tab_el tab_en check_fn LATEST root_attrs w o1 = true) \/
  (exists m buffer filename strict, o = OpLoad m buffer filename strict /\ e = InvalidFileMerge).
Proof. exact C11_all_ops. Qed.

(* ====================================================================== the residue of the Known11 classes, by theorem *)

(* [U] K11_move_noname / K11_move_refwrite: a move_element_here that returns an error has either changed nothing, or
   (the error is one of the two late ones and) the world differs from the old one as follows: the moved element carries the
   parent link of the DESTINATION and no other parent link changed; w_next and the files are the same; no node gained a
   child and NO node lists the moved element any more - neither its former parent nor the destination: the element is
   detached from the tree without being marked removed.  (Texts of referrers and the two maps of the model may be
   partially updated: not characterised.) *)
Theorem C11_move_residue :
  forall (T : tables) (tab_en : nametab) (check_fn : N -> list N -> res bool) (LATEST : N)
         (h mv : id) (w : world) (e : err) (w' : world),
  Core w ->
  e_move_element_here T tab_en check_fn LATEST h mv w = Val (ER e, w') ->
  w' = w \/
  ((e = ElementNotIdentifiable \/ e = IncorrectContentType) /\
   exists src_parent,
     parent_link w mv = Some (PElem src_parent) /\
     (forall i, parent_link w' i = if i =? mv then Some (PElem h) else parent_link w i) /\
     w_next w' = w_next w /\ w_files w' = w_files w /\
     (forall p n' c, w_nodes w' p = Some n' -> In (CElem c) (n_content n') ->
                     exists n, w_nodes w p = Some n /\ In (CElem c) (n_content n)) /\
     (forall p n', w_nodes w' p = Some n' -> ~ In (CElem mv) (n_content n'))).
Proof. exact move_here_residue. Qed.

Theorem C11_move_at_residue :
  forall (T : tables) (tab_en : nametab) (check_fn : N -> list N -> res bool) (LATEST : N)
         (h mv : id) (pos : N) (w : world) (e : err) (w' : world),
  Core w ->
  e_move_element_here_at T tab_en check_fn LATEST h mv pos w = Val (ER e, w') ->
  w' = w \/
  ((e = ElementNotIdentifiable \/ e = IncorrectContentType) /\
   exists src_parent,
     parent_link w mv = Some (PElem src_parent) /\
     (forall i, parent_link w' i = if i =? mv then Some (PElem h) else parent_link w i) /\
     w_next w' = w_next w /\ w_files w' = w_files w /\
     (forall p n' c, w_nodes w' p = Some n' -> In (CElem c) (n_content n') ->
                     exists n, w_nodes w p = Some n /\ In (CElem c) (n_content n)) /\
     (forall p n', w_nodes w' p = Some n' -> ~ In (CElem mv) (n_content n'))).
Proof. exact move_here_at_residue. Qed.

(* [U] K11_setref: a set_reference_target that returns an error has either changed nothing, or the error is
   IncorrectContentType and the world differs from the old one in exactly two places: the attribute list of the reference
   element (DEST written: dest_written) and the referrer map of its model (the element taken from the list of its old text
   and appended to the list of the new path: setref_origins = the function of the code); the element's text and content,
   every other node, w_next, the files, every other model and this model's root, file list and path index are the same. *)
Theorem C11_setref_residue :
  forall (T : tables) (tab_el tab_en : nametab) (check_fn : N -> list N -> res bool) (LATEST : N)
         (h target : id) (w : world) (e : err) (w' : world),
  e_set_reference_target T tab_el tab_en check_fn LATEST h target w = Val (ER e, w') ->
  w' = w \/
  (e = IncorrectContentType /\
   exists nh item m new_ref cd,
     w_nodes w h = Some nh /\ model_of h w = Val (OK m, w) /\ path_id T target w = Val (OK new_ref, w) /\
     character_data T nh = Val cd /\
     w_nodes w' h = Some (set_attrs nh (dest_written (attr_dest T) (DEnum item) (n_attrs nh))) /\
     (forall i, i <> h -> w_nodes w' i = w_nodes w i) /\
     w_next w' = w_next w /\ w_files w' = w_files w /\
     (forall j, j <> N.to_nat m -> nth_opt (w_models w') j = nth_opt (w_models w) j) /\
     (forall x, nth_opt (w_models w) (N.to_nat m) = Some x ->
        exists x', nth_opt (w_models w') (N.to_nat m) = Some x' /\ m_root x' = m_root x /\ m_files x' = m_files x /\
                   m_idents x' = m_idents x /\ m_origins x' = setref_origins cd new_ref h (m_origins x))).
Proof. exact setref_residue. Qed.
