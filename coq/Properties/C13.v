(* Properties/C13.v — Deep copy and model duplication are faithful and independent.
   All theorems are [U]: for EVERY table set T (the real tables are one instance; the model is tied to the code by the
   correspondence batches of checks/c13.py), every world satisfying the allocation discipline [Closed] (a consequence
   of C03's invariant Core: C13_closed_of_core), every source and destination.
   Vocabulary: Tree/CopyProofsDefs.v.  Models: Tree/Ops.v (deep_copy, make_unique_item_name, register_subtree,
   create_copied_sub_element[_at/_inner]), Tree/Copy.v (duplicate).
     copy_call T LATEST h other None / (Some pos) = Element::create_copied_sub_element / _at on destination h.
   `_refuted` theorems are witnesses (tiny table set Tree/CopyProofsTiny.v, reached by scripts from the empty world)
   for the defect classes recorded as known findings; the positive theorems carry exactly the hypothesis that excludes
   them (AllValidIn for the version filter, TypeAgrees for the kept element type). *)
From AV Require Import Base.Bytes Base.Outcome Hash.HashModel Tree.Heap Tree.Ops Tree.Script Tree.Inv Tree.Copy
  Tree.CopyProofsDefs Tree.CopyProofsDeep Tree.CopyProofsCreate Tree.CopyProofsTop Tree.CopyProofsBridge
  Tree.CopyProofsTiny Tree.Frame Tree.CopyProofsReg Tree.CopyProofsFK Tree.CopyProofsDup Tree.CopyProofsRegId.
From AV Require Import Tree.Serialize Tree.Script2 Tree.CopyProofsIrp Tree.CopyProofsIndep Tree.CopyProofsIndep2
  Tree.CopyProofsTwo Tree.CopyProofsUnique Tree.CopyProofsText Tree.CopyProofsBound Tree.CopyProofsDupText
  Tree.CopyProofsDupAll Tree.CopyProofsDupSplit Tree.CopyProofsDupExample.
Open Scope list_scope.
Open Scope N_scope.

(* the hypothesis of all theorems below follows from C03's structural invariant *)
Theorem C13_closed_of_core : forall w, Core w -> Closed w.
Proof. exact Core_Closed. Qed.

(* ALLOCATION ONLY: every node of a deep copy is fresh (id >= the old allocation bound), nothing allocated before is
   touched, files and models are untouched *)
Theorem C13_fresh : forall T fuel src v w c w',
  Closed w -> deep_copy T fuel src v w = Val (OK c, w') ->
  FreshTree (w_next w) w' c /\ Ext w w' /\ Closed w'.
Proof. exact deep_copy_fresh. Qed.

(* ... also when deep_copy fails (a required attribute is not permitted in the target version) *)
Theorem C13_fresh_on_error : forall T fuel src v w r w',
  Closed w -> deep_copy T fuel src v w = Val (r, w') -> Ext w w' /\ Closed w'.
Proof. exact deep_copy_frame. Qed.

(* SOURCE UNCHANGED (frame of the public calls, for every result OK / ER): nothing allocated before is touched except
   the content list of the destination h; no file; of the models only the two index maps of one model *)
Theorem C13_source_unchanged : forall T LATEST h other pos w r w',
  Closed w -> copy_call T LATEST h other pos w = Val (r, w') ->
  Closed w' /\
  (exists m, CopyFrame h m w w') /\
  (forall nh, w_nodes w h = Some nh -> exists content', w_nodes w' h = Some (set_content nh content')).
Proof. exact copy_source_unchanged. Qed.

(* FILTERED COPY (any two versions): the copy is fresh and is the source filtered for the destination's version
   (Filt: exactly the attributes / sub-elements permitted there, nothing else dropped, text kept), and the final world
   differs from deep_copy's world only by the copy's parent link and, if renamed, the text of its own SHORT-NAME *)
Theorem C13_copy_filtered : forall T LATEST h other pos w c w',
  Closed w -> copy_call T LATEST h other pos w = Val (OK c, w') ->
  exists v w1,
    min_version LATEST h w = Val (OK v, w) /\
    Filt T v w w1 other c /\ FreshTree (w_next w) w1 c /\ Ext w w1 /\ CopyRel T w1 w' h c.
Proof. exact copy_filtered. Qed.

(* the function deep_copy itself: filtered copy *)
Theorem C13_deep_copy_filtered : forall T fuel src v w c w',
  Closed w -> deep_copy T fuel src v w = Val (OK c, w') -> Filt T v w w' src c.
Proof. exact deep_copy_filtered. Qed.

(* SAME VERSION: if every part of the source is permitted in the destination's version the copy is equal to the
   source up to node ids; its own SHORT-NAME text is `orig` or `orig_k`, k >= 1 (CopyRel) *)
Theorem C13_copy_same_version : forall T LATEST h other pos w c w' v,
  Closed w -> copy_call T LATEST h other pos w = Val (OK c, w') ->
  min_version LATEST h w = Val (OK v, w) -> AllValidIn T v w other ->
  exists w1, Iso w w1 other c /\ FreshTree (w_next w) w1 c /\ Ext w w1 /\ CopyRel T w1 w' h c.
Proof. exact copy_same_version. Qed.

(* the chosen name is free in the destination's index, and it is orig or orig_k *)
Theorem C13_unique_name : forall T i m pp w r w',
  make_unique_item_name T i m pp w = Val (r, w') ->
  (exists e, r = ER e /\ w' = w) \/
  exists n orig name,
    w_nodes w i = Some n /\ item_name T n w = Val (OK (Some orig), w) /\ r = OK name /\
    NameOf orig name /\ FreeName w m (pp ++ [47] ++ name) /\
    ((name = orig /\ w' = w) \/
     exists s rest sn, n_content n = CElem s :: rest /\ w_nodes w s = Some sn /\
       (exists k, 1 <= k /\ name = suffixed orig k) /\
       w' = mkWorld (upd (w_nodes w) s (set_content sn [CData (DString name)])) (w_next w) (w_files w) (w_models w)).
Proof. exact make_unique_spec. Qed.

(* ELEMENT TYPE: the copy has the type the tables give its name below the destination PROVIDED the source element has
   that type (TypeAgrees) ... *)
Theorem C13_copy_typed : forall T LATEST h other pos w c w' v,
  Closed w -> copy_call T LATEST h other pos w = Val (OK c, w') ->
  min_version LATEST h w = Val (OK v, w) -> TypeAgrees T w h other v ->
  forall nh, w_nodes w h = Some nh ->
  exists nc idx, w_nodes w' c = Some nc /\ find_sub_element T (n_type nh) (n_name nc) v = Val (Some (n_type nc, idx)).
Proof. exact copy_typed. Qed.

(* ... and not otherwise: known finding C13-copy-keeps-source-type *)
Theorem C13_copy_type_refuted :
  exists ops w h other c w' nh nc x idx kid kn,
    Tiny13.run_script ops Tiny13.empty_world = Val w /\
    Tiny13.run (OpCopy h other) w = Val (OK (VElem c), w') /\
    w_nodes w h = Some nh /\ w_nodes w' c = Some nc /\
    find_sub_element Tiny13.tiny (n_type nh) (n_name nc) Tiny13.LATEST = Val (Some (x, idx)) /\ x <> n_type nc /\
    In (CElem kid) (n_content nc) /\ w_nodes w' kid = Some kn /\
    find_sub_element Tiny13.tiny x (n_name kn) Tiny13.LATEST = Val None.
Proof. exact Tiny13.copy_type_refuted. Qed.

(* "still validates" fails for element text: known finding C13-copy-enum-text-unfiltered *)
Theorem C13_copy_enum_text_refuted :
  exists ops w h other c w' kid kn v spec d,
    Tiny13.run_script ops Tiny13.empty_world = Val w /\
    Tiny13.run (OpCopy h other) w = Val (OK (VElem c), w') /\
    min_version Tiny13.LATEST c w' = Val (OK v, w') /\
    In (CElem kid) (n_content (Tiny13.node_at w' c)) /\ w_nodes w' kid = Some kn /\
    chardata_spec Tiny13.tiny (n_type kn) = Val (Some spec) /\ n_content kn = [CData d] /\
    check_value Tiny13.check_fn d spec v = Val false.
Proof. exact Tiny13.copy_enum_text_refuted. Qed.

(* duplicate() of a model with files of different versions loses elements: known finding C13-dup-version-filter *)
Theorem C13_duplicate_refuted :
  exists ops w m m' w',
    Tiny13.run_script ops Tiny13.empty_world = Val w /\
    Tiny13.dup m w = Val (OK m', w') /\
    (Tiny13.count_nodes w' m' < Tiny13.count_nodes w' m)%nat.
Proof. exact Tiny13.duplicate_refuted. Qed.

(* FRAME of an operation: every LOCAL operation (the 16 constructors of Tree/Frame.v:local_dest — create / named /
   copy / character data / reference target / attributes / comment / get_or_create on a destination handle h)
   touches, of everything allocated before, only the node h, no file, and of the models only the two index maps of
   model_of h *)
Theorem C13_local_frame : forall T tab_el tab_en check_fn LATEST root_attrs o h w r w',
  local_dest o = Some h -> Closed w ->
  run_op T tab_el tab_en check_fn LATEST root_attrs o w = Val (r, w') ->
  exists m, CopyFrame h m w w' /\ (w_models w' = w_models w \/ model_of h w = Val (OK m, w)).
Proof. exact local_frame. Qed.

(* INDEPENDENCE (partial: the local operations; pending, covered by the implementation oracle INDEP and by the
   correspondence only: OpMove OpMoveAt OpRemove OpRemoveKind OpSetItemName OpAddToFile OpRemoveFromFile OpRemoveFile
   OpCreateFile OpNewModel and the OP2 family).  An operation with destination h leaves every model b that h does not
   belong to alone: b's record, the files, every node of b's tree, b's reachable set; nodes allocated by the operation
   are not reachable from b — disjointness of the reachable sets is preserved *)
Theorem C13_independent_partial : forall T tab_el tab_en check_fn LATEST root_attrs o h w r w' b xb nb,
  local_dest o = Some h -> Closed w ->
  run_op T tab_el tab_en check_fn LATEST root_attrs o w = Val (r, w') ->
  nth_opt (w_models w) (N.to_nat b) = Some xb -> w_nodes w (m_root xb) = Some nb ->
  (forall x, Sub w (m_root xb) x -> x <> h) ->
  model_of h w <> Val (OK b, w) ->
  nth_opt (w_models w') (N.to_nat b) = Some xb /\ w_files w' = w_files w /\
  (forall x, Sub w (m_root xb) x -> w_nodes w' x = w_nodes w x) /\
  (forall x, Sub w' (m_root xb) x <-> Sub w (m_root xb) x) /\
  (forall x, Sub w' (m_root xb) x -> x < w_next w).
Proof. exact independent_op. Qed.

(* REGISTERED (references): after a successful copy every reference element of the copied subtree (reached from the
   copy c through content lists in the FINAL world) with text p is listed by get_references_to(p) of the destination's
   model *)
Theorem C13_registered_refs : forall T LATEST h other pos w c w' m,
  Closed w -> copy_call T LATEST h other pos w = Val (OK c, w') ->
  model_of h w = Val (OK m, w) ->
  forall j p, Sub w' c j -> RefText T w' j p -> HasOrigin w' m p j.
Proof. exact copy_registered_refs. Qed.

(* the registration walk itself, for any subtree *)
Theorem C13_register_walk_refs : forall T f m cur i w r w',
  register_subtree T f m cur i w = Val (r, w') ->
  forall j p, Sub w i j -> RefText T w j p -> HasOrigin w' m p j.
Proof. exact register_subtree_refs. Qed.

(* FRESH REGIONS STAY CLOSED: if every node with id >= lo lists only sub-elements with id >= lo, this is still so
   after a copy call — a copy never links a node of a fresh region to a node that existed before *)
Theorem C13_copy_keeps_regions_closed : forall T LATEST lo h other pos w r w',
  lo <= w_next w -> FreshKids lo w -> copy_call T LATEST h other pos w = Val (r, w') ->
  FreshKids lo w' /\ w_next w <= w_next w'.
Proof. exact copy_call_FK. Qed.

(* DUPLICATE: the original is untouched node by node, file by file, model by model (the lists only grow at the end);
   when duplicate() fails the file and model lists are exactly what they were; when it succeeds (DupResult) the copy is
   the new last model, its root is the first node allocated by the call and carries the attributes and the comment of
   the original root, and everything reachable from that root was allocated by the call: the reachable sets of the
   original (ids < w_next w) and of the copy (ids >= w_next w) are disjoint, which is the hypothesis of
   C13_independent_partial.  (The content of the copy: each root child goes through copy_call, C13_copy_filtered;
   what duplicate does NOT guarantee is witnessed by C13_duplicate_refuted.) *)
Theorem C13_duplicate : forall T tab_el tab_en check_fn LATEST root_attrs m w r w',
  Closed w ->
  (forall x, nth_opt (w_models w) (N.to_nat m) = Some x -> exists rn, w_nodes w (m_root x) = Some rn) ->
  m_duplicate T tab_el tab_en check_fn LATEST root_attrs m w = Val (r, w') ->
  (forall i, i < w_next w -> w_nodes w' i = w_nodes w i) /\ w_next w <= w_next w' /\
  firstn (List.length (w_files w)) (w_files w') = w_files w /\
  firstn (List.length (w_models w)) (w_models w') = w_models w /\
  match r with
  | ER _ => w_files w' = w_files w /\ w_models w' = w_models w
  | OK c => DupResult m w c w'
  end.
Proof. exact duplicate_spec. Qed.

(* REGISTERED (identifiable elements): in terms of the model's own queries (IsIdent: is_identifiable answers true;
   RPath w c j q: j is reached from c through content lists, q = the concatenated "/" + item_name segments of c .. j).
   After a successful copy, if no two identifiable elements of the copy have the same relative path (UniqueRel; it
   excludes the known finding C13-copy-nameless-shortname), every identifiable element j of the copied subtree is
   found by get_element_by_path under (path of the destination) ++ (relative path of j) in the destination's model *)
Theorem C13_registered_ids : forall T LATEST h other pos w c w' m,
  Closed w -> copy_call T LATEST h other pos w = Val (OK c, w') ->
  model_of h w = Val (OK m, w) ->
  exists nh w1 path,
    w_nodes w h = Some nh /\ Ext w w1 /\ path_unchecked T nh w1 = Val (OK path, w1) /\
    (UniqueRel T w' c -> forall j q, RPath T w' c j q -> IsIdent T w' j -> HasId w' m (path ++ q) j).
Proof. exact copy_registered_ids. Qed.

(* the registration walk and the path index, for any subtree: every entry afterwards is an old one or justified by
   an identifiable element of the subtree (A), no key disappears (B), under UniqueRel everything is registered (C) *)
Theorem C13_register_walk_ids : forall T f m cur i w r w',
  register_subtree T f m cur i w = Val (r, w') ->
  w_nodes w' = w_nodes w /\
  (forall k j, HasId w' m k j -> HasId w m k j \/ J T cur i w k j) /\
  (forall k j, HasId w m k j -> exists j', HasId w' m k j') /\
  (UniqueRel T w i -> forall k j, J T cur i w k j -> HasId w' m k j).
Proof. exact register_subtree_ids. Qed.

(* ================================================================== independence, the whole alphabet
   Vocabulary (Tree/CopyProofsIrp.v): a protected region is a set P of node ids, a set PM of model numbers and a set PF
   of file ids.  Sealed P PM PF w: P is allocated, nothing outside P links into P or claims a protected model, the roots
   and index maps of the unprotected models mention no node of P, protected models / files exist, files outside PF
   belong to unprotected models.  Same P PM PF w w': every node of P, every record of a model in PM and every record
   of a file in PF is unchanged (and the world only grew).  irp P PM PF c: from a Sealed world c ends in a Sealed world
   with Same.  op_handles o / op_models o (Tree/CopyProofsIndep.v): the node handles an operation writes through (for a
   move: destination AND moved element) and the models it addresses by number. *)

(* every operation of `op` all of whose handles and models are outside the protected region leaves it alone *)
Theorem C13_independent_region : forall T tab_el tab_en check_fn LATEST root_attrs P PM PF o,
  op_apart P PM o -> irp P PM PF (run_op T tab_el tab_en check_fn LATEST root_attrs o).
Proof. exact irp_run_op. Qed.

(* ... along every history *)
Theorem C13_independent_region_history : forall T tab_el tab_en check_fn LATEST root_attrs P PM PF l w w',
  Sealed P PM PF w -> Forall (op_apart P PM) l ->
  Inv.run_ops T tab_el tab_en check_fn LATEST root_attrs l w = Val w' -> Sealed P PM PF w' /\ Same P PM PF w w'.
Proof. exact independent_history. Qed.

(* INDEPENDENCE (all 26 operations; supersedes C13_independent_partial): in a world with C03's TreeInv, let b be a model
   whose files exist and are listed (FilesListed) and whose tree no other model's index mentions (IndexApart).  An
   operation none of whose handles lies in b's tree and which does not address b by number leaves b alone: its record
   (root, file list, both index maps), the records of its files, every node of its tree, its reachable set; and no
   other index mentions b's tree afterwards.  For a move this reads: only the model of the destination and the model
   of the moved element can change. *)
Theorem C13_independent : forall T tab_el tab_en check_fn LATEST root_attrs o w r w' b xb,
  TreeInv w -> nth_opt (w_models w) (N.to_nat b) = Some xb ->
  IndexApart w (Sub w (m_root xb)) b -> FilesListed w b xb ->
  (forall i, In i (op_handles o) -> ~ Sub w (m_root xb) i) -> (forall m, In m (op_models o) -> m <> b) ->
  run_op T tab_el tab_en check_fn LATEST root_attrs o w = Val (r, w') ->
  nth_opt (w_models w') (N.to_nat b) = Some xb /\
  (forall f, In f (m_files xb) -> nth_opt (w_files w') (N.to_nat f) = nth_opt (w_files w) (N.to_nat f)) /\
  (forall x, Sub w (m_root xb) x -> w_nodes w' x = w_nodes w x) /\
  (forall x, Sub w' (m_root xb) x <-> Sub w (m_root xb) x) /\
  IndexApart w' (Sub w' (m_root xb)) b.
Proof. exact independent_all. Qed.

(* ... and every history of such operations (the handles of later operations may be nodes allocated on the way) *)
Theorem C13_independent_history : forall T tab_el tab_en check_fn LATEST root_attrs l w w' b xb,
  TreeInv w -> nth_opt (w_models w) (N.to_nat b) = Some xb ->
  IndexApart w (Sub w (m_root xb)) b -> FilesListed w b xb ->
  Forall (op_apart (Sub w (m_root xb)) (fun m => m = b)) l ->
  Inv.run_ops T tab_el tab_en check_fn LATEST root_attrs l w = Val w' ->
  nth_opt (w_models w') (N.to_nat b) = Some xb /\
  (forall f, In f (m_files xb) -> nth_opt (w_files w') (N.to_nat f) = nth_opt (w_files w) (N.to_nat f)) /\
  (forall x, Sub w (m_root xb) x -> w_nodes w' x = w_nodes w x) /\
  (forall x, Sub w' (m_root xb) x <-> Sub w (m_root xb) x).
Proof. exact independent_histories. Qed.

(* the extended alphabet op2 (Tree/Script2.v).  PARTIAL: pending_indep2 = OpLoad.  Covered besides Op1: sort (element
   and model), duplicate (reads its original, which may be protected), set_version, check_version_compatibility,
   serialize of an element, serialize of a file (it WRITES the schema-location attribute of the root of the file's
   model: the file has to be outside PF) *)
Theorem C13_independent2_region_partial :
  forall T tab_el tab_at tab_en check_fn float_parse float_fmt LATEST name_index name_definition_ref attr_schema_location
         root_attrs P PM PF o,
  pending_indep2 o = false -> op2_apart P PM PF o ->
  irp P PM PF (run_op2 T tab_el tab_at tab_en check_fn float_parse float_fmt LATEST name_index name_definition_ref
                       attr_schema_location root_attrs o).
Proof. exact irp_run_op2. Qed.

Theorem C13_independent2_partial :
  forall T tab_el tab_at tab_en check_fn float_parse float_fmt LATEST name_index name_definition_ref attr_schema_location
         root_attrs o w r w' b xb,
  pending_indep2 o = false ->
  TreeInv w -> nth_opt (w_models w) (N.to_nat b) = Some xb ->
  IndexApart w (Sub w (m_root xb)) b -> FilesListed w b xb ->
  op2_apart (Sub w (m_root xb)) (fun m => m = b) (fun f => In f (m_files xb)) o ->
  run_op2 T tab_el tab_at tab_en check_fn float_parse float_fmt LATEST name_index name_definition_ref
          attr_schema_location root_attrs o w = Val (r, w') ->
  nth_opt (w_models w') (N.to_nat b) = Some xb /\
  (forall f, In f (m_files xb) -> nth_opt (w_files w') (N.to_nat f) = nth_opt (w_files w) (N.to_nat f)) /\
  (forall x, Sub w (m_root xb) x -> w_nodes w' x = w_nodes w x) /\
  (forall x, Sub w' (m_root xb) x <-> Sub w (m_root xb) x).
Proof. exact independent_all2_partial. Qed.

Theorem C13_independent2_history_partial :
  forall T tab_el tab_at tab_en check_fn float_parse float_fmt LATEST name_index name_definition_ref attr_schema_location
         root_attrs P PM PF l w w',
  Sealed P PM PF w -> Forall (fun o => pending_indep2 o = false /\ op2_apart P PM PF o) l ->
  run_ops2 T tab_el tab_at tab_en check_fn float_parse float_fmt LATEST name_index name_definition_ref
           attr_schema_location root_attrs l w = Val w' ->
  Sealed P PM PF w' /\ Same P PM PF w w'.
Proof. exact independent_history2. Qed.

(* LinkBound, the state hypothesis of the two-sided theorems: its node part is C03's TreeInv; it adds that index values
   are allocated and that file records name existing models.  It holds in the empty world. *)
Theorem C13_linkbound_of_treeinv : forall w,
  TreeInv w ->
  (forall m x, nth_opt (w_models w) (N.to_nat m) = Some x ->
     (forall p j, In (p, j) (m_idents x) -> j < w_next w) /\
     (forall p l j, In (p, l) (m_origins x) -> In j l -> j < w_next w)) ->
  (forall f fl, nth_opt (w_files w) (N.to_nat f) = Some fl -> f_model fl < N.of_nat (List.length (w_models w))) ->
  LinkBound w.
Proof. exact LinkBound_of_TreeInv. Qed.

Theorem C13_linkbound_empty : LinkBound empty_world.
Proof. exact LinkBound_empty. Qed.

(* TWO SIDES (Tree/CopyProofsTwo.v).  sides: two regions A and B that partition the allocated node ids, the model
   numbers and the file ids; Two s w: each is Sealed against the other.  A history is a list of operations of op2
   (OpLoad excluded), each tagged with the side it works on (OnA / OnB: its handles, models and files are apart from
   the OTHER side: two_ok); whatever a step allocates joins the side that worked (step_sides).  LinkBound w_t, "no
   dangling ids" (every id stored in a node, a model record or a file record is allocated), is assumed of every state
   (two_ok).  Then every step leaves the side it does not work on alone (two_indep: Same for that side at every step):
   the two sides evolve independently along ANY such history *)
Theorem C13_two_sided :
  forall T tab_el tab_at tab_en check_fn float_parse float_fmt LATEST name_index name_definition_ref attr_schema_location
         root_attrs l s w,
  Two s w -> LinkBound w ->
  two_ok T tab_el tab_at tab_en check_fn float_parse float_fmt LATEST name_index name_definition_ref attr_schema_location
         root_attrs l s w ->
  two_indep T tab_el tab_at tab_en check_fn float_parse float_fmt LATEST name_index name_definition_ref
            attr_schema_location root_attrs l s w.
Proof. exact two_sided. Qed.

(* DUPLICATE, THEN INDEPENDENT: duplicate() itself leaves everything that existed alone (all nodes, all model records,
   all file records), and afterwards side A = everything that existed before the call (the original and all other
   models) and side B = everything the call allocated (after_dup: the nodes of the copy — by C13_duplicate everything
   reachable from the copy's root —, its model record, its files) are Two sides: they evolve independently along any
   later history (C13_two_sided).  Also after a failed duplicate (B is then garbage only). *)
Theorem C13_duplicate_then_independent :
  forall T tab_el tab_at tab_en check_fn float_parse float_fmt LATEST name_index name_definition_ref attr_schema_location
         root_attrs m l w0 r w1,
  LinkBound w0 ->
  run_op2 T tab_el tab_at tab_en check_fn float_parse float_fmt LATEST name_index name_definition_ref
          attr_schema_location root_attrs (OpDuplicate m) w0 = Val (r, w1) ->
  LinkBound w1 ->
  Same (fun i => i < w_next w0) (fun k => k < N.of_nat (List.length (w_models w0)))
       (fun f => f < N.of_nat (List.length (w_files w0))) w0 w1 /\
  Two (after_dup w0 w1) w1 /\
  (two_ok T tab_el tab_at tab_en check_fn float_parse float_fmt LATEST name_index name_definition_ref attr_schema_location
          root_attrs l (after_dup w0 w1) w1 ->
   two_indep T tab_el tab_at tab_en check_fn float_parse float_fmt LATEST name_index name_definition_ref
             attr_schema_location root_attrs l (after_dup w0 w1) w1).
Proof. exact duplicate_then_independent. Qed.

(* UNIQUE NAME, TERMINATION: the search loop of make_unique_item_name (called with |idents|+2 rounds) returns after at
   most |idents|+1 candidates orig, orig_1, orig_2, .. with one that is free in the index: it cannot run out of fuel
   (decimal text is injective below 10^40, pigeonhole: Tree/NoPanicProofsDec.v, agent-c12) *)
Theorem C13_unique_loop_total : forall w m pp orig x,
  nth_opt (w_models w) (N.to_nat m) = Some x -> N.of_nat (List.length (m_idents x)) < 10 ^ 40 ->
  exists i, (i <= List.length (m_idents x))%nat /\
    assoc_get (pp ++ [47] ++ cand orig i) (m_idents x) = None /\
    unique_loop (S (S (List.length (m_idents x)))) m pp orig orig 1 w = Val (OK (cand orig i, N.of_nat (S i)), w).
Proof. exact unique_loop_total. Qed.

(* TEXT.  IsoF w w' ff ff' s c (Tree/CopyProofsText.v): the subtree of s in w and the subtree of c in w' are equal up to
   node ids (Iso) and corresponding sub-elements pass the file filters ff / ff' alike.  Then the serializer writes the
   same bytes for both.  This is the text half of "a duplicate's files have the text of the original's files"
   (ff = Some f, ff' = Some (the copy of f)); PENDING for C13_duplicate_text: deriving IsoF for the result of
   duplicate() (Iso of every copied child under AllValidIn, the alignment of the two pre-order walks, the translation
   of the file sets) — covered by the implementation oracle DUP-TEXT only *)
Theorem C13_iso_text : forall T tab_el tab_at tab_en float_fmt w w' ff ff' fuel s c indent inline,
  IsoF w w' ff ff' s c ->
  ser_heap T tab_el tab_at tab_en float_fmt fuel w ff s indent inline =
  ser_heap T tab_el tab_at tab_en float_fmt fuel w' ff' c indent inline.
Proof. exact iso_text. Qed.

(* a copy made in the version of its destination of a source that is valid there (C13_copy_same_version), and that was
   not renamed, is Iso to its source in the FINAL world and has the text of its source *)
Theorem C13_copy_text : forall T tab_el tab_at tab_en float_fmt LATEST h other pos w c w' v,
  Closed w -> h < w_next w -> copy_call T LATEST h other pos w = Val (OK c, w') ->
  min_version LATEST h w = Val (OK v, w) -> AllValidIn T v w other ->
  exists w1, Iso w w1 other c /\ CopyRel T w1 w' h c /\
    ((forall i, i <> h -> i <> c -> w_nodes w' i = w_nodes w1 i) ->
     Iso w w' other c /\
     forall fuel indent inline,
       ser_heap T tab_el tab_at tab_en float_fmt fuel w None other indent inline =
       ser_heap T tab_el tab_at tab_en float_fmt fuel w' None c indent inline).
Proof. exact copy_text. Qed.

(* ================================================================== LinkBound is an invariant
   op2_wf w o: the handles, model numbers and file ids an operation addresses exist in w.  dup_failed w o: o is a
   duplicate() that returns an error in w.  (Tree/CopyProofsBound.v; the calculus is run for the region "everything at
   or beyond the allocation bounds of the final world".) *)

(* every operation only grows the world: allocation bound, number of models, number of files (OpLoad pending) *)
Theorem C13_world_grows2_partial :
  forall T tab_el tab_at tab_en check_fn float_parse float_fmt LATEST name_index name_definition_ref attr_schema_location
         root_attrs o,
  pending_indep2 o = false -> forall w r w',
  run_op2 T tab_el tab_at tab_en check_fn float_parse float_fmt LATEST name_index name_definition_ref
          attr_schema_location root_attrs o w = Val (r, w') -> Grow w w'.
Proof. exact grows_run_op2. Qed.

(* PARTIAL (OpLoad pending): every operation that addresses existing things and is not a failing duplicate keeps
   LinkBound *)
Theorem C13_linkbound_inv2_partial :
  forall T tab_el tab_at tab_en check_fn float_parse float_fmt LATEST name_index name_definition_ref attr_schema_location
         root_attrs o w r w',
  pending_indep2 o = false -> LinkBound w -> op2_wf w o ->
  ~ dup_failed T tab_el tab_en check_fn LATEST root_attrs w o ->
  run_op2 T tab_el tab_at tab_en check_fn float_parse float_fmt LATEST name_index name_definition_ref
          attr_schema_location root_attrs o w = Val (r, w') -> LinkBound w'.
Proof. exact LinkBound_step2. Qed.

(* ... hence every world reached from the empty world by such operations has LinkBound *)
Theorem C13_linkbound_reachable2_partial :
  forall T tab_el tab_at tab_en check_fn float_parse float_fmt LATEST name_index name_definition_ref attr_schema_location
         root_attrs l w',
  lb_ok T tab_el tab_at tab_en check_fn float_parse float_fmt LATEST name_index name_definition_ref attr_schema_location
        root_attrs l empty_world ->
  run_ops2 T tab_el tab_at tab_en check_fn float_parse float_fmt LATEST name_index name_definition_ref
           attr_schema_location root_attrs l empty_world = Val w' -> LinkBound w'.
Proof. exact LinkBound_reachable. Qed.

(* the class dup_failed is real and does break LinkBound IN THE MODEL: a failing duplicate() drops the copy's model
   record and files, but the nodes it allocated stay (Tree/Copy.v: in the library they are freed with the model, no
   handle to them exists); the copy's root keeps `PModel c` for the dropped c.  Witness on a tiny table set. *)
Theorem C13_failed_duplicate_dangles :
  TinyFail.run_script2 TinyFail.script Tiny13.empty_world = Val TinyFail.w_x /\
  (exists e, TinyFail.dup2 0 TinyFail.w_x = Val (ER e, TinyFail.w_x')) /\
  (exists n, w_nodes TinyFail.w_x' 2 = Some n /\ n_parent n = PModel 1) /\
  List.length (w_models TinyFail.w_x') = 1%nat /\
  ~ LinkBound TinyFail.w_x'.
Proof. exact TinyFail.failed_duplicate_dangles. Qed.

(* C13_two_sided without the state hypothesis: LinkBound is needed of the first state only (two_wf: every operation
   works on one side, addresses existing things, is neither OpLoad nor a failing duplicate) *)
Theorem C13_two_sided_wf :
  forall T tab_el tab_at tab_en check_fn float_parse float_fmt LATEST name_index name_definition_ref attr_schema_location
         root_attrs l s w,
  Two s w -> LinkBound w ->
  two_wf T tab_el tab_at tab_en check_fn float_parse float_fmt LATEST name_index name_definition_ref attr_schema_location
         root_attrs l s w ->
  two_indep T tab_el tab_at tab_en check_fn float_parse float_fmt LATEST name_index name_definition_ref
            attr_schema_location root_attrs l s w.
Proof. exact two_sided_wf. Qed.

(* DUPLICATE, THEN INDEPENDENT, from the empty world: any history l0 (lb_ok), then a duplicate() that succeeds, then any
   history l of one-sided operations (two_wf): the duplicate leaves everything that existed alone, original side and
   copy side are Two sides, and every later step leaves the side it does not work on alone *)
Theorem C13_duplicate_then_independent_histories :
  forall T tab_el tab_at tab_en check_fn float_parse float_fmt LATEST name_index name_definition_ref attr_schema_location
         root_attrs l0 m l w0 r w1,
  lb_ok T tab_el tab_at tab_en check_fn float_parse float_fmt LATEST name_index name_definition_ref attr_schema_location
        root_attrs l0 empty_world ->
  run_ops2 T tab_el tab_at tab_en check_fn float_parse float_fmt LATEST name_index name_definition_ref
           attr_schema_location root_attrs l0 empty_world = Val w0 ->
  run_op2 T tab_el tab_at tab_en check_fn float_parse float_fmt LATEST name_index name_definition_ref
          attr_schema_location root_attrs (OpDuplicate m) w0 = Val (r, w1) ->
  ~ dup_failed T tab_el tab_en check_fn LATEST root_attrs w0 (OpDuplicate m) ->
  two_wf T tab_el tab_at tab_en check_fn float_parse float_fmt LATEST name_index name_definition_ref attr_schema_location
         root_attrs l (after_dup w0 w1) w1 ->
  Same (fun i => i < w_next w0) (fun k => k < N.of_nat (List.length (w_models w0)))
       (fun f => f < N.of_nat (List.length (w_files w0))) w0 w1 /\
  Two (after_dup w0 w1) w1 /\
  two_indep T tab_el tab_at tab_en check_fn float_parse float_fmt LATEST name_index name_definition_ref
            attr_schema_location root_attrs l (after_dup w0 w1) w1.
Proof. exact duplicate_then_independent_histories. Qed.

(* ================================================================== the text of a duplicate *)

(* NO RENAMING (1): the name search keeps a name that is free in the destination's index — in a fresh model the index
   is empty, so the first copy of every name keeps it *)
Theorem C13_duplicate_no_rename : forall T i m pp w n orig x,
  w_nodes w i = Some n -> item_name T n w = Val (OK (Some orig), w) ->
  nth_opt (w_models w) (N.to_nat m) = Some x -> assoc_get (pp ++ [47] ++ orig) (m_idents x) = None ->
  make_unique_item_name T i m pp w = Val (OK orig, w).
Proof. exact make_unique_free. Qed.

(* NO RENAMING (2): a copy of an element whose type is not named (no SHORT-NAME: the sub-elements of the AUTOSAR root)
   is never renamed: nothing but the destination and the copy's parent link differs from the world right after
   deep_copy *)
Theorem C13_copy_unnamed_no_rename : forall T w1 w' h c,
  CopyRel T w1 w' h c ->
  (forall nc1, w_nodes w1 c = Some nc1 -> SpecOps.is_named T (n_type nc1) = Val false) ->
  forall i, i <> h -> i <> c -> w_nodes w' i = w_nodes w1 i.
Proof. exact no_rename_unnamed. Qed.

(* the two pre-order walks of duplicate()'s third loop are aligned on trees that are equal up to node ids: a predicate
   that holds of the zipped walks holds of every pair of corresponding elements (IsoP) *)
Theorem C13_walks_aligned : forall P wa wb f s c l l' wa' wb',
  Iso wa wb s c -> dfs_ids f s wa = Val (OK l, wa') -> dfs_ids f c wb = Val (OK l', wb') ->
  Forall2 P l l' -> IsoP P wa wb s c.
Proof. exact dfs_isoP. Qed.

(* the translation of a local file set through the file map is faithful when the map treats its files alike
   (MapsAlike: every file has a record, its name is mapped, and it is mapped to nf exactly when it is f) *)
Theorem C13_translate_faithful : forall w fm f nf fs,
  MapsAlike w fm f nf fs -> passes_fs (Some f) fs = passes_fs (Some nf) (translate_files w fm fs).
Proof. exact translate_ok. Qed.

(* the LAST phase of duplicate() in general (any number of root sub-elements, split models): from roots that are equal
   up to node ids, disjoint trees and a pre-order walk of the copy without repetition, file f of the original and file
   nf of the copy have the same text whenever the file map treats the local file set of every sub-element alike *)
Theorem C13_duplicate_tail_text : forall T tab_el tab_at tab_en float_fmt fm root croot w4 r w' f nf,
  Iso w4 w4 root croot ->
  (forall x y, Sub w4 root x -> Sub w4 croot y -> x <> y) ->
  (forall l, dfs_ids (fuel_of w4) croot w4 = Val (OK l, w4) -> NoDup l) ->
  (do w <- wget; do oids <- dfs_ids (fuel_of w) root; do cids <- dfs_ids (fuel_of w) croot;
   dup_membership fm oids cids)%W w4 = Val (OK r, w') ->
  (forall p pn o on, Sub w4 root p -> w_nodes w4 p = Some pn -> In (CElem o) (n_content pn) -> w_nodes w4 o = Some on ->
     MapsAlike w4 fm f nf (n_files on)) ->
  forall fuel indent inline,
    ser_heap T tab_el tab_at tab_en float_fmt fuel w' (Some f) root indent inline =
    ser_heap T tab_el tab_at tab_en float_fmt fuel w' (Some nf) croot indent inline.
Proof. exact duplicate_tail_text. Qed.

(* DUPLICATE TEXT, end to end.  In a world with C03's Core, duplicate() of model m succeeds with result world w'.
   Scope: the original's root is as AutosarModel::new makes it (name and type of the AUTOSAR element) and has ONE
   sub-element e, of a type that is not named (AUTOSAR: AR-PACKAGES); e is valid (AllValidIn) in LATEST and in every
   version a file of the result has — for a single-version model at most two versions —; the model is not split: every
   sub-element below the root inherits its file membership (empty local set).  Then in the result the text written
   for ANY file filter f below the original's root and the text written for ANY file filter nf below the copy's root
   (node w_next w) are the same bytes: every file of the copy has the text of every file of the original.
   Not covered (oracle DUP-TEXT only): several root sub-elements (insert positions), split models (C13_duplicate_tail_text
   covers the last phase; the file map of dup_files is not characterised), the header line and schemaLocation written
   by ArxmlFile::serialize around this text *)
Theorem C13_duplicate_text :
  forall T tab_el tab_at tab_en check_fn float_fmt LATEST root_attrs m w c w' x rn e ed,
  Core w ->
  m_duplicate T tab_el tab_en check_fn LATEST root_attrs m w = Val (OK c, w') ->
  nth_opt (w_models w) (N.to_nat m) = Some x -> w_nodes w (m_root x) = Some rn ->
  SpecOps.et_new T (SpecOps.autosar_element T) = Val (n_type rn) ->
  SpecOps.elem T (SpecOps.autosar_element T) = Val ed -> ed_name ed = n_name rn ->
  n_content rn = [CElem e] ->
  (forall en, w_nodes w e = Some en -> SpecOps.is_named T (n_type en) = Val false) ->
  (forall v, (v = LATEST \/ exists f fl, nth_opt (w_files w') (N.to_nat f) = Some fl /\ f_version fl = v) -> AllValidIn T v w e) ->
  (forall p pn o on, Sub w (m_root x) p -> w_nodes w p = Some pn -> In (CElem o) (n_content pn) -> w_nodes w o = Some on ->
     n_files on = []) ->
  forall f nf fuel indent inline,
    ser_heap T tab_el tab_at tab_en float_fmt fuel w' (Some f) (m_root x) indent inline =
    ser_heap T tab_el tab_at tab_en float_fmt fuel w' (Some nf) (w_next w) indent inline.
Proof. exact duplicate_text_top. Qed.

(* DUPLICATE TEXT, SPLIT (multi-file) MODELS.  As C13_duplicate_text, but the sub-elements below the root may carry own
   file sets: the files of the model exist and have pairwise different names (create_file rejects a second file of the
   same name), and every local file set below the root is drawn from the files of the model.  Then for every file f of
   the original there is a file nf of the copy with the same name (the one the file map of duplicate() gives that name)
   such that, in the result, the text written for f below the original's root and the text written for nf below the
   copy's root are the same bytes.  (C13_duplicate_text is the special case of empty local sets, where every pair of
   files has the same text.)  dup_files is characterised by C13_dup_files_map: every entry of the map names a file of the
   copy with that name, every file of the original has an entry, existing records persist. *)
Theorem C13_dup_files_map : forall T c files fm0 w fm w',
  dup_files T c files fm0 w = Val (OK fm, w') -> FmSpec c w fm0 ->
  FmSpec c w' fm /\ Persist w w' /\
  (forall name, assoc_get name fm0 <> None -> assoc_get name fm <> None) /\
  (forall f fl, In f files -> nth_opt (w_files w) (N.to_nat f) = Some fl -> assoc_get (f_name fl) fm <> None).
Proof. exact dup_files_map. Qed.

Theorem C13_duplicate_text_split :
  forall T tab_el tab_at tab_en check_fn float_fmt LATEST root_attrs m w c w' x rn e ed,
  Core w ->
  m_duplicate T tab_el tab_en check_fn LATEST root_attrs m w = Val (OK c, w') ->
  nth_opt (w_models w) (N.to_nat m) = Some x -> w_nodes w (m_root x) = Some rn ->
  SpecOps.et_new T (SpecOps.autosar_element T) = Val (n_type rn) ->
  SpecOps.elem T (SpecOps.autosar_element T) = Val ed -> ed_name ed = n_name rn ->
  n_content rn = [CElem e] ->
  (forall en, w_nodes w e = Some en -> SpecOps.is_named T (n_type en) = Val false) ->
  (forall v, (v = LATEST \/ exists f fl, nth_opt (w_files w') (N.to_nat f) = Some fl /\ f_version fl = v) -> AllValidIn T v w e) ->
  (forall g, In g (m_files x) -> exists gl, nth_opt (w_files w) (N.to_nat g) = Some gl) ->
  (forall g1 g2 l1 l2, In g1 (m_files x) -> In g2 (m_files x) ->
     nth_opt (w_files w) (N.to_nat g1) = Some l1 -> nth_opt (w_files w) (N.to_nat g2) = Some l2 ->
     f_name l1 = f_name l2 -> g1 = g2) ->
  (forall p pn o on, Sub w (m_root x) p -> w_nodes w p = Some pn -> In (CElem o) (n_content pn) -> w_nodes w o = Some on ->
     forall g, In g (n_files on) -> In g (m_files x)) ->
  forall f fl, In f (m_files x) -> nth_opt (w_files w) (N.to_nat f) = Some fl ->
  exists nf nfl, nth_opt (w_files w') (N.to_nat nf) = Some nfl /\ f_name nfl = f_name fl /\ f_model nfl = c /\
    forall fuel indent inline,
      ser_heap T tab_el tab_at tab_en float_fmt fuel w' (Some f) (m_root x) indent inline =
      ser_heap T tab_el tab_at tab_en float_fmt fuel w' (Some nf) (w_next w) indent inline.
Proof. exact duplicate_text_split_top. Qed.

(* NON-VACUITY of C13_duplicate_text_split (and of C13_duplicate_text, its special case): a concrete SPLIT two-file model
   on the tiny table set, reached by a script from the empty world (Tree/CopyProofsDupExample.v: files "f" and "g" of
   version 2, PKGS / PKG "p" / ELEMENTS / HOLDER "h" with A-PROPS and B-PROPS, package "p" restricted to file "f"),
   meets every hypothesis; duplicate() succeeds on it (model 1, root node 9), so for each of its two files there is a
   file of the duplicate with the same name and byte-identical text *)
Theorem C13_duplicate_text_example_world :
  Inv.run_ops Tiny13.tiny Tiny13.el Tiny13.el Tiny13.check_fn Tiny13.LATEST [] ex_script Inv.empty_world = Val ex_w /\
  m_duplicate Tiny13.tiny Tiny13.el Tiny13.el Tiny13.check_fn Tiny13.LATEST [] 0 ex_w = Val (OK 1, ex_w') /\
  (m_root ex_x = 0 /\ w_next ex_w = 9 /\ m_files ex_x = [0; 1]) /\
  exists a b, nth_opt (w_files ex_w) 0 = Some a /\ nth_opt (w_files ex_w) 1 = Some b /\ f_name a <> f_name b /\
    exists n2, w_nodes ex_w 2 = Some n2 /\ n_files n2 = [0].
Proof. exact (conj ex_reached (conj ex_dup (conj ex_x_root ex_files))). Qed.

Theorem C13_duplicate_text_example : forall (tab_at : HashModel.nametab) (float_fmt : N -> list N) f fl,
  In f (m_files ex_x) -> nth_opt (w_files ex_w) (N.to_nat f) = Some fl ->
  exists nf nfl, nth_opt (w_files ex_w') (N.to_nat nf) = Some nfl /\ f_name nfl = f_name fl /\ f_model nfl = 1 /\
    forall fuel indent inline,
      ser_heap Tiny13.tiny Tiny13.el tab_at Tiny13.el float_fmt fuel ex_w' (Some f) (m_root ex_x) indent inline =
      ser_heap Tiny13.tiny Tiny13.el tab_at Tiny13.el float_fmt fuel ex_w' (Some nf) (w_next ex_w) indent inline.
Proof. exact duplicate_text_example. Qed.

(* VERSION FILTER INSIDE ONE MODEL: C13_copy_filtered holds for every copy call — the filter version is min_version of
   the DESTINATION, also when source and destination belong to the same model (round-8 seed).  An instance on the tiny
   tables: one model, file "f" of version 2 and file "g" of version 1, package "p" only in "f", package "q" only in
   "g"; the copy of p's ELEMENTS (HOLDER + NEW-THING, the latter permitted in version 2 only) into "q" is made in
   version 1 (the destination's), not 2 (the source's): it keeps the HOLDER and omits the NEW-THING *)
Theorem C13_copy_same_model_other_version_example :
  Inv.run_ops Tiny13.tiny Tiny13.el Tiny13.el Tiny13.check_fn Tiny13.LATEST [] mv_script Inv.empty_world = Val mv_w /\
  model_of 11 mv_w = Val (OK 0, mv_w) /\ model_of 4 mv_w = Val (OK 0, mv_w) /\
  min_version Tiny13.LATEST 11 mv_w = Val (OK 1, mv_w) /\ min_version Tiny13.LATEST 4 mv_w = Val (OK 2, mv_w) /\
  Tiny13.run (OpCopy 11 4) mv_w = Val (OK (VElem 13), mv_w') /\
  Tiny13.node_content mv_w 4 = [CElem 5; CElem 9] /\
  option_map n_name (w_nodes mv_w 5) = Some Tiny13.nHOLDER /\ option_map n_name (w_nodes mv_w 9) = Some Tiny13.nNEW /\
  Tiny13.node_content mv_w' 13 = [CElem 14] /\ option_map n_name (w_nodes mv_w' 14) = Some Tiny13.nHOLDER.
Proof. exact copy_same_model_other_version_example. Qed.

