(* Properties/C06.v — References keep following their target through rename and move.
   Model: Tree/Heap.v, Ops.v, Script.v.  Definitions: Tree/Follow.v (live_ref, designates, below, old_form, resolves),
   Tree/Index.v (ref_text, SpecPath, TreeFacts, Inv04), Tree/Refs.v (Inv05).  Proofs: Tree/FollowProofs*.v.
   Examples / witnesses: Tree/FollowWitness.v.

   COVERAGE of the operation alphabet (DESIGN.md section 7 rule):
     proved [U], every table set (TablesOK for the moves), every world with TreeFacts /\ Inv04 /\ Inv05 (= Inv06),
     every reference graph:
        OpSetItemName                                         C06_rename, C06_rename_rewrites_prefix
        OpMove, OpMoveAt, same model, identifiable element    C06_move_partial (+ _local_partial, _at_local_partial)
        OpMove, OpMoveAt, same model, NON-identifiable container holding identifiable elements, provided no moved
          element's new path is already in the index (collision06 = false)          C06_move_ops, case 2
        OpMove, OpMoveAt ACROSS models (move_element_full)                           C06_move_ops, case 3
        all of them along histories from the empty world                             C06_history
     NOT claimed (K06_collision, a finding of the code, C06_container_collision_refuted): a same-model move of a
        non-identifiable container whose content gets paths that already exist - the container branch of
        move_element_local has no uniqueness check, two elements share one path and the index entry is overwritten.
        This class includes container moves between two parents that share the nearest identifiable ancestor.
     C06_history depends on C04_C05_reachable_partial (agent-c04) for the invariants at the world before the operation:
        the PREFIX of the history must be clean45 (no Known class of C03/C04/C05, no constructor pending there:
        OpCopy, OpCopyAt, OpMove, OpMoveAt, OpRemoveFile, OpRemoveFromFile); the operation considered may be any.
     pending06 (Tree/Follow.v) is kept as the hypothesis of the earlier theorem C06_move_partial only.
     all other constructors do not rename or move and are not the subject of C06.

   FINDING kept on purpose (known finding C06-dangling-prefix-rewritten): set_item_name rewrites EVERY reference of the
   model whose text has the old path as a '/'-boundary prefix, whether or not it resolves: a dangling reference
   "/p1/zzz" becomes "/q/zzz" when /p1 is renamed to q, although it is one of "all other references" of the
   property text (C06_rename_dangling_refuted).  For references that resolve, clause (2) shows the text is kept. *)
From AV Require Import Base.Bytes Base.Outcome Hash.HashModel Tree.Heap Tree.Ops Tree.Script Tree.Inv Tree.InvProofs
  Tree.Index Tree.Refs Tree.IndexProofsBridge Tree.Follow Tree.FollowProofsRename Tree.FollowProofsMove
  Tree.FollowProofsContainer Tree.FollowProofsCross Tree.FollowProofsAll Tree.FollowWitness.
From AV Require Import Spec.SpecReal Tree.CheckFn Tree.IndexProofsClosed Tree.FollowProofsReal.
Open Scope list_scope.
Open Scope N_scope.

(* [U] renaming an identifiable element through the item-name API *)
Theorem C06_rename :
  forall (T : tables) (check_fn : N -> list N -> res bool) (LATEST : N)
         (h : id) (nn : list N) (w w' : world) (m : N),
  Inv06 T check_fn w ->
  e_set_item_name T check_fn LATEST h nn w = Val (OK tt, w') ->
  model_of h w = Val (OK m, w) ->
  (* (1) every reference of the model that designated the renamed element or an element below it designates the same
         element object afterwards *)
  (forall r x, live_ref T w m r -> designates T w m r x -> below T w h x -> designates T w' m r x) /\
  (* (2) a reference (of any model, live or stale) that resolves to an element outside the renamed subtree keeps its
         text *)
  (forall r p, ref_text T w r = Some p -> resolves T w m r ->
               ~ (exists x, designates T w m r x /\ below T w h x) -> ref_text T w' r = Some p) /\
  (* (3) resolving or not: a reference keeps its text unless it is a reference of this model whose text is the old
         path or lies below it at a '/' boundary ("/p10" is not below "/p1") *)
  (forall r p old, SpecPath T w m h old -> ref_text T w r = Some p ->
                   ~ (live_ref T w m r /\ old_form old p) -> ref_text T w' r = Some p).
Proof. exact C06_rename. Qed.

(* [U] what the code does with every text of old form, resolving or not: it is re-prefixed *)
Theorem C06_rename_rewrites_prefix :
  forall (T : tables) (check_fn : N -> list N -> res bool) (LATEST : N)
         (h : id) (nn : list N) (w w' : world) (m : N) (old : list N),
  Inv06 T check_fn w ->
  e_set_item_name T check_fn LATEST h nn w = Val (OK tt, w') ->
  model_of h w = Val (OK m, w) -> SpecPath T w m h old ->
  w' = w \/
  exists new, forall r suf, live_ref T w m r -> ref_text T w r = Some (old ++ suf) ->
    (is_empty suf || starts_with_slash suf) = true -> ref_text T w' r = Some (new ++ suf).
Proof. exact C06_rename_rewrites_prefix. Qed.

(* [U] in terms of the operation alphabet: a successful OpMove / OpMoveAt that is not pending (Tree/Follow.v pending06:
   the moved element is identifiable and both elements lie in the same model) satisfies the three clauses *)
Theorem C06_move_partial :
  forall (T : tables) (tab_el tab_en : nametab) (check_fn : N -> list N -> res bool) (LATEST : N)
         (root_attrs : list (N * cdata)) (o : op) (w w' : world) (v : value),
  TablesOK T check_fn -> Inv06 T check_fn w ->
  run_op T tab_el tab_en check_fn LATEST root_attrs o w = Val (OK v, w') ->
  pending06 T w o = false ->
  forall h mv, (o = OpMove h mv \/ exists pos, o = OpMoveAt h mv pos) ->
  exists m, model_of mv w = Val (OK m, w) /\
    (forall rf x, live_ref T w m rf -> designates T w m rf x -> below T w mv x -> designates T w' m rf x) /\
    (forall rf p, ref_text T w rf = Some p -> resolves T w m rf ->
                  ~ (exists x, designates T w m rf x /\ below T w mv x) -> ref_text T w' rf = Some p) /\
    (forall rf p src, SpecPath T w m mv src -> ref_text T w rf = Some p ->
                      ~ (live_ref T w m rf /\ old_form src p) -> ref_text T w' rf = Some p).
Proof. exact C06_move_partial. Qed.

(* [U] move_element_here within one model, the moved element identifiable (pending06 = false):
   (1) every reference of the model that designated the moved element or an element below it designates the same element
       object afterwards - also when make_unique_item_name renamed the moved element;
   (2) a reference that resolves to an element outside the moved subtree keeps its text;
   (3) a reference keeps its text unless it is a live reference of this model whose text is the old path of the moved
       element or lies below it at a '/' boundary. *)
Theorem C06_move_local_partial :
  forall (T : tables) (tab_en : nametab) (check_fn : N -> list N -> res bool) (LATEST : N)
         (h mv : id) (w w' : world) (r : id) (m : N),
  TablesOK T check_fn -> Inv06 T check_fn w ->
  e_move_element_here T tab_en check_fn LATEST h mv w = Val (OK r, w') ->
  model_of h w = Val (OK m, w) -> model_of mv w = Val (OK m, w) ->
  identifiable T w mv = true ->
  (forall rf x, live_ref T w m rf -> designates T w m rf x -> below T w mv x -> designates T w' m rf x) /\
  (forall rf p, ref_text T w rf = Some p -> resolves T w m rf ->
                ~ (exists x, designates T w m rf x /\ below T w mv x) -> ref_text T w' rf = Some p) /\
  (forall rf p src, SpecPath T w m mv src -> ref_text T w rf = Some p ->
                    ~ (live_ref T w m rf /\ old_form src p) -> ref_text T w' rf = Some p).
Proof. exact C06_move_local_ident. Qed.

(* [U] the same for move_element_here_at (any accepted position, including re-positioning inside the same parent) *)
Theorem C06_move_at_local_partial :
  forall (T : tables) (tab_en : nametab) (check_fn : N -> list N -> res bool) (LATEST : N)
         (h mv : id) (pos : N) (w w' : world) (r : id) (m : N),
  TablesOK T check_fn -> Inv06 T check_fn w ->
  e_move_element_here_at T tab_en check_fn LATEST h mv pos w = Val (OK r, w') ->
  model_of h w = Val (OK m, w) -> model_of mv w = Val (OK m, w) ->
  identifiable T w mv = true ->
  (forall rf x, live_ref T w m rf -> designates T w m rf x -> below T w mv x -> designates T w' m rf x) /\
  (forall rf p, ref_text T w rf = Some p -> resolves T w m rf ->
                ~ (exists x, designates T w m rf x /\ below T w mv x) -> ref_text T w' rf = Some p) /\
  (forall rf p src, SpecPath T w m mv src -> ref_text T w rf = Some p ->
                    ~ (live_ref T w m rf /\ old_form src p) -> ref_text T w' rf = Some p).
Proof. exact C06_move_at_local_ident. Qed.

(* non-vacuity of the move theorem: /p1/S moved into /p10 where an S exists: the moved element becomes S_1 and the
   reference follows *)
Theorem C06_move_example :
  exists w w',
    run_ops Tiny.tiny Tiny.tiny_el Tiny.tiny_en Tiny.tiny_check_fn Tiny.LATEST [] sM Tiny.empty_world = Val w /\
    Inv06 Tiny.tiny Tiny.tiny_check_fn w /\
    e_move_element_here Tiny.tiny Tiny.tiny_en Tiny.tiny_check_fn Tiny.LATEST 9 5 w = Val (OK 5, w') /\
    model_of 9 w = Val (OK 0, w) /\ model_of 5 w = Val (OK 0, w) /\ identifiable Tiny.tiny w 5 = true /\
    texts w  = [Some (BS "/p1"); Some (BS "/p1/S");    Some (BS "/p10"); Some (BS "/p1/zzz"); Some (BS "/q")] /\
    texts w' = [Some (BS "/p1"); Some (BS "/p10/S_1"); Some (BS "/p10"); Some (BS "/p1/zzz"); Some (BS "/q")] /\
    assoc_get (BS "/p1/S") (Tiny.idents_of w 0) = Some 5 /\ assoc_get (BS "/p10/S_1") (Tiny.idents_of w' 0) = Some 5 /\
    assoc_get (BS "/p10/S") (Tiny.idents_of w' 0) = Some 17 /\ assoc_get (BS "/p1/S") (Tiny.idents_of w' 0) = None.
Proof. exact move_follow_example. Qed.

(* finding: "all other references keep their text" fails for a dangling reference below the old path *)
Theorem C06_rename_dangling_refuted :
  exists w w' r p,
    run_ops Tiny.tiny Tiny.tiny_el Tiny.tiny_en Tiny.tiny_check_fn Tiny.LATEST [] sR Tiny.empty_world = Val w /\
    Inv06 Tiny.tiny Tiny.tiny_check_fn w /\
    e_set_item_name Tiny.tiny Tiny.tiny_check_fn Tiny.LATEST 2 (BS "q") w = Val (OK tt, w') /\
    ref_text Tiny.tiny w r = Some p /\ ~ resolves Tiny.tiny w 0 r /\ ref_text Tiny.tiny w' r <> Some p.
Proof. exact rename_dangling_rewritten. Qed.

(* non-vacuity and the behaviour of all clauses on one world: packages p1 / p10, nested /p1/S, references to /p1,
   /p1/S, /p10, a dangling "/p1/zzz" and a dangling "/q" equal to the future path; rename p1 -> q *)
Theorem C06_rename_example :
  exists w w',
    run_ops Tiny.tiny Tiny.tiny_el Tiny.tiny_en Tiny.tiny_check_fn Tiny.LATEST [] sR Tiny.empty_world = Val w /\
    Inv06 Tiny.tiny Tiny.tiny_check_fn w /\
    e_set_item_name Tiny.tiny Tiny.tiny_check_fn Tiny.LATEST 2 (BS "q") w = Val (OK tt, w') /\
    texts w  = [Some (BS "/p1"); Some (BS "/p1/S"); Some (BS "/p10"); Some (BS "/p1/zzz"); Some (BS "/q")] /\
    texts w' = [Some (BS "/q");  Some (BS "/q/S");  Some (BS "/p10"); Some (BS "/q/zzz");  Some (BS "/q")] /\
    assoc_get (BS "/p1") (Tiny.idents_of w 0) = Some 2 /\ assoc_get (BS "/q") (Tiny.idents_of w' 0) = Some 2 /\
    assoc_get (BS "/p1/S") (Tiny.idents_of w 0) = Some 5 /\ assoc_get (BS "/q/S") (Tiny.idents_of w' 0) = Some 5 /\
    assoc_get (BS "/p10") (Tiny.idents_of w' 0) = Some 7 /\ assoc_get (BS "/p1") (Tiny.idents_of w' 0) = None /\
    assoc_get (BS "/q") (Tiny.origins_list w' 0) = Some [16; 12].
Proof. exact rename_follow_example. Qed.

(* ====================================================================== all moves, and histories *)

(* [U] every successful OpMove / OpMoveAt outside K06_collision, by case:
   case 1 (same model, identifiable moved element): the three clauses of C06_move_partial;
   case 2 (same model, non-identifiable container, no path collision): (1) every live reference that designated an element
          of the moved subtree designates the same element object afterwards, (2) every reference keeps its text unless it
          is a live reference of this model that designated an element of the moved subtree;
   case 3 (different models): (a) a reference INSIDE the moved subtree that designated an element of the subtree designates
          the same element object in the DESTINATION model (also when make_unique_item_name renamed the moved element there)
          and is registered in the destination's referrer map, (b) a reference inside the subtree that pointed elsewhere
          (or nowhere) keeps its text and is registered in the destination's referrer map, (c) every reference outside the
          moved subtree - in particular those of the source model that pointed into it - keeps its text. *)
Theorem C06_move_ops :
  forall (T : tables) (tab_el tab_en : nametab) (check_fn : N -> list N -> res bool) (LATEST : N)
         (root_attrs : list (N * cdata)) (o : op) (w w' : world) (v : value) (h mv : id),
  TablesOK T check_fn -> Inv06 T check_fn w ->
  run_op T tab_el tab_en check_fn LATEST root_attrs o w = Val (OK v, w') ->
  (o = OpMove h mv \/ exists pos, o = OpMoveAt h mv pos) ->
  K06_collision T w o = false ->
  exists m m_src, model_of h w = Val (OK m, w) /\ model_of mv w = Val (OK m_src, w) /\
    ((m = m_src /\ identifiable T w mv = true /\
      (forall rf x, live_ref T w m rf -> designates T w m rf x -> below T w mv x -> designates T w' m rf x) /\
      (forall rf p, ref_text T w rf = Some p -> resolves T w m rf ->
                    ~ (exists x, designates T w m rf x /\ below T w mv x) -> ref_text T w' rf = Some p) /\
      (forall rf p src, SpecPath T w m mv src -> ref_text T w rf = Some p ->
                        ~ (live_ref T w m rf /\ old_form src p) -> ref_text T w' rf = Some p))
     \/
     (m = m_src /\ identifiable T w mv = false /\
      (forall rf x, live_ref T w m rf -> designates T w m rf x -> below T w mv x -> designates T w' m rf x) /\
      (forall rf p, ref_text T w rf = Some p ->
                    ~ (live_ref T w m rf /\ exists x, designates T w m rf x /\ below T w mv x) ->
                    ref_text T w' rf = Some p))
     \/
     (m <> m_src /\
      (forall rf x, below T w mv rf -> designates T w m_src rf x -> below T w mv x ->
                    designates T w' m rf x /\
                    exists xm p, model_at w' m = Some xm /\ ref_text T w' rf = Some p /\ In rf (origins_of xm p)) /\
      (forall rf p, below T w mv rf -> ref_text T w rf = Some p ->
                    ~ (exists x, designates T w m_src rf x /\ below T w mv x) ->
                    ref_text T w' rf = Some p /\
                    exists xm p0, model_at w' m = Some xm /\ ref_text T w' rf = Some p0 /\ In rf (origins_of xm p0)) /\
      (forall rf p, ref_text T w rf = Some p -> ~ below T w mv rf -> ref_text T w' rf = Some p))).
Proof. exact C06_move_ops. Qed.

(* [U] along histories: for every history l from the empty world that is clean for C03/C04/C05 (see the header for this
   dependency) and every operation o that succeeds in the world it reaches: a rename satisfies the three clauses of
   C06_rename, a move outside K06_collision satisfies the clauses of its case (move_clauses = the conclusion of
   C06_move_ops, rename_clauses = the conclusion of C06_rename with the model made explicit; Tree/FollowProofsAll.v) *)
Theorem C06_history :
  forall (T : tables) (tab_el tab_en : nametab) (check_fn : N -> list N -> res bool) (LATEST : N)
         (root_attrs : list (N * cdata)),
  TablesOK T check_fn ->
  forall (l : list op) (w : world) (o : op) (v : value) (w' : world),
  clean45 T tab_el tab_en check_fn LATEST root_attrs l empty_world = true ->
  run_ops T tab_el tab_en check_fn LATEST root_attrs l empty_world = Val w ->
  run_op T tab_el tab_en check_fn LATEST root_attrs o w = Val (OK v, w') ->
  (forall h nn, o = OpSetItemName h nn -> rename_clauses T w w' h) /\
  (forall h mv, (o = OpMove h mv \/ exists pos, o = OpMoveAt h mv pos) -> K06_collision T w o = false ->
                move_clauses T w w' h mv).
Proof. exact C06_history. Qed.

(* finding: without the side condition the container move creates a duplicate path and retargets an unrelated reference *)
Theorem C06_container_collision_refuted :
  exists w w',
    run_ops Tiny.tiny Tiny.tiny_el Tiny.tiny_en Tiny.tiny_check_fn Tiny.LATEST [] sX Tiny.empty_world = Val w /\
    Inv06 Tiny.tiny Tiny.tiny_check_fn w /\
    e_move_element_here Tiny.tiny Tiny.tiny_en Tiny.tiny_check_fn Tiny.LATEST 17 4 w = Val (OK 4, w') /\
    identifiable Tiny.tiny w 4 = false /\ collision06 Tiny.tiny w 17 4 = true /\
    ref_text Tiny.tiny w 22 = Some (BS "/c/S") /\ ref_text Tiny.tiny w' 22 = Some (BS "/c/S") /\
    assoc_get (BS "/c/S") (Tiny.idents_of w 0) = Some 20 /\ assoc_get (BS "/c/S") (Tiny.idents_of w' 0) = Some 5 /\
    index_ok Tiny.tiny w = true /\ index_ok Tiny.tiny w' = false.
Proof. exact container_collision. Qed.

(* non-vacuity: a container move (case 2) and a cross-model move with renaming in the destination (case 3) *)
Theorem C06_move_container_example :
  exists w w',
    run_ops Tiny.tiny Tiny.tiny_el Tiny.tiny_en Tiny.tiny_check_fn Tiny.LATEST [] sK Tiny.empty_world = Val w /\
    Inv06 Tiny.tiny Tiny.tiny_check_fn w /\
    e_move_element_here Tiny.tiny Tiny.tiny_en Tiny.tiny_check_fn Tiny.LATEST 17 4 w = Val (OK 4, w') /\
    model_of 17 w = Val (OK 0, w) /\ model_of 4 w = Val (OK 0, w) /\ identifiable Tiny.tiny w 4 = false /\
    collision06 Tiny.tiny w 17 4 = false /\
    texts w' = [Some (BS "/p1"); Some (BS "/b/S"); Some (BS "/p10"); Some (BS "/p1/zzz"); Some (BS "/q")] /\
    assoc_get (BS "/p1/S") (Tiny.idents_of w 0) = Some 5 /\ assoc_get (BS "/b/S") (Tiny.idents_of w' 0) = Some 5 /\
    assoc_get (BS "/p1/S") (Tiny.idents_of w' 0) = None.
Proof. exact move_container_example. Qed.

Theorem C06_move_cross_example :
  exists w w',
    run_ops Tiny.tiny Tiny.tiny_el Tiny.tiny_en Tiny.tiny_check_fn Tiny.LATEST [] sC2 Tiny.empty_world = Val w /\
    Inv06 Tiny.tiny Tiny.tiny_check_fn w /\
    e_move_element_here Tiny.tiny Tiny.tiny_en Tiny.tiny_check_fn Tiny.LATEST 18 7 w = Val (OK 7, w') /\
    model_of 18 w = Val (OK 1, w) /\ model_of 7 w = Val (OK 0, w) /\
    texts w' = [Some (BS "/p1"); Some (BS "/p1/S"); Some (BS "/p10_1"); Some (BS "/p1/zzz"); Some (BS "/q")] /\
    assoc_get (BS "/p10") (Tiny.idents_of w 0) = Some 7 /\ assoc_get (BS "/p10_1") (Tiny.idents_of w' 1) = Some 7 /\
    assoc_get (BS "/p10") (Tiny.idents_of w' 1) = Some 19 /\ assoc_get (BS "/p10") (Tiny.idents_of w' 0) = None /\
    Tiny.origins_list w' 0 = [] /\
    Tiny.origins_list w' 1 = [(BS "/p1", [12]); (BS "/p1/S", [13]); (BS "/p10_1", [14]); (BS "/p1/zzz", [15]); (BS "/q", [16])].
Proof. exact move_cross_example. Qed.

(* ====================================================================== the total case split *)

(* [U] EVERY successful OpMove / OpMoveAt satisfies the clauses of its case (move_clauses = the conclusion of C06_move_ops:
   same model + identifiable element - with a colliding name make_unique_item_name renames and the clauses hold, no side
   condition; same model + container without collision; different models - no side condition) OR it is in the one
   excluded class: a same-model move of a NON-identifiable container some of whose elements get a path that already exists
   (finding C04-move-container-duplicates-paths; witness C06_container_collision_refuted: such a move succeeds, two
   elements share one path, an unrelated reference is retargeted). *)
Theorem C06_move_total :
  forall (T : tables) (tab_el tab_en : nametab) (check_fn : N -> list N -> res bool) (LATEST : N)
         (root_attrs : list (N * cdata)) (o : op) (w w' : world) (v : value) (h mv : id),
  TablesOK T check_fn -> Inv06 T check_fn w ->
  run_op T tab_el tab_en check_fn LATEST root_attrs o w = Val (OK v, w') ->
  (o = OpMove h mv \/ exists pos, o = OpMoveAt h mv pos) ->
  move_clauses T w w' h mv \/
  (exists m, model_of h w = Val (OK m, w) /\ model_of mv w = Val (OK m, w) /\
             identifiable T w mv = false /\ collision06 T w h mv = true).
Proof. exact C06_move_total. Qed.

(* [U]+[F] the same on the GENERATED tables (TablesOK RT: agent-c04's real_tables_ok), for the table-driven validator
   model with any DFA tables *)
Theorem C06_move_total_real :
  forall (dfas : N -> option (list (list N) * list N)) (tab_el tab_en : nametab) (LATEST : N)
         (root_attrs : list (N * cdata)) (o : op) (w w' : world) (v : value) (h mv : id),
  Inv06 RT (check_fn_model dfas) w ->
  run_op RT tab_el tab_en (check_fn_model dfas) LATEST root_attrs o w = Val (OK v, w') ->
  (o = OpMove h mv \/ exists pos, o = OpMoveAt h mv pos) ->
  move_clauses RT w w' h mv \/
  (exists m, model_of h w = Val (OK m, w) /\ model_of mv w = Val (OK m, w) /\
             identifiable RT w mv = false /\ collision06 RT w h mv = true).
Proof. exact move_total_real. Qed.

(* [U] histories with agent-c04's refined pending list (clean45m, Tree/IndexProofsClosed.v: the prefix may contain renames,
   same-model moves of identifiable elements, remove_from_file, remove_file except of the last file; still excluded there:
   copies, container / cross-model moves, removal of the last file, and the Known classes of C03/C04/C05) *)
Theorem C06_history_m :
  forall (T : tables) (tab_el tab_en : nametab) (check_fn : N -> list N -> res bool) (LATEST : N)
         (root_attrs : list (N * cdata)),
  TablesOK T check_fn ->
  forall (l : list op) (w : world) (o : op) (v : value) (w' : world),
  clean45m T tab_el tab_en check_fn LATEST root_attrs l empty_world = true ->
  run_ops T tab_el tab_en check_fn LATEST root_attrs l empty_world = Val w ->
  run_op T tab_el tab_en check_fn LATEST root_attrs o w = Val (OK v, w') ->
  (forall h nn, o = OpSetItemName h nn -> rename_clauses T w w' h) /\
  (forall h mv, (o = OpMove h mv \/ exists pos, o = OpMoveAt h mv pos) ->
     move_clauses T w w' h mv \/
     (exists m, model_of h w = Val (OK m, w) /\ model_of mv w = Val (OK m, w) /\
                identifiable T w mv = false /\ collision06 T w h mv = true)).
Proof. exact C06_history_m. Qed.

(* the same on the generated tables *)
Theorem C06_history_real :
  forall (dfas : N -> option (list (list N) * list N)) (tab_el tab_en : nametab) (LATEST : N)
         (root_attrs : list (N * cdata)) (l : list op) (w : world) (o : op) (v : value) (w' : world),
  clean45m RT tab_el tab_en (check_fn_model dfas) LATEST root_attrs l empty_world = true ->
  run_ops RT tab_el tab_en (check_fn_model dfas) LATEST root_attrs l empty_world = Val w ->
  run_op RT tab_el tab_en (check_fn_model dfas) LATEST root_attrs o w = Val (OK v, w') ->
  (forall h nn, o = OpSetItemName h nn -> rename_clauses RT w w' h) /\
  (forall h mv, (o = OpMove h mv \/ exists pos, o = OpMoveAt h mv pos) ->
     move_clauses RT w w' h mv \/
     (exists m, model_of h w = Val (OK m, w) /\ model_of mv w = Val (OK m, w) /\
                identifiable RT w mv = false /\ collision06 RT w h mv = true)).
Proof. exact history_real. Qed.
