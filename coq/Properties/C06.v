(* Properties/C06.v — References keep following their target through rename and move.
   Model: Tree/Heap.v, Ops.v, Script.v.  Definitions: Tree/Follow.v (live_ref, designates, below, old_form, resolves),
   Tree/Index.v (ref_text, SpecPath, TreeFacts, Inv04), Tree/Refs.v (Inv05).  Proofs: Tree/FollowProofs*.v.
   Examples / witnesses: Tree/FollowWitness.v.

   COVERAGE of the operation alphabet (DESIGN.md section 7 rule):
     proved [U], every table set (TablesOK for the moves), every world with TreeFacts /\ Inv04 /\ Inv05 (= Inv06),
     every reference graph:
        OpSetItemName                              (C06_rename, C06_rename_rewrites_prefix)
        OpMove, OpMoveAt within ONE model when the moved element is IDENTIFIABLE, including the renaming by
        make_unique_item_name and the re-positioning inside the same parent
                                                   (C06_move_local_partial, C06_move_at_local_partial)
     PENDING = pending06 (covered by the history correspondence and the implementation-side oracle of checks/c06.py only):
        OpMove / OpMoveAt of a NON-identifiable container holding identifiable elements (the per-path
        fix_identifiables loop of move_element_local), and OpMove / OpMoveAt ACROSS models (move_element_full,
        C06_move_cross).
     all other constructors do not rename or move and are not the subject of C06.

   FINDING kept on purpose (known finding C06-dangling-prefix-rewritten): set_item_name rewrites EVERY reference of the
   model whose text has the old path as a '/'-boundary prefix, whether or not it resolves: a dangling reference
   "/p1/zzz" becomes "/q/zzz" when /p1 is renamed to q, although it is one of "all other references" of the
   property text (C06_rename_dangling_refuted).  For references that resolve, clause (2) shows the text is kept. *)
From AV Require Import Base.Bytes Base.Outcome Hash.HashModel Tree.Heap Tree.Ops Tree.Script Tree.Inv Tree.InvProofs
  Tree.Index Tree.Refs Tree.Follow Tree.FollowProofsRename Tree.FollowProofsMove Tree.FollowWitness.
Open Scope list_scope.
Open Scope N_scope.

(* [U] renaming an identifiable element through the item-name API *)
Theorem C06_rename :
  forall (T : tables) (check_fn : N -> list N -> res bool) (LATEST : N)
         (h : id) (nn : list N) (w w' : world) (m : N),
  Inv06 T check_fn w ->
  e_set_item_name T check_fn LATEST h nn w = Val (OK tt, w') ->
  model_of h w = Val (OK m, w) ->
  (* (1) every reference of the model that designated the renamed element or an element below it designates the same
         element object afterwards *)
  (forall r x, live_ref T w m r -> designates T w m r x -> below T w h x -> designates T w' m r x) /\
  (* (2) a reference (of any model, live or stale) that resolves to an element outside the renamed subtree keeps its
         text *)
  (forall r p, ref_text T w r = Some p -> resolves T w m r ->
               ~ (exists x, designates T w m r x /\ below T w h x) -> ref_text T w' r = Some p) /\
  (* (3) resolving or not: a reference keeps its text unless it is a reference of this model whose text is the old
         path or lies below it at a '/' boundary ("/p10" is not below "/p1") *)
  (forall r p old, SpecPath T w m h old -> ref_text T w r = Some p ->
                   ~ (live_ref T w m r /\ old_form old p) -> ref_text T w' r = Some p).
Proof. exact C06_rename. Qed.

(* [U] what the code does with every text of old form, resolving or not: it is re-prefixed *)
Theorem C06_rename_rewrites_prefix :
  forall (T : tables) (check_fn : N -> list N -> res bool) (LATEST : N)
         (h : id) (nn : list N) (w w' : world) (m : N) (old : list N),
  Inv06 T check_fn w ->
  e_set_item_name T check_fn LATEST h nn w = Val (OK tt, w') ->
  model_of h w = Val (OK m, w) -> SpecPath T w m h old ->
  w' = w \/
  exists new, forall r suf, live_ref T w m r -> ref_text T w r = Some (old ++ suf) ->
    (is_empty suf || starts_with_slash suf) = true -> ref_text T w' r = Some (new ++ suf).
Proof. exact C06_rename_rewrites_prefix. Qed.

(* [U] in terms of the operation alphabet: a successful OpMove / OpMoveAt that is not pending (Tree/Follow.v pending06:
   the moved element is identifiable and both elements lie in the same model) satisfies the three clauses *)
Theorem C06_move_partial :
  forall (T : tables) (tab_el tab_en : nametab) (check_fn : N -> list N -> res bool) (LATEST : N)
         (root_attrs : list (N * cdata)) (o : op) (w w' : world) (v : value),
  TablesOK T check_fn -> Inv06 T check_fn w ->
  run_op T tab_el tab_en check_fn LATEST root_attrs o w = Val (OK v, w') ->
  pending06 T w o = false ->
  forall h mv, (o = OpMove h mv \/ exists pos, o = OpMoveAt h mv pos) ->
  exists m, model_of mv w = Val (OK m, w) /\
    (forall rf x, live_ref T w m rf -> designates T w m rf x -> below T w mv x -> designates T w' m rf x) /\
    (forall rf p, ref_text T w rf = Some p -> resolves T w m rf ->
                  ~ (exists x, designates T w m rf x /\ below T w mv x) -> ref_text T w' rf = Some p) /\
    (forall rf p src, SpecPath T w m mv src -> ref_text T w rf = Some p ->
                      ~ (live_ref T w m rf /\ old_form src p) -> ref_text T w' rf = Some p).
Proof. exact C06_move_partial. Qed.

(* [U] move_element_here within one model, the moved element identifiable (pending06 = false):
   (1) every reference of the model that designated the moved element or an element below it designates the same element
       object afterwards - also when make_unique_item_name renamed the moved element;
   (2) a reference that resolves to an element outside the moved subtree keeps its text;
   (3) a reference keeps its text unless it is a live reference of this model whose text is the old path of the moved
       element or lies below it at a '/' boundary. *)
Theorem C06_move_local_partial :
  forall (T : tables) (tab_en : nametab) (check_fn : N -> list N -> res bool) (LATEST : N)
         (h mv : id) (w w' : world) (r : id) (m : N),
  TablesOK T check_fn -> Inv06 T check_fn w ->
  e_move_element_here T tab_en check_fn LATEST h mv w = Val (OK r, w') ->
  model_of h w = Val (OK m, w) -> model_of mv w = Val (OK m, w) ->
  identifiable T w mv = true ->
  (forall rf x, live_ref T w m rf -> designates T w m rf x -> below T w mv x -> designates T w' m rf x) /\
  (forall rf p, ref_text T w rf = Some p -> resolves T w m rf ->
                ~ (exists x, designates T w m rf x /\ below T w mv x) -> ref_text T w' rf = Some p) /\
  (forall rf p src, SpecPath T w m mv src -> ref_text T w rf = Some p ->
                    ~ (live_ref T w m rf /\ old_form src p) -> ref_text T w' rf = Some p).
Proof. exact C06_move_local_ident. Qed.

(* [U] the same for move_element_here_at (any accepted position, including re-positioning inside the same parent) *)
Theorem C06_move_at_local_partial :
  forall (T : tables) (tab_en : nametab) (check_fn : N -> list N -> res bool) (LATEST : N)
         (h mv : id) (pos : N) (w w' : world) (r : id) (m : N),
  TablesOK T check_fn -> Inv06 T check_fn w ->
  e_move_element_here_at T tab_en check_fn LATEST h mv pos w = Val (OK r, w') ->
  model_of h w = Val (OK m, w) -> model_of mv w = Val (OK m, w) ->
  identifiable T w mv = true ->
  (forall rf x, live_ref T w m rf -> designates T w m rf x -> below T w mv x -> designates T w' m rf x) /\
  (forall rf p, ref_text T w rf = Some p -> resolves T w m rf ->
                ~ (exists x, designates T w m rf x /\ below T w mv x) -> ref_text T w' rf = Some p) /\
  (forall rf p src, SpecPath T w m mv src -> ref_text T w rf = Some p ->
                    ~ (live_ref T w m rf /\ old_form src p) -> ref_text T w' rf = Some p).
Proof. exact C06_move_at_local_ident. Qed.

(* non-vacuity of the move theorem: /p1/S moved into /p10 where an S exists: the moved element becomes S_1 and the
   reference follows *)
Theorem C06_move_example :
  exists w w',
    run_ops Tiny.tiny Tiny.tiny_el Tiny.tiny_en Tiny.tiny_check_fn Tiny.LATEST [] sM Tiny.empty_world = Val w /\
    Inv06 Tiny.tiny Tiny.tiny_check_fn w /\
    e_move_element_here Tiny.tiny Tiny.tiny_en Tiny.tiny_check_fn Tiny.LATEST 9 5 w = Val (OK 5, w') /\
    model_of 9 w = Val (OK 0, w) /\ model_of 5 w = Val (OK 0, w) /\ identifiable Tiny.tiny w 5 = true /\
    texts w  = [Some (BS "/p1"); Some (BS "/p1/S");    Some (BS "/p10"); Some (BS "/p1/zzz"); Some (BS "/q")] /\
    texts w' = [Some (BS "/p1"); Some (BS "/p10/S_1"); Some (BS "/p10"); Some (BS "/p1/zzz"); Some (BS "/q")] /\
    assoc_get (BS "/p1/S") (Tiny.idents_of w 0) = Some 5 /\ assoc_get (BS "/p10/S_1") (Tiny.idents_of w' 0) = Some 5 /\
    assoc_get (BS "/p10/S") (Tiny.idents_of w' 0) = Some 17 /\ assoc_get (BS "/p1/S") (Tiny.idents_of w' 0) = None.
Proof. exact move_follow_example. Qed.

(* finding: "all other references keep their text" fails for a dangling reference below the old path *)
Theorem C06_rename_dangling_refuted :
  exists w w' r p,
    run_ops Tiny.tiny Tiny.tiny_el Tiny.tiny_en Tiny.tiny_check_fn Tiny.LATEST [] sR Tiny.empty_world = Val w /\
    Inv06 Tiny.tiny Tiny.tiny_check_fn w /\
    e_set_item_name Tiny.tiny Tiny.tiny_check_fn Tiny.LATEST 2 (BS "q") w = Val (OK tt, w') /\
    ref_text Tiny.tiny w r = Some p /\ ~ resolves Tiny.tiny w 0 r /\ ref_text Tiny.tiny w' r <> Some p.
Proof. exact rename_dangling_rewritten. Qed.

(* non-vacuity and the behaviour of all clauses on one world: packages p1 / p10, nested /p1/S, references to /p1,
   /p1/S, /p10, a dangling "/p1/zzz" and a dangling "/q" equal to the future path; rename p1 -> q *)
Theorem C06_rename_example :
  exists w w',
    run_ops Tiny.tiny Tiny.tiny_el Tiny.tiny_en Tiny.tiny_check_fn Tiny.LATEST [] sR Tiny.empty_world = Val w /\
    Inv06 Tiny.tiny Tiny.tiny_check_fn w /\
    e_set_item_name Tiny.tiny Tiny.tiny_check_fn Tiny.LATEST 2 (BS "q") w = Val (OK tt, w') /\
    texts w  = [Some (BS "/p1"); Some (BS "/p1/S"); Some (BS "/p10"); Some (BS "/p1/zzz"); Some (BS "/q")] /\
    texts w' = [Some (BS "/q");  Some (BS "/q/S");  Some (BS "/p10"); Some (BS "/q/zzz");  Some (BS "/q")] /\
    assoc_get (BS "/p1") (Tiny.idents_of w 0) = Some 2 /\ assoc_get (BS "/q") (Tiny.idents_of w' 0) = Some 2 /\
    assoc_get (BS "/p1/S") (Tiny.idents_of w 0) = Some 5 /\ assoc_get (BS "/q/S") (Tiny.idents_of w' 0) = Some 5 /\
    assoc_get (BS "/p10") (Tiny.idents_of w' 0) = Some 7 /\ assoc_get (BS "/p1") (Tiny.idents_of w' 0) = None /\
    assoc_get (BS "/q") (Tiny.origins_list w' 0) = Some [16; 12].
Proof. exact rename_follow_example. Qed.
