(* Properties/C18.v — Specification tables are exact.
   Only statements; every proof is `exact <lemma>` (lemmas live in Hash/, Spec/).
   Kinds: [U] unbounded (all byte strings / all numbers), [F] finite-complete over the tables the
   translator regenerated from the current source (evaluated in the kernel by vm_compute). *)
From AV Require Import Base.Bytes Hash.HashModel Hash.HashProofs.
From AV Require Import Hash.HashRealElement Hash.HashRealAttr Hash.HashRealEnum.
From AV Require Import Spec.Versions.
Open Scope N_scope.

(* ---- names: text -> item -> text, for EVERY byte string (any length, any bytes) ---- *)

(* [U]+[F] from_bytes s = Ok i  iff  i is an item and s is exactly its text *)
Theorem C18_element_name_exact : forall s i,
  from_bytes tab_element s = Ok i <-> (i < nt_mtab tab_element /\ to_str tab_element i = Some s).
Proof. exact (from_bytes_iff tab_element element_roundtrip_ok element_tabs_ok). Qed.
Theorem C18_attribute_name_exact : forall s i,
  from_bytes tab_attr s = Ok i <-> (i < nt_mtab tab_attr /\ to_str tab_attr i = Some s).
Proof. exact (from_bytes_iff tab_attr attr_roundtrip_ok attr_tabs_ok). Qed.
Theorem C18_enum_item_exact : forall s i,
  from_bytes tab_enum s = Ok i <-> (i < nt_mtab tab_enum /\ to_str tab_enum i = Some s).
Proof. exact (from_bytes_iff tab_enum enum_roundtrip_ok enum_tabs_ok). Qed.

(* [F] item -> text -> item *)
Theorem C18_element_name_roundtrip : forall i, i < nt_mtab tab_element ->
  exists s, to_str tab_element i = Some s /\ from_bytes tab_element s = Ok i.
Proof. exact (roundtrip_sound tab_element element_roundtrip_ok). Qed.
Theorem C18_attribute_name_roundtrip : forall i, i < nt_mtab tab_attr ->
  exists s, to_str tab_attr i = Some s /\ from_bytes tab_attr s = Ok i.
Proof. exact (roundtrip_sound tab_attr attr_roundtrip_ok). Qed.
Theorem C18_enum_item_roundtrip : forall i, i < nt_mtab tab_enum ->
  exists s, to_str tab_enum i = Some s /\ from_bytes tab_enum s = Ok i.
Proof. exact (roundtrip_sound tab_enum enum_roundtrip_ok). Qed.

(* distinct items have distinct texts *)
Theorem C18_element_name_distinct : forall i j s, i < nt_mtab tab_element -> j < nt_mtab tab_element ->
  to_str tab_element i = Some s -> to_str tab_element j = Some s -> i = j.
Proof. exact (to_str_injective tab_element element_roundtrip_ok). Qed.
Theorem C18_attribute_name_distinct : forall i j s, i < nt_mtab tab_attr -> j < nt_mtab tab_attr ->
  to_str tab_attr i = Some s -> to_str tab_attr j = Some s -> i = j.
Proof. exact (to_str_injective tab_attr attr_roundtrip_ok). Qed.
Theorem C18_enum_item_distinct : forall i j s, i < nt_mtab tab_enum -> j < nt_mtab tab_enum ->
  to_str tab_enum i = Some s -> to_str tab_enum j = Some s -> i = j.
Proof. exact (to_str_injective tab_enum enum_roundtrip_ok). Qed.

(* [U] text that is not exactly an item's text fails (and nothing panics) *)
Theorem C18_element_name_nonmember : forall s,
  (forall i, i < nt_mtab tab_element -> to_str tab_element i <> Some s) -> from_bytes tab_element s = Err.
Proof. exact (from_bytes_nonmember tab_element element_roundtrip_ok element_tabs_ok). Qed.
Theorem C18_attribute_name_nonmember : forall s,
  (forall i, i < nt_mtab tab_attr -> to_str tab_attr i <> Some s) -> from_bytes tab_attr s = Err.
Proof. exact (from_bytes_nonmember tab_attr attr_roundtrip_ok attr_tabs_ok). Qed.
Theorem C18_enum_item_nonmember : forall s,
  (forall i, i < nt_mtab tab_enum -> to_str tab_enum i <> Some s) -> from_bytes tab_enum s = Err.
Proof. exact (from_bytes_nonmember tab_enum enum_roundtrip_ok enum_tabs_ok). Qed.

(* [F] the index the hash returns is always a declared enum discriminant (the transmute is valid)
   and that variant is the one documented with the table text *)
Theorem C18_element_discriminants :
  (forall txt d, In (txt, d) discr_element -> d < nt_mtab tab_element /\ to_str tab_element d = Some txt) /\
  (forall i, i < nt_mtab tab_element -> exists txt, In (txt, i) discr_element).
Proof. exact (discr_sound tab_element discr_element element_discr_ok element_tabs_ok). Qed.
Theorem C18_attribute_discriminants :
  (forall txt d, In (txt, d) discr_attr -> d < nt_mtab tab_attr /\ to_str tab_attr d = Some txt) /\
  (forall i, i < nt_mtab tab_attr -> exists txt, In (txt, i) discr_attr).
Proof. exact (discr_sound tab_attr discr_attr attr_discr_ok attr_tabs_ok). Qed.
Theorem C18_enum_discriminants :
  (forall txt d, In (txt, d) discr_enum -> d < nt_mtab tab_enum /\ to_str tab_enum d = Some txt) /\
  (forall i, i < nt_mtab tab_enum -> exists txt, In (txt, i) discr_enum).
Proof. exact (discr_sound tab_enum discr_enum enum_discr_ok enum_tabs_ok). Qed.

(* ---- versions: value <-> version <-> file name, one-to-one, for ALL strings and numbers ---- *)
Theorem C18_version_from_filename : forall s i,
  from_str s = Some i <-> (i < n_versions /\ filename i = Some s).
Proof. exact (from_str_exact versions_ok_holds). Qed.
Theorem C18_version_from_value : forall n i,
  from_val n = Some i <-> (i < n_versions /\ ver_value i = Some n).
Proof. exact (from_val_exact versions_ok_holds). Qed.
Theorem C18_version_values_are_single_bits : forall i v,
  ver_value i = Some v -> is_pow2 v = true /\ v < 4294967296.
Proof. exact (values_single_bits versions_ok_holds). Qed.
Theorem C18_version_values_distinct : forall i j v, ver_value i = Some v -> ver_value j = Some v -> i = j.
Proof. exact (values_injective versions_ok_holds). Qed.
Theorem C18_version_filenames_distinct : forall i j f, i < n_versions -> j < n_versions ->
  filename i = Some f -> filename j = Some f -> i = j.
Proof. exact (filenames_injective versions_ok_holds). Qed.

(* ---- lookups match the listings: all datatypes x all versions of the current tables [F] ---- *)
From AV Require Import Base.Outcome Spec.SpecOps Spec.SpecProofs Spec.SpecReal Spec.SpecSweepFacts.

(* every sub-element listed by sub_element_spec_iter for a type, in every version of its mask, is found by
   find_sub_element in that version, with a type listed for that name in that version, and the version
   mask reported for the returned index path contains the version; nothing panics or runs out of fuel *)
Theorem C18_listing_lookup_subelements : forall ty, ty < n_datatypes RT ->
  listing_lookup_spec RT version_bits ty.
Proof. exact real_listing_lookup. Qed.

(* every attribute listed by attribute_spec_iter is found by find_attribute_spec with a listed spec and
   required flag and a non-empty version mask *)
Theorem C18_listing_lookup_attributes : forall ty, ty < n_datatypes RT -> attr_lookup_spec RT ty.
Proof. exact real_attr_lookup. Qed.

(* [U] for EVERY table set: a proposed DEST value is accepted by the target type and belongs to the
   reference's DEST enumeration *)
Theorem C18_dest : forall (T : tables) (t other : etype) (d : N),
  reference_dest_value T t other = Val (Some d) ->
  verify_reference_dest T other d = Val true /\
  exists cdid items req ver,
    find_attribute_spec T t (attr_dest T) = Val (Some (cdid, CEnum items, req, ver)) /\ In d (map fst items).
Proof. exact dest_sound. Qed.
