(* Properties/C06Load.v — C06 ("references follow their target through rename and move") over the extended alphabet op2
   (Tree/Script2.v) and in LOADED worlds.  NOT imported by Properties/C06.v (separate closure: the loader model).
   Definitions: Tree/Follow.v, Tree/FollowL.v (TreeFactsL, unstale, dead, RefsD, Inv05D, Inv06D, dead_before_live),
   Tree/FollowProofsOp2.v (follow_frame, steps06_2).  Proofs: Tree/FollowProofsL.v, FollowProofsRenameD.v,
   FollowProofsOp2.v, FollowProofsReal.v; witness: Tree/FollowWitnessLoad.v.

   COVERAGE of op2:
     Op1 o                      the 26 constructors: Properties/C06.v
     OpSort, OpSortModel        C06_op2_frame: nothing a reference is, says or designates changes (agent-c14 `kept`,
                                agent-c04 sx_ lemmas); side condition: no late SHORT-NAME element (Index.late_short)
     OpSetVersion, OpCheckCompat, OpSerializeFile, OpSerializeElem      C06_op2_frame
     OpDuplicate                C06_duplicate_refs: the original is untouched; a reference of the copy that resolves,
                                resolves inside the copy, at the path at which the original's reference finds its target;
                                Inv06 holds again, so the rename / move theorems apply to original and copy
     histories                  C06_history2_partial / C06_after_history2: Inv06 after every history over op2 from the empty
                                world whose steps avoid the finding classes of C03/C04/C05 and the ONE PENDING constructor
     PENDING (pending_op2)      OpLoad in the prefix of a history.  What is proved about loaded worlds instead:
       - C06_rename_d: the rename theorem under the WEAKER hypotheses Inv06D that a loaded world can satisfy:
         TreeFactsL (TreeFacts without "only the root carries PModel m": the FIRST load into a model leaves the element
         made by AutosarModel::new with its parent link, finding C03-first-load-replaces-root) and Inv05D (the referrer map
         may hold DEAD entries: nodes dropped by a merging load, membership [65535]); Inv06 implies Inv06D.
       - C06_rename_skips_dead: live referrers standing BEHIND a dead entry are rewritten.
       - C06_rename_skips_dead_witness: such a world, produced by the loader model (three loads), with the stale root
         and a dead entry in front of a live one; replayed on the library by checks/c06.py.
       - C06_treefactsL_after_load: the structural part of Inv06D (TreeFactsL) holds after EVERY load outside agent-c03's
         classes (first loads and merges).
       - C06_after_first_load / C06_load_then_rename[_real]: AutosarModel::new(); load_buffer(..); set_item_name(..):
         after the FIRST load into the only, still empty model of a world the path index and the referrer map are exact
         (Inv06D), so the three clauses of the rename theorem hold.  No hypothesis about duplicate paths (a load that
         returns Ok has passed the overlap check).  Remaining hypothesis: DocSide of the loaded world = the node-wise side
         conditions of Inv04 (SHORT-NAME elements carry a SHORT-NAME type, their text has no '/', an identifiable element has
         an item name, character elements hold at most one text) and SnNamed (a SHORT-NAME first child only below an
         element of a named type): properties of the loaded DOCUMENT, not derived from the parser here.
       - C06_load_keeps_referrers[_real]: EVERY accepted load (first file or merge) extends the referrer lists: each
         element registered under a text before is still registered under it, exactly the reference elements the parser
         recorded for the new file are added (each under its text), the keys stay distinct, no other model changes
         (the clause the seed C06-load-referrers-extend-replaces broke: it replaced the lists).
       STILL PENDING: Inv04 / Inv05D after a MERGING load (second and later files), loads into a world with several
       models, moves in loaded worlds. *)
From AV Require Import Base.Bytes Base.Outcome Hash.HashModel Spec.SpecOps Spec.SpecReal Tree.Heap Tree.Ops Tree.Script Tree.Script2
  Tree.Sort Tree.Copy Tree.Load Tree.Compat Tree.Serialize Tree.Inv Tree.Index Tree.Refs Tree.RefsAll Tree.CheckFn
  Tree.IndexProofsNodeInv Tree.IndexProofsOp2 Tree.SortProofsNames Tree.InvProofsReal Tree.InvProofsOp2 Tree.InvProofsOp2Lift
  Tree.Follow Tree.FollowL Tree.FollowProofsRename Tree.FollowProofsAll Tree.FollowProofsL Tree.FollowProofsRenameD
  Tree.FollowProofsOp2 Tree.FollowProofsReal Tree.FollowWitnessLoad.
From AV Require Import Tree.InvEBase Tree.InvLoad Tree.InvProofsLoadLive Tree.FollowProofsLoad Tree.FollowProofsLoadMain
  Tree.FollowProofsLoadTop Tree.FollowProofsLoadReal Tree.FollowProofsLoadKeepRefs Tree.MergeSpec.
From AV Require Xml.TablesOkReal Xml.LoadRecordsExamples.
From AV Require Xml.Parser Xml.TablesOk Xml.LoadRecordsRegular.
Import Tiny.
Open Scope list_scope.
Open Scope N_scope.

(* ====================================================================== the extended alphabet *)

(* [U] sort, sort_model, set_version, check_version_compatibility, serialize: whatever the call returns *)
Theorem C06_op2_frame :
  forall (T : tables) (tab_el tab_at tab_en : nametab) (check_fn : N -> list N -> res bool)
         (float_parse : list N -> option N) (float_fmt : N -> list N)
         (LATEST name_index name_definition_ref attr_schema_location : N) (root_attrs : list (N * cdata))
         (o : op2) (w : world) (r : out value2) (w' : world),
  MaskOk T -> Inv06 T check_fn w -> is_frame_op o = true ->
  (match o with OpSort _ | OpSortModel _ => late_short T w = false | _ => True end) ->
  run_op2 T tab_el tab_at tab_en check_fn float_parse float_fmt LATEST name_index name_definition_ref attr_schema_location
          root_attrs o w = Val (r, w') ->
  (forall m r, live_ref T w' m r <-> live_ref T w m r) /\
  (forall r, ref_text T w' r = ref_text T w r) /\
  (forall m r x, designates T w' m r x <-> designates T w m r x) /\
  (forall e x, below T w' e x <-> below T w e x).
Proof. exact C06_op2_frame. Qed.

(* [U] AutosarModel::duplicate *)
Theorem C06_duplicate_refs :
  forall (T : tables) (tab_el tab_en : nametab) (check_fn : N -> list N -> res bool) (LATEST : N)
         (root_attrs : list (N * cdata)),
  TablesOK T check_fn -> (forall ty, et_new T (autosar_element T) = Val ty -> plainty T ty) ->
  forall (m : N) (w : world) (c : N) (w' : world),
  TreeInv w -> Inv06 T check_fn w -> RX T w ->
  dup_clean T tab_el tab_en check_fn LATEST root_attrs w m = true ->
  m_duplicate T tab_el tab_en check_fn LATEST root_attrs m w = Val (OK c, w') ->
  Inv06 T check_fn w' /\ TreeInv w' /\ RX T w' /\
  (forall m0 r, live_ref T w m0 r -> live_ref T w' m0 r) /\
  (forall r p, ref_text T w r = Some p -> ref_text T w' r = Some p) /\
  (forall m0 r x, designates T w m0 r x -> designates T w' m0 r x) /\
  (forall r' x', live_ref T w' c r' -> designates T w' c r' x' ->
     live_ref T w' c x' /\ w_next w <= x' /\ exists p, ref_text T w' r' = Some p /\ SpecPath T w' c x' p) /\
  (forall r x r' x' p, ref_text T w r = Some p -> ref_text T w' r' = Some p ->
     designates T w m r x -> designates T w' c r' x' -> SpecPath T w m x p /\ SpecPath T w' c x' p /\ x < w_next w <= x').
Proof. exact C06_duplicate_refs. Qed.

(* [U] histories over op2; steps06_2: at every step pending_op2 o = false (not OpLoad), Known_real2 = false (C03),
   Side45_2 (C04/C05) *)
Theorem C06_history2_partial :
  forall (T : tables) (tab_el tab_at tab_en : nametab) (check_fn : N -> list N -> res bool)
         (float_parse : list N -> option N) (float_fmt : N -> list N)
         (LATEST name_index name_definition_ref attr_schema_location : N) (root_attrs : list (N * cdata)),
  TablesOK T check_fn -> (forall ty, et_new T (autosar_element T) = Val ty -> plainty T ty) -> RefChars T -> MaskOk T ->
  forall (l : list op2) (w : world),
  steps06_2 T tab_el tab_at tab_en check_fn float_parse float_fmt LATEST name_index name_definition_ref attr_schema_location
            root_attrs l empty_world ->
  run_hist2 T tab_el tab_at tab_en check_fn float_parse float_fmt LATEST name_index name_definition_ref attr_schema_location
            root_attrs l empty_world = Val w ->
  Inv06 T check_fn w /\ TreeInv w /\ RX T w.
Proof. exact C06_history2_partial. Qed.

Theorem C06_after_history2 :
  forall (T : tables) (tab_el tab_at tab_en : nametab) (check_fn : N -> list N -> res bool)
         (float_parse : list N -> option N) (float_fmt : N -> list N)
         (LATEST name_index name_definition_ref attr_schema_location : N) (root_attrs : list (N * cdata)),
  TablesOK T check_fn -> (forall ty, et_new T (autosar_element T) = Val ty -> plainty T ty) -> RefChars T -> MaskOk T ->
  forall (l : list op2) (w : world) (o : op) (v : value) (w' : world),
  steps06_2 T tab_el tab_at tab_en check_fn float_parse float_fmt LATEST name_index name_definition_ref attr_schema_location
            root_attrs l empty_world ->
  run_hist2 T tab_el tab_at tab_en check_fn float_parse float_fmt LATEST name_index name_definition_ref attr_schema_location
            root_attrs l empty_world = Val w ->
  run_op T tab_el tab_en check_fn LATEST root_attrs o w = Val (OK v, w') ->
  (forall h nn, o = OpSetItemName h nn -> rename_clauses T w w' h) /\
  (forall h mv, (o = OpMove h mv \/ exists pos, o = OpMoveAt h mv pos) ->
     move_clauses T w w' h mv \/
     (exists m, model_of h w = Val (OK m, w) /\ model_of mv w = Val (OK m, w) /\
                identifiable T w mv = false /\ collision06 T w h mv = true)).
Proof. exact C06_after_history2. Qed.

(* [F tables] the same on the generated tables: all four table hypotheses are theorems there *)
Theorem C06_after_history2_real :
  forall (dfas : N -> option (list (list N) * list N)) (tab_el tab_at tab_en : nametab)
         (float_parse : list N -> option N) (float_fmt : N -> list N)
         (LATEST name_index name_definition_ref attr_schema_location : N) (root_attrs : list (N * cdata))
         (l : list op2) (w : world) (o : op) (v : value) (w' : world),
  steps06_2 RT tab_el tab_at tab_en (check_fn_model dfas) float_parse float_fmt LATEST name_index name_definition_ref
            attr_schema_location root_attrs l empty_world ->
  run_hist2 RT tab_el tab_at tab_en (check_fn_model dfas) float_parse float_fmt LATEST name_index name_definition_ref
            attr_schema_location root_attrs l empty_world = Val w ->
  run_op RT tab_el tab_en (check_fn_model dfas) LATEST root_attrs o w = Val (OK v, w') ->
  (forall h nn, o = OpSetItemName h nn -> rename_clauses RT w w' h) /\
  (forall h mv, (o = OpMove h mv \/ exists pos, o = OpMoveAt h mv pos) ->
     move_clauses RT w w' h mv \/
     (exists m, model_of h w = Val (OK m, w) /\ model_of mv w = Val (OK m, w) /\
                identifiable RT w mv = false /\ collision06 RT w h mv = true)).
Proof. exact history2_real. Qed.

(* ====================================================================== loaded worlds *)

(* [U] the hypotheses of Properties/C06.v imply the weaker ones *)
Theorem C06_inv06_weaker :
  forall (T : tables) (check_fn : N -> list N -> res bool) (w : world), Inv06 T check_fn w -> Inv06D T check_fn w.
Proof. exact Inv06_D. Qed.

(* [U] what is left of TreeFacts after a first load is TreeFacts of the world in which the stale roots are detached;
   that world has the same names, types, content lists and models *)
Theorem C06_unstale :
  forall (w : world), TreeFactsL w ->
  TreeFacts (unstale w) /\ w_models (unstale w) = w_models w /\ w_next (unstale w) = w_next w /\
  (forall i, option_map (fun n => (n_name n, n_type n, n_content n)) (w_nodes (unstale w) i) =
             option_map (fun n => (n_name n, n_type n, n_content n)) (w_nodes w i)).
Proof. exact unstale_facts. Qed.

(* [U] set_item_name under Inv06D, for a renamed element that is live (reachable from the root of model m).
   Clauses (2) and (3) speak of nodes that are not dead. *)
Theorem C06_rename_d :
  forall (T : tables) (check_fn : N -> list N -> res bool) (LATEST : N)
         (h : id) (nn : list N) (w w' : world) (m : N),
  Inv06D T check_fn w -> live_ref T w m h ->
  e_set_item_name T check_fn LATEST h nn w = Val (OK tt, w') ->
  (forall r x, live_ref T w m r -> designates T w m r x -> below T w h x -> designates T w' m r x) /\
  (forall r p, ~ dead w r -> ref_text T w r = Some p -> resolves T w m r ->
               ~ (exists x, designates T w m r x /\ below T w h x) -> ref_text T w' r = Some p) /\
  (forall r p old, ~ dead w r -> SpecPath T w m h old -> ref_text T w r = Some p ->
                   ~ (live_ref T w m r /\ old_form old p) -> ref_text T w' r = Some p).
Proof. exact C06_rename_d. Qed.

(* [U] dead entries are skipped: a live referrer r behind a dead entry d in the referrer list of a path of old form *)
Theorem C06_rename_skips_dead :
  forall (T : tables) (check_fn : N -> list N -> res bool) (LATEST : N)
         (h : id) (nn : list N) (w w' : world) (m : N) (old : list N),
  Inv06D T check_fn w -> live_ref T w m h ->
  e_set_item_name T check_fn LATEST h nn w = Val (OK tt, w') -> SpecPath T w m h old ->
  w' = w \/
  exists new, forall suf d r, dead_before_live T w m (old ++ suf) d r ->
    (is_empty suf || starts_with_slash suf) = true -> ref_text T w' r = Some (new ++ suf).
Proof. exact C06_rename_skips_dead. Qed.

(* [U] with the full tree facts (the model was not filled by a first load, e.g. files merged into a model built through
   the API) the renamed element is live by itself; every live reference of old form is rewritten, in particular behind
   dead entries *)
Theorem C06_rename_skips_dead_tf :
  forall (T : tables) (check_fn : N -> list N -> res bool) (LATEST : N)
         (h : id) (nn : list N) (w w' : world) (m : N) (old : list N),
  TreeFacts w -> Inv04 T check_fn w -> Inv05D T w ->
  e_set_item_name T check_fn LATEST h nn w = Val (OK tt, w') -> model_of h w = Val (OK m, w) -> SpecPath T w m h old ->
  w' = w \/
  exists new,
    (forall r suf, live_ref T w m r -> ref_text T w r = Some (old ++ suf) ->
       (is_empty suf || starts_with_slash suf) = true -> ref_text T w' r = Some (new ++ suf)) /\
    (forall suf d r, dead_before_live T w m (old ++ suf) d r ->
       (is_empty suf || starts_with_slash suf) = true -> ref_text T w' r = Some (new ++ suf)).
Proof. exact C06_rename_skips_dead_tf. Qed.

(* [F] the loader model produces such a world: file a; the same document again (merged: its reference element 26 stays in
   the referrer list of /p1/S as a dead entry); file c with a new reference 34 to /p1/S.  Node 0 is the stale root. *)
Theorem C06_rename_skips_dead_witness :
  exists w w' n0 x,
    three_loads = Val w /\
    w_nodes w 0 = Some n0 /\ n_parent n0 = PModel 0 /\ model_at w 0 = Some x /\ m_root x = 1 /\
    origins_of x (BS "/p1/S") = [13; 26; 34] /\ dead_before_live tiny w 0 (BS "/p1/S") 26 34 /\
    live_ref tiny w 0 3 /\ SpecPath tiny w 0 3 (BS "/p1") /\
    e_set_item_name tiny tiny_check_fn LATEST 3 (BS "q") w = Val (OK tt, w') /\
    map (ref_text tiny w) [13; 34] = [Some (BS "/p1/S"); Some (BS "/p1/S")] /\
    map (ref_text tiny w') [13; 34] = [Some (BS "/q/S"); Some (BS "/q/S")].
Proof. exact rename_skips_dead_witness. Qed.

(* ====================================================================== after a load *)

(* [U] every load outside agent-c03's classes (not rejected with InvalidFileMerge, not Known_load_shared): RealInvL is kept
   and TreeFactsL holds - first loads (stale root) and merging loads alike *)
Theorem C06_treefactsL_after_load :
  forall (T : tables) (tab_el tab_at tab_en : nametab) (check_fn : N -> list N -> res bool)
         (float_parse : list N -> option N) (LATEST name_definition_ref : N)
         (m : N) (buffer filename : list N) (strict : bool) (w : world) (r : out (N * list Parser.perror)) (w' : world),
  TablesOk.tables_ok T = true -> RealInvL T w ->
  Known_load_shared T tab_el tab_at tab_en check_fn float_parse LATEST name_definition_ref w (OpLoad m buffer filename strict) = false ->
  r <> ER InvalidFileMerge ->
  m_load_buffer T tab_el tab_at tab_en check_fn float_parse LATEST name_definition_ref m buffer filename strict w = Val (r, w') ->
  RealInvL T w' /\ TreeFactsL w'.
Proof. exact TreeFactsL_after_load. Qed.

(* [U] AutosarModel::new() in the empty world makes a world with one model whose index maps are empty *)
Theorem C06_fresh_model :
  forall (T : tables) (tab_el tab_en : nametab) (check_fn : N -> list N -> res bool) (LATEST : N)
         (root_attrs : list (N * cdata)) (m : N) (w : world),
  (forall ty, is_ref T ty = Val true -> content_mode T ty = Val MCharacters) ->
  new_model T root_attrs empty_world = Val (OK m, w) ->
  m = 0 /\ RealInvL T w /\ exists x, w_models w = [x] /\ m_files x = [] /\ m_idents x = [] /\ m_origins x = [].
Proof. exact fresh_model. Qed.

(* [U] the first load into such a world: Inv06D afterwards.  DocSide: Tree/FollowProofsLoadMain.v *)
Theorem C06_after_first_load :
  forall (T : tables) (tab_el tab_at tab_en : nametab) (check_fn : N -> list N -> res bool)
         (float_parse : list N -> option N) (LATEST name_definition_ref : N)
         (buffer filename : list N) (strict : bool) (w : world) (x : model) (f : N) (ws : list Parser.perror) (w' : world),
  TablesOk.tables_ok T = true -> LoadRecordsRegular.sn_charsb T = true -> LoadRecordsRegular.ref_charsb T = true ->
  (forall ty, is_ref T ty = Val true -> content_mode T ty = Val MCharacters) ->
  RealInvL T w -> w_models w = [x] -> m_files x = [] -> m_idents x = [] -> m_origins x = [] ->
  m_load_buffer T tab_el tab_at tab_en check_fn float_parse LATEST name_definition_ref 0 buffer filename strict w = Val (OK (f, ws), w') ->
  (ShortTyped T check_fn w' /\ SlashFree T w' /\ AllNamed T w' /\ CharsLeaf T w' /\
   (forall i n, w_nodes w' i = Some n -> short_child T w' n <> None -> Index.named T (n_type n) = true)) ->
  TreeFactsL w' /\ Inv04 T check_fn w' /\ Inv05D T w'.
Proof. exact after_first_load. Qed.

(* [U] load, then rename: the three clauses *)
Theorem C06_load_then_rename :
  forall (T : tables) (tab_el tab_at tab_en : nametab) (check_fn : N -> list N -> res bool)
         (float_parse : list N -> option N) (LATEST name_definition_ref : N)
         (buffer filename : list N) (strict : bool) (w : world) (x : model) (f : N) (ws : list Parser.perror) (w1 : world)
         (h : id) (nn : list N) (w2 : world),
  TablesOk.tables_ok T = true -> LoadRecordsRegular.sn_charsb T = true -> LoadRecordsRegular.ref_charsb T = true ->
  (forall ty, is_ref T ty = Val true -> content_mode T ty = Val MCharacters) ->
  RealInvL T w -> w_models w = [x] -> m_files x = [] -> m_idents x = [] -> m_origins x = [] ->
  m_load_buffer T tab_el tab_at tab_en check_fn float_parse LATEST name_definition_ref 0 buffer filename strict w = Val (OK (f, ws), w1) ->
  DocSide T check_fn w1 ->
  live_ref T w1 0 h ->
  e_set_item_name T check_fn LATEST h nn w1 = Val (OK tt, w2) ->
  (forall r y, live_ref T w1 0 r -> designates T w1 0 r y -> below T w1 h y -> designates T w2 0 r y) /\
  (forall r p, ~ dead w1 r -> ref_text T w1 r = Some p -> resolves T w1 0 r ->
               ~ (exists y, designates T w1 0 r y /\ below T w1 h y) -> ref_text T w2 r = Some p) /\
  (forall r p old, ~ dead w1 r -> SpecPath T w1 0 h old -> ref_text T w1 r = Some p ->
                   ~ (live_ref T w1 0 r /\ old_form old p) -> ref_text T w2 r = Some p).
Proof. exact load_then_rename. Qed.

(* [F tables] on the generated tables the four table hypotheses are theorems *)
Theorem C06_load_then_rename_real :
  forall (tab_el tab_at tab_en : nametab) (check_fn : N -> list N -> res bool)
         (float_parse : list N -> option N) (LATEST name_definition_ref : N)
         (buffer filename : list N) (strict : bool) (w : world) (x : model) (f : N) (ws : list Parser.perror) (w1 : world)
         (h : id) (nn : list N) (w2 : world),
  RealInvL RT w -> w_models w = [x] -> m_files x = [] -> m_idents x = [] -> m_origins x = [] ->
  m_load_buffer RT tab_el tab_at tab_en check_fn float_parse LATEST name_definition_ref 0 buffer filename strict w = Val (OK (f, ws), w1) ->
  DocSide RT check_fn w1 ->
  live_ref RT w1 0 h ->
  e_set_item_name RT check_fn LATEST h nn w1 = Val (OK tt, w2) ->
  (forall r y, live_ref RT w1 0 r -> designates RT w1 0 r y -> below RT w1 h y -> designates RT w2 0 r y) /\
  (forall r p, ~ dead w1 r -> ref_text RT w1 r = Some p -> resolves RT w1 0 r ->
               ~ (exists y, designates RT w1 0 r y /\ below RT w1 h y) -> ref_text RT w2 r = Some p) /\
  (forall r p old, ~ dead w1 r -> SpecPath RT w1 0 h old -> ref_text RT w1 r = Some p ->
                   ~ (live_ref RT w1 0 r /\ old_form old p) -> ref_text RT w2 r = Some p).
Proof. exact load_then_rename_real. Qed.

(* ====================================================================== the load clause: referrer lists are extended *)

(* [U] every accepted load_buffer - first file or merge, strict or not.  NoDupKeys (m_origins x): the keys of the referrer
   map are distinct (part of Inv05 / Inv05D; an IndexMap in the code).  refs_of: the reference elements of the parsed
   tree with their texts (Tree/MergeSpec.v), t: the ids the elements of the new file got *)
Theorem C06_load_keeps_referrers :
  forall (T : tables) (tab_el tab_at tab_en : nametab) (check_fn : N -> list N -> res bool)
         (float_parse : list N -> option N) (LATEST name_definition_ref : N)
         (m : N) (buffer filename : list N) (strict : bool) (w : world) (x : model) (f : N) (ws : list Parser.perror) (w' : world),
  TablesOk.tables_ok T = true -> LoadRecordsRegular.ref_charsb T = true ->
  nth_opt (w_models w) (N.to_nat m) = Some x -> NoDupKeys (m_origins x) ->
  m_load_buffer T tab_el tab_at tab_en check_fn float_parse LATEST name_definition_ref m buffer filename strict w = Val (OK (f, ws), w') ->
  exists root st t x',
    Parser.load strict T tab_el tab_at tab_en check_fn float_parse buffer = Val (Parser.Ret root st) /\
    nth_opt (w_models w') (N.to_nat m) = Some x' /\ NoDupKeys (m_origins x') /\
    (forall p e, In e (origins_of x p) -> In e (origins_of x' p)) /\
    (forall p e, In e (origins_of x' p) <->
                 In e (origins_of x p) \/ exists pos, In (p, pos) (refs_of T [] root) /\ it_at t pos = Some e) /\
    (forall m2, m2 <> m -> nth_opt (w_models w') (N.to_nat m2) = nth_opt (w_models w) (N.to_nat m2)).
Proof. exact load_buffer_origins. Qed.

(* [F tables] the generated tables *)
Theorem C06_load_keeps_referrers_real :
  forall (tab_el tab_at tab_en : nametab) (check_fn : N -> list N -> res bool)
         (float_parse : list N -> option N) (LATEST name_definition_ref : N)
         (m : N) (buffer filename : list N) (strict : bool) (w : world) (x : model) (f : N) (ws : list Parser.perror) (w' : world),
  nth_opt (w_models w) (N.to_nat m) = Some x -> NoDupKeys (m_origins x) ->
  m_load_buffer RT tab_el tab_at tab_en check_fn float_parse LATEST name_definition_ref m buffer filename strict w = Val (OK (f, ws), w') ->
  exists root st t x',
    Parser.load strict RT tab_el tab_at tab_en check_fn float_parse buffer = Val (Parser.Ret root st) /\
    nth_opt (w_models w') (N.to_nat m) = Some x' /\ NoDupKeys (m_origins x') /\
    (forall p e, In e (origins_of x p) -> In e (origins_of x' p)) /\
    (forall p e, In e (origins_of x' p) <->
                 In e (origins_of x p) \/ exists pos, In (p, pos) (refs_of RT [] root) /\ it_at t pos = Some e) /\
    (forall m2, m2 <> m -> nth_opt (w_models w') (N.to_nat m2) = nth_opt (w_models w) (N.to_nat m2)).
Proof. exact load_buffer_origins_real. Qed.

(* [F] not vacuous: in the loader model the second load of the same document is a merge that is accepted; referrer 13 of the
   first load stays registered, the reference element 26 of the second file is appended *)
Theorem C06_load_keeps_referrers_example :
  exists xa xb,
    load_parsed tiny LATEST 99 0 (BS "a") file_a (pstate_of tiny 2 file_a) new_world = Val (OK 0, w_load_a) /\
    load_parsed tiny LATEST 99 0 (BS "b") file_a (pstate_of tiny 2 file_a) w_load_a = Val (OK 1, w_load_b) /\
    model_at w_load_a 0 = Some xa /\ model_at w_load_b 0 = Some xb /\ m_files xa = [0] /\ NoDupKeys (m_origins xa) /\
    origins_of xa (BS "/p1/S") = [13] /\ origins_of xb (BS "/p1/S") = [13; 26].
Proof. exact load_extends_referrers_example. Qed.
