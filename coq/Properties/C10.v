(* Properties/C10.v — File membership is consistent: nothing lost on write, files self-contained.
   Model: Tree/Heap.v, Ops.v (file part), Script.v, Serialize.v (tied to the library by the history correspondence incl.
   per-file text digests, and by the file oracle harness/src/files.rs).  Specification side: Tree/Files.v
     Eff w i s        effective membership of i = nearest non-empty local set on the parent chain (= file_membership)
     Attributed w i f  f ∈ eff i
     FilesInv T w     per model, for every element reachable from the root: (a) local set ⊆ files of the model,
                      (b) non-empty local set ⊆ effective set of the parent, (c) own sets only on the root / below
                      splittable parents, (d) the model has files -> the element has an effective set
     Proj T w ff r i  i is visited by ser_heap started at r with filter ff;  ser_ids = the visited list (executable)
   Hypotheses: Core / TreeInv = C03's invariants (Tree/Inv.v; C03's step theorems Core_step / TreeInv_step of
   Tree/InvProofs.v are used, not assumed); Recursible = elements with sub-elements do not have character content
   mode (C07).
   Known10 = finding classes with witnesses below (add_to_file with a removed file; the root loses the last file of its
   own set; a moved element keeps local sets in its subtree).  Unowned = remove_file of a file whose own model link
   names another model (not reachable through the API, excluded).  RootNamedLast = remove_file of the LAST file in a
   table set whose root element type is a named type (a removal of a SHORT-NAME child of the root could fail; no real
   table set has such a root): excluded.  All 26 constructors of Script.v's `op` are covered.
   [U] C10_eff_is_file_membership, C10_eff_executable, C10_eff_unique, C10_filter_is_eff, C10_ser_visits,
       C10_projection_closed, C10_nothing_lost, C10_frame_transfer (operations that never write a file set),
       C10_move_transfer, C10_add_to_file, C10_create_file, C10_remove_from_file, C10_remove_file_partial,
       C10_remove_file_keeps, C10_remove_file_exact, C10_remove_file_exact_index, C10_remove_file_exact_refs,
       C10_remove_last_file, C10_inv, C10_history, C10_reachable, C10_files_owned, C10_owned_never_unowned,
       C10_inv_owned, C10_history_owned, C10_reachable_owned (the same three without the Unowned exclusion: FilesOwned,
       "every file listed in a model names that model", holds in the empty world and is preserved by all 26 operations),
       C10_remove_file_exact_owned, _index_owned, _refs_owned, C10_remove_file_other_tree(_owned),
       C10_remove_file_other_text(_owned), C10_text_is_projection, C10_projection_preorder, C10_file_self_contained,
       C10_step2_owned, C10_history2_owned, C10_reachable2_owned (alphabet op2 of Tree/Script2.v), C10_duplicate_partial,
       C10_serialize_exact, C10_serialize_exact_histories, C10_serialize_exact_reachable, C10_written_somewhere_histories
       (the serialize side over histories: ArxmlFile::serialize writes exactly the elements attributed to the file),
       C10_serialize_iff, C10_chars_histories2, C10_serialize_iff_histories, C10_serialize_iff_reachable (the same as an
       iff, without Recursible: C03's CharsLeaf is carried along the histories),
       C10_nothing_lost_on_write_histories, C10_nothing_lost_on_write_reachable
   "leaves the content of every other file unchanged": the projection TREE of every other file g (fproj: names, stored
       types, attributes, character data, comments, order) is unchanged (C10_remove_file_other_tree); its TEXT is
       unchanged iff no written element of g loses its whole content: KeepsSome -> same text
       (C10_remove_file_other_text), LosesAll somewhere -> strictly shorter text (C10_remove_file_other_text_differs),
       witness C10_other_text_witness: <X>..</X> becomes <X/>.
       The property speaks of content, not text: no finding.
   "loads on its own": C10_file_self_contained = C10_text_is_projection (ser_heap = ser_elem of fproj on elements that
       are not hollow) composed with C01's file round trip; side conditions explicit: NoHollow, RootCanon (C01).
   op2 (Tree/Script2.v), load_buffer and duplicate included:
       * C10_history2_owned_full / C10_reachable2_owned_full: Inv3 = Core /\ FilesOwned /\ NamesUnique (every file listed
         in a model names that model; the file names of a model are pairwise different) is an invariant of EVERY history
         over the whole alphabet outside C03's Known_load (a merge that uses an incoming element twice; a load rejected
         with InvalidFileMerge: the rollback).  C10_files_owned_step2, C10_names_unique_step: the steps.
       * FilesInv itself is NOT an invariant of histories with load_buffer, for two genuine reasons, both with
         witnesses reached through the API: rule (c) (own sets only below splittable parents) is not kept by a merge
         (C10_load_rule_c_witness), and (b) fails when the root is not in all files of the model
         (C10_load_root_partial_witness = the known finding C10-merge-membership-inconsistent).  What a successful
         load keeps is FilesInvW = (a),(b),(d) together with RootFull: C10_load_merge(_abs) (through agent-c09's
         refinement: pure invariant C10_pmerge_invariant, bridge C10_bridge_*, C10_model_is_tree; hypotheses: Clean
         walk and success of the pure merge, as in C09_load_refines), C10_load_first, C10_load_good (Good masters),
         C10_load_files(_owned) (unconditional).  TreeInv (RootsOnly) is not kept by the first load either
         (C03: Known_load_first), so histories through loads can only carry Core-level invariants.
       * the copy made by duplicate(): C10_duplicate_membership (the membership phase carries FilesInvW over, roots
         equal up to ids), C10_duplicate_file_map, C10_duplicate_copy (public call, scope of C13_duplicate_text but for
         split models); outside: C13-dup-version-filter (C13_duplicate_refuted) and C13-dup-foreign-membership
         (excluded by FilesInvW (a)); C10_duplicate_partial: FilesOwned and the old models are kept.
       * C10_step2_owned / C10_history2_owned: sort, sort model, set_version, check, serialize keep TreeInv, FilesInv and
         FilesOwned (pending2 = load, duplicate for THESE invariants, for the reasons above).
   [P] C10_remove_file_exact ("removes exactly") carries the side condition that no SHORT-NAME element of the model has
       a local file set: without it a deletion of the scan list can fail and the element stays (finding
       C10-shortname-own-file-set, witness d_short_* in Tree/Files.v); C10_remove_file_exact_index / _refs take
       agent-c04's IndexExact / RefsExact OF THE RESULT WORLD as hypotheses (their preservation is C04 / C05);
       C10_self_contained (older, abstract form) is superseded by C10_file_self_contained, whose hypotheses RootCanon
       (types as strict loading assigns them, header attributes, value spelling: C01/C07) and NoHollow are not
       derived from FilesInv; the oracle re-loads every file text
   [F] C10_add_foreign_refuted, C10_root_last_refuted, C10_root_last_remove_file_refuted, C10_move_local_refuted,
       C10_other_text_witness
       (vm_compute on the tiny table set of Tree/Files.v). *)
From AV Require Import Base.Bytes Base.Outcome Hash.HashModel Tree.Heap Tree.Ops Tree.Script Tree.Serialize Tree.Inv.
From AV Require Import Tree.Files Tree.FilesProofsProj Tree.FilesProofsFrame Tree.FilesProofsAdd Tree.FilesProofsRemove Tree.FilesProofsExact Tree.FilesProofsLast Tree.FilesProofsMove
  Tree.FilesProofsInv Tree.FilesProofsHist Tree.FilesProofsTop Tree.FilesProofsExact2 Tree.FilesProofsOwned Tree.FilesProofsText Tree.FilesProofsLoad Tree.FilesProofsOp2
  Tree.FilesLoad Tree.FilesProofsMerge Tree.FilesProofsBridge Tree.FilesProofsLoad2 Tree.FilesProofsLoad3 Tree.FilesProofsLoad4 Tree.FilesProofsLoad5 Tree.FilesProofsLoad6 Tree.FilesProofsOp2b Tree.FilesProofsDup Tree.FilesProofsDup2 Tree.FilesProofsDup3 Tree.FilesProofsNames Tree.FilesProofsNames2 Tree.FilesProofsSer Tree.FilesProofsSer2.
From AV Require Tree.CopyProofsDefs Tree.InvLoad Tree.Load Tree.MergeSpec Tree.MergePure Tree.MergePureProofs Tree.LoadRefineBase Tree.LoadRefinePure Tree.LoadRefineMain Tree.LoadRefineTop.
From AV Require Import Tree.Script2.
From AV Require Tree.Index Tree.Copy Xml.Parser Xml.Serializer Xml.RoundTripFile.
Open Scope list_scope.
Open Scope N_scope.

Theorem C10_eff_is_file_membership :
  forall (i : id) (w : world) (b : bool) (s : list N) (w' : world),
  file_membership i w = Val (OK (b, s), w') ->
  w' = w /\ Eff w i s /\ (b = true <-> exists n, w_nodes w i = Some n /\ n_files n <> []).
Proof. exact eff_is_file_membership. Qed.

Theorem C10_eff_executable :
  forall (w : world) (i : id) (s : list N), Core w -> (eff w i = Some s <-> Eff w i s).
Proof. exact eff_executable. Qed.

Theorem C10_eff_unique :
  forall (w : world) (i : id) (s s' : list N), Eff w i s -> Eff w i s' -> s = s' /\ s <> [].
Proof. exact eff_unique. Qed.

(* the text of a file contains exactly the elements attributed to it *)
Theorem C10_filter_is_eff :
  forall (T : tables) (w : world) (x : model) (f : N),
  Core w -> In x (w_models w) -> FilesInvM T w x -> Attributed w (m_root x) f ->
  forall i, Reach w (m_root x) i ->
  (Proj T w (Some f) (m_root x) i -> Attributed w i f) /\
  (Recursible T w -> Attributed w i f -> Proj T w (Some f) (m_root x) i).
Proof. exact filter_is_eff. Qed.

Theorem C10_ser_visits :
  forall (T : tables) (tab_el tab_at tab_en : nametab) (float_fmt : N -> list N)
         (fuel : nat) (w : world) (ff : option N) (i : id) (indent : nat) (inline : bool) (s : list N),
  ser_heap T tab_el tab_at tab_en float_fmt fuel w ff i indent inline = Val s ->
  exists l, ser_ids T fuel w ff i = Val l /\ forall x, In x l <-> Proj T w ff i x.
Proof. exact ser_visits. Qed.

Theorem C10_projection_closed :
  forall (T : tables) (w : world) (ff : option N) (r i : id),
  Proj T w ff r i -> i = r \/ exists p pn, Proj T w ff r p /\ w_nodes w p = Some pn /\ In i (kids pn).
Proof. exact proj_closed. Qed.

Theorem C10_nothing_lost :
  forall (T : tables) (w : world), Core w -> FilesInv T w -> Recursible T w ->
  forall x, In x (w_models w) -> m_files x <> [] ->
  forall i, Reach w (m_root x) i -> exists f, In f (m_files x) /\ Proj T w (Some f) (m_root x) i.
Proof. exact nothing_lost_all. Qed.

(* ---------- the operations ---------- *)
Theorem C10_frame_transfer :
  forall (T : tables) (w w' : world), TreeInv w -> Core w' -> Frame w w' -> FilesInv T w -> FilesInv T w'.
Proof. exact frame_transfer. Qed.

(* move_element_here / _at change no file set and re-parent only the moved element: the invariant is inherited when
   no element below the moved one carries a local set *)
Theorem C10_move_transfer :
  forall (T : tables) (mv : id) (w w' : world), TreeInv w -> Core w' -> MoveRel mv w w' -> FilesInv T w ->
  (forall y n, Reach w mv y -> w_nodes w y = Some n -> n_files n = []) -> FilesInv T w'.
Proof. exact move_transfer. Qed.

Theorem C10_add_to_file :
  forall (T : tables) (e f : N) (w : world) (r : out unit) (w' : world),
  TreeInv w -> FilesInv T w -> Known_add_foreign w (OpAddToFile e f) = false ->
  e_add_to_file T e f w = Val (r, w') -> FilesInv T w'.
Proof. exact add_to_file_inv. Qed.

Theorem C10_create_file :
  forall (T : tables) (m : N) (name : list N) (version : N) (w : world) (r : out N) (w' : world),
  TreeInv w -> FilesInv T w -> m_create_file T m name version w = Val (r, w') -> FilesInv T w'.
Proof. exact create_file_inv. Qed.

Theorem C10_remove_from_file :
  forall (T : tables) (e f : N) (w : world) (r : out unit) (w' : world),
  TreeInv w -> FilesInv T w -> Known_root_last w (OpRemoveFromFile e f) = false ->
  e_remove_from_file T e f w = Val (r, w') -> FilesInv T w' /\ TreeInv w'.
Proof. exact remove_from_file_inv. Qed.

(* after remove_file (another file remains) the invariant holds for the shorter file list: in particular no element is
   attributed to the removed file any more and every element is still written to one of the remaining files *)
Theorem C10_remove_file_partial :
  forall (T : tables) (m f : N) (w : world) (r : out unit) (w' : world),
  TreeInv w -> FilesInv T w ->
  Known_root_last w (OpRemoveFile m f) = false -> Unowned w (OpRemoveFile m f) = false -> last_file w (OpRemoveFile m f) = false ->
  m_remove_file T m f w = Val (r, w') -> FilesInv T w'.
Proof. exact remove_file_inv. Qed.

(* ... and it leaves the content of every other file unchanged, as far as elements of other files are concerned: an
   element that is attributed to some other file stays in the model and is attributed to exactly the same other files.
   (The converse — every element attributed to the removed file alone is deleted — is C10_remove_file_exact below; it
   needs the side condition of finding C10-shortname-own-file-set.) *)
Theorem C10_remove_file_keeps :
  forall (T : tables) (m f : N) (w : world) (r : out unit) (w' : world) (x : model),
  TreeInv w -> FilesInv T w ->
  Known_root_last w (OpRemoveFile m f) = false -> Unowned w (OpRemoveFile m f) = false -> last_file w (OpRemoveFile m f) = false ->
  m_remove_file T m f w = Val (r, w') -> model_b w m = Some x ->
  forall i g, Reach w (m_root x) i -> g <> f -> Attributed w i g ->
    Reach w' (m_root x) i /\ forall h, h <> f -> (Attributed w i h <-> Attributed w' i h).
Proof. exact remove_file_keeps. Qed.

(* remove_file of a file f of model m while another file remains, no SHORT-NAME element carrying a local file set:
   the elements that are still in the model afterwards are EXACTLY those that were attributed to some other file —
   every element attributed to f alone is deleted (each deletion of the scan list succeeds), nothing else is. *)
Theorem C10_remove_file_exact :
  forall (T : tables) (m f : N) (w : world) (r : out unit) (w' : world) (x : model),
  TreeInv w -> FilesInv T w ->
  Known_root_last w (OpRemoveFile m f) = false -> Unowned w (OpRemoveFile m f) = false -> last_file w (OpRemoveFile m f) = false ->
  (forall i n, Reach w (m_root x) i -> w_nodes w i = Some n -> n_name n = SHORT T -> n_files n = []) ->
  m_remove_file T m f w = Val (r, w') -> model_b w m = Some x -> In f (m_files x) ->
  forall i, Reach w (m_root x) i -> (Reach w' (m_root x) i <-> exists g, g <> f /\ Attributed w i g).
Proof. exact remove_file_exact. Qed.

(* ... and, the path index of the result being exact (C04), a removed element has no index entry *)
Theorem C10_remove_file_exact_index :
  forall (T : tables) (m f : N) (w : world) (r : out unit) (w' : world) (x : model),
  TreeInv w -> FilesInv T w ->
  Known_root_last w (OpRemoveFile m f) = false -> Unowned w (OpRemoveFile m f) = false -> last_file w (OpRemoveFile m f) = false ->
  (forall i n, Reach w (m_root x) i -> w_nodes w i = Some n -> n_name n = SHORT T -> n_files n = []) ->
  m_remove_file T m f w = Val (r, w') -> model_b w m = Some x -> In f (m_files x) ->
  Index.IndexExact T w' m ->
  forall i, Reach w (m_root x) i -> ~ (exists g, g <> f /\ Attributed w i g) ->
  forall x' p, model_b w' m = Some x' -> assoc_get p (m_idents x') <> Some i.
Proof. exact remove_file_exact_index. Qed.

(* ... and, the referrer table of the result being exact (C05), a removed reference element is no referrer *)
Theorem C10_remove_file_exact_refs :
  forall (T : tables) (m f : N) (w : world) (r : out unit) (w' : world) (x : model),
  TreeInv w -> FilesInv T w ->
  Known_root_last w (OpRemoveFile m f) = false -> Unowned w (OpRemoveFile m f) = false -> last_file w (OpRemoveFile m f) = false ->
  (forall i n, Reach w (m_root x) i -> w_nodes w i = Some n -> n_name n = SHORT T -> n_files n = []) ->
  m_remove_file T m f w = Val (r, w') -> model_b w m = Some x -> In f (m_files x) ->
  Index.RefsExact T w' m ->
  forall i, Reach w (m_root x) i -> ~ (exists g, g <> f /\ Attributed w i g) ->
  forall x' p, model_b w' m = Some x' -> ~ In i (Index.origins_of x' p).
Proof. exact remove_file_exact_refs. Qed.

(* remove_file of the last file: the model is empty again *)
Theorem C10_remove_last_file :
  forall (T : tables) (m f : N) (w : world) (r : out unit) (w' : world),
  TreeInv w -> FilesInv T w -> last_file w (OpRemoveFile m f) = true -> root_named T w (OpRemoveFile m f) = false ->
  m_remove_file T m f w = Val (r, w') -> FilesInv T w'.
Proof. exact remove_file_last_inv. Qed.

Theorem C10_inv :
  forall (T : tables) (tab_el tab_en : nametab) (check_fn : N -> list N -> res bool) (LATEST : N)
         (root_attrs : list (N * cdata)) (o : op) (w : world) (r : out value) (w' : world),
  TreeInv w -> FilesInv T w -> RootNamedLast T w o = false -> Known10 w o = false -> Unowned w o = false ->
  run_op T tab_el tab_en check_fn LATEST root_attrs o w = Val (r, w') -> FilesInv T w'.
Proof. exact inv_step_all. Qed.

Theorem C10_history :
  forall (T : tables) (tab_el tab_en : nametab) (check_fn : N -> list N -> res bool) (LATEST : N)
         (root_attrs : list (N * cdata)) (l : list op) (w w' : world),
  TreeInv w -> FilesInv T w ->
  steps_ok T tab_el tab_en check_fn LATEST root_attrs l w = true ->
  run_ops T tab_el tab_en check_fn LATEST root_attrs l w = Val w' -> TreeInv w' /\ FilesInv T w'.
Proof. exact inv_histories_all. Qed.

(* closed form: every state reached from the empty world by a history whose steps avoid C03's Known classes and
   Known10 / RootNamedLast / Unowned (a decidable condition on the history) *)
Theorem C10_reachable :
  forall (T : tables) (tab_el tab_en : nametab) (check_fn : N -> list N -> res bool) (LATEST : N)
         (root_attrs : list (N * cdata)) (l : list op) (w' : world),
  steps_ok T tab_el tab_en check_fn LATEST root_attrs l empty_world = true ->
  run_ops T tab_el tab_en check_fn LATEST root_attrs l empty_world = Val w' -> TreeInv w' /\ FilesInv T w'.
Proof. exact reachable_all. Qed.

(* ---------- FilesOwned (every file listed in a model names that model) replaces the Unowned exclusion ---------- *)
(* every operation preserves FilesOwned (no exclusion at all: only Core, C03's unconditional part) *)
Theorem C10_files_owned :
  forall (T : tables) (tab_el tab_en : nametab) (check_fn : N -> list N -> res bool) (LATEST : N)
         (root_attrs : list (N * cdata)) (o : op) (w : world) (r : out value) (w' : world),
  Core w -> FilesOwned w ->
  run_op T tab_el tab_en check_fn LATEST root_attrs o w = Val (r, w') -> FilesOwned w'.
Proof. exact owned_step_all. Qed.

Theorem C10_owned_never_unowned :
  forall (w : world) (o : op), FilesOwned w -> Unowned w o = false.
Proof. exact owned_not_unowned. Qed.

(* C10_inv / C10_history / C10_reachable without the Unowned exclusion, FilesOwned carried along *)
Theorem C10_inv_owned :
  forall (T : tables) (tab_el tab_en : nametab) (check_fn : N -> list N -> res bool) (LATEST : N)
         (root_attrs : list (N * cdata)) (o : op) (w : world) (r : out value) (w' : world),
  TreeInv w -> FilesInv T w -> FilesOwned w -> RootNamedLast T w o = false -> Known10 w o = false ->
  run_op T tab_el tab_en check_fn LATEST root_attrs o w = Val (r, w') -> FilesInv T w' /\ FilesOwned w'.
Proof. exact inv_step_owned_all. Qed.

Theorem C10_history_owned :
  forall (T : tables) (tab_el tab_en : nametab) (check_fn : N -> list N -> res bool) (LATEST : N)
         (root_attrs : list (N * cdata)) (l : list op) (w w' : world),
  TreeInv w -> FilesInv T w -> FilesOwned w ->
  steps_ok_owned T tab_el tab_en check_fn LATEST root_attrs l w = true ->
  run_ops T tab_el tab_en check_fn LATEST root_attrs l w = Val w' -> TreeInv w' /\ FilesInv T w' /\ FilesOwned w'.
Proof. exact inv_histories_owned_all. Qed.

(* closed form: steps_ok_owned avoids C03's Known classes, Known10 and RootNamedLast only *)
Theorem C10_reachable_owned :
  forall (T : tables) (tab_el tab_en : nametab) (check_fn : N -> list N -> res bool) (LATEST : N)
         (root_attrs : list (N * cdata)) (l : list op) (w' : world),
  steps_ok_owned T tab_el tab_en check_fn LATEST root_attrs l empty_world = true ->
  run_ops T tab_el tab_en check_fn LATEST root_attrs l empty_world = Val w' -> TreeInv w' /\ FilesInv T w' /\ FilesOwned w'.
Proof. exact reachable_owned_all. Qed.

(* ---------- remove_file and the OTHER files ----------
   fproj w (Some g) r = the projection of file g as an element tree (names, stored types, attributes, character data,
   comments, order).  For every other file g the projection tree is UNCHANGED ... *)
Theorem C10_remove_file_other_tree :
  forall (T : tables) (m f : N) (w : world) (r : out unit) (w' : world) (x : model),
  TreeInv w -> FilesInv T w ->
  Known_root_last w (OpRemoveFile m f) = false -> Unowned w (OpRemoveFile m f) = false -> last_file w (OpRemoveFile m f) = false ->
  (forall i n, Reach w (m_root x) i -> w_nodes w i = Some n -> n_name n = SHORT T -> n_files n = []) ->
  m_remove_file T m f w = Val (r, w') -> model_b w m = Some x -> In f (m_files x) ->
  forall g, g <> f -> Attributed w (m_root x) g ->
  forall fuel t, fproj fuel w (Some g) (m_root x) = Some t -> fproj fuel w' (Some g) (m_root x) = Some t.
Proof. exact remove_file_other_tree. Qed.

(* ... and the TEXT of g is unchanged provided every written element of g that has content keeps some of it (a
   character data item or a sub-element attributed to a file other than f): the writer chooses <X/> or <X>..</X> on
   the unfiltered content list, so an element of g whose whole content was attributed to f alone turns from
   <X>..</X> (nothing inside) into <X/> — witness below.  CharsLeaf: elements with character content have no
   sub-elements (C07). *)
Theorem C10_remove_file_other_text :
  forall (T : tables) (m f : N) (w : world) (r : out unit) (w' : world) (x : model),
  TreeInv w -> FilesInv T w ->
  Known_root_last w (OpRemoveFile m f) = false -> Unowned w (OpRemoveFile m f) = false -> last_file w (OpRemoveFile m f) = false ->
  (forall i n, Reach w (m_root x) i -> w_nodes w i = Some n -> n_name n = SHORT T -> n_files n = []) ->
  m_remove_file T m f w = Val (r, w') -> model_b w m = Some x -> In f (m_files x) ->
  forall g, g <> f ->
  forall (tab_el tab_at tab_en : nametab) (float_fmt : N -> list N),
  Attributed w (m_root x) g -> CharsLeaf T w -> KeepsSome T w f g (m_root x) ->
  forall fuel indent inline,
    ser_heap T tab_el tab_at tab_en float_fmt fuel w' (Some g) (m_root x) indent inline =
    ser_heap T tab_el tab_at tab_en float_fmt fuel w (Some g) (m_root x) indent inline.
Proof. exact remove_file_other_text. Qed.

(* ... and ONLY then: if a written element of g has content all of which is sub-elements attributed to f alone
   (LosesAll), the text of g gets strictly shorter.  Together with C10_remove_file_other_text this characterises exactly
   when the text of another file changes. *)
Theorem C10_remove_file_other_text_differs :
  forall (T : tables) (m f : N) (w : world) (r : out unit) (w' : world) (x : model),
  TreeInv w -> FilesInv T w ->
  Known_root_last w (OpRemoveFile m f) = false -> Unowned w (OpRemoveFile m f) = false -> last_file w (OpRemoveFile m f) = false ->
  (forall i n, Reach w (m_root x) i -> w_nodes w i = Some n -> n_name n = SHORT T -> n_files n = []) ->
  m_remove_file T m f w = Val (r, w') -> model_b w m = Some x -> In f (m_files x) ->
  forall g, g <> f ->
  forall (tab_el tab_at tab_en : nametab) (float_fmt : N -> list N),
  Attributed w (m_root x) g -> CharsLeaf T w ->
  (exists i n, Proj T w (Some g) (m_root x) i /\ w_nodes w i = Some n /\ LosesAll w f n) ->
  forall fuel indent inline s s',
    ser_heap T tab_el tab_at tab_en float_fmt fuel w' (Some g) (m_root x) indent inline = Val s' ->
    ser_heap T tab_el tab_at tab_en float_fmt fuel w (Some g) (m_root x) indent inline = Val s ->
    (List.length s' < List.length s)%nat /\ s' <> s.
Proof. exact remove_file_other_text_differs. Qed.

(* [F] witness on the tiny table set: remove_file 0 changes the text of file 1 (ELEMENTS, whose only sub-element was
   in file 0 alone) while the projection tree of file 1 stays the same *)
Theorem C10_other_text_witness :
  TinyF.with_script TinyF.split (fun w => TinyF.text w 1) Fuel <> TinyF.with_script TinyF.split_rm (fun w => TinyF.text w 1) Fuel /\
  TinyF.with_script TinyF.split (fun w => fproj (fuel_of w) w (Some 1) 0) None =
  TinyF.with_script TinyF.split_rm (fun w => fproj (fuel_of w) w (Some 1) 0) None.
Proof. exact (conj TinyF.hollow_differs (proj1 TinyF.hollow_same_tree)). Qed.

(* ---------- the text of a file denotes its projection, and loads on its own ---------- *)
(* on elements that are not hollow, ser_heap writes what Xml/Serializer.ser_elem writes for the projection tree *)
Theorem C10_text_is_projection :
  forall (T : tables) (tab_el tab_at tab_en : nametab) (float_fmt : N -> list N) (w : world) (ff : option N) (r : id),
  NoHollow T w ff r ->
  forall fuel i t indent inline, Proj T w ff r i -> fproj fuel w ff i = Some t ->
    ser_heap T tab_el tab_at tab_en float_fmt fuel w ff i indent inline =
    Serializer.ser_elem T tab_el tab_at tab_en float_fmt t indent inline.
Proof. exact ser_heap_fproj. Qed.

(* the projection tree lists exactly the elements ser_heap visits (C10_ser_visits: = Proj), in that order *)
Theorem C10_projection_preorder :
  forall (T : tables) (w : world) (ff : option N), CharsLeaf T w ->
  forall fuel i l t, ser_ids T fuel w ff i = Val l -> fproj fuel w ff i = Some t -> epre t = map (label_at w) l.
Proof. exact fproj_preorder. Qed.

(* ArxmlFile::serialize, then load the text ALONE (C01's file round trip): the result is exactly the projection tree
   of the file, silently, with the file's version and standalone flag.  Side conditions: the projection exists for
   the writer's fuel, no written element is hollow, the projection is a canonical root for `ver` in the sense of C01
   (decidable: C01_rootcanonb_sound). *)
Theorem C10_file_self_contained :
  forall (strict : bool) (T : tables) (tab_el tab_at tab_en : nametab) (check_fn : N -> list N -> res bool)
         (float_fmt : N -> list N) (float_parse : list N -> option N) (attr_schema_location : N)
         (ver f : N) (w : world) (text : list N) (w' : world),
  f_serialize T tab_el tab_at tab_en check_fn float_fmt attr_schema_location f w = Val (OK text, w') ->
  exists fl x, nth_opt (w_files w) (N.to_nat f) = Some fl /\ nth_opt (w_models w) (N.to_nat (f_model fl)) = Some x /\
    Attributed w (m_root x) f /\
    forall t, fproj (fuel_of w') w' (Some f) (m_root x) = Some t ->
      NoHollow T w' (Some f) (m_root x) ->
      RoundTripFile.RootCanon strict T tab_el tab_at tab_en check_fn float_fmt float_parse ver t ->
      exists st, Parser.load strict T tab_el tab_at tab_en check_fn float_parse text = Val (Parser.Ret t st) /\
                 Parser.p_warnings st = [] /\ Parser.p_version st = ver /\ Parser.p_standalone st = f_standalone fl.
Proof. exact file_self_contained. Qed.

(* ---------- the remove_file theorems with FilesOwned in place of the Unowned exclusion ---------- *)
Theorem C10_remove_file_exact_owned :
  forall (T : tables) (m f : N) (w : world) (r : out unit) (w' : world) (x : model),
  TreeInv w -> FilesInv T w -> FilesOwned w ->
  Known_root_last w (OpRemoveFile m f) = false -> last_file w (OpRemoveFile m f) = false ->
  (forall i n, Reach w (m_root x) i -> w_nodes w i = Some n -> n_name n = SHORT T -> n_files n = []) ->
  m_remove_file T m f w = Val (r, w') -> model_b w m = Some x -> In f (m_files x) ->
  forall i, Reach w (m_root x) i -> (Reach w' (m_root x) i <-> exists g, g <> f /\ Attributed w i g).
Proof. exact remove_file_exact_owned. Qed.

Theorem C10_remove_file_exact_index_owned :
  forall (T : tables) (m f : N) (w : world) (r : out unit) (w' : world) (x : model),
  TreeInv w -> FilesInv T w -> FilesOwned w ->
  Known_root_last w (OpRemoveFile m f) = false -> last_file w (OpRemoveFile m f) = false ->
  (forall i n, Reach w (m_root x) i -> w_nodes w i = Some n -> n_name n = SHORT T -> n_files n = []) ->
  m_remove_file T m f w = Val (r, w') -> model_b w m = Some x -> In f (m_files x) ->
  Index.IndexExact T w' m ->
  forall i, Reach w (m_root x) i -> ~ (exists g, g <> f /\ Attributed w i g) ->
  forall x' p, model_b w' m = Some x' -> assoc_get p (m_idents x') <> Some i.
Proof. exact remove_file_exact_index_owned. Qed.

Theorem C10_remove_file_exact_refs_owned :
  forall (T : tables) (m f : N) (w : world) (r : out unit) (w' : world) (x : model),
  TreeInv w -> FilesInv T w -> FilesOwned w ->
  Known_root_last w (OpRemoveFile m f) = false -> last_file w (OpRemoveFile m f) = false ->
  (forall i n, Reach w (m_root x) i -> w_nodes w i = Some n -> n_name n = SHORT T -> n_files n = []) ->
  m_remove_file T m f w = Val (r, w') -> model_b w m = Some x -> In f (m_files x) ->
  Index.RefsExact T w' m ->
  forall i, Reach w (m_root x) i -> ~ (exists g, g <> f /\ Attributed w i g) ->
  forall x' p, model_b w' m = Some x' -> ~ In i (Index.origins_of x' p).
Proof. exact remove_file_exact_refs_owned. Qed.

Theorem C10_remove_file_other_tree_owned :
  forall (T : tables) (m f : N) (w : world) (r : out unit) (w' : world) (x : model),
  TreeInv w -> FilesInv T w -> FilesOwned w ->
  Known_root_last w (OpRemoveFile m f) = false -> last_file w (OpRemoveFile m f) = false ->
  (forall i n, Reach w (m_root x) i -> w_nodes w i = Some n -> n_name n = SHORT T -> n_files n = []) ->
  m_remove_file T m f w = Val (r, w') -> model_b w m = Some x -> In f (m_files x) ->
  forall g, g <> f -> Attributed w (m_root x) g ->
  forall fuel t, fproj fuel w (Some g) (m_root x) = Some t -> fproj fuel w' (Some g) (m_root x) = Some t.
Proof. exact remove_file_other_tree_owned. Qed.

Theorem C10_remove_file_other_text_owned :
  forall (T : tables) (m f : N) (w : world) (r : out unit) (w' : world) (x : model),
  TreeInv w -> FilesInv T w -> FilesOwned w ->
  Known_root_last w (OpRemoveFile m f) = false -> last_file w (OpRemoveFile m f) = false ->
  (forall i n, Reach w (m_root x) i -> w_nodes w i = Some n -> n_name n = SHORT T -> n_files n = []) ->
  m_remove_file T m f w = Val (r, w') -> model_b w m = Some x -> In f (m_files x) ->
  forall g, g <> f ->
  forall (tab_el tab_at tab_en : nametab) (float_fmt : N -> list N),
  Attributed w (m_root x) g -> CharsLeaf T w -> KeepsSome T w f g (m_root x) ->
  forall fuel indent inline,
    ser_heap T tab_el tab_at tab_en float_fmt fuel w' (Some g) (m_root x) indent inline =
    ser_heap T tab_el tab_at tab_en float_fmt fuel w (Some g) (m_root x) indent inline.
Proof. exact remove_file_other_text_owned. Qed.

(* ---------- the extended alphabet op2 (Tree/Script2.v): sort, sort model, duplicate, load, set_version,
   check_version_compatibility, serialize file / element.  step_ok2: an Op1 step avoids C03's Known classes, Known10 and
   RootNamedLast; OpLoad and OpDuplicate are PENDING (pending2); every other op2 step is unconditional. ---------- *)
Theorem C10_step2_owned :
  forall (T : tables) (tab_el tab_at tab_en : nametab) (check_fn : N -> list N -> res bool)
         (float_parse : list N -> option N) (float_fmt : N -> list N)
         (LATEST name_index name_definition_ref attr_schema_location : N) (root_attrs : list (N * cdata))
         (o : op2) (w : world) (r : out value2) (w' : world),
  TreeInv w -> FilesInv T w -> FilesOwned w ->
  step_ok2 T tab_el tab_en check_fn LATEST root_attrs w o = true ->
  run_op2 T tab_el tab_at tab_en check_fn float_parse float_fmt LATEST name_index name_definition_ref
          attr_schema_location root_attrs o w = Val (r, w') ->
  TreeInv w' /\ FilesInv T w' /\ FilesOwned w'.
Proof. exact step2_inv. Qed.

Theorem C10_history2_owned :
  forall (T : tables) (tab_el tab_at tab_en : nametab) (check_fn : N -> list N -> res bool)
         (float_parse : list N -> option N) (float_fmt : N -> list N)
         (LATEST name_index name_definition_ref attr_schema_location : N) (root_attrs : list (N * cdata))
         (l : list op2) (w w' : world),
  TreeInv w -> FilesInv T w -> FilesOwned w ->
  steps_ok2 T tab_el tab_at tab_en check_fn float_parse float_fmt LATEST name_index name_definition_ref
            attr_schema_location root_attrs l w = true ->
  run_ops2 T tab_el tab_at tab_en check_fn float_parse float_fmt LATEST name_index name_definition_ref
           attr_schema_location root_attrs l w = Val w' ->
  TreeInv w' /\ FilesInv T w' /\ FilesOwned w'.
Proof. exact inv_histories2_owned. Qed.

Theorem C10_reachable2_owned :
  forall (T : tables) (tab_el tab_at tab_en : nametab) (check_fn : N -> list N -> res bool)
         (float_parse : list N -> option N) (float_fmt : N -> list N)
         (LATEST name_index name_definition_ref attr_schema_location : N) (root_attrs : list (N * cdata))
         (l : list op2) (w' : world),
  steps_ok2 T tab_el tab_at tab_en check_fn float_parse float_fmt LATEST name_index name_definition_ref
            attr_schema_location root_attrs l empty_world = true ->
  run_ops2 T tab_el tab_at tab_en check_fn float_parse float_fmt LATEST name_index name_definition_ref
           attr_schema_location root_attrs l empty_world = Val w' ->
  TreeInv w' /\ FilesInv T w' /\ FilesOwned w'.
Proof. exact reachable2_owned. Qed.

(* ---------- the serialize side over HISTORIES: "the text produced for a file contains exactly the elements attributed
   to that file".  WrittenExactly w1 f root text sa: text = header ++ body, body = ser_heap (filter f) from the root, and
   the list of written elements (ser_ids, = what ser_heap visits: C10_ser_visits) contains only elements of the model
   that are attributed to f and — Recursible: elements with sub-elements do not have character content mode (C07) — all
   of them.  w1 is the world ArxmlFile::serialize leaves behind (it rewrites xsi:schemaLocation of the root). ---------- *)
Theorem C10_serialize_exact :
  forall (T : tables) (tab_el tab_at tab_en : nametab) (check_fn : N -> list N -> res bool) (float_fmt : N -> list N)
         (attr_schema_location : N) (f : N) (w : world) (text : list N) (w1 : world),
  TreeInv w -> FilesInv T w ->
  f_serialize T tab_el tab_at tab_en check_fn float_fmt attr_schema_location f w = Val (OK text, w1) ->
  TreeInv w1 /\ FilesInv T w1 /\
  exists fl x, nth_opt (w_files w) (N.to_nat f) = Some fl /\ nth_opt (w_models w) (N.to_nat (f_model fl)) = Some x /\
    WrittenExactly T tab_el tab_at tab_en float_fmt w1 f (m_root x) text (f_standalone fl).
Proof. exact serialize_exact. Qed.

(* after every history of the extended alphabet (the 26 operations, sort, set_version, check, serialize) that avoids the
   recorded classes (steps_ok2) *)
Theorem C10_serialize_exact_histories :
  forall (T : tables) (tab_el tab_at tab_en : nametab) (check_fn : N -> list N -> res bool)
         (float_parse : list N -> option N) (float_fmt : N -> list N)
         (LATEST name_index name_definition_ref attr_schema_location : N) (root_attrs : list (N * cdata))
         (l : list op2) (w0 w : world) (f : N) (text : list N) (w1 : world),
  TreeInv w0 -> FilesInv T w0 -> FilesOwned w0 ->
  steps_ok2 T tab_el tab_at tab_en check_fn float_parse float_fmt LATEST name_index name_definition_ref
            attr_schema_location root_attrs l w0 = true ->
  run_ops2 T tab_el tab_at tab_en check_fn float_parse float_fmt LATEST name_index name_definition_ref
           attr_schema_location root_attrs l w0 = Val w ->
  f_serialize T tab_el tab_at tab_en check_fn float_fmt attr_schema_location f w = Val (OK text, w1) ->
  exists fl x, nth_opt (w_files w) (N.to_nat f) = Some fl /\ nth_opt (w_models w) (N.to_nat (f_model fl)) = Some x /\
    WrittenExactly T tab_el tab_at tab_en float_fmt w1 f (m_root x) text (f_standalone fl).
Proof. exact serialize_exact_histories. Qed.

Theorem C10_serialize_exact_reachable :
  forall (T : tables) (tab_el tab_at tab_en : nametab) (check_fn : N -> list N -> res bool)
         (float_parse : list N -> option N) (float_fmt : N -> list N)
         (LATEST name_index name_definition_ref attr_schema_location : N) (root_attrs : list (N * cdata))
         (l : list op2) (w : world) (f : N) (text : list N) (w1 : world),
  steps_ok2 T tab_el tab_at tab_en check_fn float_parse float_fmt LATEST name_index name_definition_ref
            attr_schema_location root_attrs l empty_world = true ->
  run_ops2 T tab_el tab_at tab_en check_fn float_parse float_fmt LATEST name_index name_definition_ref
           attr_schema_location root_attrs l empty_world = Val w ->
  f_serialize T tab_el tab_at tab_en check_fn float_fmt attr_schema_location f w = Val (OK text, w1) ->
  exists fl x, nth_opt (w_files w) (N.to_nat f) = Some fl /\ nth_opt (w_models w) (N.to_nat (f_model fl)) = Some x /\
    WrittenExactly T tab_el tab_at tab_en float_fmt w1 f (m_root x) text (f_standalone fl).
Proof. exact serialize_exact_reachable. Qed.

(* nothing lost on write, over histories: every element of a model with files is attributed to a file of the model and
   written for it *)
Theorem C10_written_somewhere_histories :
  forall (T : tables) (tab_el tab_at tab_en : nametab) (check_fn : N -> list N -> res bool)
         (float_parse : list N -> option N) (float_fmt : N -> list N)
         (LATEST name_index name_definition_ref attr_schema_location : N) (root_attrs : list (N * cdata))
         (l : list op2) (w0 w : world),
  TreeInv w0 -> FilesInv T w0 -> FilesOwned w0 ->
  steps_ok2 T tab_el tab_at tab_en check_fn float_parse float_fmt LATEST name_index name_definition_ref
            attr_schema_location root_attrs l w0 = true ->
  run_ops2 T tab_el tab_at tab_en check_fn float_parse float_fmt LATEST name_index name_definition_ref
           attr_schema_location root_attrs l w0 = Val w ->
  Recursible T w ->
  forall x, In x (w_models w) -> m_files x <> [] ->
  forall i, Reach w (m_root x) i -> exists f, In f (m_files x) /\ Attributed w i f /\ Proj T w (Some f) (m_root x) i.
Proof. exact written_somewhere_histories. Qed.

(* ---------- the same WITHOUT the hypothesis Recursible: the written elements ARE the attributed ones (iff).
   C03's CharsLeaf (elements with character content mode have no sub-elements, Tree/InvProofsChars*.v) is an invariant of
   every step of these histories, and a successful ser_ids has looked up the content mode of every element it visits;
   so every written element with sub-elements recurses, which is all that "attributed => written" needs.
   WrittenIff w1 f root text sa: text = header ++ body, body = ser_heap (filter f) from the root, ser_ids = Val l and
   forall i, In i l <-> Reach w1 root i /\ Attributed w1 i f. ---------- *)
Theorem C10_serialize_iff :
  forall (T : tables) (tab_el tab_at tab_en : nametab) (check_fn : N -> list N -> res bool) (float_fmt : N -> list N)
         (attr_schema_location : N) (f : N) (w : world) (text : list N) (w1 : world),
  TreeInv w -> FilesInv T w -> InvProofsChars.CharsLeaf T w ->
  f_serialize T tab_el tab_at tab_en check_fn float_fmt attr_schema_location f w = Val (OK text, w1) ->
  exists fl x, nth_opt (w_files w) (N.to_nat f) = Some fl /\ nth_opt (w_models w) (N.to_nat (f_model fl)) = Some x /\
    WrittenIff T tab_el tab_at tab_en float_fmt w1 f (m_root x) text (f_standalone fl).
Proof. exact serialize_iff_state. Qed.

(* CharsLeaf rides along with TreeInv, FilesInv and FilesOwned over the steps_ok2 histories *)
Theorem C10_chars_histories2 :
  forall (T : tables) (tab_el tab_at tab_en : nametab) (check_fn : N -> list N -> res bool)
         (float_parse : list N -> option N) (float_fmt : N -> list N)
         (LATEST name_index name_definition_ref attr_schema_location : N) (root_attrs : list (N * cdata))
         (l : list op2) (w w' : world),
  TreeInv w -> FilesInv T w -> FilesOwned w -> InvProofsChars.CharsLeaf T w ->
  steps_ok2 T tab_el tab_at tab_en check_fn float_parse float_fmt LATEST name_index name_definition_ref
            attr_schema_location root_attrs l w = true ->
  run_ops2 T tab_el tab_at tab_en check_fn float_parse float_fmt LATEST name_index name_definition_ref
           attr_schema_location root_attrs l w = Val w' ->
  TreeInv w' /\ FilesInv T w' /\ FilesOwned w' /\ InvProofsChars.CharsLeaf T w'.
Proof. exact chars_histories2. Qed.

Theorem C10_serialize_iff_histories :
  forall (T : tables) (tab_el tab_at tab_en : nametab) (check_fn : N -> list N -> res bool)
         (float_parse : list N -> option N) (float_fmt : N -> list N)
         (LATEST name_index name_definition_ref attr_schema_location : N) (root_attrs : list (N * cdata))
         (l : list op2) (w0 w : world) (f : N) (text : list N) (w1 : world),
  TreeInv w0 -> FilesInv T w0 -> FilesOwned w0 -> InvProofsChars.CharsLeaf T w0 ->
  steps_ok2 T tab_el tab_at tab_en check_fn float_parse float_fmt LATEST name_index name_definition_ref
            attr_schema_location root_attrs l w0 = true ->
  run_ops2 T tab_el tab_at tab_en check_fn float_parse float_fmt LATEST name_index name_definition_ref
           attr_schema_location root_attrs l w0 = Val w ->
  f_serialize T tab_el tab_at tab_en check_fn float_fmt attr_schema_location f w = Val (OK text, w1) ->
  exists fl x, nth_opt (w_files w) (N.to_nat f) = Some fl /\ nth_opt (w_models w) (N.to_nat (f_model fl)) = Some x /\
    WrittenIff T tab_el tab_at tab_en float_fmt w1 f (m_root x) text (f_standalone fl).
Proof. exact serialize_iff_histories. Qed.

(* from the empty world: no hypothesis on the world at all *)
Theorem C10_serialize_iff_reachable :
  forall (T : tables) (tab_el tab_at tab_en : nametab) (check_fn : N -> list N -> res bool)
         (float_parse : list N -> option N) (float_fmt : N -> list N)
         (LATEST name_index name_definition_ref attr_schema_location : N) (root_attrs : list (N * cdata))
         (l : list op2) (w : world) (f : N) (text : list N) (w1 : world),
  steps_ok2 T tab_el tab_at tab_en check_fn float_parse float_fmt LATEST name_index name_definition_ref
            attr_schema_location root_attrs l empty_world = true ->
  run_ops2 T tab_el tab_at tab_en check_fn float_parse float_fmt LATEST name_index name_definition_ref
           attr_schema_location root_attrs l empty_world = Val w ->
  f_serialize T tab_el tab_at tab_en check_fn float_fmt attr_schema_location f w = Val (OK text, w1) ->
  exists fl x, nth_opt (w_files w) (N.to_nat f) = Some fl /\ nth_opt (w_models w) (N.to_nat (f_model fl)) = Some x /\
    WrittenIff T tab_el tab_at tab_en float_fmt w1 f (m_root x) text (f_standalone fl).
Proof. exact serialize_iff_reachable. Qed.

(* nothing lost on write, over histories, no hypothesis on element types: in every state such a history reaches, every
   element of a model with files is attributed to a file f of the model, and whenever ArxmlFile::serialize of f succeeds
   the element is among the elements written (ser_ids) for the text returned *)
Theorem C10_nothing_lost_on_write_histories :
  forall (T : tables) (tab_el tab_at tab_en : nametab) (check_fn : N -> list N -> res bool)
         (float_parse : list N -> option N) (float_fmt : N -> list N)
         (LATEST name_index name_definition_ref attr_schema_location : N) (root_attrs : list (N * cdata))
         (l : list op2) (w0 w : world),
  TreeInv w0 -> FilesInv T w0 -> FilesOwned w0 -> InvProofsChars.CharsLeaf T w0 ->
  steps_ok2 T tab_el tab_at tab_en check_fn float_parse float_fmt LATEST name_index name_definition_ref
            attr_schema_location root_attrs l w0 = true ->
  run_ops2 T tab_el tab_at tab_en check_fn float_parse float_fmt LATEST name_index name_definition_ref
           attr_schema_location root_attrs l w0 = Val w ->
  forall x, In x (w_models w) -> m_files x <> [] ->
  forall i, Reach w (m_root x) i ->
  exists f, In f (m_files x) /\ Attributed w i f /\
    forall text w1, f_serialize T tab_el tab_at tab_en check_fn float_fmt attr_schema_location f w = Val (OK text, w1) ->
      exists fl body ids, nth_opt (w_files w) (N.to_nat f) = Some fl /\
        text = Serializer.xml_header (f_standalone fl) ++ body /\
        ser_heap T tab_el tab_at tab_en float_fmt (fuel_of w1) w1 (Some f) (m_root x) 0 false = Val body /\
        ser_ids T (fuel_of w1) w1 (Some f) (m_root x) = Val ids /\ In i ids.
Proof. exact nothing_lost_on_write_histories. Qed.

Theorem C10_nothing_lost_on_write_reachable :
  forall (T : tables) (tab_el tab_at tab_en : nametab) (check_fn : N -> list N -> res bool)
         (float_parse : list N -> option N) (float_fmt : N -> list N)
         (LATEST name_index name_definition_ref attr_schema_location : N) (root_attrs : list (N * cdata))
         (l : list op2) (w : world),
  steps_ok2 T tab_el tab_at tab_en check_fn float_parse float_fmt LATEST name_index name_definition_ref
            attr_schema_location root_attrs l empty_world = true ->
  run_ops2 T tab_el tab_at tab_en check_fn float_parse float_fmt LATEST name_index name_definition_ref
           attr_schema_location root_attrs l empty_world = Val w ->
  forall x, In x (w_models w) -> m_files x <> [] ->
  forall i, Reach w (m_root x) i ->
  exists f, In f (m_files x) /\ Attributed w i f /\
    forall text w1, f_serialize T tab_el tab_at tab_en check_fn float_fmt attr_schema_location f w = Val (OK text, w1) ->
      exists fl body ids, nth_opt (w_files w) (N.to_nat f) = Some fl /\
        text = Serializer.xml_header (f_standalone fl) ++ body /\
        ser_heap T tab_el tab_at tab_en float_fmt (fuel_of w1) w1 (Some f) (m_root x) 0 false = Val body /\
        ser_ids T (fuel_of w1) w1 (Some f) (m_root x) = Val ids /\ In i ids.
Proof. exact nothing_lost_on_write_reachable. Qed.

(* ---------- load_buffer (OpLoad): what a successful load keeps ----------
   FilesInvW = FilesInvM without rule (c) (a merge makes the membership of every element that only one side has
   explicit, below splittable parents or not).  Everything goes through agent-c09's abstraction of the model as an
   id-annotated tree (ModelTree) and the pure merge (pmerge): *)
(* the pure merge keeps the membership invariant of trees when it is started with the effective set of the element *)
Theorem C10_pmerge_invariant :
  forall (T : tables) (LATEST defref : N) (fver : N -> option N) (F : list N) (nf : N)
         (fuel : nat) (a : MergeSpec.htree) (files : list N) (b a' : MergeSpec.htree) (inh : list N),
  HInv F inh a -> incl inh F -> inh <> [] ->
  seteq files (eff_of inh (MergeSpec.h_local a)) -> NoLocal b ->
  MergePure.pmerge T LATEST defref fver fuel a files b nf = Val (OK a') ->
  MergeSpec.h_local a' = MergeSpec.h_local a /\
  forall k, In (inl k) (MergePure.h_content a') -> HInv (nf :: F) (nf :: eff_of inh (MergeSpec.h_local a)) k.
Proof. exact pmerge_hinv. Qed.

(* bridge: for a model that is an abstracted tree, FilesInvW <-> HInvRoot of the erased tree *)
Theorem C10_bridge_tree_to_heap :
  forall (w : world), Core w -> forall (F : list N) (ta : LoadRefineBase.atree) (x : model),
  LoadRefineBase.AbsA w ta -> m_root x = LoadRefineBase.a_id ta -> m_files x = F ->
  (exists rn k, w_nodes w (LoadRefineBase.a_id ta) = Some rn /\ n_parent rn = PModel k) ->
  HInvRoot F (LoadRefineBase.erase ta) -> FilesInvW w x.
Proof. exact tree_to_heap. Qed.

Theorem C10_bridge_heap_to_tree :
  forall (w : world), Core w -> forall (F : list N) (ta : LoadRefineBase.atree) (x : model),
  LoadRefineBase.AbsA w ta -> m_root x = LoadRefineBase.a_id ta -> m_files x = F -> F <> [] ->
  (exists rn k, w_nodes w (LoadRefineBase.a_id ta) = Some rn /\ n_parent rn = PModel k) ->
  FilesInvW w x -> HInvRoot F (LoadRefineBase.erase ta).
Proof. exact heap_to_tree. Qed.

(* a further file is merged: FilesInvW and RootFull are kept when the root is in all files, for every merge
   C09_load_refines covers (Clean: outside C03's Known_load_shared; the pure merge succeeds) *)
Theorem C10_load_merge :
  forall (T : tables) (LATEST defref : N) (m : N) (filename : list N) (root : Parser.etree) (st : Parser.pstate)
         (w : world) (ta : LoadRefineBase.atree) (files : list N) (x : model) (r : out N) (w' : world),
  Core w -> Core w' -> LoadRefineTop.ModelTree w m ta files -> files <> [] ->
  nth_opt (w_models w) (N.to_nat m) = Some x -> FilesInvW w x -> RootFull w x ->
  let fid := N.of_nat (List.length (w_files w)) in
  let fl := mkFile m filename (Parser.p_version st) (Parser.p_standalone st) in
  let fver := LoadRefineMain.fver_files (w_files w ++ [fl]) in
  (forall fuel, (LoadRefineBase.adepth ta < fuel)%nat ->
     LoadRefinePure.Clean T LATEST defref fver fuel (LoadRefineBase.erase ta) (fold_right set_add [] files) (MergePure.htree_of_etree root) fid /\
     exists ha', MergePure.pmerge T LATEST defref fver fuel (LoadRefineBase.erase ta) (fold_right set_add [] files) (MergePure.htree_of_etree root) fid = Val (OK ha')) ->
  Load.load_parsed T LATEST defref m filename root st w = Val (r, w') ->
  r = ER OverlappingDataError \/
  (r = OK fid /\ w_files w' = w_files w ++ [fl] /\
   exists x', nth_opt (w_models w') (N.to_nat m) = Some x' /\ m_files x' = files ++ [fid] /\ FilesInvW w' x' /\ RootFull w' x').
Proof. exact load_merge_inv. Qed.

(* every model of a world with C03's Core is an abstracted tree, so the load theorem can be stated with the tree read
   back from the heap (MergeSpec.abs_model) instead of a ModelTree hypothesis *)
Theorem C10_model_is_tree :
  forall (w : world), Core w -> forall (m : N) (x : model),
  nth_opt (w_models w) (N.to_nat m) = Some x -> exists ta, LoadRefineTop.ModelTree w m ta (m_files x).
Proof. exact modeltree_exists. Qed.

Theorem C10_load_merge_abs :
  forall (T : tables) (LATEST defref : N) (m : N) (filename : list N) (root : Parser.etree) (st : Parser.pstate)
         (w : world) (ha : MergeSpec.htree) (x : model) (r : out N) (w' : world),
  Core w -> Core w' -> m_files x <> [] ->
  nth_opt (w_models w) (N.to_nat m) = Some x -> MergeSpec.abs_model w m = Some ha -> FilesInvW w x -> RootFull w x ->
  let fid := N.of_nat (List.length (w_files w)) in
  let fl := mkFile m filename (Parser.p_version st) (Parser.p_standalone st) in
  let fver := LoadRefineMain.fver_files (w_files w ++ [fl]) in
  (forall fuel, (MergePureProofs.hdepth ha < fuel)%nat ->
     LoadRefinePure.Clean T LATEST defref fver fuel ha (fold_right set_add [] (m_files x)) (MergePure.htree_of_etree root) fid /\
     exists ha', MergePure.pmerge T LATEST defref fver fuel ha (fold_right set_add [] (m_files x)) (MergePure.htree_of_etree root) fid = Val (OK ha')) ->
  Load.load_parsed T LATEST defref m filename root st w = Val (r, w') ->
  r = ER OverlappingDataError \/
  (r = OK fid /\ w_files w' = w_files w ++ [fl] /\
   exists x', nth_opt (w_models w') (N.to_nat m) = Some x' /\ m_files x' = m_files x ++ [fid] /\ FilesInvW w' x' /\ RootFull w' x').
Proof. exact load_merge_inv_abs. Qed.

(* the first file of a model *)
Theorem C10_load_first :
  forall (T : tables) (LATEST defref : N) (m : N) (filename : list N) (root : Parser.etree) (st : Parser.pstate)
         (w : world) (x : model) (r : out N) (w' : world),
  Core w' -> nth_opt (w_models w) (N.to_nat m) = Some x -> m_files x = [] ->
  Load.load_parsed T LATEST defref m filename root st w = Val (r, w') ->
  let fid := N.of_nat (List.length (w_files w)) in
  r = ER OverlappingDataError \/
  (r = OK fid /\
   exists x', nth_opt (w_models w') (N.to_nat m) = Some x' /\ m_files x' = [fid] /\ FilesInvW w' x' /\ RootFull w' x').
Proof. exact load_first_inv. Qed.

(* the files of a Good master (agent-c09's class), loaded into an empty model: hypotheses of C09_merge_union *)
Theorem C10_load_good :
  forall (T : tables) (LATEST defref v : N) (tab_el tab_at tab_en : nametab) (check_fn : N -> list N -> res bool)
         (float_parse : list N -> option N) (M : MergeSpec.mtree) (m : N) (x : model) (w0 : world) (n : nat) (strict : bool)
         (bufs : list (list N * list N)) (items : list LoadRefineTop.item) (os : list (out (N * list Parser.perror))) (w : world),
  MergePureProofs.Good T defref v M ->
  nth_opt (w_models w0) (N.to_nat m) = Some x -> m_files x = [] ->
  let gs := Load.n_range (S n) (N.of_nat (List.length (w_files w0))) in
  Forall2 (LoadRefineTop.parses_to T tab_el tab_at tab_en check_fn float_parse strict) bufs items ->
  Forall2 (LoadRefineTop.is_view v M) gs items ->
  (forall g, In g gs -> In g (MergePureProofs.mfiles M)) ->
  LoadRefineTop.load_bufs T tab_el tab_at tab_en check_fn float_parse LATEST defref m strict bufs w0 = Val (os, w) ->
  Forall (fun o => o <> ER DuplicateFilenameError /\ o <> ER OverlappingDataError) os ->
  Core w ->
  exists x', nth_opt (w_models w) (N.to_nat m) = Some x' /\ m_files x' = gs /\ FilesInvW w x' /\ RootFull w x'.
Proof. exact load_good_inv. Qed.

(* FilesOwned: unconditional for every successful load — the file table grows by the new file (which names the model),
   and of all model records only the file list of that model changes, by the new id *)
Theorem C10_load_files :
  forall (T : tables) (LATEST defref : N) (m : N) (filename : list N) (root : Parser.etree) (st : Parser.pstate)
         (w : world) (fid : N) (w' : world),
  Load.load_parsed T LATEST defref m filename root st w = Val (OK fid, w') ->
  fid = N.of_nat (List.length (w_files w)) /\
  w_files w' = w_files w ++ [mkFile m filename (Parser.p_version st) (Parser.p_standalone st)] /\
  exists x, nth_opt (w_models w) (N.to_nat m) = Some x /\
    map m_files (w_models w') = list_set (map m_files (w_models w)) (N.to_nat m) (m_files x ++ [fid]).
Proof. exact load_parsed_files. Qed.

Theorem C10_load_files_owned :
  forall (T : tables) (LATEST defref : N) (m : N) (filename : list N) (root : Parser.etree) (st : Parser.pstate)
         (w : world) (fid : N) (w' : world),
  FilesOwned w -> Load.load_parsed T LATEST defref m filename root st w = Val (OK fid, w') -> FilesOwned w'.
Proof. exact load_parsed_owned. Qed.

(* [F] RootFull is needed — the known finding C10-merge-membership-inconsistent as a theorem: a state reached through
   the API (TreeInv, FilesInv, FilesOwned hold) whose root is not in all files, and a successful load after which
   FilesInvW (b) fails *)
Theorem C10_load_root_partial_witness :
  exists (w : world) (x : model) (w' : world) (x' : model) (fid : N),
    TreeInv w /\ FilesInv TinyF.tiny w /\ FilesOwned w /\ nth_opt (w_models w) 0 = Some x /\ ~ RootFull w x /\
    TinyL.ld w = Val (OK fid, w') /\ nth_opt (w_models w') 0 = Some x' /\ ~ FilesInvW w' x'.
Proof. exact root_partial_witness. Qed.

(* [F] rule (c) is NOT kept by a merge, even when the root is in all files: an element that only the model has gets an
   explicit set below a parent that is not splittable (AR-PACKAGE/ELEMENTS on the tiny tables; the same happens in the
   library): this is why the load theorems speak of FilesInvW, and why FilesInv cannot be an invariant of histories
   that contain load_buffer *)
Theorem C10_load_rule_c_witness :
  exists (w : world) (x : model) (w' : world) (x' : model) (fid : N),
    TreeInv w /\ FilesInv TinyF.tiny w /\ FilesOwned w /\ nth_opt (w_models w) 0 = Some x /\ RootFull w x /\
    TinyL.ld_c w = Val (OK fid, w') /\ nth_opt (w_models w') 0 = Some x' /\ ~ FilesInvM TinyF.tiny w' x'.
Proof. exact rule_c_witness. Qed.

(* ---------- the WHOLE alphabet op2, OpLoad and OpDuplicate included: Core (C03_core_inv2) and FilesOwned are kept by
   every step outside C03's Known_load (a merge that uses an incoming element twice; a load rejected with
   InvalidFileMerge: the rollback).  No other exclusion. ---------- *)
Theorem C10_files_owned_step2 :
  forall (T : tables) (tab_el tab_at tab_en : nametab) (check_fn : N -> list N -> res bool)
         (float_parse : list N -> option N) (float_fmt : N -> list N)
         (LATEST name_index name_definition_ref attr_schema_location : N) (root_attrs : list (N * cdata))
         (o : op2) (w : world) (r : out value2) (w' : world),
  Core w -> FilesOwned w ->
  InvLoad.Known_load T tab_el tab_at tab_en check_fn float_parse float_fmt LATEST name_index name_definition_ref
                     attr_schema_location root_attrs w o = false ->
  run_op2 T tab_el tab_at tab_en check_fn float_parse float_fmt LATEST name_index name_definition_ref
          attr_schema_location root_attrs o w = Val (r, w') ->
  Core w' /\ FilesOwned w'.
Proof. exact owned_step2_all. Qed.

Theorem C10_files_owned_history2 :
  forall (T : tables) (tab_el tab_at tab_en : nametab) (check_fn : N -> list N -> res bool)
         (float_parse : list N -> option N) (float_fmt : N -> list N)
         (LATEST name_index name_definition_ref attr_schema_location : N) (root_attrs : list (N * cdata))
         (l : list op2) (w w' : world),
  Core w -> FilesOwned w ->
  steps_clean2 T tab_el tab_at tab_en check_fn float_parse float_fmt LATEST name_index name_definition_ref
               attr_schema_location root_attrs l w = true ->
  run_ops2 T tab_el tab_at tab_en check_fn float_parse float_fmt LATEST name_index name_definition_ref
           attr_schema_location root_attrs l w = Val w' ->
  Core w' /\ FilesOwned w'.
Proof. exact owned_histories2_all. Qed.

(* ---------- file names: the files of a model have pairwise different names (create_file and load_buffer reject a
   name the model already has; duplicate() makes every file of the copy through create_file).  Inv3 = Core /\ FilesOwned
   /\ NamesUnique is an invariant of EVERY history over the whole alphabet op2 outside C03's Known_load: this is the
   full-alphabet history theorem of C10 — FilesInv itself is not an invariant of such histories (C10_load_rule_c_witness,
   C10_load_root_partial_witness), the per-operation theorems for load and duplicate are above. ---------- *)
Theorem C10_names_unique_step :
  forall (T : tables) (tab_el tab_en : nametab) (check_fn : N -> list N -> res bool) (LATEST : N)
         (root_attrs : list (N * cdata)) (o : op) (w : world) (r : out value) (w' : world),
  Core w -> FilesOwned w -> NamesUnique w ->
  run_op T tab_el tab_en check_fn LATEST root_attrs o w = Val (r, w') -> NamesUnique w'.
Proof. exact names_step_all. Qed.

(* ArxmlFile::set_filename (Files.f_set_filename; not in the alphabets op / op2): a rejected rename leaves the world as it
   is; a successful one changes only the name in the record of that file and keeps FilesOwned and NamesUnique *)
Theorem C10_set_filename_rejected :
  forall (f : N) (name : list N) (w : world) (e : err) (w' : world),
  f_set_filename f name w = Val (ER e, w') -> w' = w /\ e = DuplicateFilenameError.
Proof. exact set_filename_rejected. Qed.

Theorem C10_set_filename_ok :
  forall (f : N) (name : list N) (w : world) (u : unit) (w' : world),
  FilesOwned w -> NamesUnique w -> f_set_filename f name w = Val (OK u, w') ->
  (exists fl, nth_opt (w_files w) (N.to_nat f) = Some fl /\
     w' = mkWorld (w_nodes w) (w_next w)
            (list_set (w_files w) (N.to_nat f) (mkFile (f_model fl) name (f_version fl) (f_standalone fl))) (w_models w)) /\
  FilesOwned w' /\ NamesUnique w'.
Proof. exact set_filename_ok. Qed.

Theorem C10_history2_owned_full :
  forall (T : tables) (tab_el tab_at tab_en : nametab) (check_fn : N -> list N -> res bool)
         (float_parse : list N -> option N) (float_fmt : N -> list N)
         (LATEST name_index name_definition_ref attr_schema_location : N) (root_attrs : list (N * cdata))
         (l : list op2) (w w' : world),
  Inv3 w ->
  steps_clean2 T tab_el tab_at tab_en check_fn float_parse float_fmt LATEST name_index name_definition_ref
               attr_schema_location root_attrs l w = true ->
  run_ops2 T tab_el tab_at tab_en check_fn float_parse float_fmt LATEST name_index name_definition_ref
           attr_schema_location root_attrs l w = Val w' ->
  Inv3 w'.
Proof. exact inv3_histories2_all. Qed.

Theorem C10_reachable2_owned_full :
  forall (T : tables) (tab_el tab_at tab_en : nametab) (check_fn : N -> list N -> res bool)
         (float_parse : list N -> option N) (float_fmt : N -> list N)
         (LATEST name_index name_definition_ref attr_schema_location : N) (root_attrs : list (N * cdata))
         (l : list op2) (w' : world),
  steps_clean2 T tab_el tab_at tab_en check_fn float_parse float_fmt LATEST name_index name_definition_ref
               attr_schema_location root_attrs l empty_world = true ->
  run_ops2 T tab_el tab_at tab_en check_fn float_parse float_fmt LATEST name_index name_definition_ref
           attr_schema_location root_attrs l empty_world = Val w' ->
  Inv3 w'.
Proof. exact inv3_reachable2. Qed.

(* AutosarModel::duplicate (PENDING for FilesInv of the copy): FilesOwned is kept, the models that were there keep their
   places and their invariant *)
Theorem C10_duplicate_partial :
  forall (T : tables) (tab_el tab_en : nametab) (check_fn : N -> list N -> res bool) (LATEST : N)
         (root_attrs : list (N * cdata)) (m : N) (w : world) (r : out N) (w' : world),
  Core w -> FilesInv T w -> FilesOwned w ->
  Copy.m_duplicate T tab_el tab_en check_fn LATEST root_attrs m w = Val (r, w') ->
  FilesOwned w' /\
  firstn (List.length (w_models w)) (w_models w') = w_models w /\
  forall x, In x (w_models w) -> FilesInvM T w' x.
Proof. exact duplicate_partial. Qed.

(* ---------- the COPY made by AutosarModel::duplicate ----------
   the membership phase (zip of the two pre-order walks, local set := the original's local set translated through the
   file map) carries FilesInvW from the original to the copy, in a world in which the two roots are equal up to node
   ids (agent-c13's Iso: what the construction phase gives when nothing is filtered out) and the file map sends every
   file of the original to a file of the copy; statement in the shape of C13's duplicate_tail_text *)
Theorem C10_duplicate_membership :
  forall (fm : list (list N * N)) (root croot : id) (w4 : world) (r : unit) (w' : world) (F F' : list N),
  Core w4 -> Core w' ->
  (forall g, In g F -> exists gl ng, nth_opt (w_files w4) (N.to_nat g) = Some gl /\ assoc_get (f_name gl) fm = Some ng /\ In ng F') ->
  FilesInvW w4 (mkModel root F [] []) -> F <> [] ->
  (forall n p, w_nodes w4 root = Some n -> n_parent n <> PElem p) ->
  (forall n p, w_nodes w4 croot = Some n -> n_parent n <> PElem p) ->
  CopyProofsDefs.Iso w4 w4 root croot ->
  (forall x y, CopyProofsDefs.Sub w4 root x -> CopyProofsDefs.Sub w4 croot y -> x <> y) ->
  (forall l, dfs_ids (fuel_of w4) croot w4 = Val (OK l, w4) -> NoDup l) ->
  (do w <- wget; do oids <- dfs_ids (fuel_of w) root; do cids <- dfs_ids (fuel_of w) croot;
   Copy.dup_membership fm oids cids)%W w4 = Val (OK r, w') ->
  FilesInvW w' (mkModel croot F' [] []).
Proof. exact duplicate_tail_filesinv. Qed.

(* the file map built by the first loop sends every file of the original (by name) to a file of the copy *)
Theorem C10_duplicate_file_map :
  forall (T : tables) (c : N) (files : list N) (fm : list (list N * N)) (w : world) (fm' : list (list N * N)) (w' : world),
  (forall g, In g files -> exists gl, nth_opt (w_files w) (N.to_nat g) = Some gl) ->
  Copy.dup_files T c files fm w = Val (OK fm', w') ->
  (forall g fl, nth_opt (w_files w) (N.to_nat g) = Some fl -> nth_opt (w_files w') (N.to_nat g) = Some fl) /\
  incl (MFc w c) (MFc w' c) /\
  (forall k v, assoc_get k fm = Some v -> exists v', assoc_get k fm' = Some v') /\
  (forall k v, assoc_get k fm' = Some v -> assoc_get k fm = Some v \/ In v (MFc w' c)) /\
  (forall g, In g files -> exists gl v, nth_opt (w_files w) (N.to_nat g) = Some gl /\ assoc_get (f_name gl) fm' = Some v).
Proof. exact dup_files_map. Qed.

(* the public call, in the scope of C13_duplicate_text (the root has one sub-element, of a type that is not named, valid
   in every file version of the result: nothing is filtered out) but for SPLIT models: the copy satisfies FilesInvW.
   Outside: C13-dup-version-filter (something is filtered out: the walks are not aligned, witness C13_duplicate_refuted)
   and C13-dup-foreign-membership (a local set names a file of another model: excluded here by FilesInvW (a)). *)
Theorem C10_duplicate_copy :
  forall (T : tables) (tab_el tab_en : nametab) (check_fn : N -> list N -> res bool) (LATEST : N)
         (root_attrs : list (N * cdata)) (m : N) (w : world) (c : N) (w' : world) (x : model) (rn : node) (e : id) (ed : elemdef),
  Core w ->
  Copy.m_duplicate T tab_el tab_en check_fn LATEST root_attrs m w = Val (OK c, w') ->
  nth_opt (w_models w) (N.to_nat m) = Some x -> w_nodes w (m_root x) = Some rn ->
  et_new T (autosar_element T) = Val (n_type rn) -> elem T (autosar_element T) = Val ed -> ed_name ed = n_name rn ->
  n_content rn = [CElem e] ->
  (forall en, w_nodes w e = Some en -> is_named T (n_type en) = Val false) ->
  (forall v, (v = LATEST \/ exists f fl, nth_opt (w_files w') (N.to_nat f) = Some fl /\ f_version fl = v) ->
             CopyProofsDefs.AllValidIn T v w e) ->
  FilesInvW w x -> m_files x <> [] ->
  (forall g, In g (m_files x) -> exists gl, nth_opt (w_files w) (N.to_nat g) = Some gl) ->
  exists xc, nth_opt (w_models w') (N.to_nat c) = Some xc /\ m_root xc = w_next w /\ FilesInvW w' xc.
Proof. exact duplicate_filesinv_top. Qed.

Theorem C10_self_contained :
  forall (T : tables) (Loads : world -> option N -> id -> Prop),
  (forall w ff r, (forall i, Proj T w ff r i -> i = r \/ exists p pn, Proj T w ff r p /\ w_nodes w p = Some pn /\ In i (kids pn)) ->
                  Loads w ff r) ->
  forall w x f, In x (w_models w) -> Loads w (Some f) (m_root x).
Proof. exact self_contained. Qed.

(* ---------- the finding classes are real: witnesses on the tiny table set ---------- *)
Theorem C10_add_foreign_refuted :
  exists w o r w', TreeInv w /\ FilesInv TinyF.tiny w /\ Known_add_foreign w o = true /\
                   TinyF.run o w = Val (r, w') /\ ~ FilesInv TinyF.tiny w'.
Proof. exact add_foreign_refuted_all. Qed.

Theorem C10_root_last_refuted :
  exists w o r w', TreeInv w /\ FilesInv TinyF.tiny w /\ Known_root_last w o = true /\
                   TinyF.run o w = Val (r, w') /\ ~ FilesInv TinyF.tiny w'.
Proof. exact root_last_refuted_all. Qed.

Theorem C10_root_last_remove_file_refuted :
  exists w o r w', TreeInv w /\ FilesInv TinyF.tiny w /\
                   Known_root_last w o && match o with OpRemoveFile _ _ => true | _ => false end = true /\
                   TinyF.run o w = Val (r, w') /\ ~ FilesInv TinyF.tiny w'.
Proof. exact root_last_remove_file_refuted_all. Qed.

Theorem C10_move_local_refuted :
  exists w o r w', TreeInv w /\ FilesInv TinyF.tiny w /\ Known_move_local w o = true /\
                   TinyF.run o w = Val (r, w') /\ ~ FilesInv TinyF.tiny w'.
Proof. exact move_local_refuted_all. Qed.
