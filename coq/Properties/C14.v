(* Properties/C14.v — Sorting is a content-preserving, idempotent canonicalisation.
   Model: Tree/Sort.v (Element::cmp, decompose_item_name, CharacterData::cmp, Attribute::cmp, ElementRaw::sort, Element::sort,
   AutosarModel::sort) over ABSTRACT specification tables T and name tables; tied to the working tree of /repo on every run
   by the correspondence stream of checks/c14.py (sort results, comparison matrices).  Every theorem holds for all tables.
   slice::sort_by is ANY function srt with [StableSort srt] (permutation; on a total preorder: sorted and stable).

   [U] C14_stable_sort_runs     the insertion sort the model executes is such a function
   [U] C14_any_stable_sort      Element::sort gives the same world (or the same Pan/Fuel) for any two stable sorts
   [U] C14_perm                 sort changes nothing but content lists; a content list changes only by a permutation of its
                                sub-elements and only where the type's content mode is Sequence/Choice/Bag and not `ordered`
                                (world_rel, Tree/SortProofsHeap.v); the node set, w_next, files and models - i.e. both index
                                maps - are untouched and the result is OK
   [U] C14_perm_model           the same for AutosarModel::sort
   [U] C14_lookups_intact       get_element_by_path and the referrer lists give the same answers afterwards
   [U] C14_item_names_intact    Element::item_name of every element is what it was (both directions), so with the untouched parent
                                links every path is; hypotheses: NameFirst (a named element's SHORT-NAME child is its first content
                                item and its only SHORT-NAME child - what the editing API builds) and MaskOk (the SHORT-NAME entry of a
                                named type is valid in some version)
   [U] C14_never_fails          on a heap satisfying SortReady (no dangling id, spec lookups of the node types do not panic,
                                EVERY CHILD IS FINDABLE IN ITS PARENT'S TYPE UNDER VERSION MASK u32::MAX - the unwrap in
                                ElementRaw::sort -, names inside their string tables, ranked content lists) sort returns OK:
                                no Pan, no Fuel.  C14_never_fails_nonvacuous: such a heap exists.
   [U] C14_cmp_total            Element::cmp as the code stands is a total preorder (reflexive, consistent under swapping the
                                arguments, transitive) on every set of elements on which it returns
   [U] C14_sort_key_total       hence so is the comparator given to sort_by, (position in the specification, Element::cmp)
   [U] C14_unique               on a total preorder all stable sorts agree, sorting is idempotent, the result depends only on
                                the multiset of siblings up to cmp-equivalence, and not at all on the previous order when
                                Equal holds only between identical members
   [U] C14_equiv_is_comment_only  Element::cmp = Equal implies: same element name, same attributes, same values, sub-elements
                                pairwise related in turn (same_f) - i.e. identical except comments and what cmp never reads:
                                element type, file membership, parent.  Hypotheses: the three name tables are injective and
                                float bit patterns are below 2^64.
   Heap level (Tree/SortProofsLocal.v, SortProofsCanon.v, SortProofsCore.v, SortProofsHist.v); the tree-shape facts are DERIVED from
   C03's Core invariant, which every world reachable by a history satisfies (C03_reachable_core):
   [U] C14_cmp_structural       Element::cmp reads nothing but the structure: on twins (twin_f: same names, types, attributes,
                                values, sub-elements pairwise, in two worlds) it returns the same result
   [U] C14_children_first       the world Element::sort returns is sorted_f: every reorderable content list is sorted by (position,
                                Element::cmp) AS EVALUATED IN THE RESULT - true because every child is sorted before the siblings
                                are compared (the order the code uses; sorting the children afterwards - the seeded change
                                C14-sort-children-after-siblings - compares stale keys)
   [U] C14_idempotent           sort (sort w) = sort w as worlds (weq: same w_next, every node equal), result OK
   [U] C14_canonical_form       two worlds with the same nodes that differ only by the order of the children of reorderable nodes
                                (perm_equiv; same_shape) sort to TWINS at every depth: same names, types, attributes, values at
                                every position - only ids of cmp-Equal siblings may be swapped, comments are not compared.
                                Hypotheses: Core, TypeDet (the type of a sub-element is determined by parent type and name), U64
                                (float bits < 2^64), injective name tables.  C14_canonical_nonvacuous: all of them hold for a
                                world built by a history and its permuted copy, and the theorem applies.
   [U] C14_never_fails_core     C14_never_fails with the rank derived from Core: hypotheses Core + SpecKids
   [U] C14_never_fails_histories  in every world reached from the empty world by a history of operations (any tables) that satisfies
                                SpecKids, sort of any element returns OK and keeps SpecKids; SpecKids is decidable
                                (C14_spec_kids_decidable) and, under table facts, holds in every reachable world:
   [U] C14_ready_step           the invariant RE /\ RV (Tree/SortProofsReadyE.v, SortProofsReadyV.v: node types are checked types,
                                names / enum items / attribute names inside their string tables, every listed sub-element's NAME
                                is listed by its lister's type for some version) is kept by each of the 26 operations - NO side
                                condition on move / copy: every attaching path looks the name up at the destination
                                (calc_element_insert_range) before it inserts; the stored type may differ (C07 / C13 known class),
                                sort looks up the name.  Table hypotheses: tables_ok, NamesOK, EnumsOK, AttrsOK, valid root_attrs.
   [U] C14_spec_kids_histories  hence (with MaskOK: masks within u32) Core and SpecKids hold in every world a history reaches
   [F] C14_table_facts_real     the table hypotheses hold for the regenerated tables RT and the real string tables
   [F] C14_never_fails_histories_real  on RT: for EVERY history of `op` from the empty world, Element::sort of every allocated
                                element and AutosarModel::sort of every model return OK (any stable sort) and keep SpecKids -
                                no world hypothesis; the hypothesis left is on the PARAMETER root_attrs of AutosarModel::new.
                                C14_never_fails_histories_real_isort: the model's insertion sort, root_attrs = [], no hypothesis.
                                C14_never_fails_real_nonvacuous: a history on RT (two packages q, p), the theorem applied, and the
                                sort it promises reorders [q; p] into [p; q].
                                C14_never_fails_real_mismatched_move: a history on RT with a move that C17's side condition
                                attach_ok excludes (TP-ECUS of a FLEXRAY-TP-CONFIG into a CAN-TP-CONFIG: stored type (8232, 2216),
                                the destination lists the name with type (8231, 519)); the theorem applies, the sort returns OK.
   [F] C14_sort_descends_below_ordered  non-vacuity of C14_children_first BELOW an ordered node, on RT: SUB-ELEMENTS of an
                                IMPLEMENTATION-DATA-TYPE is ordered; the ANNOTATIONS of its member, built in the order b, a by a
                                history, are reordered by the sort of the data type, and the result is sorted_f.
   [U] C14_findable_mono        a name found by find_sub_element under a 32-bit version mask (what every insertion path checks) is found
                                under u32::MAX (what sort looks up) unless the wider lookup runs into a table panic
   [F] C14_cmp_cyclic_refuted   the comparison BEFORE fix b1d60f9 (policy_v0) ordered a2 < a10 < a1b < a2 (tiny tables)
   [F] C14_v0_skipped_stage_refuted, C14_v0_nan_refuted   the two other defects before fixes bd2b022 and a639b70 *)
From Coq Require Import Permutation.
From AV Require Import Base.Bytes Base.Outcome Hash.HashModel Tree.Heap Tree.Ops Tree.Script Tree.Sort Tree.SortTiny
  Tree.SortProofsOrder Tree.SortProofsCmp Tree.SortProofsHeap Tree.SortProofsV0 Tree.SortProofsMain Tree.SortProofsNames
  Tree.Inv Tree.SortProofsLocal Tree.SortProofsCanon Tree.SortProofsCore Tree.SortProofsHist.
Open Scope list_scope.
Open Scope N_scope.

Theorem C14_stable_sort_runs : StableSort isort_poly.
Proof. exact StableSort_isort. Qed.

Theorem C14_any_stable_sort : forall T tab_el tab_at tab_en name_index name_definition_ref srt1 srt2,
  StableSort srt1 -> StableSort srt2 -> forall i w,
  e_sort_with T tab_el tab_at tab_en name_index name_definition_ref srt1 i w =
  e_sort_with T tab_el tab_at tab_en name_index name_definition_ref srt2 i w.
Proof. exact sort_any_stable_sort. Qed.

Theorem C14_perm : forall T tab_el tab_at tab_en name_index name_definition_ref srt,
  StableSort srt -> forall i w r w',
  e_sort_with T tab_el tab_at tab_en name_index name_definition_ref srt i w = Val (r, w') ->
  r = OK tt /\ world_rel T w w'.
Proof. exact e_sort_frame. Qed.

Theorem C14_perm_model : forall T tab_el tab_at tab_en name_index name_definition_ref srt,
  StableSort srt -> forall m w r w',
  m_sort_with T tab_el tab_at tab_en name_index name_definition_ref srt m w = Val (r, w') ->
  r = OK tt /\ world_rel T w w'.
Proof. exact m_sort_frame. Qed.

Theorem C14_lookups_intact : forall T w w', world_rel T w w' ->
  (forall m p r w1, get_element_by_path m p w = Val (r, w1) -> get_element_by_path m p w' = Val (r, w')) /\
  (forall m p r w1, q_refs_to m p w = Val (r, w1) -> q_refs_to m p w' = Val (r, w')).
Proof. exact lookups_intact. Qed.

Theorem C14_item_names_intact : forall T tab_el tab_at tab_en name_index name_definition_ref srt,
  StableSort srt -> MaskOk T -> forall i w r w',
  NameFirst T w -> e_sort_with T tab_el tab_at tab_en name_index name_definition_ref srt i w = Val (r, w') ->
  forall j n n' nm, w_nodes w j = Some n -> w_nodes w' j = Some n' ->
    (item_name_p T w n = Val (Some nm) <-> item_name_p T w' n' = Val (Some nm)).
Proof. exact e_sort_item_names. Qed.

Theorem C14_never_fails : forall T tab_el tab_at tab_en name_index name_definition_ref srt,
  StableSort srt -> forall rk i w,
  SortReady T tab_el tab_at tab_en w rk -> rank_bounded w rk -> (exists n, w_nodes w i = Some n) ->
  exists w', e_sort_with T tab_el tab_at tab_en name_index name_definition_ref srt i w = Val (OK tt, w').
Proof. exact e_sort_total. Qed.

Theorem C14_never_fails_nonvacuous :
  SortReady SortTiny.tiny SortTiny.tiny_el SortTiny.tiny_at SortTiny.tiny_en (SortTiny.packages "a2" "a10" "a1b") tiny_rank /\
  rank_bounded (SortTiny.packages "a2" "a10" "a1b") tiny_rank.
Proof. exact tiny_ready. Qed.

Theorem C14_cmp_total : forall T tab_el tab_at tab_en name_index name_definition_ref w (S : id -> Prop),
  (forall a b, S a -> S b -> exists c, cmp_p T tab_el tab_at tab_en name_index name_definition_ref policy_cur w a b = Val c) ->
  TotalPreorderOn (cmp_total T tab_el tab_at tab_en name_index name_definition_ref w) S.
Proof. exact cmp_total_preorder. Qed.

Theorem C14_sort_key_total : forall T tab_el tab_at tab_en name_index name_definition_ref w (keyed : list (list N * id)),
  (forall a b, In a (map snd keyed) -> In b (map snd keyed) ->
     exists c, cmp_p T tab_el tab_at tab_en name_index name_definition_ref policy_cur w a b = Val c) ->
  TotalPreorderOn (key_cmp (cmp_total T tab_el tab_at tab_en name_index name_definition_ref w)) (fun k => In k keyed).
Proof. exact key_cmp_total_preorder. Qed.

Theorem C14_unique : forall srt1 srt2 (A : Type) (c : A -> A -> comparison) (l l' : list A),
  StableSort srt1 -> StableSort srt2 -> TotalPreorderOn c (fun x => In x l) -> Permutation l l' ->
  srt1 A c l = srt2 A c l /\
  srt1 A c (srt1 A c l) = srt1 A c l /\
  Forall2 (fun x y => c x y = Eq) (srt1 A c l) (srt2 A c l') /\
  ((forall x y, In x l -> In y l -> c x y = Eq -> x = y) -> srt1 A c l = srt2 A c l').
Proof. exact sort_unique_bundle. Qed.

Theorem C14_equiv_is_comment_only : forall T tab_el tab_at tab_en name_index name_definition_ref w,
  (forall x y s, to_str tab_el x = Some s -> to_str tab_el y = Some s -> x = y) ->
  (forall x y s, to_str tab_at x = Some s -> to_str tab_at y = Some s -> x = y) ->
  (forall x y s, to_str tab_en x = Some s -> to_str tab_en y = Some s -> x = y) ->
  (forall i n, w_nodes w i = Some n -> node_u64 n) ->
  forall f a b, cmp_f T tab_el tab_at tab_en name_index name_definition_ref policy_cur w f a b = Val Eq -> same_f w f a b.
Proof. exact cmp_eq_same. Qed.

Theorem C14_cmp_cyclic_refuted :
  exists T tab_el tab_at tab_en name_index name_definition_ref w a b c,
    cmp_p T tab_el tab_at tab_en name_index name_definition_ref policy_v0 w a b = Val Lt /\
    cmp_p T tab_el tab_at tab_en name_index name_definition_ref policy_v0 w b c = Val Lt /\
    cmp_p T tab_el tab_at tab_en name_index name_definition_ref policy_v0 w c a = Val Lt.
Proof. exact cmp_v0_not_total_preorder. Qed.

Theorem C14_v0_skipped_stage_refuted :
  SortTiny.cmp policy_v0 SortTiny.params 1 7 = Val Lt /\ SortTiny.cmp policy_v0 SortTiny.params 7 4 = Val Lt /\
  SortTiny.cmp policy_v0 SortTiny.params 4 1 = Val Lt.
Proof. exact v0_skipped_stage_cyclic. Qed.

Theorem C14_v0_nan_refuted :
  SortTiny.cmp policy_v0 SortTiny.floats 1 4 = Val Eq /\ SortTiny.cmp policy_v0 SortTiny.floats 4 7 = Val Eq /\
  SortTiny.cmp policy_v0 SortTiny.floats 1 7 = Val Gt.
Proof. exact v0_nan_not_transitive. Qed.

(* ------------------------------------------------------------------ heap level *)
Theorem C14_cmp_structural : forall T tab_el tab_at tab_en name_index name_definition_ref pol u v f a a' b b',
  twin_f u v (S f) a a' -> twin_f u v (S f) b b' ->
  cmp_f T tab_el tab_at tab_en name_index name_definition_ref pol u f a b =
  cmp_f T tab_el tab_at tab_en name_index name_definition_ref pol v f a' b'.
Proof. exact cmp_twin. Qed.

Theorem C14_children_first : forall T tab_el tab_at tab_en name_index name_definition_ref srt,
  StableSort srt -> forall i w r w', Core w ->
  e_sort_with T tab_el tab_at tab_en name_index name_definition_ref srt i w = Val (r, w') ->
  sorted_f T tab_el tab_at tab_en name_index name_definition_ref (fuel_of w) w' i.
Proof. exact e_sort_sorted. Qed.

Theorem C14_idempotent : forall T tab_el tab_at tab_en name_index name_definition_ref srt,
  StableSort srt -> forall i w r w1 r2 w2, Core w ->
  e_sort_with T tab_el tab_at tab_en name_index name_definition_ref srt i w = Val (r, w1) ->
  e_sort_with T tab_el tab_at tab_en name_index name_definition_ref srt i w1 = Val (r2, w2) ->
  weq w1 w2 /\ r2 = OK tt.
Proof. exact e_sort_idempotent. Qed.

Theorem C14_canonical_form : forall T tab_el tab_at tab_en name_index name_definition_ref srt,
  StableSort srt ->
  (forall x y s, to_str tab_el x = Some s -> to_str tab_el y = Some s -> x = y) ->
  (forall x y s, to_str tab_at x = Some s -> to_str tab_at y = Some s -> x = y) ->
  (forall x y s, to_str tab_en x = Some s -> to_str tab_en y = Some s -> x = y) ->
  forall i u v u1 v1, Core u -> same_shape u v -> TypeDet u -> U64 u -> perm_equiv T u v i ->
  e_sort_with T tab_el tab_at tab_en name_index name_definition_ref srt i u = Val (OK tt, u1) ->
  e_sort_with T tab_el tab_at tab_en name_index name_definition_ref srt i v = Val (OK tt, v1) ->
  forall f, twin_f u1 v1 f i i.
Proof. exact e_sort_canonical. Qed.

Theorem C14_canonical_nonvacuous :
  Core Ex.u /\ same_shape Ex.u Ex.v /\ TypeDet Ex.u /\ U64 Ex.u /\ perm_equiv SortTiny.tiny Ex.u Ex.v 0 /\
  SpecKids SortTiny.tiny SortTiny.tiny_el SortTiny.tiny_at SortTiny.tiny_en Ex.u /\
  Ex.sort_ex Ex.u = Val (OK tt, Ex.u1) /\ Ex.sort_ex Ex.v = Val (OK tt, Ex.v1) /\
  (forall f, twin_f Ex.u1 Ex.v1 f 0 0) /\
  option_map n_content (w_nodes Ex.u 0) = Some [CElem 1; CElem 3; CElem 5] /\
  option_map n_content (w_nodes Ex.v 0) = Some [CElem 5; CElem 1; CElem 3].
Proof.
  exact (conj Ex.u_core (conj Ex.uv_same_shape (conj Ex.u_typedet (conj Ex.u_u64 (conj Ex.uv_perm_equiv (conj Ex.u_spec_kids
        (conj Ex.u1_runs (conj Ex.v1_runs (conj Ex.uv_twins (conj eq_refl eq_refl)))))))))).
Qed.

Theorem C14_never_fails_core : forall T tab_el tab_at tab_en name_index name_definition_ref srt,
  StableSort srt -> forall i w, Core w -> SpecKids T tab_el tab_at tab_en w -> (exists n, w_nodes w i = Some n) ->
  exists w', e_sort_with T tab_el tab_at tab_en name_index name_definition_ref srt i w = Val (OK tt, w').
Proof. exact e_sort_total_core. Qed.

Theorem C14_never_fails_histories : forall T tab_el tab_at tab_en name_index name_definition_ref srt,
  StableSort srt -> forall check_fn LATEST root_attrs (l : list op) w,
  Inv.run_ops T tab_el tab_en check_fn LATEST root_attrs l empty_world = Val w ->
  SpecKids T tab_el tab_at tab_en w -> forall i, (exists n, w_nodes w i = Some n) ->
  exists w', e_sort_with T tab_el tab_at tab_en name_index name_definition_ref srt i w = Val (OK tt, w') /\
             SpecKids T tab_el tab_at tab_en w'.
Proof. exact never_fails_histories. Qed.

Theorem C14_spec_kids_decidable : forall T tab_el tab_at tab_en w,
  alloc_bound w -> spec_kids_b T tab_el tab_at tab_en w = true -> SpecKids T tab_el tab_at tab_en w.
Proof. exact spec_kids_b_sound. Qed.

Theorem C14_findable_mono : forall T ty target v r, v < 2 ^ 32 ->
  find_sub_element T ty target v = Val (Some r) -> (exists r', find_sub_element T ty target MAXV = Val r') ->
  exists et idx, find_sub_element T ty target MAXV = Val (Some (et, idx)).
Proof. exact findable_mono. Qed.

(* ---- SpecKids in every reachable world ---- *)
From AV Require Spec.SpecOps Spec.SpecReal Xml.TablesOk Tree.CompatHist1 Tree.SortProofsReadyE Tree.SortProofsReadyV
  Tree.SortProofsReady Tree.SortProofsReal Hash.HashRealElement Hash.HashRealAttr Hash.HashRealEnum.

Theorem C14_ready_step : forall T tab_el tab_at tab_en check_fn LATEST root_attrs,
  TablesOk.tables_ok T = true ->
  (forall i e, i < SpecOps.n_elements T -> SpecOps.T_elements T i = Some e -> to_str tab_el (SpecOps.ed_name e) <> None) ->
  (forall k items it, SpecOps.T_cdata T k = Some (SpecTypes.CEnum items) -> In it items -> to_str tab_en (fst it) <> None) ->
  (forall k name cdid req, SpecOps.T_attributes T k = Some (name, cdid, req) -> to_str tab_at name <> None) ->
  (forall a, In a root_attrs -> to_str tab_at (fst a) <> None /\ cdata_named tab_en (snd a)) ->
  forall (o : op) w r w', Core w -> SortProofsReadyE.RE T tab_el w -> SortProofsReadyV.RV tab_at tab_en w ->
  Inv.run T tab_el tab_en check_fn LATEST root_attrs o w = Val (r, w') ->
  Core w' /\ SortProofsReadyE.RE T tab_el w' /\ SortProofsReadyV.RV tab_at tab_en w'.
Proof. exact SortProofsReady.ready_step. Qed.

Theorem C14_spec_kids_histories : forall T tab_el tab_at tab_en check_fn LATEST root_attrs,
  TablesOk.tables_ok T = true -> CompatHist1.MaskOK T ->
  (forall i e, i < SpecOps.n_elements T -> SpecOps.T_elements T i = Some e -> to_str tab_el (SpecOps.ed_name e) <> None) ->
  (forall k items it, SpecOps.T_cdata T k = Some (SpecTypes.CEnum items) -> In it items -> to_str tab_en (fst it) <> None) ->
  (forall k name cdid req, SpecOps.T_attributes T k = Some (name, cdid, req) -> to_str tab_at name <> None) ->
  (forall a, In a root_attrs -> to_str tab_at (fst a) <> None /\ cdata_named tab_en (snd a)) ->
  forall (l : list op) w, Inv.run_ops T tab_el tab_en check_fn LATEST root_attrs l empty_world = Val w ->
  Core w /\ SpecKids T tab_el tab_at tab_en w.
Proof. exact SortProofsReady.spec_kids_histories. Qed.

Theorem C14_table_facts_real :
  TablesOk.tables_ok SpecReal.RT = true /\ CompatHist1.MaskOK SpecReal.RT /\
  (forall i e, i < SpecOps.n_elements SpecReal.RT -> SpecOps.T_elements SpecReal.RT i = Some e ->
               to_str HashRealElement.tab_element (SpecOps.ed_name e) <> None) /\
  (forall k items it, SpecOps.T_cdata SpecReal.RT k = Some (SpecTypes.CEnum items) -> In it items ->
               to_str HashRealEnum.tab_enum (fst it) <> None) /\
  (forall k name cdid req, SpecOps.T_attributes SpecReal.RT k = Some (name, cdid, req) -> to_str HashRealAttr.tab_attr name <> None).
Proof. exact SortProofsReal.table_facts_real. Qed.

Theorem C14_never_fails_histories_real : forall check_fn LATEST root_attrs name_index name_definition_ref srt,
  StableSort srt ->
  (forall a, In a root_attrs -> to_str HashRealAttr.tab_attr (fst a) <> None /\ cdata_named HashRealEnum.tab_enum (snd a)) ->
  forall (l : list op) w,
  Inv.run_ops SpecReal.RT HashRealElement.tab_element HashRealEnum.tab_enum check_fn LATEST root_attrs l empty_world = Val w ->
  (forall i, (exists n, w_nodes w i = Some n) ->
     exists w', e_sort_with SpecReal.RT HashRealElement.tab_element HashRealAttr.tab_attr HashRealEnum.tab_enum
                  name_index name_definition_ref srt i w = Val (OK tt, w') /\
                SpecKids SpecReal.RT HashRealElement.tab_element HashRealAttr.tab_attr HashRealEnum.tab_enum w') /\
  (forall m x, nth_opt (w_models w) (N.to_nat m) = Some x ->
     exists w', m_sort_with SpecReal.RT HashRealElement.tab_element HashRealAttr.tab_attr HashRealEnum.tab_enum
                  name_index name_definition_ref srt m w = Val (OK tt, w') /\
                SpecKids SpecReal.RT HashRealElement.tab_element HashRealAttr.tab_attr HashRealEnum.tab_enum w').
Proof. exact SortProofsReal.never_fails_histories_real. Qed.

Theorem C14_never_fails_histories_real_isort : forall check_fn LATEST name_index name_definition_ref (l : list op) w,
  Inv.run_ops SpecReal.RT HashRealElement.tab_element HashRealEnum.tab_enum check_fn LATEST [] l empty_world = Val w ->
  forall i, (exists n, w_nodes w i = Some n) ->
  exists w', e_sort SpecReal.RT HashRealElement.tab_element HashRealAttr.tab_attr HashRealEnum.tab_enum
               name_index name_definition_ref i w = Val (OK tt, w').
Proof. exact SortProofsReal.never_fails_histories_real_isort. Qed.

Theorem C14_never_fails_real_nonvacuous : exists w w',
  Inv.run_ops SpecReal.RT HashRealElement.tab_element HashRealEnum.tab_enum SortProofsReal.nv_check 1048576 []
    SortProofsReal.nv_hist empty_world = Val w /\
  option_map n_content (w_nodes w 1) = Some [CElem 2; CElem 4] /\
  e_sort SpecReal.RT HashRealElement.tab_element HashRealAttr.tab_attr HashRealEnum.tab_enum 3516 6311 0 w = Val (OK tt, w') /\
  option_map n_content (w_nodes w' 1) = Some [CElem 4; CElem 2].
Proof. exact SortProofsReal.never_fails_real_nonvacuous. Qed.

Theorem C14_never_fails_real_mismatched_move : exists w w' n9 n7,
  Inv.run_ops SpecReal.RT HashRealElement.tab_element HashRealEnum.tab_enum SortProofsReal.nv_check 1048576 []
    SortProofsReal.nv_hist2 empty_world = Val w /\
  w_nodes w 9 = Some n9 /\ w_nodes w 7 = Some n7 /\ In (CElem 7) (n_content n9) /\
  n_type n7 = (8232, 2216) /\
  SpecOps.find_sub_element SpecReal.RT (n_type n9) (n_name n7) MAXV = Val (Some ((8231, 519), [13])) /\
  e_sort SpecReal.RT HashRealElement.tab_element HashRealAttr.tab_attr HashRealEnum.tab_enum 3516 6311 0 w = Val (OK tt, w').
Proof. exact SortProofsReal.never_fails_real_mismatched_move. Qed.

Theorem C14_sort_descends_below_ordered : exists w w' n7,
  Inv.run_ops SpecReal.RT HashRealElement.tab_element HashRealEnum.tab_enum SortProofsReal.nv_check 1048576 []
    SortProofsReal.nv_hist3 empty_world = Val w /\
  w_nodes w 7 = Some n7 /\ SpecOps.is_ordered SpecReal.RT (n_type n7) = Val true /\
  option_map n_content (w_nodes w 10) = Some [CElem 11; CElem 13] /\
  e_sort SpecReal.RT HashRealElement.tab_element HashRealAttr.tab_attr HashRealEnum.tab_enum 3516 6311 5 w = Val (OK tt, w') /\
  option_map n_content (w_nodes w' 7) = Some [CElem 8] /\
  option_map n_content (w_nodes w' 10) = Some [CElem 13; CElem 11] /\
  sorted_f SpecReal.RT HashRealElement.tab_element HashRealAttr.tab_attr HashRealEnum.tab_enum 3516 6311 (fuel_of w) w' 5.
Proof. exact SortProofsReal.sort_descends_below_ordered. Qed.
