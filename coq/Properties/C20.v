(* Properties/C20.v — Typed values format and parse consistently; numeric interpretation is exact.
   Only statements; every proof is `exact <lemma>` (lemmas: Value/NumProofs.v, F64Proofs.v, CharDataProofs.v,
   CharDataProofsF.v, CharDataRegex.v).  All theorems are [U]: for EVERY byte string / every number / every type.

   Model      : Value/CharData.v (chardata.rs, expression by expression), Value/Num.v (core::num from_str_radix),
                Value/F64.v (binary64 patterns, `u64 as f64`), Hash/HashModel.v (EnumItem::from_bytes/to_str).
   Spec side  : Value/ValueSpec.v — int_value (the five shapes of regex 13 read positionally), liberal_value
                (radix prefix, one optional sign, digits), prefixed_value; Value/F64.v correctly_rounded
                (nearest binary64, ties to even, against all 53-bit candidates; naturals only).
   Integer types are (signed, bits): u8..u128 = (false, 8..128), i8..i128 = (true, 8..128), usize/isize = (_, 64);
   the theorems hold for every bit width.
   std float conversions are NOT defined in Coq: dec_parse / dec_fmt are universally quantified; the one law
   about them that a theorem needs (float_roundtrip_law) is an explicit hypothesis.

   FINDING (genuine defect, repaired by a `fix:` commit in /repo, known_findings.json "float-prefixed-ge-2^64"):
   parse_float converted prefixed texts through u64; a hexadecimal / binary / octal text with a value >= 2^64 fell
   through to the decimal conversion: hexadecimal and binary gave nothing although the number fits binary64, octal
   gave the DECIMAL reading of the digits (02000000000000000000000 = 2^64 came back as 2e21).  The repaired code
   (float_from_radix_digits) is modelled in Value/CharData.v and proved correctly rounded for every length
   (Value/RadixFloatProofs.v); C20_float_prefixed is now unconditional. *)
From AV Require Import Base.Bytes Base.Outcome Regex.Regex Regex.Bisim Regex.Syntax.
From AV.Gen Require Import RegexData.
From AV Require Import Hash.HashModel Hash.HashProofs Hash.HashRealEnum Spec.SpecTypes.
From AV Require Import Value.Num Value.ValueSpec Value.NumProofs Value.F64 Value.F64Proofs.
From AV Require Import Value.CharData Value.CharDataProofs Value.CharDataProofsF Value.CharDataRegex.
From Coq Require Import ZArith.
Open Scope N_scope.

(* ---- u64: print, then parse *)
Theorem C20_u64_print_parse : forall n, n < 2 ^ 64 -> parse_u64 (print_u64 n) = Some n.
Proof. exact print_parse_u64. Qed.

(* ---- integers: exact on the lexical forms of the integer pattern, for every integer type *)
Theorem C20_integer_exact : forall (signed : bool) (bits : N) (t : list N) (v : Z),
  int_value t = Some v ->
  parse_integer signed bits (DString t) = if in_rangeb signed bits v then Some v else None.
Proof. exact parse_integer_exact. Qed.

(* what "in range" means, spelled out *)
Theorem C20_integer_range : forall (signed : bool) (bits : N) (v : Z),
  in_rangeb signed bits v = true <->
  if signed then (- 2 ^ Z.of_N (bits - 1) <= v < 2 ^ Z.of_N (bits - 1))%Z else (0 <= v < 2 ^ Z.of_N bits)%Z.
Proof. exact in_rangeb_meaning. Qed.

(* ---- integers: never a different number — for EVERY byte string, in or outside the lexical forms
        (e.g. "0+7" is outside the forms, reads 7 under the liberal reading, and 7 is what comes back) *)
Theorem C20_never_wrong : forall (signed : bool) (bits : N) (t : list N) (v : Z),
  parse_integer signed bits (DString t) = Some v ->
  liberal_value t = Some v /\ Num.in_range signed bits v.
Proof. exact parse_integer_never_wrong. Qed.

(* on the lexical forms the liberal reading IS the specified value (so the two theorems above speak of one number) *)
Theorem C20_int_value_is_liberal : forall t v, int_value t = Some v -> liberal_value t = Some v.
Proof. exact (fun t v H => proj1 (int_value_liberal t v H)). Qed.

(* stored unsigned integers convert by range check only *)
Theorem C20_integer_from_u64 : forall (signed : bool) (bits n : N),
  parse_integer signed bits (DUInt n) = if in_rangeb signed bits (Z.of_N n) then Some (Z.of_N n) else None.
Proof. exact parse_integer_uint. Qed.

(* ---- booleans: exact characterisation *)
Theorem C20_bool : forall d b,
  parse_bool d = Some b <->
  exists t, d = DString t /\
    ((t = BS "true" /\ b = true) \/ (t = BS "1" /\ b = true) \/ (t = BS "false" /\ b = false) \/ (t = BS "0" /\ b = false)).
Proof. exact parse_bool_spec. Qed.

(* ---- format, then parse with the same value type: all four kinds, every spec, every version.
        EnumItem tables = the ones regenerated from enumitem.rs (tab_enum); validators and the std float
        conversions are arbitrary (the latter under the round-trip law) *)
Theorem C20_format_parse : forall (dec_parse : list N -> option N) (dec_fmt : N -> list N)
    (validate : N -> list N -> res bool) (d : cdata) (spec : cdspec) (ver : N),
  float_roundtrip_law dec_parse dec_fmt ->
  cdata_wf tab_enum d ->
  check_value validate d spec ver = Val true ->
  exists t d', display dec_fmt tab_enum d = Val t /\
               parse dec_parse tab_enum validate t spec ver = Val (Some d') /\
               cdata_same d d' = true.
Proof. exact (fun dp df v => format_parse dp df tab_enum v enum_roundtrip_ok). Qed.

(* what the law and the side conditions say *)
Theorem C20_format_parse_terms : forall dec_parse dec_fmt,
  (float_roundtrip_law dec_parse dec_fmt <->
   forall x, x < 2 ^ 64 -> f64_is_finite x = true -> f64_from_str dec_parse (dec_fmt x) = Some x) /\
  (forall e, cdata_wf tab_enum (DEnum e) <-> e < nt_mtab tab_enum) /\
  (forall s, cdata_wf tab_enum (DString s)) /\
  (forall n, cdata_wf tab_enum (DUInt n) <-> n < 2 ^ 64) /\
  (forall b, cdata_wf tab_enum (DFloat b) <-> b < 2 ^ 64) /\
  (forall a b, cdata_same (DFloat a) (DFloat b) = true <-> (a = b \/ (f64_is_nan a = true /\ f64_is_nan b = true))).
Proof. exact (fun dp df => format_parse_terms dp df tab_enum (fun _ _ => Val true)). Qed.

(* serialize_internal writes what Display writes, except that strings are escaped *)
Theorem C20_serialize_is_display : forall dec_fmt d,
  (forall s, d <> DString s) -> serialize_internal dec_fmt tab_enum d = display dec_fmt tab_enum d.
Proof. exact (fun df => serialize_is_display df tab_enum). Qed.

(* ---- `v as f64` is the correctly rounded value, for every u64 *)
Theorem C20_u64_as_f64_correct : forall v, v < 2 ^ 64 -> correctly_rounded v (u64_as_f64 v).
Proof. exact u64_as_f64_correct. Qed.

(* the candidates of [correctly_rounded] include the magnitude of every finite binary64 *)
Theorem C20_f64_candidates : forall b, rep53 (f64_scaled b).
Proof. exact f64_scaled_rep53. Qed.

(* ---- floats, prefixed forms (0x.. 0X.. 0b.. 0B.. 0[0-7]+) of ANY length: the correctly rounded binary64 when
        the value fits, nothing when it does not.  2^1024 - 2^970 is the IEEE overflow threshold: the smallest
        number whose nearest binary64 would be 2^1024 *)
Theorem C20_float_prefixed : forall (dec_parse : list N -> option N) t v,
  prefixed_value t = Some v ->
  (exists b, parse_float dec_parse (DString t) = Some b /\ correctly_rounded v b) \/
  (parse_float dec_parse (DString t) = None /\ 2 ^ 1024 - 2 ^ 970 <= v).
Proof. exact parse_float_prefixed. Qed.

Theorem C20_float_prefixed_fits : forall (dec_parse : list N -> option N) t v,
  prefixed_value t = Some v -> v < 2 ^ 1024 - 2 ^ 970 ->
  exists b, parse_float dec_parse (DString t) = Some b /\ correctly_rounded v b.
Proof. exact parse_float_prefixed_fits. Qed.

(* the inputs of the repaired defect (octal 2^64 used to come back as 2e21, hexadecimal 2^65-1 as nothing) *)
Theorem C20_float_prefixed_regression :
  prefixed_value (BS "02000000000000000000000") = Some (2 ^ 64) /\
  prefixed_value (BS "0x1ffffffffffffffff") = Some (2 ^ 65 - 1) /\
  forall dec,
    parse_float dec (DString (BS "02000000000000000000000")) = Some 4895412794951729152 /\
    parse_float dec (DString (BS "0x1ffffffffffffffff")) = Some 4899916394579099648.
Proof. exact parse_float_prefixed_regression. Qed.

(* ---- floats: zero and the special spellings of the Numerical pattern, with no assumption on std *)
Theorem C20_float_special : forall (dec_parse : list N -> option N),
  parse_float dec_parse (DString (BS "0")) = Some F64_ZERO /\
  parse_float dec_parse (DString (BS "INF")) = Some F64_INF /\
  parse_float dec_parse (DString (BS "-INF")) = Some F64_NEG_INF /\
  parse_float dec_parse (DString (BS "NaN")) = Some F64_NAN /\
  f64_is_inf F64_INF = true /\ f64_neg F64_INF = false /\
  f64_is_inf F64_NEG_INF = true /\ f64_neg F64_NEG_INF = true /\
  f64_is_nan F64_NAN = true.
Proof. exact parse_float_special. Qed.

(* ---- floats, decimal forms: the text reaches the std conversion unchanged (no digit is dropped or reinterpreted) *)
Theorem C20_float_decimal : forall (dec_parse : list N -> option N) c r,
  (c <> 48 -> parse_float dec_parse (DString (c :: r)) = f64_from_str dec_parse (c :: r)) /\
  (c = 46 \/ c = 101 \/ c = 69 -> parse_float dec_parse (DString (48 :: c :: r)) = dec_parse (48 :: c :: r)).
Proof. exact (fun dp c r => conj (parse_float_no_prefix dp c r) (parse_float_zero_point dp c r)). Qed.

(* stored numbers *)
Theorem C20_float_from_values : forall (dec_parse : list N -> option N) i n b,
  parse_float dec_parse (DEnum i) = None /\
  parse_float dec_parse (DUInt n) = Some (u64_as_f64 n) /\
  parse_float dec_parse (DFloat b) = Some b.
Proof. exact parse_float_values. Qed.

(* ---- the lexical forms of the specification side ARE the published AUTOSAR patterns (Gen/RegexData.v is
        regenerated from specification.rs; C19 proves the validators of regex.rs accept exactly these languages):
        int_value gives a value exactly to the texts of regex 13 (integer), without '-' exactly regex 21
        (positive integer); parse_bool accepts exactly regex 6 (boolean) *)
Theorem C20_int_forms_are_regex13 :
  rx_text rx_13 = text_13 /\
  forall t, bytes_ok t = true -> ((exists v, int_value t = Some v) <-> L (rx_sem rx_13) t).
Proof. exact int_value_domain_regex13. Qed.

Theorem C20_int_forms_are_validator13 : forall t, bytes_ok t = true ->
  (dfa_run tbl_13 acc_13 t = Some true <-> exists v, int_value t = Some v).
Proof. exact int_form_validator13. Qed.

Theorem C20_posint_forms_are_regex21 :
  rx_text rx_21 = text_21 /\
  forall t, bytes_ok t = true ->
    (((exists v, int_value t = Some v) /\ (forall r, t <> 45 :: r)) <-> L (rx_sem rx_21) t).
Proof. exact posint_domain_regex21. Qed.

Theorem C20_bool_forms_are_regex6 :
  rx_text rx_6 = text_6 /\
  forall t, bytes_ok t = true -> ((exists b, parse_bool (DString t) = Some b) <-> L (rx_sem rx_6) t).
Proof. exact bool_domain_regex6. Qed.
