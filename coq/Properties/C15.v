(* Properties/C15.v — Concurrent operations never deadlock.
   Model: Conc/RwLock.v — n threads, each a lock trace (blocking / try acquisitions, releases) over reader/writer locks;
   liberal step relation (over-approximates every real RwLock), stuckness judged pessimistically with WRITER PREFERENCE
   (a reader waits while a writer is queued and the lock is held) — the parking_lot behaviour that makes a recursive read unsafe.
   Criterion (Conc/Deadlock.v): [order_ok rank t] — every BLOCKING acquisition of l happens while the thread holds only locks of
   strictly smaller rank (so never l itself: recursive reads are rejected); try acquisitions are exempt (they cannot wait for ever).
   All theorems [U]: any number of threads, any interleaving, any trace length, any rank function.
   C15_order_sound                 no reachable configuration is stuck.
   C15_order_progress              some thread is enabled (even under writer preference) and can step.
   C15_executions_finite           every execution has at most (sum of trace lengths) steps.
   C15_maximal_execution_finishes  an execution that cannot be extended has finished every thread, holding nothing.
   C15_replay_sound                a deadlock replay accepted by the evaluator (Conc/Eval.v stuck_after) is a reachable stuck
                                   configuration of this semantics (used for the recorded findings).
   C15_search_sound                the bounded search of Conc/Eval.v only reports reachable stuck configurations.
   C15_recursive_read_refuted / C15_abba_refuted : the two shapes of the recorded findings are deadlocks of the model.
   UNIVERSAL part (Conc/Footprint.v: the lock trace as a FUNCTION lock_trace of the operation and the world of the heap model, tied to
   the implementation on every run by comparing it event by event with the traces hook H2 logs for every enumerated instance):
   C15_no_deadlock_footprint_classes   for EVERY world satisfying Core (the structural invariant of C03), any number of threads, each
                                   performing any sequence of calls of the classes with order_class = true (parent / element_name /
                                   element_type / character_data / attribute_value / comment / iterator steps, remove_attribute /
                                   set_comment / insert+remove_character_content_item, get_element_by_path / get_references_to /
                                   root_element, ArxmlFile::version / filename / xml_standalone / model, item_name, is_identifiable,
                                   get_sub_element, position, Element::model, file_membership, min_version, named_parent, xml_path,
                                   set_attribute[_string], Element::serialize, set_character_data / remove_character_data of plain
                                   character elements): no reachable configuration is stuck and every maximal execution finishes.
                                   (Footprints are taken in the one world w: the classes are read-only or change attributes /
                                   comments / character content only, never parent links, content element lists or file sets.)
   C15_footprint_path_characterised    Element::path(): the criterion fails EXACTLY when the element is identifiable and has a parent
                                   element (the recorded finding C15-upward-blocking: blocking read of the ancestor while the element's
                                   own read lock is held).
   [P]artial tie: rank = depth in the tree for elements (parent before child), then models, then files, instantiated on the
   concrete lock graph of each scenario; the premise is evaluated by vm_compute on the traces produced by the implementation
   through hook H2 for the enumerated operation instances; parking_lot, real timeouts and fairness are modelled, not verified. *)
From Coq Require Import List NArith Bool Arith.
From AV Require Import Tree.Heap Tree.Inv Conc.RwLock Conc.Deadlock Conc.Eval Conc.EvalProofs Conc.Footprint Conc.FootprintProofs Conc.FootprintPath.
Import ListNotations.
Local Open Scope N_scope.

Theorem C15_order_sound : forall (rank : lock -> N) (ts : list trace),
    Forall (fun t => order_ok rank t = true /\ balanced t = true) ts ->
    forall c, reachable (init ts) c -> ~ stuck c.
Proof. exact order_sound. Qed.

Theorem C15_order_progress : forall (rank : lock -> N) (ts : list trace),
    Forall (fun t => order_ok rank t = true /\ balanced t = true) ts ->
    forall c, reachable (init ts) c ->
    (exists th, In th c /\ rest th <> []) ->
    exists t, strictly_enabled c t /\ exists o c', lstep c t o c'.
Proof. exact order_progress. Qed.

Theorem C15_executions_finite : forall (ts : list trace) n c,
    steps (init ts) n c -> (n <= list_sum (map (@length ev) ts))%nat.
Proof. exact executions_finite. Qed.

Theorem C15_maximal_execution_finishes : forall (rank : lock -> N) (ts : list trace),
    Forall (fun t => order_ok rank t = true /\ balanced t = true) ts ->
    forall c, reachable (init ts) c -> (forall c', ~ step c c') -> all_finished c.
Proof. exact maximal_execution_finishes. Qed.

Theorem C15_replay_sound : forall ts sch,
    stuck_after ts sch = true -> exists c, reachable (init ts) c /\ stuck c.
Proof. exact stuck_after_sound. Qed.

Theorem C15_search_sound : forall fuel ts,
    find_stuck fuel (init ts) = true -> exists c, reachable (init ts) c /\ stuck c.
Proof. exact find_stuck_sound. Qed.

Theorem C15_recursive_read_refuted :
  exists c,
    reachable (init [ [Acq true Rd 1; Acq true Rd 1; Rel 1; Rel 1];
                      [Acq true Wr 1; Rel 1] ]) c /\ stuck c.
Proof. exact recursive_read_deadlock. Qed.

Theorem C15_abba_refuted :
  exists c,
    reachable (init [ [Acq true Wr 1; Acq true Wr 2; Rel 2; Rel 1];
                      [Acq true Wr 2; Acq true Wr 1; Rel 1; Rel 2] ]) c /\ stuck c.
Proof. exact abba_deadlock. Qed.

Theorem C15_no_deadlock_footprint_classes : forall cf fuel w (threads : list (list lop)),
    Core w ->
    Forall (Forall (fun o => order_class o = true)) threads ->
    forall c, reachable (init (map (thread_trace cf fuel w) threads)) c ->
              ~ stuck c /\ ((forall c', ~ step c c') -> all_finished c).
Proof. exact no_deadlock_footprint_classes. Qed.

Theorem C15_footprint_path_characterised : forall (cf : cfg) (w : world) (rank : lock -> N),
    Core w -> mono w rank ->
    forall (fuel : nat) (e : id),
      order_ok rank (lock_trace cf (S fuel) (LPath e) w) = false <->
      (exists (n : node) (p : id) (q : node),
          w_nodes w e = Some n /\ identifiable cf w n = true /\ n_parent n = PElem p /\ w_nodes w p = Some q).
Proof. exact footprint_path_order. Qed.

Theorem C15_footprint_rank_exists : forall w, Core w -> exists rank, mono w rank.
Proof. exact mono_rank_exists. Qed.

Theorem C15_path_upward_blocking_refuted :
  exists c,
    reachable (init [ lock_trace (cfg_flag 9 100) 10 (LPath 2) ex_world;
                      [Acq true Wr (Le 1); Acq true Wr (Le 2); Rel (Le 2); Rel (Le 1)] ]) c /\ stuck c.
Proof. exact path_vs_downward_writer_deadlock. Qed.
