(* Regex/Syntax.v — concrete syntax tree of the published regex texts,
   an exact printer and the desugaring into [regex]. *)
From AV Require Import Base.Bytes Regex.Regex.
From Coq Require Import Decimal.

Local Open Scope N_scope.
Local Open Scope list_scope.
Local Open Scope regex_scope.

Inductive citem :=
| CChar (c : N)              (* literal character inside [...] *)
| CEsc (c : N)               (* \c inside [...] : the literal c *)
| CRange (lo hi : N)         (* lo-hi *)
| CDigitEsc.                 (* \d inside [...] *)

Inductive rx :=
| RChar (c : N)              (* literal byte, printed as itself *)
| REsc (c : N)               (* \c for punctuation c — the literal c *)
| RDigit                     (* \d = [0-9] *)
| RDot                       (* . = every byte except LF (10) *)
| RClass (items : list citem)
| RGroup (r : rx)            (* ( r ) *)
| RSeq (rs : list rx)        (* juxtaposition *)
| RAlt (rs : list rx)        (* r1|r2|... *)
| ROpt (r : rx)              (* r? *)
| RStar (r : rx)             (* r* *)
| RPlus (r : rx)             (* r+ *)
| RCount (r : rx) (n : nat)  (* r{n} *)
| RRange (r : rx) (lo hi : nat).  (* r{lo,hi} *)

(* ------------------------------------------------------------------ *)
(** * Decimal printing of counts *)

Fixpoint uint_bytes (d : Decimal.uint) : list N :=
  match d with
  | Nil => []
  | D0 d => 48 :: uint_bytes d
  | D1 d => 49 :: uint_bytes d
  | D2 d => 50 :: uint_bytes d
  | D3 d => 51 :: uint_bytes d
  | D4 d => 52 :: uint_bytes d
  | D5 d => 53 :: uint_bytes d
  | D6 d => 54 :: uint_bytes d
  | D7 d => 55 :: uint_bytes d
  | D8 d => 56 :: uint_bytes d
  | D9 d => 57 :: uint_bytes d
  end.

Definition print_nat (n : nat) : list N := uint_bytes (Nat.to_uint n).

(* ------------------------------------------------------------------ *)
(** * Printer *)

Definition citem_print (i : citem) : list N :=
  match i with
  | CChar c => [c]
  | CEsc c => [92; c]
  | CRange lo hi => [lo; 45; hi]
  | CDigitEsc => [92; 100]
  end.

Fixpoint rx_print (r : rx) : list N :=
  match r with
  | RChar c => [c]
  | REsc c => [92; c]
  | RDigit => [92; 100]
  | RDot => [46]
  | RClass items => 91 :: List.concat (map citem_print items) ++ [93]
  | RGroup r => 40 :: rx_print r ++ [41]
  | RSeq rs => List.concat (map rx_print rs)
  | RAlt rs =>
      (fix join (l : list rx) : list N :=
         match l with
         | [] => []
         | [x] => rx_print x
         | x :: l' => rx_print x ++ 124 :: join l'
         end) rs
  | ROpt r => rx_print r ++ [63]
  | RStar r => rx_print r ++ [42]
  | RPlus r => rx_print r ++ [43]
  | RCount r n => rx_print r ++ 123 :: print_nat n ++ [125]
  | RRange r lo hi => rx_print r ++ 123 :: print_nat lo ++ 44 :: print_nat hi ++ [125]
  end.

(** The published form is always [^( ... )$]. *)
Definition rx_text (r : rx) : list N := BS "^(" ++ rx_print r ++ BS ")$".

(* ------------------------------------------------------------------ *)
(** * Desugaring *)

Definition citem_ranges (i : citem) : list (N * N) :=
  match i with
  | CChar c => [(c, c)]
  | CEsc c => [(c, c)]
  | CRange lo hi => [(lo, hi)]
  | CDigitEsc => [(48, 57)]
  end.

Definition seq_regex (l : list regex) : regex :=
  (fix go (l : list regex) : regex :=
     match l with
     | [] => Eps
     | [x] => x
     | x :: l' => Cat x (go l')
     end) l.

Definition alt_regex (l : list regex) : regex :=
  (fix go (l : list regex) : regex :=
     match l with
     | [] => Empty
     | [x] => x
     | x :: l' => Alt x (go l')
     end) l.

Fixpoint rx_sem (r : rx) : regex :=
  match r with
  | RChar c => Class [(c, c)]
  | REsc c => Class [(c, c)]
  | RDigit => Class [(48, 57)]
  | RDot => Class [(0, 9); (11, 255)]
  | RClass items => Class (flat_map citem_ranges items)
  | RGroup r => rx_sem r
  | RSeq rs => seq_regex (map rx_sem rs)
  | RAlt rs => alt_regex (map rx_sem rs)
  | ROpt r => Alt Eps (rx_sem r)
  | RStar r => Star (rx_sem r)
  | RPlus r => let a := rx_sem r in Cat a (Star a)
  | RCount r n => Rep (rx_sem r) n n
  | RRange r lo hi => Rep (rx_sem r) lo hi
  end.

(** Helpers for writing CSTs by hand. *)
Definition RStr (s : list N) : rx := RSeq (map RChar s).
Definition ch (s : string) : N := match bytes_of_string s with c :: _ => c | [] => 0 end.

(* ------------------------------------------------------------------ *)
(** * The denotation of the desugared forms, for reference *)

Lemma seq_regex_cons x l : seq_regex (x :: l) =~ Cat x (seq_regex l).
Proof.
  destruct l as [|y l]; [|reflexivity].
  unfold seq_regex. symmetry. apply Cat_Eps_r.
Qed.

Lemma alt_regex_cons x l : alt_regex (x :: l) =~ Alt x (alt_regex l).
Proof.
  destruct l as [|y l]; [|reflexivity].
  unfold alt_regex. symmetry. apply Alt_Empty_r.
Qed.

(* ------------------------------------------------------------------ *)
(** * Example: regex 13 (AUTOSAR integer pattern) *)

Definition rx13 : rx :=
  RAlt [ RChar (ch "0");
         RSeq [ ROpt (RClass [CEsc (ch "+"); CEsc (ch "-")]);
                RClass [CRange (ch "1") (ch "9")];
                RStar (RClass [CRange (ch "0") (ch "9")]) ];
         RSeq [ RChar (ch "0"); RClass [CChar (ch "x"); CChar (ch "X")];
                RPlus (RClass [CRange (ch "0") (ch "9"); CRange (ch "a") (ch "f");
                               CRange (ch "A") (ch "F")]) ];
         RSeq [ RChar (ch "0"); RClass [CChar (ch "b"); CChar (ch "B")];
                RPlus (RClass [CRange (ch "0") (ch "1")]) ];
         RSeq [ RChar (ch "0"); RPlus (RClass [CRange (ch "0") (ch "7")]) ] ].

Example rx13_text :
  rx_text rx13 = BS "^(0|[\+\-]?[1-9][0-9]*|0[xX][0-9a-fA-F]+|0[bB][0-1]+|0[0-7]+)$".
Proof. vm_compute. reflexivity. Qed.

Example rx13_wf : wfb (rx_sem rx13) = true.
Proof. vm_compute. reflexivity. Qed.

Example rx13_acc_0 : matchb (rx_sem rx13) (BS "0") = true.      Proof. vm_compute. reflexivity. Qed.
Example rx13_acc_m12 : matchb (rx_sem rx13) (BS "-12") = true.  Proof. vm_compute. reflexivity. Qed.
Example rx13_acc_hex : matchb (rx_sem rx13) (BS "0x1F") = true. Proof. vm_compute. reflexivity. Qed.
Example rx13_rej_empty : matchb (rx_sem rx13) (BS "") = false.  Proof. vm_compute. reflexivity. Qed.
Example rx13_rej_00x : matchb (rx_sem rx13) (BS "00x") = false. Proof. vm_compute. reflexivity. Qed.
Example rx13_rej_p0 : matchb (rx_sem rx13) (BS "+0") = false.   Proof. vm_compute. reflexivity. Qed.

Example print_nat_examples :
  (print_nat 0, print_nat 7, print_nat 127, print_nat 4096)
  = (BS "0", BS "7", BS "127", BS "4096").
Proof. vm_compute. reflexivity. Qed.

Example rx_print_counts :
  rx_print (RSeq [RRange (RClass [CRange 48 57; CRange 65 70; CRange 97 102]) 1 4;
                  RRange (RGroup (RSeq [RChar 58; RCount RDigit 3])) 7 7; RDot; REsc 46])
  = BS "[0-9A-Fa-f]{1,4}(:\d{3}){7,7}.\.".
Proof. vm_compute. reflexivity. Qed.

Print Assumptions seq_regex_cons.
Print Assumptions alt_regex_cons.
Print Assumptions rx13_text.
