(* Regex/Tests.v — the library at work on the hard cases, with timings. *)
From AV Require Import Base.Bytes Regex.Regex Regex.Bisim Regex.Syntax.

Local Open Scope N_scope.
Local Open Scope list_scope.

Definition FUEL : nat := N.to_nat 200000.

Definition some_len {A} (o : option (list A)) : option nat := option_map (@List.length A) o.

(* ------------------------------------------------------------------ *)
(** * Common character classes *)

Definition c_digit := RClass [CRange (ch "0") (ch "9")].
Definition c_19 := RClass [CRange (ch "1") (ch "9")].
Definition c_hex := RClass [CRange (ch "0") (ch "9"); CRange (ch "a") (ch "f"); CRange (ch "A") (ch "F")].
Definition c_oct := RClass [CRange (ch "0") (ch "7")].
Definition c_bin := RClass [CRange (ch "0") (ch "1")].

(* ------------------------------------------------------------------ *)
(** * Regex 13 against a hand-built 9-state table *)

Definition mk_row (ranges : list (N * N * N)) : list N :=
  map (fun c =>
         match find (fun e => (fst (fst e) <=? c) && (c <=? snd (fst e))) ranges with
         | Some e => snd e
         | None => 255
         end) all_bytes.

Definition tbl13 : list (list N) :=
  [ (* 0 start  *) mk_row [(48, 48, 1); (43, 43, 2); (45, 45, 2); (49, 57, 3)];
    (* 1 "0"    *) mk_row [(120, 120, 4); (88, 88, 4); (98, 98, 5); (66, 66, 5); (48, 55, 6)];
    (* 2 sign   *) mk_row [(49, 57, 3)];
    (* 3 dec    *) mk_row [(48, 57, 3)];
    (* 4 "0x"   *) mk_row [(48, 57, 7); (97, 102, 7); (65, 70, 7)];
    (* 5 "0b"   *) mk_row [(48, 49, 8)];
    (* 6 oct    *) mk_row [(48, 55, 6)];
    (* 7 hex    *) mk_row [(48, 57, 7); (97, 102, 7); (65, 70, 7)];
    (* 8 bin    *) mk_row [(48, 49, 8)] ].
Definition acc13 : list N := [1; 3; 6; 7; 8].

Definition r13 : regex := rx_sem rx13.

Example tbl13_ok : dfa_table_ok tbl13 = true.
Proof. vm_compute. reflexivity. Qed.

Time Definition cert13 := Eval vm_compute in explore_dfa FUEL tbl13 r13.
Eval vm_compute in some_len cert13.

Definition R13 : list (N * regex) := match cert13 with Some R => R | None => [] end.

Example cert13_ok : bisim_dfa_ok tbl13 acc13 r13 R13 = true.
Proof. Time vm_cast_no_check (eq_refl true). Time Qed.

Theorem validate13_correct :
  forall s, bytes_ok s = true -> (dfa_run tbl13 acc13 s = Some true <-> L r13 s).
Proof.
  exact (bisim_dfa_sound tbl13 acc13 r13 R13 (wfb_true _) tbl13_ok cert13_ok).
Qed.
Print Assumptions validate13_correct.

(** A wrong table (state 4 accepting: "0x" accepted) is refuted. *)
Example cert13_bad : bisim_dfa_ok tbl13 (4 :: acc13) r13 R13 = false.
Proof. vm_compute. reflexivity. Qed.
Example cert13_bad_witness : dfa_disagree (4 :: acc13) R13 <> None.
Proof. vm_compute. discriminate. Qed.

(* ------------------------------------------------------------------ *)
(** * Regex 16 (Numerical) *)

Definition c_sign16 := RClass [CChar (ch "+"); CEsc (ch "-")].
Definition frac16 := ROpt (RGroup (RSeq [REsc (ch "."); RPlus c_digit])).

Definition rx16 : rx :=
  RAlt [ RGroup (RSeq [RChar (ch "0"); RClass [CChar (ch "x"); CChar (ch "X")]; RPlus c_hex]);
         RGroup (RSeq [RChar (ch "0"); RPlus c_oct]);
         RGroup (RSeq [RChar (ch "0"); RClass [CChar (ch "b"); CChar (ch "B")]; RPlus c_bin]);
         RGroup (RSeq [ RGroup (RAlt [ RSeq [ROpt c_sign16; c_19; RPlus c_digit; frac16];
                                       RSeq [ROpt c_sign16; c_digit; frac16] ]);
                        ROpt (RGroup (RSeq [RClass [CChar (ch "e"); CChar (ch "E")];
                                            RGroup (ROpt c_sign16); RPlus c_digit])) ]);
         RSeq [REsc (ch "."); RChar (ch "0")];
         RStr (BS "INF"); RStr (BS "-INF"); RStr (BS "NaN") ].

Example rx16_text :
  rx_text rx16 = BS "^((0[xX][0-9a-fA-F]+)|(0[0-7]+)|(0[bB][0-1]+)|(([+\-]?[1-9][0-9]+(\.[0-9]+)?|[+\-]?[0-9](\.[0-9]+)?)([eE]([+\-]?)[0-9]+)?)|\.0|INF|-INF|NaN)$".
Proof. vm_compute. reflexivity. Qed.

Definition r16 := rx_sem rx16.

Time Definition cert16 := Eval vm_compute in explore_rr FUEL r16 r16.
Eval vm_compute in some_len cert16.
Definition R16 := match cert16 with Some R => R | None => [] end.
Example cert16_ok : bisim_rr_ok r16 r16 R16 = true.
Proof. Time vm_cast_no_check (eq_refl true). Time Qed.

(** Against a deliberately different regex: regex 13 (no fractions). *)
Time Definition cert16_13 := Eval vm_compute in explore_rr FUEL r16 r13.
Eval vm_compute in some_len cert16_13.
Definition R16_13 := match cert16_13 with Some R => R | None => [] end.
Example cert16_13_bad : bisim_rr_ok r16 r13 R16_13 = false.
Proof. vm_compute. reflexivity. Qed.
Example cert16_13_witness : rr_disagree R16_13 <> None.
Proof. vm_compute. discriminate. Qed.

(* ------------------------------------------------------------------ *)
(** * Regex 24 *)

Definition c_alpha := RClass [CRange (ch "a") (ch "z"); CRange (ch "A") (ch "Z")].
Definition c_word := RClass [CRange (ch "a") (ch "z"); CRange (ch "A") (ch "Z");
                             CRange (ch "0") (ch "9"); CChar (ch "_")].

Definition rx24 : rx :=
  RSeq [ ROpt (RChar (ch "/")); c_alpha; RRange c_word 0 127;
         RStar (RGroup (RSeq [RChar (ch "/"); c_alpha; RRange c_word 0 127])) ].

Example rx24_text :
  rx_text rx24 = BS "^(/?[a-zA-Z][a-zA-Z0-9_]{0,127}(/[a-zA-Z][a-zA-Z0-9_]{0,127})*)$".
Proof. vm_compute. reflexivity. Qed.

Definition r24 := rx_sem rx24.

Time Definition cert24 := Eval vm_compute in explore_rr FUEL r24 r24.
Eval vm_compute in some_len cert24.
Definition R24 := match cert24 with Some R => R | None => [] end.
Example cert24_ok : bisim_rr_ok r24 r24 R24 = true.
Proof. Time vm_cast_no_check (eq_refl true). Time Qed.

(* ------------------------------------------------------------------ *)
(** * Regex 26 (semantic version) *)

Definition c_idc := RClass [CRange (ch "0") (ch "9"); CRange (ch "a") (ch "z");
                            CRange (ch "A") (ch "Z"); CChar (ch "-")].
Definition num26 := RGroup (RAlt [RChar (ch "0"); RSeq [c_19; RStar RDigit]]).
Definition pre26 :=
  RGroup (RAlt [ RChar (ch "0");
                 RSeq [c_19; RStar RDigit];
                 RSeq [RStar RDigit;
                       RClass [CRange (ch "a") (ch "z"); CRange (ch "A") (ch "Z"); CChar (ch "-")];
                       RStar c_idc] ]).

Definition rx26 : rx :=
  RSeq [ num26; REsc (ch "."); num26; REsc (ch "."); num26;
         ROpt (RGroup (RSeq [RChar (ch "-");
                 RGroup (RSeq [pre26; RStar (RGroup (RSeq [REsc (ch "."); pre26]))])]));
         ROpt (RGroup (RSeq [REsc (ch "+");
                 RGroup (RSeq [RPlus c_idc; RStar (RGroup (RSeq [REsc (ch "."); RPlus c_idc]))])])) ].

Example rx26_text :
  rx_text rx26 = BS "^((0|[1-9]\d*)\.(0|[1-9]\d*)\.(0|[1-9]\d*)(-((0|[1-9]\d*|\d*[a-zA-Z-][0-9a-zA-Z-]*)(\.(0|[1-9]\d*|\d*[a-zA-Z-][0-9a-zA-Z-]*))*))?(\+([0-9a-zA-Z-]+(\.[0-9a-zA-Z-]+)*))?)$".
Proof. vm_compute. reflexivity. Qed.

Definition r26 := rx_sem rx26.

Time Definition cert26 := Eval vm_compute in explore_rr FUEL r26 r26.
Eval vm_compute in some_len cert26.
Definition R26 := match cert26 with Some R => R | None => [] end.
Example cert26_ok : bisim_rr_ok r26 r26 R26 = true.
Proof. Time vm_cast_no_check (eq_refl true). Time Qed.

(* ------------------------------------------------------------------ *)
(** * Regex 14 (IPv4) *)

Definition oct14 :=
  RGroup (RAlt [ RSeq [RChar (ch "2"); RChar (ch "5"); RClass [CRange (ch "0") (ch "5")]];
                 RSeq [RChar (ch "2"); RClass [CRange (ch "0") (ch "4")]; c_digit];
                 RSeq [ROpt (RClass [CChar (ch "0"); CChar (ch "1")]); c_digit; ROpt c_digit] ]).

Definition rx14 : rx :=
  RAlt [ RSeq [oct14; REsc (ch "."); oct14; REsc (ch "."); oct14; REsc (ch "."); oct14];
         RStr (BS "ANY") ].

Example rx14_text :
  rx_text rx14 = BS "^((25[0-5]|2[0-4][0-9]|[01]?[0-9][0-9]?)\.(25[0-5]|2[0-4][0-9]|[01]?[0-9][0-9]?)\.(25[0-5]|2[0-4][0-9]|[01]?[0-9][0-9]?)\.(25[0-5]|2[0-4][0-9]|[01]?[0-9][0-9]?)|ANY)$".
Proof. vm_compute. reflexivity. Qed.

Definition r14 := rx_sem rx14.

Time Definition cert14 := Eval vm_compute in explore_rr FUEL r14 r14.
Eval vm_compute in some_len cert14.
Definition R14 := match cert14 with Some R => R | None => [] end.
Example cert14_ok : bisim_rr_ok r14 r14 R14 = true.
Proof. Time vm_cast_no_check (eq_refl true). Time Qed.

(* ------------------------------------------------------------------ *)
(** * Regex 15 (IPv6, full form) *)

Definition c_hex15 := RClass [CRange (ch "0") (ch "9"); CRange (ch "A") (ch "F"); CRange (ch "a") (ch "f")].

Definition rx15 : rx :=
  RAlt [ RSeq [RRange c_hex15 1 4; RRange (RGroup (RSeq [RChar (ch ":"); RRange c_hex15 1 4])) 7 7];
         RStr (BS "ANY") ].

Example rx15_text :
  rx_text rx15 = BS "^([0-9A-Fa-f]{1,4}(:[0-9A-Fa-f]{1,4}){7,7}|ANY)$".
Proof. vm_compute. reflexivity. Qed.

Definition r15 := rx_sem rx15.

Time Definition cert15 := Eval vm_compute in explore_rr FUEL r15 r15.
Eval vm_compute in some_len cert15.
Definition R15 := match cert15 with Some R => R | None => [] end.
Example cert15_ok : bisim_rr_ok r15 r15 R15 = true.
Proof. Time vm_cast_no_check (eq_refl true). Time Qed.

(* ------------------------------------------------------------------ *)
(** * Hand-written validators as [vexpr], against their regexes *)

From AV Require Import Regex.Vexpr.

Definition k_alpha : list (N * N) := [(97, 122); (65, 90)].
Definition k_word : list (N * N) := [(97, 122); (65, 90); (48, 57); (95, 95)].
Definition k_hex : list (N * N) := [(48, 57); (65, 70); (97, 102)].

Example complement_slash : complement [(47, 47)] = [(0, 46); (48, 255)].
Proof. vm_compute. reflexivity. Qed.
Example complement_word : complement k_word = [(0, 47); (58, 64); (91, 94); (96, 96); (123, 255)].
Proof. vm_compute. reflexivity. Qed.

(** ** Regex 24 *)

Definition seg24 (bounded : bool) : vexpr :=
  let core := VAnd VNonEmpty (VAnd (VAt 0 k_alpha) (VAll k_word)) in
  if bounded then VAnd core (VLenLe 128) else core.

Definition v24 (bounded : bool) : vexpr :=
  VAnd VNonEmpty (VStripOpt [(47, 47)] (VSplitAll 47 (seg24 bounded))).

Example v24_safe : vsafe 0 (v24 true) = true /\ vsafe 0 (v24 false) = true.
Proof. vm_compute. auto. Qed.

Example v24_samples :
  map (veval (v24 true)) [BS "/a/b_1"; BS "a"; BS ""; BS "/"; BS "a//b"; BS "a/1"; BS "a/"]
  = [Some true; Some true; Some false; Some false; Some false; Some false; Some false].
Proof. vm_compute. reflexivity. Qed.

Time Definition cert24v := Eval vm_compute in explore_rr FUEL r24 (vregex (v24 true)).
Eval vm_compute in some_len cert24v.
Definition R24v := match cert24v with Some R => R | None => [] end.
Example cert24v_ok : bisim_rr_ok r24 (vregex (v24 true)) R24v = true.
Proof. Time vm_cast_no_check (eq_refl true). Time Qed.

Theorem validate24_model_correct :
  forall s, bytes_ok s = true ->
  exists b, veval (v24 true) s = Some b /\ (b = true <-> L r24 s).
Proof.
  intros s Hs.
  destruct (vexpr_validator_correct (v24 true) (proj1 v24_safe) s Hs) as (b & Hv & Hb).
  exists b. split; [exact Hv|].
  pose proof (bisim_rr_sound r24 (vregex (v24 true)) R24v (wfb_true _) (vregex_wf _)
                             cert24v_ok s Hs) as Heq.
  rewrite Hb. symmetry. exact Heq.
Qed.
Print Assumptions validate24_model_correct.

(** Without the length bound the validator differs from the regex:
    a segment of 129 letters. *)
Definition s129 : list N := repeat 97 129.

Example v24_unbounded_differs :
  veval (v24 false) s129 = Some true /\
  matchb (vregex (v24 false)) s129 = true /\
  matchb r24 s129 = false /\
  veval (v24 true) s129 = Some false.
Proof. vm_compute. auto. Qed.

Theorem v24_unbounded_not_regex24 : ~ (forall s, bytes_ok s = true -> (L (vregex (v24 false)) s <-> L r24 s)).
Proof.
  intros H. destruct v24_unbounded_differs as (_ & H1 & H2 & _).
  assert (Hs : bytes_ok s129 = true) by (vm_compute; reflexivity).
  apply (matchb_correct _ _ (wfb_true _)) in H1.
  apply (H s129 Hs) in H1. apply (matchb_correct _ _ (wfb_true _)) in H1.
  rewrite H2 in H1. discriminate H1.
Qed.

Time Definition cert24u := Eval vm_compute in explore_rr FUEL r24 (vregex (v24 false)).
Eval vm_compute in some_len cert24u.
Definition R24u := match cert24u with Some R => R | None => [] end.
Example cert24u_bad : bisim_rr_ok r24 (vregex (v24 false)) R24u = false.
Proof. Time vm_cast_no_check (eq_refl false). Time Qed.
Example cert24u_witness : rr_disagree R24u <> None.
Proof. vm_compute. discriminate. Qed.

(** ** Regex 15 *)

Definition v15 : vexpr :=
  VOr (VEq (BS "ANY"))
      (VAnd (VSplitCount 58 8)
            (VSplitAll 58 (VAnd VNonEmpty (VAnd (VLenLe 4) (VAll k_hex))))).

Example v15_safe : vsafe 0 v15 = true.
Proof. vm_compute. reflexivity. Qed.

Example v15_samples :
  map (veval v15) [BS "ANY"; BS "1:2:3:4:5:6:7:8"; BS "1:2:3:4:5:6:7"; BS "1:2:3:4:5:6:7:12345";
                   BS "1::3:4:5:6:7:8"; BS "ffff:FFFF:0:0:0:0:0:abcd"; BS "g:2:3:4:5:6:7:8"]
  = [Some true; Some true; Some false; Some false; Some false; Some true; Some false].
Proof. vm_compute. reflexivity. Qed.

Time Definition cert15v := Eval vm_compute in explore_rr FUEL r15 (vregex v15).
Eval vm_compute in some_len cert15v.
Definition R15v := match cert15v with Some R => R | None => [] end.
Example cert15v_ok : bisim_rr_ok r15 (vregex v15) R15v = true.
Proof. Time vm_cast_no_check (eq_refl true). Time Qed.

Theorem validate15_model_correct :
  forall s, bytes_ok s = true ->
  exists b, veval v15 s = Some b /\ (b = true <-> L r15 s).
Proof.
  intros s Hs.
  destruct (vexpr_validator_correct v15 v15_safe s Hs) as (b & Hv & Hb).
  exists b. split; [exact Hv|].
  pose proof (bisim_rr_sound r15 (vregex v15) R15v (wfb_true _) (vregex_wf _)
                             cert15v_ok s Hs) as Heq.
  rewrite Hb. symmetry. exact Heq.
Qed.
Print Assumptions validate15_model_correct.

(* ------------------------------------------------------------------ *)
(** * Deliberately different regexes are refuted, with a witness string *)

(** 14': last octet allows 256 ("25[0-6]"). *)
Definition oct14' :=
  RGroup (RAlt [ RSeq [RChar (ch "2"); RChar (ch "5"); RClass [CRange (ch "0") (ch "6")]];
                 RSeq [RChar (ch "2"); RClass [CRange (ch "0") (ch "4")]; c_digit];
                 RSeq [ROpt (RClass [CChar (ch "0"); CChar (ch "1")]); c_digit; ROpt c_digit] ]).
Definition r14' := rx_sem (RAlt [ RSeq [oct14; REsc (ch "."); oct14; REsc (ch "."); oct14; REsc (ch "."); oct14'];
                                  RStr (BS "ANY") ]).

Time Definition cert14' := Eval vm_compute in explore_rr FUEL r14 r14'.
Definition R14' := match cert14' with Some R => R | None => [] end.
Example cert14'_bad : bisim_rr_ok r14 r14' R14' = false /\ rr_disagree R14' <> None.
Proof. split; [vm_compute; reflexivity | vm_compute; discriminate]. Qed.
Time Definition cex14' := Eval vm_compute in cex_rr FUEL r14 r14'.
Example cex14'_is : cex14' = Some (Some (BS "0.0.0.256")).
Proof. vm_compute. reflexivity. Qed.

(** 15': "{6,7}" instead of "{7,7}". *)
Definition r15' := rx_sem (RAlt [ RSeq [RRange c_hex15 1 4; RRange (RGroup (RSeq [RChar (ch ":"); RRange c_hex15 1 4])) 6 7];
                                  RStr (BS "ANY") ]).
Time Definition cex15' := Eval vm_compute in cex_rr FUEL r15 r15'.
Example cex15'_is : cex15' = Some (Some (BS "0:0:0:0:0:0:0")).
Proof. vm_compute. reflexivity. Qed.
Example cert15'_bad :
  match explore_rr FUEL r15 r15' with
  | Some R => bisim_rr_ok r15 r15' R = false /\ rr_disagree R <> None
  | None => False
  end.
Proof. vm_compute. split; [reflexivity|discriminate]. Qed.

(** 26': pre-release identifiers may have leading zeros (drop the "0|[1-9]\d*" discipline). *)
Definition pre26' := RGroup (RPlus c_idc).
Definition r26' := rx_sem
  (RSeq [ num26; REsc (ch "."); num26; REsc (ch "."); num26;
          ROpt (RGroup (RSeq [RChar (ch "-");
                  RGroup (RSeq [pre26'; RStar (RGroup (RSeq [REsc (ch "."); pre26']))])]));
          ROpt (RGroup (RSeq [REsc (ch "+");
                  RGroup (RSeq [RPlus c_idc; RStar (RGroup (RSeq [REsc (ch "."); RPlus c_idc]))])])) ]).
Time Definition cex26' := Eval vm_compute in cex_rr FUEL r26 r26'.
Example cex26'_is : cex26' = Some (Some (BS "0.0.0-00")).
Proof. vm_compute. reflexivity. Qed.
Example cert26'_bad :
  match explore_rr FUEL r26 r26' with
  | Some R => bisim_rr_ok r26 r26' R = false /\ rr_disagree R <> None
  | None => False
  end.
Proof. vm_compute. split; [reflexivity|discriminate]. Qed.

(** Witness strings for the earlier negative cases. *)
Time Definition cex13_bad := Eval vm_compute in cex_dfa FUEL tbl13 (4 :: acc13) r13.
Example cex13_bad_is : cex13_bad = Some (Some (BS "0X")).
Proof. vm_compute. reflexivity. Qed.
Example cex13_good : cex_dfa FUEL tbl13 acc13 r13 = Some None.
Proof. vm_compute. reflexivity. Qed.

Time Definition cex24u := Eval vm_compute in cex_rr FUEL r24 (vregex (v24 false)).
Example cex24u_len : option_map (option_map (@List.length N)) cex24u = Some (Some 129%nat).
Proof. vm_compute. reflexivity. Qed.

(* ------------------------------------------------------------------ *)
(** * Measured (Coq 8.16.1, vm_compute, this sandbox)

    case                                   pairs   explore    check (all 256 bytes)
    13 vs hand-built 9-state table           10    0.07 s     0.02 s
    16 vs 16                                 24    0.05 s     0.03 s
    16 vs 13 (different)                     24    0.02 s     false + witness pair
    24 vs 24                                131    0.45 s     0.54 s
    26 vs 26                                 18    0.16 s     0.04 s
    14 vs 14                                 27    0.07 s     0.03 s
    15 vs 15                                 43    0.04 s     0.06 s
    24 vs vregex (v24 true)                 131    0.62 s     0.73 s   (proved equivalent)
    24 vs vregex (v24 false)                133    0.81 s     0.67 s   false; 129-letter witness
    15 vs vregex v15                         44    0.09 s     0.11 s   (proved equivalent)
    cex search 14', 15', 26', 13-bad, 24u    —     < 0.1 s each *)
