(* Regex/Regex.v — regular expressions over bytes, reference denotation,
   Brzozowski derivatives through normalising smart constructors, and the
   correctness of the derivative matcher for strings of any length. *)
From AV Require Import Base.Bytes.
From Coq Require Import Setoid Morphisms PeanoNat Arith.

Local Open Scope N_scope.
Local Open Scope list_scope.

Local Notation length := List.length (only parsing).
Local Notation concat := List.concat (only parsing).

(* ------------------------------------------------------------------ *)
(** * Syntax *)

Inductive regex :=
| Empty
| Eps
| Class (rs : list (N * N))
| Cat (a b : regex)
| Alt (a b : regex)
| And (a b : regex)
| Star (a : regex)
| Rep (a : regex) (lo hi : nat).

Definition in_range (c : N) (r : N * N) : bool := (fst r <=? c) && (c <=? snd r).
Definition class_mem (rs : list (N * N)) (c : N) : bool := existsb (in_range c) rs.

Lemma class_mem_spec rs c :
  class_mem rs c = true <-> exists lo hi, In (lo, hi) rs /\ lo <= c /\ c <= hi.
Proof.
  unfold class_mem. rewrite existsb_exists. split.
  - intros ([lo hi] & Hin & Hr). unfold in_range in Hr. cbn [fst snd] in Hr.
    apply andb_true_iff in Hr as [H1 H2]. apply N.leb_le in H1, H2.
    exists lo, hi. auto.
  - intros (lo & hi & Hin & H1 & H2). exists (lo, hi). split; [exact Hin|].
    unfold in_range. cbn [fst snd]. apply andb_true_iff.
    split; apply N.leb_le; assumption.
Qed.

(* ------------------------------------------------------------------ *)
(** * Reference denotation (whole-string match) *)

Inductive L : regex -> list N -> Prop :=
| L_Eps : L Eps []
| L_Class rs c : class_mem rs c = true -> L (Class rs) [c]
| L_Cat a b s t : L a s -> L b t -> L (Cat a b) (s ++ t)
| L_AltL a b s : L a s -> L (Alt a b) s
| L_AltR a b s : L b s -> L (Alt a b) s
| L_And a b s : L a s -> L b s -> L (And a b) s
| L_Star a ss : Forall (L a) ss -> L (Star a) (concat ss)
| L_Rep a lo hi ss :
    (lo <= length ss)%nat -> (length ss <= hi)%nat ->
    Forall (L a) ss -> L (Rep a lo hi) (concat ss).

(** Inversion principles as equivalences. *)

Lemma L_Empty_iff s : L Empty s <-> False.
Proof. split; [intros H; inversion H | intros []]. Qed.

Lemma L_Eps_iff s : L Eps s <-> s = [].
Proof. split; [intros H; inversion H; reflexivity | intros ->; constructor]. Qed.

Lemma L_Class_iff rs s : L (Class rs) s <-> exists c, s = [c] /\ class_mem rs c = true.
Proof.
  split.
  - intros H; inversion H; subst; eauto.
  - intros (c & -> & H); constructor; exact H.
Qed.

Lemma L_Cat_iff a b s : L (Cat a b) s <-> exists s1 s2, s = s1 ++ s2 /\ L a s1 /\ L b s2.
Proof.
  split.
  - intros H; inversion H; subst; eauto.
  - intros (s1 & s2 & -> & H1 & H2); constructor; assumption.
Qed.

Lemma L_Alt_iff a b s : L (Alt a b) s <-> L a s \/ L b s.
Proof.
  split.
  - intros H; inversion H; subst; auto.
  - intros [H|H]; [apply L_AltL | apply L_AltR]; exact H.
Qed.

Lemma L_And_iff a b s : L (And a b) s <-> L a s /\ L b s.
Proof.
  split.
  - intros H; inversion H; subst; auto.
  - intros [H1 H2]; constructor; assumption.
Qed.

Lemma L_Star_iff a s : L (Star a) s <-> exists ss, Forall (L a) ss /\ s = concat ss.
Proof.
  split.
  - intros H; inversion H; subst; eauto.
  - intros (ss & H & ->); constructor; exact H.
Qed.

Lemma L_Rep_iff a lo hi s :
  L (Rep a lo hi) s <->
  exists ss, (lo <= length ss)%nat /\ (length ss <= hi)%nat /\ Forall (L a) ss /\ s = concat ss.
Proof.
  split.
  - intros H; inversion H; subst; eauto 6.
  - intros (ss & H1 & H2 & H3 & ->); constructor; assumption.
Qed.

(* ------------------------------------------------------------------ *)
(** * Language equivalence as a congruence *)

Definition Leq (a b : regex) : Prop := forall s, L a s <-> L b s.
Declare Scope regex_scope.
Delimit Scope regex_scope with regex.
Infix "=~" := Leq (at level 70, no associativity) : regex_scope.
Local Open Scope regex_scope.

#[export] Instance Leq_Equivalence : Equivalence Leq.
Proof.
  split.
  - intros a s; reflexivity.
  - intros a b H s; symmetry; apply H.
  - intros a b c H1 H2 s; rewrite (H1 s); apply H2.
Qed.

#[export] Instance L_Proper : Proper (Leq ==> eq ==> iff) L.
Proof. intros a b H s t <-. apply H. Qed.

Lemma Forall_L_Leq a b ss : a =~ b -> Forall (L a) ss -> Forall (L b) ss.
Proof. intros H HF. eapply Forall_impl; [|exact HF]. intros s Hs. apply H, Hs. Qed.

#[export] Instance Cat_Proper : Proper (Leq ==> Leq ==> Leq) Cat.
Proof.
  intros a a' Ha b b' Hb s. rewrite !L_Cat_iff.
  split; intros (s1 & s2 & -> & H1 & H2); exists s1, s2;
    (split; [reflexivity|split]); try apply Ha; try apply Hb; assumption.
Qed.

#[export] Instance Alt_Proper : Proper (Leq ==> Leq ==> Leq) Alt.
Proof. intros a a' Ha b b' Hb s. rewrite !L_Alt_iff, (Ha s), (Hb s). reflexivity. Qed.

#[export] Instance And_Proper : Proper (Leq ==> Leq ==> Leq) And.
Proof. intros a a' Ha b b' Hb s. rewrite !L_And_iff, (Ha s), (Hb s). reflexivity. Qed.

#[export] Instance Star_Proper : Proper (Leq ==> Leq) Star.
Proof.
  intros a a' Ha s. rewrite !L_Star_iff.
  split; intros (ss & H & ->); exists ss; (split; [|reflexivity]);
    eapply Forall_L_Leq; try exact H; [exact Ha | symmetry; exact Ha].
Qed.

Lemma Rep_Leq a a' lo hi : a =~ a' -> Rep a lo hi =~ Rep a' lo hi.
Proof.
  intros Ha s. rewrite !L_Rep_iff.
  split; intros (ss & H1 & H2 & H & ->); exists ss; (repeat split; try assumption);
    eapply Forall_L_Leq; try exact H; [exact Ha | symmetry; exact Ha].
Qed.

(** Basic algebra. *)

Lemma Cat_Empty_l b : Cat Empty b =~ Empty.
Proof.
  intros s. rewrite L_Cat_iff, L_Empty_iff. split; [|intros []].
  intros (s1 & s2 & _ & H & _). apply L_Empty_iff in H. exact H.
Qed.

Lemma Cat_Empty_r a : Cat a Empty =~ Empty.
Proof.
  intros s. rewrite L_Cat_iff, L_Empty_iff. split; [|intros []].
  intros (s1 & s2 & _ & _ & H). apply L_Empty_iff in H. exact H.
Qed.

Lemma Cat_Eps_l b : Cat Eps b =~ b.
Proof.
  intros s. rewrite L_Cat_iff. split.
  - intros (s1 & s2 & -> & H1 & H2). apply L_Eps_iff in H1. subst s1. exact H2.
  - intros H. exists [], s. repeat split; [constructor | exact H].
Qed.

Lemma Cat_Eps_r a : Cat a Eps =~ a.
Proof.
  intros s. rewrite L_Cat_iff. split.
  - intros (s1 & s2 & -> & H1 & H2). apply L_Eps_iff in H2. subst s2.
    rewrite app_nil_r. exact H1.
  - intros H. exists s, []. rewrite app_nil_r. repeat split; [exact H | constructor].
Qed.

Lemma Cat_assoc a b c : Cat (Cat a b) c =~ Cat a (Cat b c).
Proof.
  intros s. rewrite !L_Cat_iff. split.
  - intros (s12 & s3 & -> & H12 & H3). apply L_Cat_iff in H12 as (s1 & s2 & -> & H1 & H2).
    exists s1, (s2 ++ s3). rewrite app_assoc. repeat split; try assumption.
    apply L_Cat_iff. eauto.
  - intros (s1 & s23 & -> & H1 & H23). apply L_Cat_iff in H23 as (s2 & s3 & -> & H2 & H3).
    exists (s1 ++ s2), s3. rewrite app_assoc. repeat split; try assumption.
    apply L_Cat_iff. eauto.
Qed.

Ltac prop_leq := intros ?s; rewrite ?L_Alt_iff, ?L_And_iff, ?L_Empty_iff; tauto.

Lemma Alt_comm a b : Alt a b =~ Alt b a.              Proof. prop_leq. Qed.
Lemma Alt_assoc a b c : Alt (Alt a b) c =~ Alt a (Alt b c).  Proof. prop_leq. Qed.
Lemma Alt_idem a : Alt a a =~ a.                      Proof. prop_leq. Qed.
Lemma Alt_Empty_l a : Alt Empty a =~ a.               Proof. prop_leq. Qed.
Lemma Alt_Empty_r a : Alt a Empty =~ a.               Proof. prop_leq. Qed.
Lemma Alt_absorb a b : Alt a (Alt a b) =~ Alt a b.    Proof. prop_leq. Qed.
Lemma Alt_swap a b c : Alt a (Alt b c) =~ Alt b (Alt a c).   Proof. prop_leq. Qed.
Lemma And_comm a b : And a b =~ And b a.              Proof. prop_leq. Qed.
Lemma And_assoc a b c : And (And a b) c =~ And a (And b c).  Proof. prop_leq. Qed.
Lemma And_idem a : And a a =~ a.                      Proof. prop_leq. Qed.
Lemma And_Empty_l a : And Empty a =~ Empty.           Proof. prop_leq. Qed.
Lemma And_Empty_r a : And a Empty =~ Empty.           Proof. prop_leq. Qed.
Lemma And_absorb a b : And a (And a b) =~ And a b.    Proof. prop_leq. Qed.
Lemma And_swap a b c : And a (And b c) =~ And b (And a c).   Proof. prop_leq. Qed.

(* ------------------------------------------------------------------ *)
(** * Nullability *)

Fixpoint nullable (r : regex) : bool :=
  match r with
  | Empty => false
  | Eps => true
  | Class _ => false
  | Cat a b => nullable a && nullable b
  | Alt a b => nullable a || nullable b
  | And a b => nullable a && nullable b
  | Star _ => true
  | Rep a lo hi => Nat.leb lo hi && (Nat.eqb lo 0 || nullable a)
  end.

Lemma concat_nil_Forall (ss : list (list N)) : concat ss = [] -> Forall (fun s => s = []) ss.
Proof.
  induction ss as [|x ss IH]; cbn [List.concat]; intros H; [constructor|].
  apply app_eq_nil in H as [H1 H2]. constructor; auto.
Qed.

Lemma concat_repeat_nil (k : nat) : concat (repeat (@nil N) k) = [].
Proof. induction k as [|k IH]; cbn [repeat List.concat app]; auto. Qed.

Theorem nullable_correct : forall r, nullable r = true <-> L r [].
Proof.
  induction r as [| |rs|a IHa b IHb|a IHa b IHb|a IHa b IHb|a IHa|a IHa lo hi];
    cbn [nullable].
  - rewrite L_Empty_iff. split; [discriminate|intros []].
  - rewrite L_Eps_iff. split; auto.
  - rewrite L_Class_iff. split; [discriminate|]. intros (c & H & _); discriminate.
  - rewrite andb_true_iff, IHa, IHb, L_Cat_iff. split.
    + intros [H1 H2]. exists [], []. auto.
    + intros (s1 & s2 & H & H1 & H2). symmetry in H. apply app_eq_nil in H as [-> ->]. auto.
  - rewrite orb_true_iff, IHa, IHb, L_Alt_iff. reflexivity.
  - rewrite andb_true_iff, IHa, IHb, L_And_iff. reflexivity.
  - split; [intros _|reflexivity]. apply L_Star_iff. exists []. split; [constructor|reflexivity].
  - rewrite andb_true_iff, orb_true_iff, Nat.leb_le, Nat.eqb_eq, IHa, L_Rep_iff. split.
    + intros [Hle [H0|Ha]].
      * subst lo. exists []. cbn [List.length List.concat]. repeat split; auto with arith.
      * exists (repeat [] lo). rewrite repeat_length, concat_repeat_nil.
        repeat split; auto with arith.
        apply Forall_forall. intros x Hx. apply repeat_spec in Hx. subst x. exact Ha.
    + intros (ss & H1 & H2 & HF & Hc). split; [lia|].
      destruct lo as [|lo]; [left; reflexivity|right].
      destruct ss as [|x ss]; [cbn [List.length] in H1; lia|].
      symmetry in Hc. apply concat_nil_Forall in Hc.
      inversion Hc as [|? ? Hx _]; subst. inversion HF; subst. assumption.
Qed.

(* ------------------------------------------------------------------ *)
(** * A total comparison on regexes (only [Eq -> equal] is needed for
      soundness; the order is used to sort the operands of Alt / And) *)

Fixpoint ranges_compare (a b : list (N * N)) : comparison :=
  match a, b with
  | [], [] => Eq
  | [], _ :: _ => Lt
  | _ :: _, [] => Gt
  | (l1, h1) :: a', (l2, h2) :: b' =>
      match l1 ?= l2 with
      | Eq => match h1 ?= h2 with
              | Eq => ranges_compare a' b'
              | c => c
              end
      | c => c
      end
  end.

Lemma ranges_compare_eq a b : ranges_compare a b = Eq -> a = b.
Proof.
  revert b; induction a as [|[l1 h1] a IH]; intros [|[l2 h2] b]; cbn [ranges_compare];
    try discriminate; [reflexivity|].
  destruct (l1 ?= l2) eqn:El; try discriminate.
  destruct (h1 ?= h2) eqn:Eh; try discriminate.
  intros H. apply N.compare_eq in El, Eh. apply IH in H. subst. reflexivity.
Qed.

Lemma ranges_compare_refl a : ranges_compare a a = Eq.
Proof.
  induction a as [|[l h] a IH]; cbn [ranges_compare]; [reflexivity|].
  rewrite !N.compare_refl. exact IH.
Qed.

Definition rank (r : regex) : nat :=
  match r with
  | Empty => 0 | Eps => 1 | Class _ => 2 | Cat _ _ => 3
  | Alt _ _ => 4 | And _ _ => 5 | Star _ => 6 | Rep _ _ _ => 7
  end%nat.

Fixpoint regex_compare (a b : regex) : comparison :=
  match a, b with
  | Empty, Empty => Eq
  | Eps, Eps => Eq
  | Class r1, Class r2 => ranges_compare r1 r2
  | Cat a1 a2, Cat b1 b2 =>
      match regex_compare a1 b1 with Eq => regex_compare a2 b2 | c => c end
  | Alt a1 a2, Alt b1 b2 =>
      match regex_compare a1 b1 with Eq => regex_compare a2 b2 | c => c end
  | And a1 a2, And b1 b2 =>
      match regex_compare a1 b1 with Eq => regex_compare a2 b2 | c => c end
  | Star a1, Star b1 => regex_compare a1 b1
  | Rep a1 l1 h1, Rep b1 l2 h2 =>
      match Nat.compare l1 l2 with
      | Eq => match Nat.compare h1 h2 with
              | Eq => regex_compare a1 b1
              | c => c
              end
      | c => c
      end
  | _, _ => Nat.compare (rank a) (rank b)
  end.

Lemma regex_compare_eq : forall a b, regex_compare a b = Eq -> a = b.
Proof.
  induction a as [| |rs|a1 IH1 a2 IH2|a1 IH1 a2 IH2|a1 IH1 a2 IH2|a1 IH1|a1 IH1 lo hi];
    intros b; destruct b as [| |rs'|b1 b2|b1 b2|b1 b2|b1|b1 lo' hi'];
    cbn [regex_compare rank Nat.compare]; try discriminate; try reflexivity.
  - intros H. apply ranges_compare_eq in H. subst. reflexivity.
  - destruct (regex_compare a1 b1) eqn:E1; try discriminate.
    intros H. apply IH1 in E1. apply IH2 in H. subst. reflexivity.
  - destruct (regex_compare a1 b1) eqn:E1; try discriminate.
    intros H. apply IH1 in E1. apply IH2 in H. subst. reflexivity.
  - destruct (regex_compare a1 b1) eqn:E1; try discriminate.
    intros H. apply IH1 in E1. apply IH2 in H. subst. reflexivity.
  - intros H. apply IH1 in H. subst. reflexivity.
  - destruct (Nat.compare lo lo') eqn:El; try discriminate.
    destruct (Nat.compare hi hi') eqn:Eh; try discriminate.
    intros H. apply Nat.compare_eq in El, Eh. apply IH1 in H. subst. reflexivity.
Qed.

Lemma regex_compare_refl : forall a, regex_compare a a = Eq.
Proof.
  induction a as [| |rs|a1 IH1 a2 IH2|a1 IH1 a2 IH2|a1 IH1 a2 IH2|a1 IH1|a1 IH1 lo hi];
    cbn [regex_compare]; try reflexivity.
  - apply ranges_compare_refl.
  - rewrite IH1; exact IH2.
  - rewrite IH1; exact IH2.
  - rewrite IH1; exact IH2.
  - exact IH1.
  - rewrite !Nat.compare_refl. exact IH1.
Qed.

Definition regex_eqb (a b : regex) : bool :=
  match regex_compare a b with Eq => true | _ => false end.

Lemma regex_eqb_spec a b : regex_eqb a b = true <-> a = b.
Proof.
  unfold regex_eqb. split.
  - destruct (regex_compare a b) eqn:E; try discriminate. intros _. apply regex_compare_eq, E.
  - intros ->. rewrite regex_compare_refl. reflexivity.
Qed.

Lemma regex_eqb_refl a : regex_eqb a a = true.
Proof. apply regex_eqb_spec. reflexivity. Qed.

(* ------------------------------------------------------------------ *)
(** * Normalising smart constructors *)

(** ** Concatenation: Empty absorbs, Eps is the unit, nested to the right. *)

Definition cat1 (a b : regex) : regex :=
  match b with
  | Empty => Empty
  | Eps => a
  | _ => Cat a b
  end.

Fixpoint mk_cat (a b : regex) : regex :=
  match a with
  | Empty => Empty
  | Eps => b
  | Cat a1 a2 => cat1 a1 (mk_cat a2 b)
  | _ => cat1 a b
  end.

Lemma cat1_L a b : cat1 a b =~ Cat a b.
Proof.
  destruct b; cbn [cat1]; try reflexivity.
  - symmetry; apply Cat_Empty_r.
  - symmetry; apply Cat_Eps_r.
Qed.

Lemma mk_cat_L a b : mk_cat a b =~ Cat a b.
Proof.
  induction a as [| |rs|a1 IH1 a2 IH2|a1 IH1 a2 IH2|a1 IH1 a2 IH2|a1 IH1|a1 IH1 lo hi];
    cbn [mk_cat]; try apply cat1_L.
  - symmetry; apply Cat_Empty_l.
  - symmetry; apply Cat_Eps_l.
  - rewrite cat1_L, IH2. symmetry; apply Cat_assoc.
Qed.

(** ** Alternation: a right-nested list, strictly sorted by [regex_compare];
       Empty is dropped. *)

Fixpoint alt_insert (a b : regex) : regex :=
  match b with
  | Alt b1 b2 =>
      match regex_compare a b1 with
      | Eq => b
      | Lt => Alt a b
      | Gt => Alt b1 (alt_insert a b2)
      end
  | Empty => a
  | _ =>
      match regex_compare a b with
      | Eq => b
      | Lt => Alt a b
      | Gt => Alt b a
      end
  end.

Fixpoint mk_alt (a b : regex) : regex :=
  match a with
  | Alt a1 a2 => alt_insert a1 (mk_alt a2 b)
  | Empty => b
  | _ => alt_insert a b
  end.

Lemma alt_leaf_L a b :
  match regex_compare a b with Eq => b | Lt => Alt a b | Gt => Alt b a end =~ Alt a b.
Proof.
  destruct (regex_compare a b) eqn:E.
  - apply regex_compare_eq in E. subst. symmetry; apply Alt_idem.
  - reflexivity.
  - apply Alt_comm.
Qed.

Lemma alt_insert_L a b : alt_insert a b =~ Alt a b.
Proof.
  induction b as [| |rs|b1 IH1 b2 IH2|b1 IH1 b2 IH2|b1 IH1 b2 IH2|b1 IH1|b1 IH1 lo hi];
    cbn [alt_insert]; try apply alt_leaf_L.
  - symmetry; apply Alt_Empty_r.
  - destruct (regex_compare a b1) eqn:E.
    + apply regex_compare_eq in E. subst. symmetry; apply Alt_absorb.
    + reflexivity.
    + rewrite IH2. apply Alt_swap.
Qed.

Lemma mk_alt_L a b : mk_alt a b =~ Alt a b.
Proof.
  induction a as [| |rs|a1 IH1 a2 IH2|a1 IH1 a2 IH2|a1 IH1 a2 IH2|a1 IH1|a1 IH1 lo hi];
    cbn [mk_alt]; try apply alt_insert_L.
  - symmetry; apply Alt_Empty_l.
  - rewrite alt_insert_L, IH2. symmetry; apply Alt_assoc.
Qed.

(** ** Intersection: same list discipline; Empty absorbs; Eps decides by
       nullability. *)

Lemma And_Eps_l a : And Eps a =~ (if nullable a then Eps else Empty).
Proof.
  intros s. rewrite L_And_iff, L_Eps_iff.
  destruct (nullable a) eqn:E.
  - rewrite L_Eps_iff. split; [tauto|]. intros ->. split; [reflexivity|].
    apply nullable_correct, E.
  - rewrite L_Empty_iff. split; [|intros []]. intros [-> H].
    apply nullable_correct in H. congruence.
Qed.

Fixpoint and_insert (a b : regex) : regex :=
  match b with
  | And b1 b2 =>
      match regex_compare a b1 with
      | Eq => b
      | Lt => And a b
      | Gt => And b1 (and_insert a b2)
      end
  | Empty => Empty
  | Eps => if nullable a then Eps else Empty
  | _ =>
      match regex_compare a b with
      | Eq => b
      | Lt => And a b
      | Gt => And b a
      end
  end.

Fixpoint mk_and (a b : regex) : regex :=
  match a with
  | And a1 a2 => and_insert a1 (mk_and a2 b)
  | Empty => Empty
  | Eps => if nullable b then Eps else Empty
  | _ => and_insert a b
  end.

Lemma and_leaf_L a b :
  match regex_compare a b with Eq => b | Lt => And a b | Gt => And b a end =~ And a b.
Proof.
  destruct (regex_compare a b) eqn:E.
  - apply regex_compare_eq in E. subst. symmetry; apply And_idem.
  - reflexivity.
  - apply And_comm.
Qed.

Lemma and_insert_L a b : and_insert a b =~ And a b.
Proof.
  induction b as [| |rs|b1 IH1 b2 IH2|b1 IH1 b2 IH2|b1 IH1 b2 IH2|b1 IH1|b1 IH1 lo hi];
    cbn [and_insert]; try apply and_leaf_L.
  - symmetry; apply And_Empty_r.
  - rewrite <- And_Eps_l. apply And_comm.
  - destruct (regex_compare a b1) eqn:E.
    + apply regex_compare_eq in E. subst. symmetry; apply And_absorb.
    + reflexivity.
    + rewrite IH2. apply And_swap.
Qed.

Lemma mk_and_L a b : mk_and a b =~ And a b.
Proof.
  induction a as [| |rs|a1 IH1 a2 IH2|a1 IH1 a2 IH2|a1 IH1 a2 IH2|a1 IH1|a1 IH1 lo hi];
    cbn [mk_and]; try apply and_insert_L.
  - symmetry; apply And_Empty_l.
  - symmetry; apply And_Eps_l.
  - rewrite and_insert_L, IH2. symmetry; apply And_assoc.
Qed.

(** ** Star *)

Definition mk_star (a : regex) : regex :=
  match a with
  | Empty => Eps
  | Eps => Eps
  | Star _ => a
  | _ => Star a
  end.

Lemma Star_Empty : Star Empty =~ Eps.
Proof.
  intros s. rewrite L_Star_iff, L_Eps_iff. split.
  - intros (ss & HF & ->). destruct ss as [|x ss]; [reflexivity|].
    inversion HF as [|? ? Hx _]; subst. apply L_Empty_iff in Hx. destruct Hx.
  - intros ->. exists []. split; [constructor|reflexivity].
Qed.

Lemma Star_Eps : Star Eps =~ Eps.
Proof.
  intros s. rewrite L_Star_iff, L_Eps_iff. split.
  - intros (ss & HF & ->). induction HF as [|x ss Hx HF IH]; [reflexivity|].
    apply L_Eps_iff in Hx. subst x. exact IH.
  - intros ->. exists []. split; [constructor|reflexivity].
Qed.

Lemma Star_Star a : Star (Star a) =~ Star a.
Proof.
  intros s. rewrite !L_Star_iff. split.
  - intros (ss & HF & ->). induction HF as [|x ss Hx HF IH].
    + exists []. split; [constructor|reflexivity].
    + apply L_Star_iff in Hx as (xs & Hxs & ->). destruct IH as (ys & Hys & Hc).
      exists (xs ++ ys). split; [apply Forall_app; auto|].
      cbn [List.concat]. rewrite Hc, concat_app. reflexivity.
  - intros (ss & HF & ->). exists [concat ss]. split.
    + constructor; [|constructor]. apply L_Star_iff. eauto.
    + cbn [List.concat]. rewrite app_nil_r. reflexivity.
Qed.

Lemma mk_star_L a : mk_star a =~ Star a.
Proof.
  destruct a; cbn [mk_star]; try reflexivity.
  - symmetry; apply Star_Empty.
  - symmetry; apply Star_Eps.
  - symmetry; apply Star_Star.
Qed.

(** ** Bounded repetition — stays a counter. *)

Definition mk_rep (a : regex) (lo hi : nat) : regex :=
  if Nat.ltb hi lo then Empty
  else match hi with
       | O => Eps
       | S O => match lo with S _ => a | O => Rep a lo hi end
       | _ => Rep a lo hi
       end.

Lemma Rep_gt a lo hi : (hi < lo)%nat -> Rep a lo hi =~ Empty.
Proof.
  intros Hlt s. rewrite L_Rep_iff, L_Empty_iff. split; [|intros []].
  intros (ss & H1 & H2 & _). lia.
Qed.

Lemma Rep_0_0 a : Rep a 0 0 =~ Eps.
Proof.
  intros s. rewrite L_Rep_iff, L_Eps_iff. split.
  - intros (ss & _ & H2 & _ & ->). destruct ss; [reflexivity|cbn [List.length] in H2; lia].
  - intros ->. exists []. cbn [List.length List.concat]. repeat split; auto.
Qed.

Lemma Rep_1_1 a : Rep a 1 1 =~ a.
Proof.
  intros s. rewrite L_Rep_iff. split.
  - intros (ss & H1 & H2 & HF & ->).
    destruct ss as [|x [|y ss]]; cbn [List.length] in H1, H2; try lia.
    cbn [List.concat]. rewrite app_nil_r. inversion HF; assumption.
  - intros H. exists [s]. cbn [List.length List.concat]. rewrite app_nil_r.
    repeat split; auto.
Qed.

Lemma mk_rep_L a lo hi : mk_rep a lo hi =~ Rep a lo hi.
Proof.
  unfold mk_rep. destruct (Nat.ltb_spec hi lo) as [Hlt|Hge].
  - symmetry; apply Rep_gt, Hlt.
  - destruct hi as [|[|hi]]; try reflexivity.
    + assert (lo = 0%nat) as -> by lia. symmetry; apply Rep_0_0.
    + destruct lo as [|lo]; [reflexivity|].
      assert (lo = 0%nat) as -> by lia. symmetry; apply Rep_1_1.
Qed.

(* ------------------------------------------------------------------ *)
(** * Well-formedness side condition

    The derivative below is correct for every regex, including bounded
    repetitions with a nullable body or with lo > hi (see [Rep_cons] and [concat_cons_split]), so no
    side condition is needed.  [wfb] is kept in the interface (and in the
    statements) so that a stronger condition could be introduced without
    changing the clients; it is constantly [true]. *)

Definition wfb (r : regex) : bool := true.

Lemma wfb_true r : wfb r = true.
Proof. reflexivity. Qed.

(* ------------------------------------------------------------------ *)
(** * Brzozowski derivative *)

Fixpoint deriv (c : N) (r : regex) : regex :=
  match r with
  | Empty => Empty
  | Eps => Empty
  | Class rs => if class_mem rs c then Eps else Empty
  | Cat a b =>
      if nullable a then mk_alt (mk_cat (deriv c a) b) (deriv c b)
      else mk_cat (deriv c a) b
  | Alt a b => mk_alt (deriv c a) (deriv c b)
  | And a b => mk_and (deriv c a) (deriv c b)
  | Star a => mk_cat (deriv c a) (Star a)
  | Rep a lo hi =>
      match hi with
      | O => Empty
      | S hi' => mk_cat (deriv c a) (mk_rep a (Nat.pred lo) hi')
      end
  end.

Definition derivs (r : regex) (s : list N) : regex := fold_left (fun r c => deriv c r) s r.
Definition matchb (r : regex) (s : list N) : bool := nullable (derivs r s).

(** The first letter of a concatenation of pieces comes from the first
    non-empty piece; the skipped empty pieces are kept, so the number of
    pieces drops by exactly one. *)
Lemma concat_cons_split (P : list N -> Prop) (ss : list (list N)) (c : N) (s : list N) :
  Forall P ss -> concat ss = c :: s ->
  exists s1 ss', length ss = S (length ss') /\ Forall P ss' /\ P (c :: s1) /\ s = s1 ++ concat ss'.
Proof.
  intros HF. induction HF as [|x ss Hx HF IH]; cbn [List.concat]; intros Hc; [discriminate|].
  destruct x as [|c' x].
  - cbn [app] in Hc. destruct (IH Hc) as (s1 & ss' & Hl & HF' & Hp & Hs).
    exists s1, ([] :: ss'). cbn [List.length List.concat app].
    repeat split; auto.
  - cbn [app] in Hc. injection Hc as -> <-.
    exists x, ss. cbn [List.length]. repeat split; auto.
Qed.

Lemma Cat_cons a b c s :
  L (Cat a b) (c :: s) <->
  (exists s1 s2, s = s1 ++ s2 /\ L a (c :: s1) /\ L b s2) \/ (L a [] /\ L b (c :: s)).
Proof.
  rewrite L_Cat_iff. split.
  - intros (s1 & s2 & Hs & H1 & H2). destruct s1 as [|c' s1].
    + cbn [app] in Hs. subst s2. right. auto.
    + cbn [app] in Hs. injection Hs as <- ->. left. eauto.
  - intros [(s1 & s2 & -> & H1 & H2)|[H1 H2]].
    + exists (c :: s1), s2. auto.
    + exists [], (c :: s). auto.
Qed.

Lemma Star_cons a c s :
  L (Star a) (c :: s) <-> exists s1 s2, s = s1 ++ s2 /\ L a (c :: s1) /\ L (Star a) s2.
Proof.
  split.
  - intros H. apply L_Star_iff in H as (ss & HF & Hc). symmetry in Hc.
    destruct (concat_cons_split _ _ _ _ HF Hc) as (s1 & ss' & _ & HF' & Hp & ->).
    exists s1, (concat ss'). repeat split; auto. constructor. exact HF'.
  - intros (s1 & s2 & -> & H1 & H2). apply L_Star_iff in H2 as (ss & HF & ->).
    apply L_Star_iff. exists ((c :: s1) :: ss). split; [constructor; auto|reflexivity].
Qed.

Lemma Rep_cons a lo hi c s :
  L (Rep a lo hi) (c :: s) <->
  exists hi', hi = S hi' /\
    exists s1 s2, s = s1 ++ s2 /\ L a (c :: s1) /\ L (Rep a (Nat.pred lo) hi') s2.
Proof.
  split.
  - intros H. apply L_Rep_iff in H as (ss & Hlo & Hhi & HF & Hc). symmetry in Hc.
    destruct (concat_cons_split _ _ _ _ HF Hc) as (s1 & ss' & Hl & HF' & Hp & ->).
    destruct hi as [|hi']; [lia|]. exists hi'. split; [reflexivity|].
    exists s1, (concat ss'). repeat split; auto. constructor; auto; lia.
  - intros (hi' & -> & s1 & s2 & -> & H1 & H2).
    apply L_Rep_iff in H2 as (ss & Hlo & Hhi & HF & ->).
    apply L_Rep_iff. exists ((c :: s1) :: ss). cbn [List.length].
    repeat split; auto; lia.
Qed.

Theorem deriv_correct_all : forall r c s, L (deriv c r) s <-> L r (c :: s).
Proof.
  induction r as [| |rs|a IHa b IHb|a IHa b IHb|a IHa b IHb|a IHa|a IHa lo hi];
    intros c s; cbn [deriv].
  - rewrite !L_Empty_iff. reflexivity.
  - rewrite L_Empty_iff, L_Eps_iff. split; [intros []|discriminate].
  - rewrite L_Class_iff. destruct (class_mem rs c) eqn:E.
    + rewrite L_Eps_iff. split.
      * intros ->. eauto.
      * intros (c' & [= -> ->] & _). reflexivity.
    + rewrite L_Empty_iff. split; [intros []|].
      intros (c' & [= -> ->] & H). congruence.
  - rewrite Cat_cons. destruct (nullable a) eqn:En.
    + rewrite mk_alt_L, L_Alt_iff, mk_cat_L, L_Cat_iff, IHb.
      apply nullable_correct in En.
      split.
      * intros [(s1 & s2 & -> & H1 & H2)|H]; [left|right; auto].
        exists s1, s2. rewrite <- IHa. auto.
      * intros [(s1 & s2 & -> & H1 & H2)|[_ H]]; [left|right; auto].
        exists s1, s2. rewrite IHa. auto.
    + rewrite mk_cat_L, L_Cat_iff. split.
      * intros (s1 & s2 & -> & H1 & H2). left. exists s1, s2. rewrite <- IHa. auto.
      * intros [(s1 & s2 & -> & H1 & H2)|[H _]].
        -- exists s1, s2. rewrite IHa. auto.
        -- apply nullable_correct in H. congruence.
  - rewrite mk_alt_L, !L_Alt_iff, IHa, IHb. reflexivity.
  - rewrite mk_and_L, !L_And_iff, IHa, IHb. reflexivity.
  - rewrite Star_cons, mk_cat_L, L_Cat_iff.
    split; intros (s1 & s2 & -> & H1 & H2); exists s1, s2;
      [rewrite <- IHa | rewrite IHa]; auto.
  - rewrite Rep_cons. destruct hi as [|hi'].
    + rewrite L_Empty_iff. split; [intros []|]. intros (hi' & [=] & _).
    + rewrite mk_cat_L, L_Cat_iff. split.
      * intros (s1 & s2 & -> & H1 & H2). exists hi'. split; [reflexivity|].
        exists s1, s2. rewrite <- IHa, <- (mk_rep_L a (Nat.pred lo) hi' s2). auto.
      * intros (hi'' & [= <-] & s1 & s2 & -> & H1 & H2).
        exists s1, s2. rewrite IHa, (mk_rep_L a (Nat.pred lo) hi' s2). auto.
Qed.

Theorem deriv_correct : forall r c s, wfb r = true -> (L (deriv c r) s <-> L r (c :: s)).
Proof. intros r c s _. apply deriv_correct_all. Qed.

Theorem deriv_wf : forall r c, wfb r = true -> wfb (deriv c r) = true.
Proof. intros r c _. apply wfb_true. Qed.

Lemma derivs_cons r c s : derivs r (c :: s) = derivs (deriv c r) s.
Proof. reflexivity. Qed.

Lemma matchb_cons r c s : matchb r (c :: s) = matchb (deriv c r) s.
Proof. reflexivity. Qed.

Theorem matchb_correct_all : forall r s, matchb r s = true <-> L r s.
Proof.
  intros r s; revert r. induction s as [|c s IH]; intros r.
  - unfold matchb, derivs. cbn [fold_left]. apply nullable_correct.
  - rewrite matchb_cons, IH. apply deriv_correct_all.
Qed.

Theorem matchb_correct : forall r s, wfb r = true -> (matchb r s = true <-> L r s).
Proof. intros r s _. apply matchb_correct_all. Qed.

Lemma derivs_wf r s : wfb r = true -> wfb (derivs r s) = true.
Proof. intros _. apply wfb_true. Qed.

(** A full normaliser (optional for clients: the bisimulation checkers work
    on any regex; normalising the start regex only makes the first state
    coincide with later ones more often). *)
Fixpoint norm (r : regex) : regex :=
  match r with
  | Empty => Empty
  | Eps => Eps
  | Class rs => match rs with [] => Empty | _ => Class rs end
  | Cat a b => mk_cat (norm a) (norm b)
  | Alt a b => mk_alt (norm a) (norm b)
  | And a b => mk_and (norm a) (norm b)
  | Star a => mk_star (norm a)
  | Rep a lo hi => mk_rep (norm a) lo hi
  end.

Lemma Class_nil : Class [] =~ Empty.
Proof.
  intros s. rewrite L_Class_iff, L_Empty_iff. split; [|intros []].
  intros (c & _ & H). cbn [class_mem existsb] in H. discriminate.
Qed.

Theorem norm_L : forall r, norm r =~ r.
Proof.
  induction r as [| |rs|a IHa b IHb|a IHa b IHb|a IHa b IHb|a IHa|a IHa lo hi];
    cbn [norm]; try reflexivity.
  - destruct rs; [symmetry; apply Class_nil | reflexivity].
  - rewrite mk_cat_L, IHa, IHb. reflexivity.
  - rewrite mk_alt_L, IHa, IHb. reflexivity.
  - rewrite mk_and_L, IHa, IHb. reflexivity.
  - rewrite mk_star_L, IHa. reflexivity.
  - rewrite mk_rep_L. apply Rep_Leq, IHa.
Qed.

Print Assumptions nullable_correct.
Print Assumptions deriv_correct.
Print Assumptions deriv_wf.
Print Assumptions matchb_correct.
Print Assumptions regex_eqb_spec.
Print Assumptions norm_L.
