(* Regex/Bisim.v — certificate-checked bisimulation between deterministic
   automata: a table-driven DFA against the derivative automaton of a regex,
   and regex against regex.  Only the checkers [bisim_*_ok] are trusted by the
   soundness theorems; the explorers [explore_*] merely propose certificates. *)
From AV Require Import Base.Bytes Regex.Regex.
From Coq Require Import PeanoNat Arith.

Local Open Scope N_scope.
Local Open Scope list_scope.

Local Notation length := List.length (only parsing).

(* ------------------------------------------------------------------ *)
(** * Generic part: two deterministic automata over bytes *)

Section Generic.
  Context {S1 S2 : Type}.
  Variable step1 : S1 -> N -> S1.
  Variable step2 : S2 -> N -> S2.
  Variable acc1 : S1 -> bool.
  Variable acc2 : S2 -> bool.
  Variable eq1 : S1 -> S1 -> bool.
  Variable eq2 : S2 -> S2 -> bool.
  Hypothesis eq1_ok : forall a b, eq1 a b = true -> a = b.
  Hypothesis eq2_ok : forall a b, eq2 a b = true -> a = b.

  Definition pair_eqb (p q : S1 * S2) : bool :=
    if eq1 (fst p) (fst q) then eq2 (snd p) (snd q) else false.

  Definition pmem (p : S1 * S2) (R : list (S1 * S2)) : bool := existsb (pair_eqb p) R.

  Definition psucc (p : S1 * S2) (c : N) : S1 * S2 := (step1 (fst p) c, step2 (snd p) c).

  (** All 256 successors of [p] are checked.  [prev] is the successor pair of
      the previous byte (already known to be in [R]): when the next byte
      leads to the very same pair the list scan is skipped. *)
  Fixpoint succs_ok (R : list (S1 * S2)) (p : S1 * S2) (prev : option (S1 * S2))
           (cs : list N) : bool :=
    match cs with
    | [] => true
    | c :: cs' =>
        let q := psucc p c in
        if match prev with Some q0 => pair_eqb q q0 | None => false end
        then succs_ok R p prev cs'
        else if pmem q R then succs_ok R p (Some q) cs' else false
    end.

  Definition pair_ok (R : list (S1 * S2)) (p : S1 * S2) : bool :=
    if Bool.eqb (acc1 (fst p)) (acc2 (snd p))
    then succs_ok R p None all_bytes
    else false.

  Definition closed_ok (R : list (S1 * S2)) : bool := forallb (pair_ok R) R.

  Definition run1 (q : S1) (s : list N) : S1 := fold_left step1 s q.
  Definition run2 (q : S2) (s : list N) : S2 := fold_left step2 s q.

  Lemma pair_eqb_ok p q : pair_eqb p q = true -> p = q.
  Proof.
    unfold pair_eqb. destruct p as [p1 p2], q as [q1 q2]. cbn [fst snd].
    destruct (eq1 p1 q1) eqn:E1; [|discriminate]. intros E2.
    apply eq1_ok in E1. apply eq2_ok in E2. subst. reflexivity.
  Qed.

  Lemma pmem_In p R : pmem p R = true -> In p R.
  Proof.
    unfold pmem. intros H. apply existsb_exists in H as (q & Hq & He).
    apply pair_eqb_ok in He. subst. exact Hq.
  Qed.

  Lemma succs_ok_In R p : forall cs prev,
    (forall q0, prev = Some q0 -> In q0 R) ->
    succs_ok R p prev cs = true ->
    forall c, In c cs -> In (psucc p c) R.
  Proof.
    induction cs as [|c0 cs IH]; intros prev Hprev Hok c Hc; [destruct Hc|].
    cbn [succs_ok] in Hok.
    destruct (match prev with Some q0 => pair_eqb (psucc p c0) q0 | None => false end) eqn:E.
    - destruct prev as [q0|]; [|discriminate]. apply pair_eqb_ok in E.
      destruct Hc as [<-|Hc].
      + rewrite E. apply Hprev. reflexivity.
      + apply (IH (Some q0)); assumption.
    - destruct (pmem (psucc p c0) R) eqn:Hm; [|discriminate].
      apply pmem_In in Hm. destruct Hc as [<-|Hc]; [exact Hm|].
      apply (IH (Some (psucc p c0))); try assumption.
      intros q0 [= <-]. exact Hm.
  Qed.

  Lemma pair_ok_spec R p :
    pair_ok R p = true ->
    acc1 (fst p) = acc2 (snd p) /\ forall c, c < 256 -> In (psucc p c) R.
  Proof.
    unfold pair_ok. destruct (Bool.eqb (acc1 (fst p)) (acc2 (snd p))) eqn:E; [|discriminate].
    intros H. split; [apply Bool.eqb_prop, E|].
    intros c Hc. apply (succs_ok_In R p all_bytes None); try assumption.
    - intros q0 [=].
    - apply all_bytes_spec, Hc.
  Qed.

  Lemma closed_sound R :
    closed_ok R = true ->
    forall s, bytes_ok s = true ->
    forall p, In p R -> acc1 (run1 (fst p) s) = acc2 (run2 (snd p) s).
  Proof.
    intros Hc. unfold closed_ok in Hc. rewrite forallb_forall in Hc.
    induction s as [|c s IH]; intros Hs p Hp.
    - cbn [run1 run2 fold_left]. apply (pair_ok_spec R p (Hc p Hp)).
    - cbn [bytes_ok forallb] in Hs. apply andb_true_iff in Hs as [Hcb Hs].
      unfold is_byte in Hcb. apply N.ltb_lt in Hcb.
      destruct (pair_ok_spec R p (Hc p Hp)) as [_ Hsucc].
      specialize (IH Hs _ (Hsucc c Hcb)).
      cbn [run1 run2 fold_left]. exact IH.
  Qed.

  (** Worklist exploration (untrusted).  [reps] is the list of bytes tried
      from every pair. *)
  Variable reps : list N.

  Fixpoint explore (fuel : nat) (todo seen : list (S1 * S2)) : option (list (S1 * S2)) :=
    match fuel with
    | O => None
    | S f =>
        match todo with
        | [] => Some (rev seen)
        | p :: todo' =>
            if pmem p seen then explore f todo' seen
            else explore f (map (psucc p) reps ++ todo') (p :: seen)
        end
    end.

  (** Breadth-first search for a distinguishing string (untrusted; the
      result is validated by running both sides on it).
      [Some (Some s)]: the two automata disagree on [s];
      [Some None]: every reachable pair agrees; [None]: out of fuel. *)
  Fixpoint find_cex (fuel : nat) (todo : list ((S1 * S2) * list N)) (seen : list (S1 * S2))
    : option (option (list N)) :=
    match fuel with
    | O => None
    | S f =>
        match todo with
        | [] => Some None
        | (p, path) :: todo' =>
            if pmem p seen then find_cex f todo' seen
            else if Bool.eqb (acc1 (fst p)) (acc2 (snd p))
                 then find_cex f (todo' ++ map (fun c => (psucc p c, c :: path)) reps) (p :: seen)
                 else Some (Some (rev path))
        end
    end.
End Generic.

(* ------------------------------------------------------------------ *)
(** * Byte-class representatives (heuristic used by the explorers only) *)

Fixpoint regex_bounds (r : regex) : list N :=
  match r with
  | Class rs => flat_map (fun lh => [fst lh; snd lh + 1]) rs
  | Cat a b | Alt a b | And a b => regex_bounds a ++ regex_bounds b
  | Star a | Rep a _ _ => regex_bounds a
  | _ => []
  end.

Fixpoint row_bounds (prev : N) (i : N) (row : list N) : list N :=
  match row with
  | [] => []
  | x :: row' =>
      if x =? prev then row_bounds x (i + 1) row'
      else i :: row_bounds x (i + 1) row'
  end.

Definition table_bounds (tbl : list (list N)) : list N :=
  flat_map (fun row => match row with [] => [] | x :: row' => row_bounds x 1 row' end) tbl.

Definition reps_of (bounds : list N) : list N :=
  filter (fun c => if c =? 0 then true else existsb (N.eqb c) bounds) all_bytes.

(* ------------------------------------------------------------------ *)
(** * Table-driven DFA (model of the Rust validators) *)

(** [[
   let mut state = 0;
   for c in s { state = TABLE[state][c]; if state == 255 { return false } }
   acc.contains(state)
]]  [None] models an index-out-of-bounds panic. *)
Fixpoint dfa_go (tbl : list (list N)) (acc : list N) (q : N) (s : list N) : option bool :=
  match s with
  | [] => Some (existsb (N.eqb q) acc)
  | c :: s' =>
      match nth_opt tbl (N.to_nat q) with
      | None => None
      | Some row =>
          match nth_opt row (N.to_nat c) with
          | None => None
          | Some q' => if q' =? 255 then Some false else dfa_go tbl acc q' s'
          end
      end
  end.

Definition dfa_run (tbl : list (list N)) (acc : list N) (s : list N) : option bool :=
  dfa_go tbl acc 0 s.

Definition dfa_entry_ok (n : N) (x : N) : bool := if x =? 255 then true else x <? n.

Definition dfa_row_ok (n : N) (row : list N) : bool :=
  if Nat.eqb (length row) 256 then forallb (dfa_entry_ok n) row else false.

Definition dfa_table_ok (tbl : list (list N)) : bool :=
  match tbl with
  | [] => false
  | _ => forallb (dfa_row_ok (N.of_nat (length tbl))) tbl
  end.

(** The total transition function used by the bisimulation: 255 is a sink,
    and (never happening for a checked table) out-of-range goes to the sink. *)
Definition dfa_step (tbl : list (list N)) (q : N) (c : N) : N :=
  if q =? 255 then 255
  else match nth_opt tbl (N.to_nat q) with
       | None => 255
       | Some row => match nth_opt row (N.to_nat c) with
                     | None => 255
                     | Some q' => q'
                     end
       end.

Definition dfa_accb (acc : list N) (q : N) : bool :=
  if q =? 255 then false else existsb (N.eqb q) acc.

Lemma dfa_table_ok_spec tbl :
  dfa_table_ok tbl = true ->
  (0 < N.of_nat (length tbl)) /\
  forall q row, nth_opt tbl q = Some row ->
    length row = 256%nat /\
    forall c x, nth_opt row c = Some x -> x = 255 \/ x < N.of_nat (length tbl).
Proof.
  unfold dfa_table_ok. intros H. split.
  - destruct tbl; [discriminate|]. cbn [List.length]. lia.
  - intros q row Hq. assert (Hall : forallb (dfa_row_ok (N.of_nat (length tbl))) tbl = true).
    { destruct tbl; [discriminate|exact H]. }
    rewrite forallb_forall in Hall. specialize (Hall row (nth_opt_In _ _ _ Hq)).
    unfold dfa_row_ok in Hall.
    destruct (Nat.eqb (length row) 256) eqn:El; [|discriminate].
    apply Nat.eqb_eq in El. split; [exact El|].
    intros c x Hc. rewrite forallb_forall in Hall.
    specialize (Hall x (nth_opt_In _ _ _ Hc)). unfold dfa_entry_ok in Hall.
    destruct (N.eq_dec x 255) as [Heq|Hne]; [left; exact Heq|right].
    apply N.eqb_neq in Hne. rewrite Hne in Hall. apply N.ltb_lt. exact Hall.
Qed.

Lemma dfa_sink tbl s : fold_left (dfa_step tbl) s 255 = 255.
Proof.
  induction s as [|c s IH]; cbn [fold_left]; [reflexivity|].
  unfold dfa_step at 2. rewrite N.eqb_refl. exact IH.
Qed.

Lemma dfa_go_abstract tbl acc :
  dfa_table_ok tbl = true ->
  forall s, bytes_ok s = true ->
  forall q, q <> 255 -> q < N.of_nat (length tbl) ->
    dfa_go tbl acc q s = Some (dfa_accb acc (fold_left (dfa_step tbl) s q)).
Proof.
  intros Hok. destruct (dfa_table_ok_spec tbl Hok) as [_ Hrows].
  induction s as [|c s IH]; intros Hs q Hq Hlt.
  - cbn [dfa_go fold_left]. unfold dfa_accb.
    apply N.eqb_neq in Hq. rewrite Hq. reflexivity.
  - cbn [bytes_ok forallb] in Hs. apply andb_true_iff in Hs as [Hcb Hs].
    unfold is_byte in Hcb. apply N.ltb_lt in Hcb.
    cbn [dfa_go fold_left]. unfold dfa_step at 2.
    pose proof Hq as Hq'. apply N.eqb_neq in Hq'. rewrite Hq'.
    destruct (nth_opt_lt tbl (N.to_nat q)) as (row & Hrow); [lia|].
    rewrite Hrow. destruct (Hrows _ _ Hrow) as [Hlen Hent].
    destruct (nth_opt_lt row (N.to_nat c)) as (q' & Hq2); [lia|].
    rewrite Hq2. destruct (N.eq_dec q' 255) as [Heq|Hne].
    + subst q'. rewrite N.eqb_refl, dfa_sink. reflexivity.
    + pose proof Hne as Hne'. apply N.eqb_neq in Hne'. rewrite Hne'. apply IH; [exact Hs|exact Hne|].
      destruct (Hent _ _ Hq2) as [?|?]; [contradiction|assumption].
Qed.

Theorem dfa_run_no_panic : forall tbl acc s,
  dfa_table_ok tbl = true -> bytes_ok s = true -> dfa_run tbl acc s <> None.
Proof.
  intros tbl acc s Hok Hs. unfold dfa_run.
  destruct (dfa_table_ok_spec tbl Hok) as [Hpos _].
  rewrite (dfa_go_abstract tbl acc Hok s Hs 0); [discriminate|lia|exact Hpos].
Qed.

(* ------------------------------------------------------------------ *)
(** * DFA against regex *)

Definition rstep (r : regex) (c : N) : regex := deriv c r.

Lemma run2_rstep r s : run2 rstep r s = derivs r s.
Proof. reflexivity. Qed.

Lemma N_eqb_ok a b : N.eqb a b = true -> a = b.
Proof. apply N.eqb_eq. Qed.

Lemma regex_eqb_ok a b : regex_eqb a b = true -> a = b.
Proof. apply regex_eqb_spec. Qed.

Definition bisim_dfa_ok (tbl : list (list N)) (acc : list N) (r : regex)
           (R : list (N * regex)) : bool :=
  if pmem N.eqb regex_eqb (0, r) R
  then closed_ok (dfa_step tbl) rstep (dfa_accb acc) nullable N.eqb regex_eqb R
  else false.

Definition explore_dfa (fuel : nat) (tbl : list (list N)) (r : regex)
  : option (list (N * regex)) :=
  explore (dfa_step tbl) rstep N.eqb regex_eqb
          (reps_of (table_bounds tbl ++ regex_bounds r)) fuel [(0, r)] [].

Definition cex_dfa (fuel : nat) (tbl : list (list N)) (acc : list N) (r : regex)
  : option (option (list N)) :=
  find_cex (dfa_step tbl) rstep (dfa_accb acc) nullable N.eqb regex_eqb
           (reps_of (table_bounds tbl ++ regex_bounds r)) fuel [((0, r), [])] [].

Theorem bisim_dfa_sound : forall tbl acc r R,
  wfb r = true -> dfa_table_ok tbl = true -> bisim_dfa_ok tbl acc r R = true ->
  forall s, bytes_ok s = true -> (dfa_run tbl acc s = Some true <-> L r s).
Proof.
  intros tbl acc r R Hwf Hok Hb s Hs. unfold bisim_dfa_ok in Hb.
  destruct (pmem N.eqb regex_eqb (0, r) R) eqn:Hmem; [|discriminate].
  apply (pmem_In _ _ N_eqb_ok regex_eqb_ok) in Hmem.
  pose proof (closed_sound _ _ _ _ _ _ N_eqb_ok regex_eqb_ok R Hb s Hs _ Hmem) as H.
  cbn [fst snd] in H. rewrite run2_rstep in H. unfold run1 in H.
  destruct (dfa_table_ok_spec tbl Hok) as [Hpos _].
  unfold dfa_run. rewrite (dfa_go_abstract tbl acc Hok s Hs 0); [|lia|exact Hpos].
  rewrite H. rewrite <- (matchb_correct r s Hwf). unfold matchb.
  split; [intros [= ->]; reflexivity | intros ->; reflexivity].
Qed.

(** Corollary in the form used for a complete validator statement. *)
Corollary bisim_dfa_sound_bool : forall tbl acc r R,
  wfb r = true -> dfa_table_ok tbl = true -> bisim_dfa_ok tbl acc r R = true ->
  forall s, bytes_ok s = true -> dfa_run tbl acc s = Some (matchb r s).
Proof.
  intros tbl acc r R Hwf Hok Hb s Hs.
  pose proof (bisim_dfa_sound tbl acc r R Hwf Hok Hb s Hs) as H.
  pose proof (dfa_run_no_panic tbl acc s Hok Hs) as Hn.
  rewrite <- (matchb_correct r s Hwf) in H.
  destruct (dfa_run tbl acc s) as [[|]|]; [| |contradiction].
  - destruct H as [H _]. rewrite H; reflexivity.
  - destruct (matchb r s); [|reflexivity]. destruct H as [_ H]. discriminate H. reflexivity.
Qed.

(* ------------------------------------------------------------------ *)
(** * Regex against regex *)

Definition bisim_rr_ok (r1 r2 : regex) (R : list (regex * regex)) : bool :=
  if pmem regex_eqb regex_eqb (r1, r2) R
  then closed_ok rstep rstep nullable nullable regex_eqb regex_eqb R
  else false.

Definition explore_rr (fuel : nat) (r1 r2 : regex) : option (list (regex * regex)) :=
  explore rstep rstep regex_eqb regex_eqb
          (reps_of (regex_bounds r1 ++ regex_bounds r2)) fuel [(r1, r2)] [].

Definition cex_rr (fuel : nat) (r1 r2 : regex) : option (option (list N)) :=
  find_cex rstep rstep nullable nullable regex_eqb regex_eqb
           (reps_of (regex_bounds r1 ++ regex_bounds r2)) fuel [((r1, r2), [])] [].

Theorem bisim_rr_sound : forall r1 r2 R,
  wfb r1 = true -> wfb r2 = true -> bisim_rr_ok r1 r2 R = true ->
  forall s, bytes_ok s = true -> (L r1 s <-> L r2 s).
Proof.
  intros r1 r2 R Hwf1 Hwf2 Hb s Hs. unfold bisim_rr_ok in Hb.
  destruct (pmem regex_eqb regex_eqb (r1, r2) R) eqn:Hmem; [|discriminate].
  apply (pmem_In _ _ regex_eqb_ok regex_eqb_ok) in Hmem.
  pose proof (closed_sound _ _ _ _ _ _ regex_eqb_ok regex_eqb_ok R Hb s Hs _ Hmem) as H.
  cbn [fst snd] in H. rewrite !run2_rstep in H. unfold run1 in H.
  change (fold_left rstep s r1) with (derivs r1 s) in H.
  rewrite <- (matchb_correct r1 s Hwf1), <- (matchb_correct r2 s Hwf2).
  unfold matchb. rewrite H. reflexivity.
Qed.

(** A cheap refutation aid: the first pair of a candidate relation whose two
    components disagree on acceptance (witnesses that exploration found a
    distinguishing state). *)
Definition rr_disagree (R : list (regex * regex)) : option (regex * regex) :=
  find (fun p => negb (Bool.eqb (nullable (fst p)) (nullable (snd p)))) R.

Definition dfa_disagree (acc : list N) (R : list (N * regex)) : option (N * regex) :=
  find (fun p => negb (Bool.eqb (dfa_accb acc (fst p)) (nullable (snd p)))) R.

Print Assumptions dfa_run_no_panic.
Print Assumptions bisim_dfa_sound.
Print Assumptions bisim_dfa_sound_bool.
Print Assumptions bisim_rr_sound.
