(* Regex/Vexpr.v — a small combinator language mirroring the hand-written
   slice validators, its evaluator (with Rust panics as [None]), its
   translation to [regex], and the generic correctness theorem. *)
From AV Require Import Base.Bytes Regex.Regex.
From Coq Require Import PeanoNat Arith.

Local Open Scope N_scope.
Local Open Scope list_scope.

Local Notation length := List.length (only parsing).
Local Notation concat := List.concat (only parsing).

Inductive vexpr :=
| VLenGe (k : nat)
| VLenEq (k : nat)
| VLenLe (k : nat)
| VNonEmpty
| VStarts (lit : list N)
| VEq (lit : list N)
| VAll (cls : list (N * N))
| VAt (k : nat) (cls : list (N * N))
| VSkip (k : nat) (e : vexpr)
| VAnd (a b : vexpr)
| VOr (a b : vexpr)
| VStripOpt (cls : list (N * N)) (e : vexpr)
| VSplitAll (sep : N) (e : vexpr)
| VSplitCount (sep : N) (k : nat).

(* ------------------------------------------------------------------ *)
(** * Evaluator *)

Fixpoint prefixb (lit s : list N) : bool :=
  match lit, s with
  | [], _ => true
  | _ :: _, [] => false
  | c :: lit', d :: s' => if c =? d then prefixb lit' s' else false
  end.

(** Rust [slice::split]: n separators give n+1 parts, empty parts included. *)
Fixpoint split (sep : N) (s : list N) : list (list N) :=
  match s with
  | [] => [[]]
  | c :: s' =>
      if c =? sep then [] :: split sep s'
      else match split sep s' with
           | p :: ps => (c :: p) :: ps
           | [] => [[c]]
           end
  end.

(** [Iterator::all] — stops at the first [false]; a panic propagates. *)
Fixpoint all_opt (f : list N -> option bool) (ps : list (list N)) : option bool :=
  match ps with
  | [] => Some true
  | p :: ps' => match f p with
                | Some true => all_opt f ps'
                | r => r
                end
  end.

Fixpoint veval (e : vexpr) (s : list N) : option bool :=
  match e with
  | VLenGe k => Some (Nat.leb k (length s))
  | VLenEq k => Some (Nat.eqb (length s) k)
  | VLenLe k => Some (Nat.leb (length s) k)
  | VNonEmpty => Some (match s with [] => false | _ :: _ => true end)
  | VStarts lit => Some (prefixb lit s)
  | VEq lit => Some (bytes_eqb s lit)
  | VAll cls => Some (forallb (class_mem cls) s)
  | VAt k cls => match nth_opt s k with
                 | None => None
                 | Some c => Some (class_mem cls c)
                 end
  | VSkip k e' => if Nat.leb k (length s) then veval e' (skipn k s) else None
  | VAnd a b => match veval a s with
                | Some true => veval b s
                | r => r
                end
  | VOr a b => match veval a s with
               | Some false => veval b s
               | r => r
               end
  | VStripOpt cls e' =>
      match s with
      | c :: t => if class_mem cls c then veval e' t else veval e' s
      | [] => veval e' s
      end
  | VSplitAll sep e' => all_opt (veval e') (split sep s)
  | VSplitCount sep k => Some (Nat.eqb (length (split sep s)) k)
  end.

(* ------------------------------------------------------------------ *)
(** * Complement of a class within 0..255 *)

Definition sub_range (lo hi : N) (r : N * N) : list (N * N) :=
  (if fst r <? lo then [(fst r, N.min (snd r) (lo - 1))] else []) ++
  (if hi <? snd r then [(N.max (fst r) (hi + 1), snd r)] else []).

Definition complement (cls : list (N * N)) : list (N * N) :=
  fold_left (fun acc r => flat_map (sub_range (fst r) (snd r)) acc) cls [(0, 255)].

Lemma in_range_spec c r : in_range c r = true <-> fst r <= c /\ c <= snd r.
Proof. unfold in_range. rewrite andb_true_iff, !N.leb_le. reflexivity. Qed.

Lemma class_mem_app a b c : class_mem (a ++ b) c = class_mem a c || class_mem b c.
Proof. unfold class_mem. apply existsb_app. Qed.

Lemma class_mem_cons r a c : class_mem (r :: a) c = in_range c r || class_mem a c.
Proof. reflexivity. Qed.

Lemma class_mem_flat_map (f : N * N -> list (N * N)) l c :
  class_mem (flat_map f l) c = existsb (fun r => class_mem (f r) c) l.
Proof.
  induction l as [|r l IH]; cbn [flat_map existsb]; [reflexivity|].
  rewrite class_mem_app, IH. reflexivity.
Qed.

Lemma sub_range_spec lo hi r c :
  class_mem (sub_range lo hi r) c = true <->
  (fst r <= c /\ c <= snd r) /\ (c < lo \/ hi < c).
Proof.
  unfold sub_range. destruct r as [a b]. cbn [fst snd].
  rewrite class_mem_app, orb_true_iff.
  destruct (N.ltb_spec a lo) as [H1|H1]; destruct (N.ltb_spec hi b) as [H2|H2];
    rewrite ?class_mem_cons, ?orb_true_iff, ?in_range_spec; cbn [fst snd class_mem existsb];
    split; intros H; lia.
Qed.

Lemma complement_fold_spec cls : forall acc c,
  class_mem (fold_left (fun acc r => flat_map (sub_range (fst r) (snd r)) acc) cls acc) c = true <->
  class_mem acc c = true /\ class_mem cls c = false.
Proof.
  induction cls as [|r cls IH]; intros acc c; cbn [fold_left].
  - cbn [class_mem existsb]. tauto.
  - rewrite IH, class_mem_cons, orb_false_iff, class_mem_flat_map, existsb_exists.
    split.
    + intros [(x & Hx & Hs) Hc]. apply sub_range_spec in Hs as [Hr Hout].
      repeat split; try assumption.
      * unfold class_mem. apply existsb_exists. exists x. split; [exact Hx|].
        apply in_range_spec. exact Hr.
      * apply not_true_is_false. rewrite in_range_spec. lia.
    + intros (Ha & Hr & Hc). split; [|exact Hc].
      unfold class_mem in Ha. apply existsb_exists in Ha as (x & Hx & Hin).
      exists x. split; [exact Hx|]. apply sub_range_spec. apply in_range_spec in Hin.
      split; [exact Hin|]. apply not_true_iff_false in Hr. rewrite in_range_spec in Hr. lia.
Qed.

Lemma complement_spec cls c :
  class_mem (complement cls) c = true <-> c < 256 /\ class_mem cls c = false.
Proof.
  unfold complement. rewrite complement_fold_spec.
  cbn [class_mem existsb]. rewrite orb_false_r, in_range_spec. cbn [fst snd]. intuition lia.
Qed.

Theorem complement_correct cls c :
  c < 256 -> class_mem (complement cls) c = negb (class_mem cls c).
Proof.
  intros Hc. pose proof (complement_spec cls c) as H.
  destruct (class_mem cls c); cbn [negb].
  - apply not_true_is_false. intros E. apply H in E as [_ E]. discriminate.
  - apply H. auto.
Qed.

(* ------------------------------------------------------------------ *)
(** * Translation to regex *)

Definition any : regex := Class [(0, 255)].

Definition lit_regex (lit : list N) : regex :=
  fold_right (fun c r => Cat (Class [(c, c)]) r) Eps lit.

Definition nosep_star (sep : N) : regex := Star (Class (complement [(sep, sep)])).

Fixpoint vregex (e : vexpr) : regex :=
  match e with
  | VLenGe k => Cat (Rep any k k) (Star any)
  | VLenEq k => Rep any k k
  | VLenLe k => Rep any 0 k
  | VNonEmpty => Cat any (Star any)
  | VStarts lit => Cat (lit_regex lit) (Star any)
  | VEq lit => lit_regex lit
  | VAll cls => Star (Class cls)
  | VAt k cls => Cat (Rep any k k) (Cat (Class cls) (Star any))
  | VSkip k e' => Cat (Rep any k k) (vregex e')
  | VAnd a b => And (vregex a) (vregex b)
  | VOr a b => Alt (vregex a) (vregex b)
  | VStripOpt cls e' =>
      Alt (Cat (Class cls) (vregex e'))
          (And (vregex e') (Alt Eps (Cat (Class (complement cls)) (Star any))))
  | VSplitAll sep e' =>
      let p := And (vregex e') (nosep_star sep) in
      Cat p (Star (Cat (Class [(sep, sep)]) p))
  | VSplitCount sep k =>
      match k with
      | O => Empty
      | S j => let n := nosep_star sep in Cat n (Rep (Cat (Class [(sep, sep)]) n) j j)
      end
  end.

(* ------------------------------------------------------------------ *)
(** * Languages of the building blocks *)

Lemma bytes_ok_cons c s : bytes_ok (c :: s) = true <-> c < 256 /\ bytes_ok s = true.
Proof.
  cbn [bytes_ok forallb]. rewrite andb_true_iff. unfold is_byte. rewrite N.ltb_lt. reflexivity.
Qed.

Lemma bytes_ok_app a b : bytes_ok (a ++ b) = true <-> bytes_ok a = true /\ bytes_ok b = true.
Proof. unfold bytes_ok. rewrite forallb_app, andb_true_iff. reflexivity. Qed.

Lemma bytes_ok_skipn k s : bytes_ok s = true -> bytes_ok (skipn k s) = true.
Proof.
  intros H. rewrite <- (firstn_skipn k s) in H. apply bytes_ok_app in H. apply H.
Qed.

Lemma bytes_ok_firstn k s : bytes_ok s = true -> bytes_ok (firstn k s) = true.
Proof.
  intros H. rewrite <- (firstn_skipn k s) in H. apply bytes_ok_app in H. apply H.
Qed.

Lemma class_any c : class_mem [(0, 255)] c = is_byte c.
Proof.
  unfold is_byte. cbn [class_mem existsb]. rewrite orb_false_r.
  apply eq_true_iff_eq. rewrite in_range_spec, N.ltb_lt. cbn [fst snd]. lia.
Qed.

Lemma forallb_any s : forallb (class_mem [(0, 255)]) s = bytes_ok s.
Proof.
  unfold bytes_ok. induction s as [|c s IH]; cbn [forallb]; [reflexivity|].
  rewrite class_any, IH. reflexivity.
Qed.

Lemma class_single sep c : class_mem [(sep, sep)] c = true <-> c = sep.
Proof.
  cbn [class_mem existsb]. rewrite orb_false_r, in_range_spec. cbn [fst snd]. lia.
Qed.

Lemma class_pieces cls ss :
  Forall (L (Class cls)) ss ->
  length (concat ss) = length ss /\ forallb (class_mem cls) (concat ss) = true.
Proof.
  induction 1 as [|x ss Hx HF [IH1 IH2]]; cbn [List.concat List.length]; [auto|].
  apply L_Class_iff in Hx as (c & -> & Hc). cbn [app List.length forallb].
  rewrite IH1, Hc, IH2. auto.
Qed.

Lemma class_pieces_inv cls s :
  forallb (class_mem cls) s = true ->
  Forall (L (Class cls)) (map (fun c => [c]) s) /\ concat (map (fun c => [c]) s) = s.
Proof.
  induction s as [|c s IH]; cbn [forallb map List.concat]; [auto|].
  intros H. apply andb_true_iff in H as [Hc Hs]. destruct (IH Hs) as [IH1 IH2].
  split; [constructor; [constructor; exact Hc|exact IH1]|].
  cbn [app]. rewrite IH2. reflexivity.
Qed.

Lemma L_Star_Class cls s : L (Star (Class cls)) s <-> forallb (class_mem cls) s = true.
Proof.
  rewrite L_Star_iff. split.
  - intros (ss & HF & ->). apply (class_pieces cls ss HF).
  - intros H. destruct (class_pieces_inv cls s H) as [H1 H2]. eauto.
Qed.

Lemma L_Rep_Class cls lo hi s :
  L (Rep (Class cls) lo hi) s <->
  forallb (class_mem cls) s = true /\ (lo <= length s)%nat /\ (length s <= hi)%nat.
Proof.
  rewrite L_Rep_iff. split.
  - intros (ss & H1 & H2 & HF & ->). destruct (class_pieces cls ss HF) as [Hl Hf].
    rewrite Hl. auto.
  - intros (H & H1 & H2). destruct (class_pieces_inv cls s H) as [HF Hc].
    exists (map (fun c => [c]) s). rewrite map_length. auto.
Qed.

Lemma L_Star_any s : L (Star any) s <-> bytes_ok s = true.
Proof. unfold any. rewrite L_Star_Class, forallb_any. reflexivity. Qed.

Lemma L_Rep_any lo hi s :
  L (Rep any lo hi) s <-> bytes_ok s = true /\ (lo <= length s)%nat /\ (length s <= hi)%nat.
Proof. unfold any. rewrite L_Rep_Class, forallb_any. reflexivity. Qed.

Lemma L_Cat_Class_cons cls r s :
  L (Cat (Class cls) r) s <-> exists c t, s = c :: t /\ class_mem cls c = true /\ L r t.
Proof.
  rewrite L_Cat_iff. split.
  - intros (s1 & s2 & -> & H1 & H2). apply L_Class_iff in H1 as (c & -> & Hc).
    exists c, s2. auto.
  - intros (c & t & -> & Hc & Ht). exists [c], t. repeat split; [constructor; exact Hc|exact Ht].
Qed.

Lemma skipn_app_exact {A} (s1 s2 : list A) : skipn (length s1) (s1 ++ s2) = s2.
Proof. induction s1 as [|x s1 IH]; cbn [List.length skipn app]; auto. Qed.

(** Skipping exactly k arbitrary bytes. *)
Lemma L_Cat_skip k r s :
  bytes_ok s = true ->
  (L (Cat (Rep any k k) r) s <-> (k <= length s)%nat /\ L r (skipn k s)).
Proof.
  intros Hs. rewrite L_Cat_iff. split.
  - intros (s1 & s2 & -> & H1 & H2). apply L_Rep_any in H1 as (_ & Hlo & Hhi).
    assert (length s1 = k) as <- by lia. rewrite skipn_app_exact, app_length.
    split; [lia|exact H2].
  - intros [Hk Hr]. exists (firstn k s), (skipn k s).
    rewrite firstn_skipn. repeat split; try assumption.
    apply L_Rep_any. rewrite firstn_length_le by exact Hk.
    repeat split; auto. apply bytes_ok_firstn, Hs.
Qed.

Lemma L_lit lit s : L (lit_regex lit) s <-> s = lit.
Proof.
  revert s. induction lit as [|c lit IH]; intros s; cbn [lit_regex fold_right].
  - apply L_Eps_iff.
  - fold (lit_regex lit). rewrite L_Cat_Class_cons. split.
    + intros (c' & t & -> & Hc & Ht). apply class_single in Hc. apply IH in Ht. subst. reflexivity.
    + intros ->. exists c, lit. repeat split; [apply class_single; reflexivity|apply IH; reflexivity].
Qed.

Lemma prefixb_spec lit s : prefixb lit s = true <-> exists t, s = lit ++ t.
Proof.
  revert s. induction lit as [|c lit IH]; intros s; cbn [prefixb].
  - split; [intros _; exists s; reflexivity|reflexivity].
  - destruct s as [|d s].
    + split; [discriminate|]. intros (t & H). discriminate.
    + destruct (N.eqb_spec c d) as [->|Hne].
      * rewrite IH. split; intros (t & H); exists t; cbn [app] in *; congruence.
      * split; [discriminate|]. intros (t & H). cbn [app] in H. congruence.
Qed.

Lemma nth_opt_skipn {A} (s : list A) k c :
  nth_opt s k = Some c -> exists t, skipn k s = c :: t.
Proof.
  revert k. induction s as [|x s IH]; intros [|k]; cbn [nth_opt skipn]; try discriminate.
  - intros [= ->]. eauto.
  - apply IH.
Qed.

(* ------------------------------------------------------------------ *)
(** * Splitting at a separator *)

Lemma split_shape sep s : exists p ps, split sep s = p :: ps.
Proof.
  induction s as [|c s (p & ps & IH)]; cbn [split]; [eauto|].
  destruct (c =? sep); [eauto|]. rewrite IH. eauto.
Qed.

Lemma split_app_sep sep p t : ~ In sep p -> split sep (p ++ sep :: t) = p :: split sep t.
Proof.
  induction p as [|c p IH]; intros Hn; cbn [app split].
  - rewrite N.eqb_refl. reflexivity.
  - destruct (N.eqb_spec c sep) as [->|Hne]; [exfalso; apply Hn; left; reflexivity|].
    rewrite IH; [reflexivity|]. intros Hin. apply Hn. right. exact Hin.
Qed.

Lemma split_nosep sep p : ~ In sep p -> split sep p = [p].
Proof.
  induction p as [|c p IH]; intros Hn; cbn [split]; [reflexivity|].
  destruct (N.eqb_spec c sep) as [->|Hne]; [exfalso; apply Hn; left; reflexivity|].
  rewrite IH; [reflexivity|]. intros Hin. apply Hn. right. exact Hin.
Qed.

Lemma split_parts sep s :
  bytes_ok s = true -> Forall (fun p => bytes_ok p = true /\ ~ In sep p) (split sep s).
Proof.
  induction s as [|c s IH]; intros Hs; cbn [split].
  - constructor; [split; [reflexivity|intros []]|constructor].
  - apply bytes_ok_cons in Hs as [Hc Hs]. specialize (IH Hs).
    destruct (N.eqb_spec c sep) as [->|Hne].
    + constructor; [split; [reflexivity|intros []]|exact IH].
    + destruct (split_shape sep s) as (p & ps & E). rewrite E in *.
      apply Forall_cons_iff in IH as [[Hp1 Hp2] Hps]. constructor; [|exact Hps].
      split; [apply bytes_ok_cons; auto|].
      intros [Heq|Hin]; [congruence|contradiction].
Qed.

Lemma join_split sep s : forall p ps,
  split sep s = p :: ps -> s = p ++ concat (map (cons sep) ps).
Proof.
  induction s as [|c s IH]; intros p ps; cbn [split].
  - intros [= <- <-]. reflexivity.
  - destruct (N.eqb_spec c sep) as [->|Hne].
    + intros [= <- <-]. destruct (split_shape sep s) as (p' & ps' & E). rewrite E.
      cbn [map List.concat app]. rewrite <- (IH _ _ E). reflexivity.
    + destruct (split_shape sep s) as (p' & ps' & E). rewrite E.
      intros [= <- <-]. cbn [app]. rewrite <- (IH _ _ E). reflexivity.
Qed.

Lemma split_length sep s : (length (split sep s) <= S (length s))%nat.
Proof.
  induction s as [|c s IH]; cbn [split List.length]; [auto|].
  destruct (c =? sep); cbn [List.length]; [lia|].
  destruct (split sep s) as [|p ps]; cbn [List.length] in *; lia.
Qed.

Section SplitRegex.
  Variable sep : N.
  Variable p : regex.
  Hypothesis Hp : forall t, L p t -> ~ In sep t.

  Let q : regex := Cat (Class [(sep, sep)]) p.

  Lemma q_inv t : L q t -> exists t', t = sep :: t' /\ L p t'.
  Proof.
    unfold q. rewrite L_Cat_Class_cons. intros (c & t' & -> & Hc & Ht).
    apply class_single in Hc. subst. eauto.
  Qed.

  Lemma q_intro t : L p t -> L q (sep :: t).
  Proof.
    intros H. unfold q. apply L_Cat_Class_cons. exists sep, t.
    repeat split; [apply class_single; reflexivity|exact H].
  Qed.

  Lemma split_pieces : forall ss s0,
    ~ In sep s0 -> Forall (L q) ss ->
    exists ts, split sep (s0 ++ concat ss) = s0 :: ts /\ length ts = length ss /\ Forall (L p) ts.
  Proof.
    induction ss as [|x ss IH]; intros s0 Hs0 HF.
    - cbn [List.concat]. rewrite app_nil_r, (split_nosep sep s0 Hs0). exists []. auto.
    - inversion HF as [|? ? Hx HF']; subst.
      apply q_inv in Hx as (t' & -> & Ht').
      destruct (IH t' (Hp _ Ht') HF') as (ts & E & Hl & Hts).
      exists (t' :: ts). cbn [List.concat app List.length].
      rewrite (split_app_sep sep s0 _ Hs0), E. repeat split; auto.
  Qed.

  Lemma pieces_of_parts ts : Forall (L p) ts -> Forall (L q) (map (cons sep) ts).
  Proof.
    induction 1 as [|t ts Ht HF IH]; cbn [map]; constructor; [apply q_intro; exact Ht|exact IH].
  Qed.

  Lemma L_split_all s : L (Cat p (Star q)) s <-> Forall (L p) (split sep s).
  Proof.
    rewrite L_Cat_iff. split.
    - intros (s0 & s2 & -> & H0 & H2). apply L_Star_iff in H2 as (ss & HF & ->).
      destruct (split_pieces ss s0 (Hp _ H0) HF) as (ts & -> & _ & Hts).
      constructor; assumption.
    - intros HF. destruct (split_shape sep s) as (s0 & ts & E). rewrite E in HF.
      inversion HF as [|? ? H0 Hts]; subst.
      exists s0, (concat (map (cons sep) ts)). repeat split.
      + apply (join_split sep s _ _ E).
      + exact H0.
      + constructor. apply pieces_of_parts, Hts.
  Qed.

  Lemma L_split_count j s :
    L (Cat p (Rep q j j)) s <->
    length (split sep s) = S j /\ Forall (L p) (split sep s).
  Proof.
    rewrite L_Cat_iff. split.
    - intros (s0 & s2 & -> & H0 & H2). apply L_Rep_iff in H2 as (ss & Hlo & Hhi & HF & ->).
      destruct (split_pieces ss s0 (Hp _ H0) HF) as (ts & -> & Hl & Hts).
      cbn [List.length]. split; [lia|constructor; assumption].
    - intros [Hl HF]. destruct (split_shape sep s) as (s0 & ts & E). rewrite E in HF, Hl.
      inversion HF as [|? ? H0 Hts]; subst. cbn [List.length] in Hl.
      exists s0, (concat (map (cons sep) ts)). repeat split.
      + apply (join_split sep s _ _ E).
      + exact H0.
      + constructor; [rewrite map_length; lia|rewrite map_length; lia|].
        apply pieces_of_parts, Hts.
  Qed.
End SplitRegex.

Lemma L_nosep_star sep t : L (nosep_star sep) t <-> bytes_ok t = true /\ ~ In sep t.
Proof.
  unfold nosep_star. rewrite L_Star_Class, forallb_forall. split.
  - intros H. split.
    + apply bytes_ok_forall, Forall_forall. intros c Hc.
      apply H, complement_spec in Hc. apply Hc.
    + intros Hin. apply H, complement_spec in Hin as [_ Hin].
      apply not_true_iff_false in Hin. apply Hin, class_single. reflexivity.
  - intros [Hb Hn] c Hc. apply complement_spec. split.
    + apply bytes_ok_forall in Hb. rewrite Forall_forall in Hb. apply Hb, Hc.
    + apply not_true_is_false. intros E. apply class_single in E. subst. contradiction.
Qed.

Lemma all_opt_spec (f : list N -> option bool) (Q : list N -> Prop) ps b :
  (forall p b', In p ps -> f p = Some b' -> (b' = true <-> Q p)) ->
  all_opt f ps = Some b -> (b = true <-> Forall Q ps).
Proof.
  induction ps as [|p ps IH]; intros Hf; cbn [all_opt].
  - intros [= <-]. split; [constructor|reflexivity].
  - destruct (f p) as [[|]|] eqn:E; [| |discriminate].
    + intros H. rewrite (IH (fun p' b' Hin => Hf p' b' (or_intror Hin)) H).
      pose proof (Hf p true (or_introl eq_refl) E) as Hp.
      split; [intros HF; constructor; [apply Hp; reflexivity|exact HF]|].
      intros HF; inversion HF; assumption.
    + intros [= <-]. pose proof (Hf p false (or_introl eq_refl) E) as Hp.
      split; [discriminate|]. intros HF; inversion HF as [|? ? Hq _]; subst.
      apply Hp in Hq. discriminate.
Qed.

(* ------------------------------------------------------------------ *)
(** * The generic theorem *)

Theorem veval_regex : forall e s b,
  bytes_ok s = true -> veval e s = Some b -> (b = true <-> L (vregex e) s).
Proof.
  induction e as [k|k|k| |lit|lit|cls|k cls|k e' IH|a IHa b0 IHb|a IHa b0 IHb|cls e' IH|sep e' IH|sep k];
    intros s b Hs; cbn [veval vregex].
  - (* VLenGe *)
    intros [= <-]. rewrite (L_Cat_skip k _ s Hs), L_Star_any, Nat.leb_le.
    pose proof (bytes_ok_skipn k s Hs). tauto.
  - (* VLenEq *)
    intros [= <-]. rewrite L_Rep_any, Nat.eqb_eq. intuition lia.
  - (* VLenLe *)
    intros [= <-]. rewrite L_Rep_any, Nat.leb_le. intuition lia.
  - (* VNonEmpty *)
    intros [= <-]. unfold any at 1. rewrite L_Cat_Class_cons. destruct s as [|c t].
    + split; [discriminate|]. intros (c & t & H & _). discriminate.
    + apply bytes_ok_cons in Hs as [Hc Ht]. split; [intros _|reflexivity].
      exists c, t. repeat split.
      * rewrite class_any. unfold is_byte. apply N.ltb_lt, Hc.
      * apply L_Star_any, Ht.
  - (* VStarts *)
    intros [= <-]. rewrite prefixb_spec, L_Cat_iff. split.
    + intros (t & ->). apply bytes_ok_app in Hs as [_ Ht].
      exists lit, t. repeat split; [apply L_lit; reflexivity|apply L_Star_any, Ht].
    + intros (s1 & s2 & -> & H1 & _). apply L_lit in H1. subst. eauto.
  - (* VEq *)
    intros [= <-]. rewrite bytes_eqb_spec, L_lit. reflexivity.
  - (* VAll *)
    intros [= <-]. rewrite L_Star_Class. reflexivity.
  - (* VAt *)
    destruct (nth_opt s k) as [c|] eqn:E; [|discriminate]. intros [= <-].
    rewrite (L_Cat_skip k _ s Hs). pose proof (nth_opt_Some _ _ _ E) as Hk.
    destruct (nth_opt_skipn _ _ _ E) as (t & Ht). rewrite Ht, L_Cat_Class_cons.
    pose proof (bytes_ok_skipn k s Hs) as Hsk. rewrite Ht in Hsk.
    apply bytes_ok_cons in Hsk as [_ Hsk]. split.
    + intros Hc. split; [lia|]. exists c, t. repeat split; [exact Hc|apply L_Star_any, Hsk].
    + intros (_ & c' & t' & [= <- <-] & Hc & _). exact Hc.
  - (* VSkip *)
    destruct (Nat.leb k (length s)) eqn:E; [|discriminate]. intros Hv.
    apply Nat.leb_le in E. rewrite (L_Cat_skip k _ s Hs).
    rewrite (IH _ _ (bytes_ok_skipn k s Hs) Hv). tauto.
  - (* VAnd *)
    rewrite L_And_iff. destruct (veval a s) as [[|]|] eqn:Ea; [| |discriminate].
    + intros Hb. pose proof (IHa s true Hs Ea) as Ha. rewrite (IHb s b Hs Hb). tauto.
    + intros [= <-]. pose proof (IHa s false Hs Ea) as Ha.
      split; [discriminate|]. intros [H _]. apply Ha in H. discriminate.
  - (* VOr *)
    rewrite L_Alt_iff. destruct (veval a s) as [[|]|] eqn:Ea; [| |discriminate].
    + intros [= <-]. pose proof (IHa s true Hs Ea) as Ha. tauto.
    + intros Hb. pose proof (IHa s false Hs Ea) as Ha. rewrite (IHb s b Hs Hb).
      split; [auto|]. intros [H|H]; [apply Ha in H; discriminate|exact H].
  - (* VStripOpt *)
    rewrite L_Alt_iff, L_And_iff, L_Alt_iff, L_Eps_iff, !L_Cat_Class_cons.
    destruct s as [|c t].
    + intros Hv. rewrite (IH _ _ Hs Hv). split; [auto|].
      intros [(c & t & H & _)|[H _]]; [discriminate|exact H].
    + pose proof Hs as Hs'. apply bytes_ok_cons in Hs' as [Hc Ht].
      destruct (class_mem cls c) eqn:Ec.
      * intros Hv. rewrite (IH _ _ Ht Hv). split.
        -- intros H. left. exists c, t. auto.
        -- intros [(c' & t' & [= <- <-] & _ & H)|[_ [H|(c' & t' & [= <- <-] & H & _)]]].
           ++ exact H.
           ++ discriminate.
           ++ apply complement_spec in H as [_ H]. congruence.
      * intros Hv. rewrite (IH _ _ Hs Hv). split.
        -- intros H. right. split; [exact H|]. right. exists c, t. repeat split.
           ++ apply complement_spec. auto.
           ++ apply L_Star_any, Ht.
        -- intros [(c' & t' & [= <- <-] & H & _)|[H _]]; [congruence|exact H].
  - (* VSplitAll *)
    intros Hv. cbn zeta.
    rewrite (L_split_all sep (And (vregex e') (nosep_star sep))).
    2:{ intros t Ht. apply L_And_iff in Ht as [_ Ht]. apply L_nosep_star in Ht. apply Ht. }
    pose proof (split_parts sep s Hs) as Hparts. rewrite Forall_forall in Hparts.
    rewrite (all_opt_spec (veval e') (L (vregex e')) _ _
               (fun p b' Hin Hp => IH p b' (proj1 (Hparts p Hin)) Hp) Hv).
    rewrite !Forall_forall. split; intros H x Hx.
    + apply L_And_iff. split; [apply H, Hx|]. apply L_nosep_star, Hparts, Hx.
    + specialize (H x Hx). apply L_And_iff in H. apply H.
  - (* VSplitCount *)
    intros [= <-]. destruct k as [|j].
    + rewrite L_Empty_iff, Nat.eqb_eq. destruct (split_shape sep s) as (p & ps & ->).
      cbn [List.length]. split; [discriminate|intros []].
    + cbn zeta. rewrite (L_split_count sep (nosep_star sep)).
      2:{ intros t Ht. apply L_nosep_star in Ht. apply Ht. }
      rewrite Nat.eqb_eq. split; [|tauto]. intros Hl. split; [exact Hl|].
      pose proof (split_parts sep s Hs) as Hparts. rewrite Forall_forall in *.
      intros x Hx. apply L_nosep_star, Hparts, Hx.
Qed.

Theorem vregex_wf : forall e, wfb (vregex e) = true.
Proof. intros e. apply wfb_true. Qed.

(** In boolean form, through the derivative matcher. *)
Corollary veval_matchb : forall e s b,
  bytes_ok s = true -> veval e s = Some b -> b = matchb (vregex e) s.
Proof.
  intros e s b Hs Hv. pose proof (veval_regex e s b Hs Hv) as H.
  rewrite <- (matchb_correct (vregex e) s (vregex_wf e)) in H.
  destruct b, (matchb (vregex e) s); try reflexivity.
  - symmetry. apply H. reflexivity.
  - apply H. reflexivity.
Qed.

(* ------------------------------------------------------------------ *)
(** * Static no-panic check *)

(** A lower bound on [length s] implied by [veval e s = Some true]. *)
Fixpoint vminlen (e : vexpr) : nat :=
  match e with
  | VLenGe k => k
  | VLenEq k => k
  | VNonEmpty => 1
  | VStarts lit => length lit
  | VEq lit => length lit
  | VAt k _ => S k
  | VSkip k e' => k + vminlen e'
  | VAnd a b => Nat.max (vminlen a) (vminlen b)
  | VOr a b => Nat.min (vminlen a) (vminlen b)
  | VStripOpt _ e' => vminlen e'
  | VSplitCount _ k => Nat.pred k
  | _ => 0
  end%nat.

Fixpoint vsafe (n : nat) (e : vexpr) : bool :=
  match e with
  | VAt k _ => Nat.ltb k n
  | VSkip k e' => if Nat.leb k n then vsafe (n - k) e' else false
  | VAnd a b => if vsafe n a then vsafe (Nat.max n (vminlen a)) b else false
  | VOr a b => if vsafe n a then vsafe n b else false
  | VStripOpt _ e' => vsafe (Nat.pred n) e'
  | VSplitAll _ e' => vsafe 0 e'
  | _ => true
  end.

Lemma vminlen_sound : forall e s, veval e s = Some true -> (vminlen e <= length s)%nat.
Proof.
  induction e as [k|k|k| |lit|lit|cls|k cls|k e' IH|a IHa b0 IHb|a IHa b0 IHb|cls e' IH|sep e' IH|sep k];
    intros s; cbn [veval vminlen]; try (intros _; apply Nat.le_0_l).
  - intros [= H]. apply Nat.leb_le, H.
  - intros [= H]. apply Nat.eqb_eq in H. lia.
  - destruct s; [discriminate|]. cbn [List.length]. lia.
  - intros [= H]. apply prefixb_spec in H as (t & ->). rewrite app_length. lia.
  - intros [= H]. apply bytes_eqb_spec in H. subst. auto.
  - destruct (nth_opt s k) eqn:E; [|discriminate]. intros _.
    apply nth_opt_Some in E. lia.
  - destruct (Nat.leb k (length s)) eqn:E; [|discriminate]. intros H.
    apply Nat.leb_le in E. apply IH in H. rewrite skipn_length in H. lia.
  - destruct (veval a s) as [[|]|] eqn:Ea; try discriminate. intros H.
    specialize (IHa s Ea). specialize (IHb s H). lia.
  - destruct (veval a s) as [[|]|] eqn:Ea; try discriminate.
    + intros _. specialize (IHa s Ea). lia.
    + intros H. specialize (IHb s H). lia.
  - destruct s as [|c t]; [apply IH|].
    destruct (class_mem cls c); intros H; apply IH in H; cbn [List.length] in *; lia.
  - intros [= H]. apply Nat.eqb_eq in H. pose proof (split_length sep s). lia.
Qed.

Lemma all_opt_no_panic (f : list N -> option bool) ps :
  (forall p, f p <> None) -> all_opt f ps <> None.
Proof.
  intros Hf. induction ps as [|p ps IH]; cbn [all_opt]; [discriminate|].
  specialize (Hf p). destruct (f p) as [[|]|]; [exact IH|discriminate|contradiction].
Qed.

Theorem vsafe_no_panic : forall e s n,
  vsafe n e = true -> (n <= length s)%nat -> veval e s <> None.
Proof.
  induction e as [k|k|k| |lit|lit|cls|k cls|k e' IH|a IHa b0 IHb|a IHa b0 IHb|cls e' IH|sep e' IH|sep k];
    intros s n; cbn [veval vsafe]; try discriminate.
  - intros Hk Hn. apply Nat.ltb_lt in Hk.
    destruct (nth_opt_lt s k) as (c & ->); [lia|discriminate].
  - destruct (Nat.leb k n) eqn:Ek; [|discriminate]. intros Hv Hn. apply Nat.leb_le in Ek.
    assert (Hks : Nat.leb k (length s) = true) by (apply Nat.leb_le; lia). rewrite Hks.
    apply (IH _ (n - k)%nat Hv). rewrite skipn_length. lia.
  - destruct (vsafe n a) eqn:Ha; [|discriminate]. intros Hb Hn.
    pose proof (IHa s n Ha Hn) as Hna.
    destruct (veval a s) as [[|]|] eqn:Ea; [|discriminate|contradiction].
    apply (IHb s _ Hb). pose proof (vminlen_sound a s Ea). lia.
  - destruct (vsafe n a) eqn:Ha; [|discriminate]. intros Hb Hn.
    pose proof (IHa s n Ha Hn) as Hna.
    destruct (veval a s) as [[|]|] eqn:Ea; [discriminate| |contradiction].
    apply (IHb s n Hb Hn).
  - intros Hv Hn. destruct s as [|c t].
    + apply (IH _ _ Hv). cbn [List.length] in *. lia.
    + destruct (class_mem cls c); apply (IH _ _ Hv); cbn [List.length] in *; lia.
  - intros Hv _. apply all_opt_no_panic. intros p. apply (IH p 0%nat Hv). lia.
Qed.

(** Everything together for one hand-written validator. *)
Corollary vexpr_validator_correct : forall e,
  vsafe 0 e = true ->
  forall s, bytes_ok s = true ->
  exists b, veval e s = Some b /\ (b = true <-> L (vregex e) s).
Proof.
  intros e Hsafe s Hs. pose proof (vsafe_no_panic e s 0%nat Hsafe (Nat.le_0_l _)) as Hn.
  destruct (veval e s) as [b|] eqn:E; [|contradiction].
  exists b. split; [reflexivity|]. apply (veval_regex e s b Hs E).
Qed.

Print Assumptions complement_correct.
Print Assumptions veval_regex.
Print Assumptions vregex_wf.
Print Assumptions vsafe_no_panic.
Print Assumptions vexpr_validator_correct.
