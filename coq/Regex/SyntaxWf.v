(* Regex/SyntaxWf.v — shape condition on concrete syntax trees that makes the printer faithful to operator
   precedence: an alternation is never a direct child of a sequence / alternation / quantifier, a sequence
   never of a sequence / quantifier, and quantifier operands are atoms.  Together with
   rx_text cst = published text this pins the tree the (untrusted) Python parser must have produced. *)
From AV Require Import Base.Bytes Regex.Regex Regex.Syntax.
Open Scope N_scope.

Definition is_atom (r : rx) : bool :=
  match r with RChar _ | REsc _ | RDigit | RDot | RClass _ | RGroup _ => true | _ => false end.
Definition is_quant (r : rx) : bool :=
  match r with ROpt _ | RStar _ | RPlus _ | RCount _ _ | RRange _ _ _ => true | _ => false end.
Definition seq_item_ok (r : rx) : bool := is_atom r || is_quant r.
Definition alt_item_ok (r : rx) : bool := match r with RAlt _ => false | _ => true end.

(* characters that may appear as RChar: anything that is not a metacharacter *)
Definition plain_char (c : N) : bool :=
  negb (existsb (N.eqb c) [40; 41; 91; 93; 123; 125; 124; 63; 42; 43; 94; 36; 92; 46]).
(* class members that may appear unescaped (']' '\' never; '-' only as written, checked by text equality) *)
Definition class_char (c : N) : bool := negb (existsb (N.eqb c) [93; 92]).
Definition citem_wf (i : citem) : bool :=
  match i with
  | CChar c => class_char c
  | CEsc c => true
  | CRange lo hi => class_char lo && class_char hi && (lo <=? hi) && negb (lo =? 45) && negb (hi =? 45)
  | CDigitEsc => true
  end.

Fixpoint rx_wf (r : rx) : bool :=
  match r with
  | RChar c => plain_char c
  | REsc c => negb (c =? 100)          (* \d is RDigit *)
  | RDigit | RDot => true
  | RClass items => forallb citem_wf items && negb (match items with [] => true | _ => false end)
  | RGroup r => rx_wf r
  | RSeq rs => forallb seq_item_ok rs && negb (Nat.eqb (List.length rs) 1)
               && (fix all (l : list rx) : bool := match l with [] => true | x :: l' => rx_wf x && all l' end) rs
  | RAlt rs => forallb alt_item_ok rs && Nat.leb 2 (List.length rs)
               && (fix all (l : list rx) : bool := match l with [] => true | x :: l' => rx_wf x && all l' end) rs
  | ROpt r | RStar r | RPlus r => is_atom r && rx_wf r
  | RCount r _ => is_atom r && rx_wf r
  | RRange r lo hi => is_atom r && rx_wf r && Nat.leb lo hi
  end.
