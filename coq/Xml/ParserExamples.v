(* Xml/ParserExamples.v — non-vacuity of the C02 / C08 theorems on the REAL (regenerated) tables, and the witnesses
   of the holes of strict validation (..._refuted).  The validator oracle is instantiated with "accept" here: the
   examples do not depend on pattern verdicts, and the loader hypotheses only need validators that return a value. *)
From AV Require Import Base.Bytes Base.Outcome Base.Utf8 Hash.HashModel Spec.SpecOps Spec.SpecReal Spec.Versions
  Xml.Lexer Xml.Parser Xml.TablesOk Xml.TablesOkReal Xml.ParserProofs Xml.StrictValidDef.
From AV Require Import Hash.HashRealElement Hash.HashRealAttr Hash.HashRealEnum.
Open Scope list_scope.
Open Scope string_scope.

Definition accept_all (fn : N) (s : list N) : res bool := Val true.
Definition no_float (s : list N) : option N := None.

Definition LOAD (strict : bool) (bs : list N) := load strict RT tab_element tab_attr tab_enum accept_all no_float bs.

(* the hypotheses of C02_load_total / C02_line_bounds / C02_check_total hold for the real tables *)
Lemma real_loader_hyps : loader_hyps RT tab_element tab_attr tab_enum accept_all.
Proof.
  split; [exact tables_ok_real|]. split; [vm_compute; reflexivity|]. split; [vm_compute; reflexivity|].
  split; [vm_compute; reflexivity|]. split; [vm_compute; reflexivity|].
  intros. exists true. reflexivity.
Qed.

Definition HDR : string :=
  "<?xml version=""1.0"" encoding=""utf-8""?><AUTOSAR xsi:schemaLocation=""http://autosar.org/schema/r4.0 AUTOSAR_00050.xsd"" xmlns=""http://autosar.org/schema/r4.0"" xmlns:xsi=""http://www.w3.org/2001/XMLSchema-instance"">".

Definition doc (body : string) : list N := BS (HDR ++ body ++ "</AUTOSAR>").

Definition is_ret {A} (r : res (step A)) : bool := match r with Val (Ret _ _) => true | _ => false end.
Definition warnings_of {A} (r : res (step A)) : option nat :=
  match r with Val (Ret _ st) => Some (List.length (p_warnings st)) | Val (Raise _ st) => Some (List.length (p_warnings st)) | _ => None end.

(* a valid document loads in both modes, without warnings *)
Definition doc_ok := doc "<AR-PACKAGES><AR-PACKAGE><SHORT-NAME>Pkg</SHORT-NAME></AR-PACKAGE></AR-PACKAGES>".
Example load_ok_strict : is_ret (LOAD true doc_ok) = true.            Proof. vm_compute. reflexivity. Qed.
Example load_ok_lenient : warnings_of (LOAD false doc_ok) = Some 0%nat. Proof. vm_compute. reflexivity. Qed.
Example check_ok : check_arxml_header false RT tab_element tab_attr tab_enum accept_all no_float doc_ok = Val true.
Proof. vm_compute. reflexivity. Qed.

(* a recoverable finding: strict fails, lenient returns the tree with one warning *)
Definition doc_warn := doc "<AR-PACKAGES><AR-PACKAGE FOO=""1""><SHORT-NAME>Pkg</SHORT-NAME></AR-PACKAGE></AR-PACKAGES>".
Example load_warn_strict : match LOAD true doc_warn with Val (Raise (ErrParse 1 UnknownAttributeError _ _) _) => True | _ => False end.
Proof. vm_compute. exact I. Qed.
Example load_warn_lenient : is_ret (LOAD false doc_warn) = true /\ warnings_of (LOAD false doc_warn) = Some 1%nat.
Proof. vm_compute. split; reflexivity. Qed.

(* the three repaired panics are error values now (fixes fe78c44, d17bf18, 84da333) *)
Example fixed_pi : match LOAD true (BS "<?>") with Val (Raise (ErrLex 1 InvalidProcessingInstruction) _) => True | _ => False end.
Proof. vm_compute. exact I. Qed.
Example fixed_header_attr : match LOAD false (BS "<?xml version=?>") with Val (Raise (ErrLex 1 InvalidXmlHeader) _) => True | _ => False end.
Proof. vm_compute. exact I. Qed.
Definition doc_blank_attr := doc "<AR-PACKAGES><AR-PACKAGE UUID="" ""><SHORT-NAME>Pkg</SHORT-NAME></AR-PACKAGE></AR-PACKAGES>".
Example fixed_trim : is_ret (LOAD true doc_blank_attr) = true.
Proof. vm_compute. reflexivity. Qed.

(* ---------- holes of strict validation: witnesses ---------- *)
Fixpoint any_node (p : etree -> bool) (t : etree) : bool :=
  match t with
  | ENode _ _ _ content _ =>
    p t || (fix go (l : list (etree + cdata)) : bool :=
              match l with
              | [] => false
              | inl e :: l' => any_node p e || go l'
              | inr _ :: l' => go l'
              end) content
  end.

(* a node whose type carries character data in content mode Characters and whose number of text items satisfies k *)
Definition chars_node_with (k : nat -> bool) (t : etree) : bool :=
  match t with
  | ENode _ ty _ content _ =>
    match chardata_spec RT ty, content_mode RT ty with
    | Val (Some _), Val m => (m =? MCharacters)%N && k (count_text content)
    | _, _ => false
    end
  end.

Definition has_text (s : list N) (t : etree) : bool :=
  match t with
  | ENode _ _ _ content _ => existsb (fun c => match c with inr (DString x) => bytes_eqb x s | _ => false end) content
  end.

(* (1) an element that must carry a value but has no text run is never value-checked: <SHORT-NAME/> loads strictly,
       although the empty string does not match the identifier pattern *)
Definition doc_empty_shortname := doc "<AR-PACKAGES><AR-PACKAGE><SHORT-NAME/></AR-PACKAGE></AR-PACKAGES>".
Lemma C08_value_required_refuted :
  exists bs, match LOAD true bs with
             | Val (Ret t _) => any_node (chars_node_with (Nat.eqb 0)) t = true
             | _ => False
             end.
Proof. exists doc_empty_shortname. vm_compute. reflexivity. Qed.

(* (2) REPAIRED (fix 00b10f0): a character-data element received several text runs (each validated on its own, the
       serializer wrote only the first); the additional run is CharacterContentForbidden now *)
Definition doc_two_runs := doc "<AR-PACKAGES><AR-PACKAGE><SHORT-NAME>Pkg</SHORT-NAME><CATEGORY>a<!--c-->b</CATEGORY></AR-PACKAGE></AR-PACKAGES>".
Example fixed_two_runs_strict : match LOAD true doc_two_runs with Val (Raise (ErrParse 1 CharacterContentForbidden _ _) _) => True | _ => False end.
Proof. vm_compute. exact I. Qed.
Example fixed_two_runs_lenient :
  match LOAD false doc_two_runs with
  | Val (Ret t st) => List.length (p_warnings st) = 1%nat /\ any_node (chars_node_with (Nat.eqb 2)) t = false /\ any_node (has_text (BS "a")) t = true
  | _ => False
  end.
Proof. vm_compute. auto. Qed.

(* (3) REPAIRED (fix 5f62213): a character reference with a sign, "&#x+41;" / "&#+65;", was accepted and became "A"
       (u32::from_str_radix takes a leading '+'); it is InvalidXmlEntity now — error in strict mode, warning in lenient mode *)
Definition doc_signed_entity := doc "<AR-PACKAGES><AR-PACKAGE><SHORT-NAME>Pkg</SHORT-NAME><DESC><L-2 L=""EN"">&#x+41;</L-2></DESC></AR-PACKAGE></AR-PACKAGES>".
Definition doc_signed_entity_dec := doc "<AR-PACKAGES><AR-PACKAGE><SHORT-NAME>Pkg</SHORT-NAME><DESC><L-2 L=""EN"">&#+65;</L-2></DESC></AR-PACKAGE></AR-PACKAGES>".
Example fixed_entity_sign_hex : match LOAD true doc_signed_entity with Val (Raise (ErrParse 1 InvalidXmlEntity _ _) _) => True | _ => False end.
Proof. vm_compute. exact I. Qed.
Example fixed_entity_sign_dec : match LOAD true doc_signed_entity_dec with Val (Raise (ErrParse 1 InvalidXmlEntity _ _) _) => True | _ => False end.
Proof. vm_compute. exact I. Qed.
Example fixed_entity_sign_lenient : warnings_of (LOAD false doc_signed_entity) = Some 1%nat.
Proof. vm_compute. reflexivity. Qed.
Definition doc_entity := doc "<AR-PACKAGES><AR-PACKAGE><SHORT-NAME>Pkg</SHORT-NAME><DESC><L-2 L=""EN"">&#x41;&#66;&amp;</L-2></DESC></AR-PACKAGE></AR-PACKAGES>".
Example entity_ok : match LOAD true doc_entity with Val (Ret t _) => any_node (has_text (BS "AB&")) t = true | _ => False end.
Proof. vm_compute. reflexivity. Qed.
