(* Xml/RoundTripLexer.v — C01, lexer: what `next` returns on the token shapes the serializer writes
   ([blanks] <inner> , [blanks] </name> , [blanks] <inner/> , text up to the next '<', end of input), with the exact side
   conditions on the bytes between the brackets.  For every state / line counter; no hypothesis. *)
From Coq Require Import Arith.
From AV Require Import Base.Bytes Base.Outcome Base.Utf8 Xml.Lexer Xml.Parser Xml.LexerProofs Xml.Escape Xml.RoundTripAttrs.
Open Scope list_scope.
Open Scope N_scope.

Definition mk (rest : list N) (line : N) (d : option (list N)) : lstate := {| l_rest := rest; l_line := line; l_deferred := d |}.

Lemma position_hit62 inner tail : Forall (fun x => x <> 62) inner ->
  position (N.eqb 62) (inner ++ 62 :: tail) = Some (List.length inner).
Proof. intros F. apply (find_byte_hit 62 inner tail F). Qed.

(* the branch for a first byte that is not '<' *)
Lemma lex_chars_branch f c0 tl line : c0 <> 60 ->
  lex_next (S f) (mk (c0 :: tl) line None) =
    (let rest := c0 :: tl in
     let n := match position (N.eqb 60) rest with Some n => n | None => List.length rest end in
     let text := firstn n rest in
     let line' := line + count_lines text in
     let st' := mk (skipn n rest) line' None in
     if forallb is_ws text then lex_next f st' else Val (LOk line' (EvChars text) st')).
Proof.
  intros NE. unfold mk. cbn [lex_next l_deferred l_rest l_line].
  destruct c0 as [|p]; [reflexivity|].
  do 6 (destruct p as [p|p|]; try reflexivity). congruence.
Qed.

(* blanks before a tag are skipped *)
Lemma lex_skip_blanks f ws X line : ws <> [] -> forallb is_ws ws = true ->
  lex_next (S f) (mk (ws ++ 60 :: X) line None) = lex_next f (mk (60 :: X) (line + count_lines ws) None).
Proof.
  intros NE WS. destruct ws as [|c0 ws']; [congruence|].
  assert (N60 : c0 <> 60).
  { cbn [forallb] in WS. apply andb_true_iff in WS as [W _]. intros ->. discriminate W. }
  cbn [app]. rewrite (lex_chars_branch f c0 (ws' ++ 60 :: X) line N60). cbv zeta.
  assert (P : position (N.eqb 60) ((c0 :: ws') ++ 60 :: X) = Some (List.length (c0 :: ws'))).
  { apply (find_byte_hit 60). apply Forall_forall. intros x Hx E. subst x. rewrite forallb_forall in WS. specialize (WS 60 Hx). discriminate WS. }
  cbn [app] in P. rewrite P. change (c0 :: ws' ++ 60 :: X) with ((c0 :: ws') ++ 60 :: X).
  rewrite firstn_app_exact, skipn_app_exact, WS. reflexivity.
Qed.

(* a text run: up to the next '<' *)
Lemma lex_text f text X line : text <> [] -> Forall (fun x => x <> 60) text -> forallb is_ws text = false ->
  lex_next (S f) (mk (text ++ 60 :: X) line None) =
    Val (LOk (line + count_lines text) (EvChars text) (mk (60 :: X) (line + count_lines text) None)).
Proof.
  intros NE F NW. destruct text as [|c0 t']; [congruence|].
  assert (N60 : c0 <> 60) by (inversion F; assumption).
  cbn [app]. rewrite (lex_chars_branch f c0 (t' ++ 60 :: X) line N60). cbv zeta.
  pose proof (find_byte_hit 60 (c0 :: t') X F) as P. unfold find_byte in P. cbn [app] in P. rewrite P.
  change (c0 :: t' ++ 60 :: X) with ((c0 :: t') ++ 60 :: X). rewrite firstn_app_exact, skipn_app_exact, NW. reflexivity.
Qed.

(* </name> *)
Lemma lex_end_tag f nm tail line : Forall (fun x => x <> 62) nm ->
  lex_next (S f) (mk (60 :: 47 :: nm ++ 62 :: tail) line None) = Val (LOk line (EvEnd nm) (mk tail line None)).
Proof.
  intros F. unfold mk. cbn [lex_next l_deferred l_rest l_line].
  assert (P : position (N.eqb 62) (47 :: nm ++ 62 :: tail) = Some (S (List.length nm))).
  { change (47 :: nm ++ 62 :: tail) with ((47 :: nm) ++ 62 :: tail). apply position_hit62. constructor; [discriminate|exact F]. }
  rewrite P. change (47 :: nm ++ 62 :: tail) with ((47 :: nm) ++ 62 :: tail).
  change (S (List.length nm)) with (List.length (47 :: nm)). rewrite firstn_app_exact.
  change (S (List.length (47 :: nm))) with (S (List.length (47 :: nm))). rewrite skipn_app_S. reflexivity.
Qed.

(* the default branch: a tag whose first byte is none of / ? ! *)
Lemma lex_begin_branch f c1 tl fp line : c1 <> 47 -> c1 <> 63 -> c1 <> 33 ->
  position (N.eqb 62) (c1 :: tl) = Some (S fp) ->
  lex_next (S f) (mk (60 :: c1 :: tl) line None) =
    (let tail := c1 :: tl in
     let findpos := S fp in
     let inner := firstn findpos tail in
     let after := skipn (S findpos) tail in
     let is_end := N.eqb (last inner 0) 47 in
     let text := if is_end then removelast inner else inner in
     let '(elemname, attributes) :=
       match position is_ws text with
       | Some sp => (firstn sp text, skipn (S sp) text)
       | None => (text, [])
       end in
     Val (LOk line (EvBegin elemname attributes)
            (mk after (line + count_lines text) (if is_end then Some elemname else None)))).
Proof.
  intros A B C P. unfold mk. cbn [lex_next l_deferred l_rest l_line]. rewrite P.
  destruct c1 as [|p]; [reflexivity|].
  do 6 (destruct p as [p|p|]; try reflexivity); congruence.
Qed.

Definition split_tag (text : list N) : list N * list N :=
  match position is_ws text with
  | Some sp => (firstn sp text, skipn (S sp) text)
  | None => (text, [])
  end.

(* <inner> *)
Lemma lex_begin_tag f inner tail line c1 tl : inner = c1 :: tl -> c1 <> 47 -> c1 <> 63 -> c1 <> 33 ->
  Forall (fun x => x <> 62) inner -> last inner 0 <> 47 ->
  lex_next (S f) (mk (60 :: inner ++ 62 :: tail) line None) =
    Val (LOk line (EvBegin (fst (split_tag inner)) (snd (split_tag inner))) (mk tail (line + count_lines inner) None)).
Proof.
  intros E A B C F L. pose proof (position_hit62 inner tail F) as P. subst inner. cbn [app] in *.
  cbn [List.length] in P. rewrite (lex_begin_branch f c1 (tl ++ 62 :: tail) (List.length tl) line A B C P). cbv zeta.
  change (c1 :: tl ++ 62 :: tail) with ((c1 :: tl) ++ 62 :: tail).
  change (S (List.length tl)) with (List.length (c1 :: tl)). rewrite firstn_app_exact, skipn_app_S.
  apply N.eqb_neq in L. rewrite L. unfold split_tag. destruct (position is_ws (c1 :: tl)); reflexivity.
Qed.

(* <inner/> : the begin event now, the end event deferred *)
Lemma lex_empty_tag f inner tail line c1 tl : inner = c1 :: tl -> c1 <> 47 -> c1 <> 63 -> c1 <> 33 ->
  Forall (fun x => x <> 62) inner ->
  lex_next (S f) (mk (60 :: inner ++ 47 :: 62 :: tail) line None) =
    Val (LOk line (EvBegin (fst (split_tag inner)) (snd (split_tag inner)))
           (mk tail (line + count_lines inner) (Some (fst (split_tag inner))))).
Proof.
  intros E A B C F.
  set (inner' := inner ++ [47]).
  assert (E' : inner' = c1 :: (tl ++ [47])) by (unfold inner'; rewrite E; reflexivity).
  assert (F' : Forall (fun x => x <> 62) inner').
  { unfold inner'. apply Forall_app; split; [exact F|constructor; [discriminate|constructor]]. }
  pose proof (position_hit62 inner' tail F') as P.
  assert (R : 60 :: inner ++ 47 :: 62 :: tail = 60 :: inner' ++ 62 :: tail) by (unfold inner'; rewrite <- app_assoc; reflexivity).
  rewrite R. rewrite E' in P |- *. cbn [app List.length] in P |- *.
  rewrite (lex_begin_branch f c1 ((tl ++ [47]) ++ 62 :: tail) (List.length (tl ++ [47])) line A B C P). cbv zeta.
  change (c1 :: (tl ++ [47]) ++ 62 :: tail) with ((c1 :: (tl ++ [47])) ++ 62 :: tail).
  change (S (List.length (tl ++ [47]))) with (List.length (c1 :: (tl ++ [47]))).
  rewrite firstn_app_exact, skipn_app_S. rewrite <- E'. unfold inner'.
  rewrite last_last, N.eqb_refl, removelast_last.
  unfold split_tag. destruct (position is_ws inner); reflexivity.
Qed.

Lemma lex_deferred f rest line nm : lex_next f (mk rest line (Some nm)) = Val (LOk line (EvEnd nm) (mk rest line None)).
Proof. destruct f; reflexivity. Qed.

Lemma lex_eof f line : lex_next (S f) (mk [] line None) = Val (LOk line EvEOF (mk [] line None)).
Proof. reflexivity. Qed.

(* ---------- the same for `next` with optional blanks in front ---------- *)
Definition blanks (ws : list N) : Prop := forallb is_ws ws = true.

Lemma next_skip ws X line r : blanks ws ->
  (forall f line', lex_next (S f) (mk (60 :: X) line' None) = r line') ->
  next (mk (ws ++ 60 :: X) line None) = r (line + count_lines ws).
Proof.
  intros WS H. unfold next, lex_fuel. cbn [l_rest mk]. destruct ws as [|c ws'].
  - cbn [app count_lines filter List.length]. change (N.of_nat 0) with 0. rewrite N.add_0_r. apply H.
  - rewrite (lex_skip_blanks _ (c :: ws') X line ltac:(discriminate) WS).
    rewrite app_length. cbn [List.length]. rewrite Nat.add_succ_r. apply H.
Qed.

(* ---------- comments ---------- *)
(* <!--c--> : the lexer first finds any '>' and then scans forward for the first "-->" — so the text of a comment that
   is to be read back must not produce an earlier "-->" together with the two dashes of "<!--" *)
Definition comment_text (c : list N) : list N := [60; 33; 45; 45] ++ c ++ [45; 45].
Definition CommentOk (c : list N) : Prop :=
  forall j, (4 <= j < List.length (comment_text c))%nat -> starts_with [45; 45; 62] (skipn (j - 2) (comment_text c)) = false.

Lemma starts_with_app_inside pre S X i : (i + List.length pre <= List.length S)%nat ->
  starts_with pre (skipn i (S ++ X)) = starts_with pre (skipn i S).
Proof.
  revert i. induction S as [|s S IH]; intros i L.
  - destruct pre; [destruct i; destruct X; reflexivity|cbn in L; lia].
  - destruct i as [|i]; cbn [skipn app].
    + clear IH. revert s S L. induction pre as [|p pre IHp]; intros s S L; [reflexivity|].
      cbn [starts_with]. f_equal. destruct S as [|s' S']; [destruct pre; [reflexivity|cbn in L; lia]|].
      cbn [app]. apply IHp. cbn [List.length] in *. lia.
    + apply IH. cbn [List.length] in L. lia.
Qed.

Lemma lex_comment f c tail line : CommentOk c ->
  lex_next (S f) (mk (comment_text c ++ 62 :: tail) line None) =
    Val (LOk (line + count_lines (comment_text c)) (EvComment c) (mk tail (line + count_lines (comment_text c)) None)).
Proof.
  intros OK. set (S0 := comment_text c). set (k := List.length S0).
  assert (KL : k = (6 + List.length c)%nat) by (unfold k, S0, comment_text; rewrite !app_length; cbn [List.length]; lia).
  set (rest := S0 ++ 62 :: tail).
  assert (R0 : rest = 60 :: 33 :: ([45; 45] ++ c ++ [45; 45]) ++ 62 :: tail).
  { unfold rest, S0, comment_text. cbn [app]. rewrite <- !app_assoc. reflexivity. }
  (* the first '>' *)
  assert (EXP : exists fp, position (N.eqb 62) (33 :: ([45; 45] ++ c ++ [45; 45]) ++ 62 :: tail) = Some (S fp) /\ (S (S fp) <= k)%nat).
  { destruct (position (N.eqb 62) (33 :: ([45; 45] ++ c ++ [45; 45]) ++ 62 :: tail)) as [p|] eqn:P.
    - destruct p as [|fp]; [cbn [position] in P; change (N.eqb 62 33) with false in P; cbv iota in P;
                             destruct (position (N.eqb 62) (([45; 45] ++ c ++ [45; 45]) ++ 62 :: tail)); discriminate P|].
      exists fp. split; [reflexivity|].
      pose proof (position_Some _ _ P) as (_ & _ & NO).
      destruct (le_lt_dec (S (S fp)) k) as [A|B]; [exact A|exfalso].
      (* the '>' at index k-1 of the tail would be inside the '>'-free prefix *)
      assert (IN : In 62 (firstn (S fp) (33 :: ([45; 45] ++ c ++ [45; 45]) ++ 62 :: tail))).
      { change (33 :: ([45; 45] ++ c ++ [45; 45]) ++ 62 :: tail) with ((33 :: [45; 45] ++ c ++ [45; 45]) ++ 62 :: tail).
        assert (LL : List.length (33 :: [45; 45] ++ c ++ [45; 45]) = (k - 1)%nat).
        { cbn [List.length]. rewrite !app_length. cbn [List.length]. lia. }
        rewrite firstn_app, LL. apply in_or_app. right.
        replace (S fp - (k - 1))%nat with (S (S fp - k)) by lia. cbn [firstn]. left. reflexivity. }
      rewrite forallb_forall in NO. specialize (NO 62 IN). discriminate NO.
    - exfalso. apply position_None in P. rewrite forallb_forall in P.
      assert (IN : In 62 (33 :: ([45; 45] ++ c ++ [45; 45]) ++ 62 :: tail)) by (right; apply in_or_app; right; left; reflexivity).
      specialize (P 62 IN). discriminate P. }
  destruct EXP as (fp & P & FK).
  unfold mk. fold rest. rewrite R0. cbn [lex_next l_deferred l_rest l_line]. rewrite P. rewrite <- R0.
  (* the scan for "-->" *)
  assert (ATK : starts_with [45; 45; 62] (skipn (k - 2) rest) = true).
  { unfold rest. replace (k - 2)%nat with (List.length ([60; 33; 45; 45] ++ c)) by (rewrite app_length; cbn [List.length]; lia).
    unfold S0, comment_text. rewrite app_assoc. rewrite <- (app_assoc ([60; 33; 45; 45] ++ c)). rewrite skipn_app_exact. reflexivity. }
  assert (LR : (k < List.length rest)%nat) by (unfold rest; rewrite app_length; cbn [List.length]; fold k; lia).
  pose proof (comment_end_exact (S (List.length rest)) rest (S (S fp)) ltac:(lia)) as CE.
  destruct (comment_end (S (List.length rest)) rest (S (S fp))) as [k'|].
  2:{ exfalso. specialize (CE k ltac:(lia)). congruence. }
  destruct CE as (RK & MK & FIRST).
  assert (k' = k).
  { destruct (lt_eq_lt_dec k' k) as [[LT|EQ]|GT]; [|exact EQ|].
    - exfalso. assert (J : (4 <= k' < List.length S0)%nat).
      { split; [|fold k; lia]. pose proof (position_Some _ _ P) as (_ & (x & NX & PX) & _).
        destruct fp as [|[|fp'']]; [cbn in NX; injection NX as <-; discriminate PX|cbn in NX; injection NX as <-; discriminate PX|lia]. }
      specialize (OK k' J). unfold rest in MK. rewrite starts_with_app_inside in MK; [unfold S0 in MK; congruence|]. cbn [List.length]. fold k. lia.
    - exfalso. specialize (FIRST k ltac:(lia)). congruence. }
  subst k'.
  assert (TXT : firstn k rest = S0) by (unfold rest, k; apply firstn_app_exact).
  rewrite TXT.
  assert (C1 : (k <? 6)%nat = false) by (apply Nat.ltb_ge; lia).
  assert (C2 : starts_with [60; 33; 45; 45] S0 = true) by reflexivity.
  assert (C3 : ends_with [45; 45] S0 = true).
  { unfold ends_with, S0, comment_text. rewrite !rev_app_distr. reflexivity. }
  rewrite C1, C2, C3. cbn [orb negb].
  assert (CM : firstn (k - 2 - 4) (skipn 4 rest) = c).
  { unfold rest, S0, comment_text. cbn [app skipn]. replace (k - 2 - 4)%nat with (List.length c) by lia.
    rewrite <- app_assoc. apply firstn_app_exact. }
  assert (AF : skipn (S k) rest = tail) by (unfold rest, k; apply skipn_app_S).
  rewrite CM, AF. reflexivity.
Qed.

(* ---------- from_utf8_lossy is the identity on valid UTF-8 (a stored comment is the lossy conversion of its bytes) ---------- *)
Lemma utf8_chunk_pos s ok n : s <> [] -> utf8_chunk s = (ok, n) -> (1 <= n)%nat.
Proof.
  intros NE. destruct s as [|b0 r]; [congruence|]. unfold utf8_chunk.
  repeat match goal with
         | |- context [if ?c then _ else _] => destruct c
         | |- context [match ?l with [] => _ | _ :: _ => _ end] => destruct l
         end; intros [= <- <-]; lia.
Qed.

Lemma utf8_lossy_valid_fuel : forall f s, (List.length s < f)%nat -> utf8_valid_fuel f s = true -> utf8_lossy_fuel f s = s.
Proof.
  induction f as [|f IH]; intros s L V; [lia|]. cbn [utf8_valid_fuel utf8_lossy_fuel] in *.
  destruct s as [|b0 r]; [reflexivity|]. destruct (utf8_chunk (b0 :: r)) as [ok n] eqn:C.
  destruct ok; [|discriminate V]. pose proof (utf8_chunk_pos (b0 :: r) true n ltac:(discriminate) C) as N1.
  rewrite IH; [apply firstn_skipn| |exact V]. rewrite skipn_length. cbn [List.length] in *. lia.
Qed.

Lemma utf8_lossy_valid s : utf8_valid s = true -> utf8_lossy s = s.
Proof. unfold utf8_valid, utf8_lossy. apply utf8_lossy_valid_fuel. lia. Qed.
