(* Xml/ReadingUnique.v — C01 faithfulness: the reading is unique.  Reads bs d1 -> Reads bs d2 -> d1 = d2: on well-formed
   trees `render` is injective (unique readability of the grammar of Xml/Reading.v), so the existential of C01_faithful
   determines the document.  Proof: delimiters (the first '>' ends a tag / a PI, the first "-->" a comment, the first '<' a
   character data run, the first '=' an attribute name, the matching quote a value), then elements by induction on the
   length of the text. *)
From Coq Require Import Arith Lia.
From AV Require Import Base.Bytes Base.Outcome Base.Utf8 Xml.Lexer Xml.LexerProofs Xml.RoundTripValues Xml.RoundTripAttrs Xml.RoundTripLexer
  Xml.Reading Xml.ReadingLexer.
Open Scope list_scope.
Open Scope N_scope.

(* ---------- delimiters ---------- *)
Lemma no_byte_cons b x l : no_byte b (x :: l) <-> b <> x /\ no_byte b l.
Proof. unfold no_byte. cbn [forallb]. rewrite andb_true_iff, negb_true_iff, N.eqb_neq. tauto. Qed.
Lemma no_byte_app b x y : no_byte b (x ++ y) <-> no_byte b x /\ no_byte b y.
Proof. unfold no_byte. rewrite forallb_app, andb_true_iff. tauto. Qed.

Lemma cut_unique c a : forall a' r r', no_byte c a -> no_byte c a' -> a ++ c :: r = a' ++ c :: r' -> a = a' /\ r = r'.
Proof.
  induction a as [|x a IH]; intros [|y a'] r r' NA NA' E; cbn [app] in E.
  - injection E as <-. auto.
  - injection E as <- _. apply no_byte_cons in NA' as [NE _]. congruence.
  - injection E as -> _. apply no_byte_cons in NA as [NE _]. congruence.
  - injection E as <- E. apply no_byte_cons in NA as [_ NA]. apply no_byte_cons in NA' as [_ NA'].
    destruct (IH _ _ _ NA NA' E) as [-> ->]. auto.
Qed.

(* a maximal run of bytes satisfying p *)
Definition stops (p : N -> bool) (r : list N) : Prop := r = [] \/ exists x r0, r = x :: r0 /\ p x = false.

Lemma span_unique (p : N -> bool) a : forall a' r r', forallb p a = true -> forallb p a' = true -> stops p r -> stops p r' ->
  a ++ r = a' ++ r' -> a = a' /\ r = r'.
Proof.
  induction a as [|x a IH]; intros [|y a'] r r' PA PA' SR SR' E; cbn [app] in E.
  - auto.
  - exfalso. cbn [forallb] in PA'. apply andb_prop in PA' as [PY _]. destruct SR as [->|(x & r0 & -> & PX)]; [discriminate E|].
    injection E as -> _. congruence.
  - exfalso. cbn [forallb] in PA. apply andb_prop in PA as [PX _]. destruct SR' as [->|(y & r0 & -> & PY)]; [discriminate E|].
    injection E as -> _. congruence.
  - injection E as <- E. cbn [forallb] in PA, PA'. apply andb_prop in PA as [_ PA]. apply andb_prop in PA' as [_ PA'].
    destruct (IH _ _ _ PA PA' SR SR' E) as [-> ->]. auto.
Qed.

Lemma at_markup_stops r : at_markup r -> stops (fun c => negb (60 =? c)) r.
Proof. intros [->|(r0 & ->)]; [left; reflexivity|right; exists 60, r0; split; reflexivity]. Qed.

Lemma text_unique t t' r r' : no_byte 60 t -> no_byte 60 t' -> at_markup r -> at_markup r' -> t ++ r = t' ++ r' -> t = t' /\ r = r'.
Proof. intros A B C D. exact (span_unique _ t t' r r' A B (at_markup_stops _ C) (at_markup_stops _ D)). Qed.

Lemma comment_unique c c' r r' : CommentOk c -> CommentOk c' ->
  comment_text c ++ 62 :: r = comment_text c' ++ 62 :: r' -> c = c' /\ r = r'.
Proof.
  intros A B E. pose proof (lex_comment O c r 1 A) as L1. pose proof (lex_comment O c' r' 1 B) as L2.
  rewrite E in L1. rewrite L1 in L2. injection L2 as _ EC ER _. auto.
Qed.

(* ---------- names, blanks ---------- *)
Lemma clean_name_bytes nm : clean_name nm = true -> nm <> [] /\ forallb name_byte nm = true.
Proof. unfold clean_name. rewrite andb_true_iff. intros [A B]. split; [destruct nm; [discriminate A|discriminate]|exact B]. Qed.

Lemma name_no_byte nm c : forallb name_byte nm = true -> name_byte c = false -> no_byte c nm.
Proof.
  intros F NC. unfold no_byte. rewrite forallb_forall in *. intros x I. apply negb_true_iff, N.eqb_neq. intros ->.
  rewrite (F x I) in NC. discriminate NC.
Qed.

Lemma allws_no_byte w c : allws w -> is_ws c = false -> no_byte c w.
Proof.
  intros F NC. unfold no_byte, allws in *. rewrite forallb_forall in *. intros x I. apply negb_true_iff, N.eqb_neq. intros ->.
  rewrite (F x I) in NC. discriminate NC.
Qed.

Lemma name_byte_not_ws c : name_byte c = true -> is_ws c = false.
Proof. intros H. exact (proj1 (name_byte_props c H)). Qed.

Lemma allws_app x y : allws (x ++ y) <-> allws x /\ allws y.
Proof. unfold allws. rewrite forallb_app, andb_true_iff. tauto. Qed.

(* ---------- attributes and the end of a tag ---------- *)

Lemma wfattr_parts a : WfAttr a ->
  no_byte 61 (xa_ws a ++ xa_name a) /\ (exists x r, xa_name a = x :: r /\ is_ws x = false) /\ is_ws (xa_quote a) = false /\
  no_byte 62 (r_attr a).
Proof.
  intros (WN & WA & CN & QQ & NQ & N62). destruct (clean_name_bytes _ CN) as [NE NB]. split; [|split; [|split]].
  - apply no_byte_app. split; [apply allws_no_byte; [exact WA|reflexivity]|apply name_no_byte; [exact NB|reflexivity]].
  - destruct (xa_name a) as [|x r]; [congruence|]. exists x, r. split; [reflexivity|]. cbn [forallb] in NB. apply andb_prop in NB as [NX _].
    exact (name_byte_not_ws _ NX).
  - destruct QQ as [-> | ->]; reflexivity.
  - unfold r_attr. rewrite !no_byte_app. split; [apply allws_no_byte; [exact WA|reflexivity]|].
    split; [apply name_no_byte; [exact NB|reflexivity]|]. split; [apply no_byte_cons; split; [discriminate|reflexivity]|].
    assert (Q62 : 62 <> xa_quote a) by (destruct QQ as [-> | ->]; discriminate).
    split; [apply no_byte_cons; split; [exact Q62|reflexivity]|]. split; [exact N62|apply no_byte_cons; split; [exact Q62|reflexivity]].
Qed.

Lemma attr_attr_unique x y R R' : WfAttr x -> WfAttr y -> r_attr x ++ R = r_attr y ++ R' -> x = y /\ R = R'.
Proof.
  intros WX WY E. destruct (wfattr_parts _ WX) as (N1 & (x0 & xr & EN1 & W1) & _ & _).
  destruct (wfattr_parts _ WY) as (N2 & (y0 & yr & EN2 & W2) & _ & _).
  unfold r_attr in E. rewrite <- !app_assoc in E.
  assert (E' : (xa_ws x ++ xa_name x) ++ 61 :: ([xa_quote x] ++ xa_value x ++ [xa_quote x] ++ R) =
               (xa_ws y ++ xa_name y) ++ 61 :: ([xa_quote y] ++ xa_value y ++ [xa_quote y] ++ R')).
  { rewrite <- !app_assoc. exact E. }
  destruct (cut_unique 61 _ _ _ _ N1 N2 E') as [EA EB].
  destruct WX as (_ & WA1 & _ & _ & NQ1 & _). destruct WY as (_ & WA2 & _ & _ & NQ2 & _).
  destruct (span_unique is_ws _ _ _ _ WA1 WA2 (or_intror (ex_intro _ x0 (ex_intro _ xr (conj EN1 W1))))
              (or_intror (ex_intro _ y0 (ex_intro _ yr (conj EN2 W2)))) EA) as [EW EN].
  cbn [app] in EB. injection EB as EQ EV. rewrite <- EQ in *.
  destruct (cut_unique _ _ _ _ _ NQ1 NQ2 EV) as [EVV ER].
  split; [|exact ER]. destruct x, y. cbn in *. congruence.
Qed.

Lemma allws_has_no_61 a b : allws (a ++ 61 :: b) -> False.
Proof. intros H. apply allws_app in H as [_ H]. unfold allws in H. cbn [forallb] in H. discriminate H. Qed.

Lemma attr_trail_clash x R t : WfAttr x -> WfTrail t -> r_attr x ++ R = t -> False.
Proof.
  intros WX WT E. destruct (wfattr_parts _ WX) as (N1 & _ & QW & _). unfold r_attr in E. rewrite <- !app_assoc in E.
  rewrite <- E in WT. unfold WfTrail in WT. rewrite app_assoc in WT. exact (allws_has_no_61 _ _ WT).
Qed.

Lemma atts_trail_unique a1 : forall a2 t1 t2, Forall WfAttr a1 -> Forall WfAttr a2 -> WfTrail t1 -> WfTrail t2 ->
  r_atts a1 ++ t1 = r_atts a2 ++ t2 -> a1 = a2 /\ t1 = t2.
Proof.
  induction a1 as [|x a1 IH]; intros [|y a2] t1 t2 F1 F2 W1 W2 E; unfold r_atts in *; cbn [map List.concat app] in E.
  - auto.
  - exfalso. pose proof (Forall_inv F2) as WY. rewrite <- app_assoc in E. exact (attr_trail_clash y _ t1 WY W1 (eq_sym E)).
  - exfalso. pose proof (Forall_inv F1) as WX. rewrite <- app_assoc in E. exact (attr_trail_clash x _ t2 WX W2 E).
  - pose proof (Forall_inv F1) as WX. pose proof (Forall_inv_tail F1) as F1'. pose proof (Forall_inv F2) as WY. pose proof (Forall_inv_tail F2) as F2'.
    rewrite <- !app_assoc in E.
    destruct (attr_attr_unique x y _ _ WX WY E) as [-> ER]. destruct (IH _ _ _ F1' F2' W1 W2 ER) as [-> ->]. auto.
Qed.

(* ---------- a tag ---------- *)
Definition tagtext (name : list N) (atts : list xattr) (trail : list N) : list N := name ++ r_atts atts ++ trail.

Lemma r_atts_app a b : r_atts (a ++ b) = r_atts a ++ r_atts b.
Proof. unfold r_atts. rewrite map_app, concat_app. reflexivity. Qed.

Lemma r_atts_no62 atts : Forall WfAttr atts -> no_byte 62 (r_atts atts).
Proof.
  induction 1 as [|x l WX _ IH]; [reflexivity|]. unfold r_atts in *. cbn [map List.concat]. apply no_byte_app. split; [|exact IH].
  exact (proj2 (proj2 (proj2 (wfattr_parts _ WX)))).
Qed.

Lemma trail_no62 t : WfTrail t -> no_byte 62 t.
Proof. intros AW. apply allws_no_byte; [exact AW|reflexivity]. Qed.

Lemma tag_no62 name atts trail : clean_name name = true -> Forall WfAttr atts -> WfTrail trail -> no_byte 62 (tagtext name atts trail).
Proof.
  intros CN FA WT. unfold tagtext. rewrite !no_byte_app. destruct (clean_name_bytes _ CN) as [_ NB].
  split; [apply name_no_byte; [exact NB|reflexivity]|]. split; [exact (r_atts_no62 _ FA)|exact (trail_no62 _ WT)].
Qed.

Lemma ws_not_name c : is_ws c = true -> name_byte c = false.
Proof. intros W. destruct (name_byte c) eqn:NB; [|reflexivity]. rewrite (name_byte_not_ws _ NB) in W. discriminate W. Qed.

Lemma allws_head w : allws w -> w <> [] -> exists x r, w = x :: r /\ is_ws x = true.
Proof. intros A NE. destruct w as [|x r]; [congruence|]. exists x, r. split; [reflexivity|]. unfold allws in A. cbn [forallb] in A. apply andb_prop in A as [A _]. exact A. Qed.

Lemma tag_after_name atts trail : Forall WfAttr atts -> WfTrail trail -> stops name_byte (r_atts atts ++ trail).
Proof.
  intros FA WT. destruct atts as [|x l].
  - cbn [r_atts map List.concat app]. pose proof WT as AW.
    destruct trail as [|y r]; [left; reflexivity|]. right. exists y, r. split; [reflexivity|].
    destruct (allws_head _ AW ltac:(discriminate)) as (y' & r' & E & W). injection E as <- <-. exact (ws_not_name _ W).
  - pose proof (Forall_inv FA) as (WN & WA & _). destruct (allws_head _ WA WN) as (y & r & E & W). right.
    unfold r_atts. cbn [map List.concat]. unfold r_attr at 1. rewrite E. cbn [app]. eexists y, _. split; [reflexivity|exact (ws_not_name _ W)].
Qed.

Lemma tag_not_ending47 name atts trail X : clean_name name = true -> Forall WfAttr atts -> WfTrail trail ->
  tagtext name atts trail = X ++ [47] -> False.
Proof.
  intros CN FA WT E. unfold tagtext in E. destruct (clean_name_bytes _ CN) as [NNE NB].
  destruct trail as [|t0 tr] eqn:ET.
  - rewrite app_nil_r in E. destruct atts as [|a0 ar] eqn:EA.
    + cbn in E. rewrite app_nil_r in E. destruct (exists_last NNE) as (n' & z & EN). rewrite EN in E. apply app_inj_tail in E as [_ ->].
      rewrite EN, forallb_app in NB. apply andb_prop in NB as [_ NB]. cbn in NB. discriminate NB.
    + rewrite <- EA in *. assert (ANE : atts <> []) by (rewrite EA; discriminate). destruct (exists_last ANE) as (a' & a & EL).
      rewrite EL, r_atts_app in E. unfold r_atts at 2 in E. cbn [map List.concat] in E. rewrite app_nil_r in E. unfold r_attr in E.
      rewrite !app_assoc in E. apply app_inj_tail in E as [_ EQ].
      assert (WA : WfAttr a) by (rewrite EL in FA; apply Forall_app in FA as [_ FA]; exact (Forall_inv FA)).
      destruct WA as (_ & _ & _ & QQ & _). destruct QQ as [Q|Q]; rewrite Q in EQ; discriminate EQ.
  - rewrite <- ET in *. assert (TNE : trail <> []) by (rewrite ET; discriminate).
    assert (LW : exists tr' z, trail = tr' ++ [z] /\ is_ws z = true).
    { pose proof WT as AW. destruct (exists_last TNE) as (tr' & z & EL). exists tr', z. split; [exact EL|]. rewrite EL in AW. apply allws_app in AW as [_ AW].
      unfold allws in AW. cbn in AW. apply andb_prop in AW as [AW _]. exact AW. }
    destruct LW as (tr' & z & EL & WZ). rewrite EL in E. rewrite !app_assoc in E. apply app_inj_tail in E as [_ ->]. discriminate WZ.
Qed.

Definition tag_close (sc : bool) : list N := if sc then [47; 62] else [62].

Lemma tag_unique n1 a1 t1 sc1 n2 a2 t2 sc2 r1 r2 :
  clean_name n1 = true -> Forall WfAttr a1 -> WfTrail t1 -> clean_name n2 = true -> Forall WfAttr a2 -> WfTrail t2 ->
  tagtext n1 a1 t1 ++ tag_close sc1 ++ r1 = tagtext n2 a2 t2 ++ tag_close sc2 ++ r2 ->
  n1 = n2 /\ a1 = a2 /\ t1 = t2 /\ sc1 = sc2 /\ r1 = r2.
Proof.
  intros C1 F1 W1 C2 F2 W2 E.
  pose proof (tag_no62 _ _ _ C1 F1 W1) as N1. pose proof (tag_no62 _ _ _ C2 F2 W2) as N2.
  assert (N1' : no_byte 62 (tagtext n1 a1 t1 ++ [47])) by (apply no_byte_app; split; [exact N1|reflexivity]).
  assert (N2' : no_byte 62 (tagtext n2 a2 t2 ++ [47])) by (apply no_byte_app; split; [exact N2|reflexivity]).
  assert (TT : tagtext n1 a1 t1 = tagtext n2 a2 t2 /\ sc1 = sc2 /\ r1 = r2).
  { destruct sc1, sc2; unfold tag_close in E; cbn [app] in E.
    - assert (E' : (tagtext n1 a1 t1 ++ [47]) ++ 62 :: r1 = (tagtext n2 a2 t2 ++ [47]) ++ 62 :: r2) by (rewrite <- !app_assoc; exact E).
      destruct (cut_unique 62 _ _ _ _ N1' N2' E') as [EA ER].
      apply app_inj_tail in EA as [EA _]. auto.
    - exfalso. assert (E' : (tagtext n1 a1 t1 ++ [47]) ++ 62 :: r1 = tagtext n2 a2 t2 ++ 62 :: r2) by (rewrite <- !app_assoc; exact E).
      destruct (cut_unique 62 _ _ _ _ N1' N2 E') as [EA _].
      exact (tag_not_ending47 _ _ _ _ C2 F2 W2 (eq_sym EA)).
    - exfalso. assert (E' : tagtext n1 a1 t1 ++ 62 :: r1 = (tagtext n2 a2 t2 ++ [47]) ++ 62 :: r2) by (rewrite <- !app_assoc; exact E).
      destruct (cut_unique 62 _ _ _ _ N1 N2' E') as [EA _].
      exact (tag_not_ending47 _ _ _ _ C1 F1 W1 EA).
    - destruct (cut_unique 62 _ _ _ _ N1 N2 E) as [EA ER]. auto. }
  destruct TT as (ET & -> & ->). unfold tagtext in ET.
  destruct (clean_name_bytes _ C1) as [_ NB1]. destruct (clean_name_bytes _ C2) as [_ NB2].
  destruct (span_unique name_byte _ _ _ _ NB1 NB2 (tag_after_name _ _ F1 W1) (tag_after_name _ _ F2 W2) ET) as [-> EA].
  destruct (atts_trail_unique _ _ _ _ F1 F2 W1 W2 EA) as [-> ->]. auto.
Qed.

(* ---------- items ---------- *)
(* how the text of an item begins *)
Definition Shape (x : xml) (l : list N) : Prop :=
  match x with
  | XText _ => exists c r, l = c :: r /\ c <> 60
  | XComment _ => exists r, l = 60 :: 33 :: r
  | XPI _ => exists r, l = 60 :: 63 :: r
  | XElem _ _ _ _ _ => exists c r, l = 60 :: c :: r /\ name_byte c = true
  end.

Lemma render_shape x : WfX x -> Shape x (render x).
Proof.
  intros W. destruct W as [t NE N60|c CO|body NB TG|name atts trail sc kids CN FA WT SC WK]; unfold Shape.
  - destruct t as [|c r]; [congruence|]. apply no_byte_cons in N60 as [N _]. exists c, r. split; [reflexivity|congruence].
  - cbn [render]. unfold comment_text. cbn [app]. eauto.
  - cbn [render app]. eauto.
  - rewrite render_elem. destruct (clean_name_bytes _ CN) as [NNE NB]. destruct name as [|c r]; [congruence|].
    cbn [forallb] in NB. apply andb_prop in NB as [NC _]. cbn [app]. eauto.
Qed.

Definition kind (x : xml) : N := match x with XText _ => 0 | XComment _ => 1 | XPI _ => 2 | XElem _ _ _ _ _ => 3 end.

Lemma render_kind x y r1 r2 : WfX x -> WfX y -> render x ++ r1 = render y ++ r2 -> kind x = kind y.
Proof.
  intros WX WY E. pose proof (render_shape x WX) as SX. pose proof (render_shape y WY) as SY.
  destruct x, y; try reflexivity; exfalso; unfold Shape in SX, SY;
    repeat match goal with H : exists _, _ |- _ => destruct H end; repeat match goal with H : _ /\ _ |- _ => destruct H end;
    match goal with H1 : render _ = _, H2 : render _ = _ |- _ => rewrite H1, H2 in E end; cbn [app] in E;
    inversion E; subst; try congruence; try discriminate.
Qed.

Lemma render_nontext_60 x : WfX x -> is_xtext x = false -> exists r, render x = 60 :: r.
Proof.
  intros W NT. destruct W; cbn in NT; try discriminate NT.
  - cbn [render]. unfold comment_text. cbn [app]. eauto.
  - cbn [render app]. eauto.
  - rewrite render_elem. cbn [app]. eauto.
Qed.

Definition Stop (K : xml -> Prop) (E : list N) : Prop :=
  at_markup E /\ forall x r, WfX x -> K x -> E = render x ++ r -> False.

Definition U2 (n : nat) : Prop :=
  forall x y r1 r2, (List.length (render x) <= n)%nat -> WfX x -> WfX y -> render x ++ r1 = render y ++ r2 ->
    (is_xtext x = true -> at_markup r1) -> (is_xtext y = true -> at_markup r2) -> x = y /\ r1 = r2.

Lemma WfItems_inv x r : WfItems (x :: r) -> WfX x /\ WfItems r /\ (is_xtext x = true -> head_is_text r = false).
Proof. intros H. inversion H; subst. auto. Qed.

Lemma items_next_markup k E K : WfItems k -> Stop K E -> head_is_text k = false -> at_markup (render_items k ++ E).
Proof.
  intros WK [AM _] HT. destruct k as [|z k']; [exact AM|]. cbn [head_is_text] in HT. destruct (WfItems_inv _ _ WK) as (WZ & _ & _).
  destruct (render_nontext_60 z WZ HT) as (r & ER). right. rewrite render_items_cons, ER. cbn [app]. eauto.
Qed.

Lemma U1_of_U2 (K : xml -> Prop) n : U2 n ->
  forall k1 k2 E1 E2, (List.length (render_items k1) <= n)%nat -> WfItems k1 -> WfItems k2 -> Forall K k1 -> Forall K k2 ->
    render_items k1 ++ E1 = render_items k2 ++ E2 -> Stop K E1 -> Stop K E2 -> k1 = k2 /\ E1 = E2.
Proof.
  intros HU. induction k1 as [|x k1 IH]; intros [|y k2] E1 E2 LN W1 W2 F1 F2 E S1 S2.
  - auto.
  - exfalso. rewrite render_items_cons, <- app_assoc in E. cbn [render_items map List.concat app] in E.
    destruct (WfItems_inv _ _ W2) as (WY & _ & _). exact (proj2 S1 y _ WY (Forall_inv F2) E).
  - exfalso. rewrite render_items_cons, <- app_assoc in E. cbn [render_items map List.concat app] in E.
    destruct (WfItems_inv _ _ W1) as (WX & _ & _). exact (proj2 S2 x _ WX (Forall_inv F1) (eq_sym E)).
  - rewrite !render_items_cons, <- !app_assoc in E. rewrite render_items_cons, app_length in LN.
    destruct (WfItems_inv _ _ W1) as (WX & WK1 & HT1). destruct (WfItems_inv _ _ W2) as (WY & WK2 & HT2).
    destruct (HU x y _ _ ltac:(lia) WX WY E) as [-> ER].
    + intros IT. exact (items_next_markup _ _ K WK1 S1 (HT1 IT)).
    + intros IT. exact (items_next_markup _ _ K WK2 S2 (HT2 IT)).
    + destruct (IH k2 E1 E2 ltac:(lia) WK1 WK2 (Forall_inv_tail F1) (Forall_inv_tail F2) ER S1 S2) as [-> ->]. auto.
Qed.

Lemma etag_stop name r : clean_name name = true -> Stop (fun _ => True) ([60; 47] ++ name ++ [62] ++ r).
Proof.
  intros CN. split; [right; cbn [app]; eauto|]. intros x r0 WX _ E. pose proof (render_shape x WX) as SX.
  destruct x; unfold Shape in SX; repeat match goal with H : exists _, _ |- _ => destruct H end; repeat match goal with H : _ /\ _ |- _ => destruct H end;
    match goal with H1 : render _ = _ |- _ => rewrite H1 in E end; cbn [app] in E; inversion E; subst; try congruence; try discriminate.
Qed.

Lemma render_elem_tag name atts trail sc kids r :
  render (XElem name atts trail sc kids) ++ r =
  60 :: tagtext name atts trail ++ tag_close sc ++ (if sc then [] else render_items kids ++ [60; 47] ++ name ++ [62]) ++ r.
Proof.
  rewrite render_elem. unfold tagtext, tag_close. destruct sc; repeat (rewrite <- ?app_assoc; cbn [app]); reflexivity.
Qed.

Theorem U2_all : forall n, U2 n.
Proof.
  induction n as [n IHn] using lt_wf_ind. intros x y r1 r2 LN WX WY E B1 B2.
  pose proof (render_kind x y r1 r2 WX WY E) as KD.
  destruct WX as [t NE N60|c CO|body NB TG|name atts trail sc kids CN FA WT SC WK];
  destruct WY as [t' NE' N60'|c' CO'|body' NB' TG'|name' atts' trail' sc' kids' CN' FA' WT' SC' WK']; try discriminate KD.
  - (* text / text *)
    cbn [render] in E. destruct (text_unique _ _ _ _ N60 N60' (B1 eq_refl) (B2 eq_refl) E) as [-> ->]. auto.
  - (* comment / comment *)
    cbn [render] in E. rewrite <- !app_assoc in E. cbn [app] in E. destruct (comment_unique _ _ _ _ CO CO' E) as [-> ->]. auto.
  - (* PI / PI *)
    cbn [render app] in E. injection E as E. rewrite <- !app_assoc in E. cbn [app] in E.
    assert (E' : (body ++ [63]) ++ 62 :: r1 = (body' ++ [63]) ++ 62 :: r2) by (rewrite <- !app_assoc; cbn [app]; exact E).
    assert (N1 : no_byte 62 (body ++ [63])) by (apply no_byte_app; split; [exact NB|reflexivity]).
    assert (N2 : no_byte 62 (body' ++ [63])) by (apply no_byte_app; split; [exact NB'|reflexivity]).
    destruct (cut_unique 62 _ _ _ _ N1 N2 E') as [EB ->]. apply app_inj_tail in EB as [-> _]. auto.
  - (* element / element *)
    rewrite !render_elem_tag in E. injection E as E'.
    destruct (tag_unique _ _ _ _ _ _ _ _ _ _ CN FA WT CN' FA' WT' E') as (-> & -> & -> & -> & ER).
    destruct sc'.
    + cbn [app] in ER. subst r2. rewrite (SC eq_refl), (SC' eq_refl). auto.
    + assert (ER' : render_items kids ++ ([60; 47] ++ name' ++ [62] ++ r1) = render_items kids' ++ ([60; 47] ++ name' ++ [62] ++ r2)).
      { repeat (rewrite <- ?app_assoc in ER; cbn [app] in ER). repeat (rewrite <- ?app_assoc; cbn [app]). exact ER. }
      assert (LK : (List.length (render_items kids) < n)%nat).
      { rewrite render_elem in LN. rewrite !app_length in LN. cbn [List.length] in LN. lia. }
      assert (KT : forall l : list xml, Forall (fun _ => True) l) by (intros l; apply Forall_forall; auto).
      destruct (U1_of_U2 (fun _ => True) _ (IHn _ LK) kids kids' _ _ (le_n _) WK WK' (KT _) (KT _) ER'
                  (etag_stop name' r1 CN') (etag_stop name' r2 CN')) as [-> EE].
      cbn [app] in EE. injection EE as EE. apply app_inv_head in EE. injection EE as ->. auto.
Qed.

(* ---------- the document ---------- *)
Lemma render_nonempty x r : WfX x -> render x ++ r <> [].
Proof.
  intros W E. pose proof (render_shape x W) as S. destruct x; unfold Shape in S;
    repeat match goal with H : exists _, _ |- _ => destruct H end; repeat match goal with H : _ /\ _ |- _ => destruct H end;
    match goal with H1 : render _ = _ |- _ => rewrite H1 in E end; discriminate E.
Qed.

Lemma stop_nil (K : xml -> Prop) : Stop K [].
Proof. split; [left; reflexivity|]. intros x r W _ E. exact (render_nonempty x r W (eq_sym E)). Qed.

Lemma stop_decl decl sa r : XmlDeclR decl sa -> Stop is_misc ([60; 63] ++ decl ++ [63; 62] ++ r).
Proof.
  intros (N62 & TG & _). split; [right; cbn [app]; eauto|]. intros x r0 WX MX E.
  destruct x as [t|c|b|? ? ? ? ?]; cbn in MX; [|destruct MX| |destruct MX].
  - pose proof (render_shape _ WX) as (c & r' & ER & NC). rewrite ER in E. cbn [app] in E. injection E as E _. congruence.
  - cbn [render app] in E. injection E as E. inversion WX as [| |b0 NB TB|]; subst.
    assert (E' : (decl ++ [63]) ++ 62 :: r = (b ++ [63]) ++ 62 :: r0) by (repeat (rewrite <- ?app_assoc in E; cbn [app] in E); repeat (rewrite <- ?app_assoc; cbn [app]); exact E).
    assert (N1 : no_byte 62 (decl ++ [63])) by (apply no_byte_app; split; [exact N62|reflexivity]).
    assert (N2 : no_byte 62 (b ++ [63])) by (apply no_byte_app; split; [exact NB|reflexivity]).
    destruct (cut_unique 62 _ _ _ _ N1 N2 E') as [EB _]. apply app_inj_tail in EB as [-> _]. congruence.
Qed.

Lemma stop_root (K : xml -> Prop) root r : WfX root -> kind root = 3 -> (forall x, K x -> kind x <> 3) -> Stop K (render root ++ r).
Proof.
  intros WR KR KK. split.
  - destruct root; try discriminate KR. destruct (render_nontext_60 _ WR eq_refl) as (r0 & ->). right. cbn [app]. eauto.
  - intros x r0 WX KX E. pose proof (render_kind _ _ _ _ WR WX E) as EK. rewrite KR in EK. exact (KK x KX (eq_sym EK)).
Qed.

Lemma misc_first_byte k r c l : WfItems k -> Forall is_misc k -> render_items k ++ 60 :: r = c :: l -> c = 60 \/ is_ws c = true.
Proof.
  intros WK MK E. destruct k as [|x k']; [cbn in E; injection E as <- _; auto|].
  destruct (WfItems_inv _ _ WK) as (WX & _ & _). pose proof (Forall_inv MK) as MX. rewrite render_items_cons in E.
  destruct x as [t|c0|b|? ? ? ? ?]; cbn in MX.
  - cbn [render] in E. inversion WX as [t0 NE _| | |]; subst. destruct t as [|y t']; [congruence|]. cbn [app] in E. injection E as <- _.
    right. unfold allws in MX. cbn [forallb] in MX. apply andb_prop in MX as [MX _]. exact MX.
  - destruct MX.
  - cbn [render app] in E. injection E as <- _. auto.
  - destruct MX.
Qed.

Theorem reads_unique bs d1 d2 : Reads bs d1 -> Reads bs d2 -> d1 = d2.
Proof.
  intros [E1 W1] [E2 W2]. rewrite E1 in E2. clear E1 bs.
  destruct d1 as [bom1 bef1 decl1 sa1 pro1 root1 aft1]. destruct d2 as [bom2 bef2 decl2 sa2 pro2 root2 aft2].
  unfold WfDoc, render_doc in *. cbn [d_bom d_before d_decl d_standalone d_prolog d_root d_after] in *.
  destruct W1 as (WB1 & MB1 & XD1 & WP1 & MP1 & (n1 & a1 & t1 & s1 & k1 & ER1) & WR1 & WA1 & MA1).
  destruct W2 as (WB2 & MB2 & XD2 & WP2 & MP2 & (n2 & a2 & t2 & s2 & k2 & ER2) & WR2 & WA2 & MA2).
  (* the byte order mark *)
  assert (EB : bom1 = bom2 /\ render_items bef1 ++ [60; 63] ++ decl1 ++ [63; 62] ++ render_items pro1 ++ render root1 ++ render_items aft1 =
                            render_items bef2 ++ [60; 63] ++ decl2 ++ [63; 62] ++ render_items pro2 ++ render root2 ++ render_items aft2).
  { destruct bom1, bom2; cbn [app] in E2.
    - split; [reflexivity|]. unfold bom in E2. cbn [app] in E2. injection E2 as E2. exact E2.
    - exfalso. unfold bom in E2. cbn [app] in E2. symmetry in E2. destruct (misc_first_byte _ _ _ _ WB2 MB2 E2) as [C|C]; discriminate C.
    - exfalso. unfold bom in E2. cbn [app] in E2. destruct (misc_first_byte _ _ _ _ WB1 MB1 E2) as [C|C]; discriminate C.
    - auto. }
  destruct EB as [-> E].
  (* misc before the declaration *)
  destruct (U1_of_U2 is_misc _ (U2_all _) bef1 bef2 _ _ (le_n _) WB1 WB2 MB1 MB2 E (stop_decl _ _ _ XD1) (stop_decl _ _ _ XD2)) as [-> E3].
  (* the declaration *)
  cbn [app] in E3. injection E3 as E3.
  assert (E3' : (decl1 ++ [63]) ++ 62 :: (render_items pro1 ++ render root1 ++ render_items aft1) =
                (decl2 ++ [63]) ++ 62 :: (render_items pro2 ++ render root2 ++ render_items aft2))
    by (repeat (rewrite <- ?app_assoc; cbn [app]); exact E3).
  assert (N1 : no_byte 62 (decl1 ++ [63])) by (apply no_byte_app; split; [exact (proj1 XD1)|reflexivity]).
  assert (N2 : no_byte 62 (decl2 ++ [63])) by (apply no_byte_app; split; [exact (proj1 XD2)|reflexivity]).
  destruct (cut_unique 62 _ _ _ _ N1 N2 E3') as [ED E4]. apply app_inj_tail in ED as [-> _].
  assert (ESA : sa1 = sa2).
  { destruct XD1 as (_ & _ & enc1 & H1 & _). destruct XD2 as (_ & _ & enc2 & H2 & _). rewrite H1 in H2. injection H2 as _ ->. reflexivity. }
  subst sa2.
  (* the prolog *)
  assert (KR1 : kind root1 = 3) by (rewrite ER1; reflexivity). assert (KR2 : kind root2 = 3) by (rewrite ER2; reflexivity).
  assert (KK : forall x, is_misc_or_comment x -> kind x <> 3) by (intros [t|c|b|? ? ? ? ?] H; cbn in *; try discriminate; destruct H).
  destruct (U1_of_U2 is_misc_or_comment _ (U2_all _) pro1 pro2 _ _ (le_n _) WP1 WP2 MP1 MP2 E4
              (stop_root _ _ _ WR1 KR1 KK) (stop_root _ _ _ WR2 KR2 KK)) as [-> E5].
  (* the root *)
  destruct (U2_all _ root1 root2 _ _ (le_n _) WR1 WR2 E5) as [-> E6].
  { rewrite ER1. discriminate. } { rewrite ER2. discriminate. }
  (* misc after the root *)
  assert (E6' : render_items aft1 ++ [] = render_items aft2 ++ []) by (rewrite !app_nil_r; exact E6).
  destruct (U1_of_U2 is_misc _ (U2_all _) aft1 aft2 _ _ (le_n _) WA1 WA2 MA1 MA2 E6' (stop_nil _) (stop_nil _)) as [-> _].
  reflexivity.
Qed.

Corollary item_unique x y r1 r2 : WfX x -> WfX y -> render x ++ r1 = render y ++ r2 ->
  (is_xtext x = true -> at_markup r1) -> (is_xtext y = true -> at_markup r2) -> x = y /\ r1 = r2.
Proof. exact (U2_all _ x y r1 r2 (le_n _)). Qed.
