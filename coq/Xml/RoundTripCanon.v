(* Xml/RoundTripCanon.v — C01, first half: what the loader returns is canonical, outside the recorded classes.
   knownb T t (decidable, on the tree and the tables) is true iff some node of t
     - has an attribute or text value in a recorded value class (RoundTripCanonValues.known_valueb):
       Pattern value with an escaped byte / non-preserving String with a blank at an end / escaped text over max_length,
     - has a text item that is blank (a blank text can only come from character references: the lexer drops blank runs),
     - has two adjacent text items (text interrupted by a comment or a processing instruction: mixed-text-split),
     - carries a comment that is not UTF-8 or whose text would end early when read back (the loader stores the lossy
       conversion of the comment bytes; for UTF-8 comments the lexer guarantees CommentOk).
   Theorem (strict; the lenient mode without warnings follows from C08_agree): a strictly loaded tree with
   knownb = false is RootCanon for the file version.  Hypotheses: tables_ok, clean names in the three name tables, a
   type with character data is Characters or Mixed (cd_mode_ok), the float law and the UTF-8 closure. *)
From Coq Require Import Arith.
From AV Require Import Base.Bytes Base.Outcome Base.Utf8 Base.Radix Hash.HashModel Hash.HashProofs Spec.SpecOps Spec.Versions
  Xml.Lexer Xml.Parser Xml.Serializer Xml.LexerProofs Xml.TablesOk Xml.ParserProofs Xml.ParserCheck Xml.ParserDepth
  Xml.StrictValidDef Xml.StrictValid Xml.Escape Xml.RoundTripValues Xml.RoundTripAttrs Xml.RoundTripLexer Xml.RoundTripElem
  Xml.RoundTripFile Xml.RoundTripCanonValues Xml.Funnel Xml.FunnelParser.
Open Scope list_scope.
Open Scope N_scope.

(* ---------- CommentOk is decidable ---------- *)
Definition comment_okb (c : list N) : bool :=
  forallb (fun j => negb (starts_with [45; 45; 62] (skipn (j - 2) (comment_text c))))
          (seq 4 (List.length (comment_text c) - 4)).

Lemma comment_okb_spec c : comment_okb c = true <-> CommentOk c.
Proof.
  unfold comment_okb, CommentOk. rewrite forallb_forall. split.
  - intros H j Hj. specialize (H j ltac:(apply in_seq; lia)). apply negb_true_iff in H. exact H.
  - intros H j Hj. apply in_seq in Hj. apply negb_true_iff. apply H. lia.
Qed.

Definition comments_okb (cm : option (list N)) : bool :=
  match cm with None => true | Some c => comment_okb c && utf8_valid c end.

Lemma comments_okb_spec cm : comments_okb cm = true -> CommentsOk cm.
Proof.
  destruct cm as [c|]; [|exact (fun _ => I)]. cbn [comments_okb CommentsOk]. intros H. apply andb_true_iff in H as [A B].
  split; [apply comment_okb_spec; exact A|exact B].
Qed.

(* ---------- the recorded classes, on the tree ---------- *)
Definition blankb (v : cdata) : bool := match v with DString s => forallb is_ws s | _ => false end.

Fixpoint adjb (l : list (etree + cdata)) : bool :=
  match l with
  | inr _ :: ((inr _ :: _) as l') => true
  | _ :: l' => adjb l'
  | [] => false
  end.

Section Known.
Variable T : tables.

Definition known_textb (ty : etype) (v : cdata) : bool :=
  match chardata_spec T ty with
  | Val (Some cs) => known_valueb cs v || blankb v
  | _ => false
  end.

Fixpoint knownb (t : etree) : bool :=
  match t with
  | ENode _ ty attrs content cm =>
    existsb (known_attrb T ty) attrs || adjb content || negb (comments_okb cm) ||
    (fix go (l : list (etree + cdata)) : bool :=
       match l with
       | [] => false
       | inl e :: l' => knownb e || go l'
       | inr v :: l' => known_textb ty v || go l'
       end) content
  end.

Fixpoint kids_known (ty : etype) (l : list (etree + cdata)) : bool :=
  match l with
  | [] => false
  | inl e :: l' => knownb e || kids_known ty l'
  | inr v :: l' => known_textb ty v || kids_known ty l'
  end.

Lemma knownb_node n ty attrs content cm :
  knownb (ENode n ty attrs content cm) =
  existsb (known_attrb T ty) attrs || adjb content || negb (comments_okb cm) || kids_known ty content.
Proof.
  cbn [knownb]. f_equal. induction content as [|[e|v] l IH]; cbn [kids_known]; [reflexivity| |]; rewrite <- IH; reflexivity.
Qed.

Lemma kids_known_app ty a b : kids_known ty (a ++ b) = kids_known ty a || kids_known ty b.
Proof. induction a as [|[e|v] a IH]; cbn [app kids_known]; [reflexivity| |]; rewrite IH, orb_assoc; reflexivity. Qed.

End Known.

(* a type that carries character data has content mode Characters or Mixed *)
Definition cd_mode_ok (T : tables) : bool :=
  forallb (fun ty => match T_datatypes T ty with
                     | Some d => (dt_cdata d =? 0) || (dt_mode d =? MCharacters) || (dt_mode d =? MMixed)
                     | None => false
                     end) (iota (n_datatypes T)).

Section CanonLoad.
Variable T : tables.
Variable tab_el tab_at tab_en : nametab.
Variable check_fn : N -> list N -> res bool.
Variable float_fmt : N -> list N.
Variable float_parse : list N -> option N.

Hypothesis TOK : tables_ok T = true.
Hypothesis CDM : cd_mode_ok T = true.
Hypothesis CLEAN_EL : forall s i, from_bytes tab_el s = Ok i -> clean_name s = true.
Hypothesis CLEAN_AT : forall s i, from_bytes tab_at s = Ok i -> clean_name s = true.
Hypothesis CLEAN_EN : forall s i, from_bytes tab_en s = Ok i -> clean_name s = true.
Hypothesis FLOAT : forall s b, float_parse s = Some b ->
  no_edge_ws (float_fmt b) /\ utf8_valid (float_fmt b) = true /\ float_parse (float_fmt b) = Some b /\
  float_fmt b <> [] /\ forallb markup_free (float_fmt b) = true.
Hypothesis UTF8C : forall raw u st st', utf8_valid raw = true -> unescape_string true raw st = Val (Ret u st') ->
  utf8_valid (escape_text u) = true.

Notation PL := (pe_loop true T tab_el tab_at tab_en check_fn float_parse).
Notation PE := (parse_element true T tab_el tab_at tab_en check_fn float_parse).
Notation CANON := (Canon T tab_el tab_at tab_en check_fn float_fmt float_parse).
Notation CHILDREN := (ChildrenOk T tab_el tab_at tab_en check_fn float_fmt float_parse).
Notation ATTRCANON := (AttrCanon T tab_en check_fn float_fmt float_parse tab_at).
Notation ATTRSOK := (AttrsOk T tab_at tab_en check_fn float_fmt float_parse).

Definition ReqOk (ty : etype) (attrs : list (N * cdata)) : Prop :=
  exists specs, attribute_spec_list T ty = Val specs /\
    forall name cdid c req, In (name, cdid, c, req) specs -> req <> 0 -> existsb (fun a => fst a =? name) attrs = true.

Lemma attrs_ok_of_canon ver ty attrs : Forall (ATTRCANON ver ty) attrs -> ReqOk ty attrs ->
  existsb (known_attrb T ty) attrs = false -> ATTRSOK ver ty attrs.
Proof.
  intros F R K. split; [|exact R]. rewrite Forall_forall in *. intros a Ha. destruct (F a Ha) as [OK|KN]; [exact OK|].
  exfalso. assert (X : existsb (known_attrb T ty) attrs = true) by (apply existsb_exists; eauto). congruence.
Qed.

Lemma etype_mode ty : etype_ok T ty -> exists d, T_datatypes T (snd ty) = Some d /\ content_mode T ty = Val (dt_mode d).
Proof. intros E. destruct (etype_dt T TOK ty E) as (d & ED). exists d. split; [exact ED|]. unfold content_mode, dt. rewrite ED. reflexivity. Qed.

Lemma cdm_modes ty cs mode : etype_ok T ty -> chardata_spec T ty = Val (Some cs) -> content_mode T ty = Val mode ->
  mode = MCharacters \/ mode = MMixed.
Proof.
  intros E CS CM. destruct (etype_mode ty E) as (d & ED & CM'). rewrite CM in CM'. injection CM' as ->.
  destruct E as (_ & L & _). unfold cd_mode_ok in CDM. rewrite forallb_forall in CDM. specialize (CDM _ (proj2 (iota_spec _ _) L)).
  rewrite ED in CDM. unfold chardata_spec, dt in CS. rewrite ED in CS. cbn [unwrap bind] in CS.
  destruct (dt_cdata d =? 0); [discriminate CS|]. cbn [orb] in CDM. apply orb_true_iff in CDM as [C|C]; apply N.eqb_eq in C; auto.
Qed.

Lemma find_child_ok ty n v sub idx mode : etype_ok T ty -> find_sub_element T ty n v = Val (Some (sub, idx)) ->
  content_mode T ty = Val mode -> etype_ok T sub /\ mode <> MCharacters.
Proof.
  intros E FS CM. destruct (find_sub_element_total T TOK ty n v E) as (r & FS' & FO). rewrite FS in FS'. injection FS' as <-.
  destruct FO as [EO PO]. split; [exact EO|]. destruct (path_ok_slice T _ _ PO) as (d & ED & _ & MODE).
  unfold content_mode, dt in CM. rewrite ED in CM. cbn in CM. injection CM as <-. apply N.eqb_neq. exact MODE.
Qed.

Lemma conflict_canon name ty old new st u st' :
  check_element_conflict true T name ty old new st = Val (Ret u st') -> ConflictOk T ty old new.
Proof.
  unfold check_element_conflict, ConflictOk. destruct old as [|o old']; [auto|]. intros H.
  destruct (list_eqbN (o :: old') new) eqn:EQ; [right; left; apply list_eqbN_eq; exact EQ|].
  inv H as g s1 E1. apply lift_ret_inv in E1 as [FG ->]. inv H as d s2 E2. apply lift_ret_inv in E2 as [ED ->].
  right; right. exists g, d. split; [exact FG|]. split; [exact ED|].
  destruct (dt_mode d =? MChoice) eqn:C.
  - inv H as g1 s3 E3. destruct (oe_strict_ret _ _ _ _ _ _ H).
  - destruct (dt_mode d =? MCharacters) eqn:C2; [discriminate H|]. split; apply N.eqb_neq; assumption.
Qed.

Lemma mult_canon name ty idx content st u st' :
  (match content with [] => ret tt | _ :: _ => check_multiplicity true T name ty idx content end) st = Val (Ret u st') ->
  MultOk T ty idx name content.
Proof.
  unfold MultOk. destruct content as [|c0 content']; [auto|]. intros H. right. unfold check_multiplicity in H.
  inv H as mode s1 E1. apply lift_ret_inv in E1 as [GM ->]. exists mode. split; [exact GM|].
  destruct ((mode =? MSequence) || (mode =? MChoice)); [|left; reflexivity]. right.
  inv H as m s2 E2. apply lift_ret_inv in E2 as [GX ->]. exists m. split; [exact GX|].
  destruct m as [mult|]; [|exact I].
  destruct (negb (mult =? 2) && existsb (fun c => match c with inl e => e_name e =? name | inr _ => false end) (c0 :: content')) eqn:C.
  - inv H as g s3 E3. destruct (oe_strict_ret _ _ _ _ _ _ H).
  - apply andb_false_iff in C as [C|C]; [left; apply negb_false_iff, N.eqb_eq in C; exact C|right; exact C].
Qed.

(* ---------- the element loop ---------- *)
Definition rec_canon (rec : recT) : Prop :=
  forall n nm ty a c p ps st sub st',
    ElemNameOk tab_el n nm -> etype_ok T ty -> Forall (ATTRCANON (p_version st) ty) a -> ReqOk ty a ->
    rec n ty a c p ps st = Val (Ret sub st') ->
    p_version st' = p_version st /\ e_name sub = n /\ e_type sub = ty /\ (knownb T sub = false -> CANON (p_version st) sub).

Lemma pe_loop_canon (rec : recT) : rec_canon rec ->
  forall k name ty attrs comment pos content elem_idx snf stored path st t st' mode,
  PL rec k name ty attrs comment pos content elem_idx snf stored path st = Val (Ret t st') ->
  etype_ok T ty -> content_mode T ty = Val mode ->
  (snf = true -> head_short T content = true) ->
  p_version st' = p_version st /\
  exists more named, t = ENode name ty attrs (content ++ more) comment /\
    (kids_known T ty more = false -> CHILDREN (p_version st) ty mode elem_idx content more) /\
    is_named_in_version T ty (p_version st) = Val named /\ (named = true -> head_short T (content ++ more) = true).
Proof.
  intros HR. induction k as [|k IH]; intros name ty attrs comment pos content elem_idx snf stored path st t st' mode H TY CM SNF;
    [discriminate H|].
  cbn [pe_loop] in H.
  inv H as u1 s1 E1. injection E1 as _ <-.
  inv H as ev s2 E2. pose proof (vpres_inv _ _ _ _ vpres_pnext E2) as V2. cbn [p_version set_cur] in V2.
  destruct ev as [sa|elem_text attr_text|elem_text|text|c|].
  - inv H as u3 s3 E3. destruct (oe_strict_ret _ _ _ _ _ _ E3).
  - inv H as nm s3 E3. apply lift_ret_inv in E3 as [NM ->]. destruct nm as [sub_name|]; [|discriminate H].
    unfold name_of in NM. destruct (from_bytes tab_el elem_text) as [i| |] eqn:FB; try discriminate NM. injection NM as ->.
    assert (EN : ElemNameOk tab_el sub_name elem_text).
    { split; [exact (from_bytes_only_members _ _ _ FB)|]. split; [exact (CLEAN_EL _ _ FB)|exact FB]. }
    inv H as r s4 E4. pose proof (vpres_inv _ _ _ _ (vp_find_elem T true _ _) E4) as V4.
    apply find_elem_ret in E4. destruct r as [sub_ty idx'].
    destruct (find_child_ok ty sub_name _ sub_ty idx' mode TY E4 CM) as [STY NCH].
    inv H as u5 s5 E5. pose proof (vpres_inv _ _ _ _ (vp_conflict T true _ _ _ _) E5) as V5. apply conflict_canon in E5.
    inv H as u6 s6 E6.
    assert (V6 : p_version s6 = p_version s5).
    { destruct content; [injection E6 as _ <-; reflexivity|exact (vpres_inv _ _ _ _ (vp_mult T true _ _ _ _) E6)]. }
    apply mult_canon in E6.
    inv H as sub_attrs s7 E7. pose proof (vpres_inv _ _ _ _ (vp_pat T tab_at tab_en check_fn float_parse true _ _) E7) as V7.
    apply (pat_canon T tab_en check_fn float_fmt float_parse FLOAT UTF8C CLEAN_EN tab_at CLEAN_AT) in E7. destruct E7 as [FA RQ].
    inv H as sub s8 E8.
    assert (V6' : p_version s6 = p_version st) by congruence.
    assert (V7' : p_version s7 = p_version st) by congruence.
    rewrite V6' in FA. rewrite <- V7' in FA.
    destruct (HR _ _ _ _ _ _ _ _ _ _ EN STY FA RQ E8) as (V8 & NS & TS & CS).
    rewrite V7' in CS.
    assert (VS : p_version s8 = p_version st) by congruence.
    assert (V2' : p_version s2 = p_version st) by congruence. rewrite V2' in E4.
    assert (FIN : forall snf2 p2 s9, p_version s9 = p_version st ->
       (snf2 = true -> head_short T (content ++ [inl sub]) = true) ->
       PL rec k name ty attrs comment pos (content ++ [inl sub]) idx' snf2 None p2 s9 = Val (Ret t st') ->
       p_version st' = p_version st /\
       exists more named, t = ENode name ty attrs (content ++ more) comment /\
         (kids_known T ty more = false -> CHILDREN (p_version st) ty mode elem_idx content more) /\
         is_named_in_version T ty (p_version st) = Val named /\ (named = true -> head_short T (content ++ more) = true)).
    { intros snf2 p2 s9 V9 SNF2 HL. destruct (IH _ _ _ _ _ _ _ _ _ _ _ _ _ _ HL TY CM SNF2) as (VF & more & named & -> & CO & NV & NM).
      rewrite V9 in *. split; [exact VF|]. exists (inl sub :: more), named. rewrite <- app_assoc in *. cbn [app] in *.
      split; [reflexivity|]. split; [|split; [exact NV|exact NM]].
      intros KK. cbn [kids_known] in KK. apply orb_false_iff in KK as [K1 K2].
      eapply ck_elem; [rewrite NS, TS; exact E4|exact E5|rewrite NS; exact E6|exact (CS K1)|exact (CO K2)]. }
    assert (KEEP : snf = true -> head_short T (content ++ [inl sub]) = true).
    { intros S1. specialize (SNF S1). destruct content; [discriminate SNF|exact SNF]. }
    destruct (sub_name =? name_short_name T) eqn:ISN; cbn [andb] in H; [|eapply (FIN snf); [exact VS|exact KEEP|exact H]].
    destruct content as [|c0 cr] eqn:EC; [|rewrite <- EC in *; eapply (FIN snf); [exact VS|exact KEEP|exact H]].
    assert (SNF2 : true = true -> head_short T ([] ++ [inl sub]) = true).
    { intros _. cbn [app head_short is_short]. rewrite NS, ISN. reflexivity. }
    destruct (first_string sub).
    + inv H as u9 s9 E9. injection E9 as _ <-. eapply (FIN true); [|exact SNF2|exact H]. cbn [p_version add_ident]. exact VS.
    + eapply (FIN true); [exact VS|exact SNF2|exact H].
  - inv H as nm s3 E3. apply lift_ret_inv in E3 as [_ ->]. destruct nm as [n|]; [|discriminate H].
    destruct (n =? name); [|discriminate H].
    inv H as g s4 E4. apply get_ret_inv in E4 as [-> ->].
    inv H as named s5 E5. apply lift_ret_inv in E5 as [NV ->].
    inv H as u6 s6 E6. apply guard_strict_ret in E6 as [C ->]. injection H as <- <-.
    split; [exact V2|]. exists [], named. rewrite app_nil_r. split; [reflexivity|]. split; [intros _; constructor|].
    rewrite V2 in NV. split; [exact NV|]. intros NT. subst named. rewrite andb_true_r in C.
    apply negb_false_iff in C. exact (SNF C).
  - inv H as spec s3 E3. apply lift_ret_inv in E3 as [CS ->]. destruct spec as [cs|].
    + inv H as mode0 sm Em. apply lift_ret_inv in Em as [CM0 ->]. rewrite CM in CM0. injection CM0 as <-.
      destruct ((mode =? MCharacters) && negb match content with [] => true | _ :: _ => false end) eqn:GD.
      { inv H as ux sx Ex. destruct (oe_strict_ret _ _ _ _ _ _ Ex). }
      inv H as value s4 E4. pose proof (vpres_inv _ _ _ _ (vp_pcd tab_en check_fn float_parse true _ _) E4) as V4.
      apply (pcd_canon tab_en check_fn float_fmt float_parse FLOAT UTF8C) in E4.
      inv H as isr s5 E5. apply lift_ret_inv in E5 as [IR ->].
      inv H as u6 s6 E6.
      assert (V6 : p_version s6 = p_version s4).
      { destruct value; try (injection E6 as _ <-; reflexivity). destruct isr; injection E6 as _ <-; reflexivity. }
      assert (SNF2 : snf = true -> head_short T (content ++ [inr value]) = true).
      { intros S1. specialize (SNF S1). destruct content; [discriminate SNF|exact SNF]. }
      destruct (IH _ _ _ _ _ _ _ _ _ _ _ _ _ _ H TY CM SNF2) as (VF & more & named & -> & CO & NV & NM).
      assert (VV : p_version s6 = p_version st) by congruence. rewrite VV in *.
      split; [exact VF|]. exists (inr value :: more), named. rewrite <- app_assoc in *. cbn [app] in *.
      split; [reflexivity|]. split; [|split; [exact NV|exact NM]].
      intros KK. cbn [kids_known] in KK. apply orb_false_iff in KK as [K1 K2].
      unfold known_textb in K1. rewrite CS in K1. apply orb_false_iff in K1 as [K1a K1b].
      rewrite V2 in E4. destruct E4 as [VO|KV]; [|congruence].
      eapply ck_text; [| |exact (CO K2)].
      * destruct (valok_ser tab_en check_fn float_fmt float_parse FLOAT CLEAN_EN _ _ _ VO) as (bytes & SC & MF & NB).
        exists cs, bytes, isr. split; [exact CS|]. split; [exact IR|]. split; [exact VO|]. split; [exact SC|]. split; [exact MF|].
        apply NB. destruct value; try exact I. exact K1b.
      * intros MC. subst mode. rewrite N.eqb_refl in GD. cbn [andb] in GD. apply negb_false_iff in GD.
        destruct content; [reflexivity|discriminate GD].
    + inv H as u4 s4 E4. destruct (oe_strict_ret _ _ _ _ _ _ E4).
  - destruct (IH _ _ _ _ _ _ _ _ _ _ _ _ _ _ H TY CM SNF) as (VF & more & named & -> & CO & NV & NM). rewrite V2 in *. eauto 10.
  - discriminate H.
Qed.

(* ---------- the content shape follows from the children and the absence of adjacent text items ---------- *)
Lemma adjb_no_adjacent l : adjb l = false -> no_adjacent l.
Proof.
  intros H a b pre post E TA. subst l. induction pre as [|x pre IH].
  - cbn [app] in H. destruct a as [ea|va]; [discriminate TA|]. destruct b as [eb|vb]; [reflexivity|]. cbn in H. discriminate H.
  - apply IH. cbn [app] in H. destruct x as [ex|vx].
    + exact H.
    + destruct (pre ++ a :: b :: post) as [|y l'] eqn:EL; [destruct pre; discriminate EL|]. destruct y; [exact H|discriminate H].
Qed.

Lemma shape_of_children ver ty mode content : etype_ok T ty -> content_mode T ty = Val mode ->
  CHILDREN ver ty mode [] [] content -> adjb content = false -> ShapeOk mode content.
Proof.
  intros TY CM CK ADJ. unfold ShapeOk.
  destruct (mode =? MCharacters) eqn:MC.
  - apply N.eqb_eq in MC. subst mode.
    inversion CK as [|? ? ? ? c rest idx FS _ _ _ _|? ? ? ? v rest TO PRE CK1]; subst.
    + left; reflexivity.
    + exfalso. destruct (find_child_ok ty _ _ _ _ _ TY FS CM) as [_ NC]. congruence.
    + right. exists v. f_equal.
      inversion CK1 as [|? ? ? ? c rest2 idx FS _ _ _ _|? ? ? ? v2 rest2 TO2 PRE2 _]; subst.
      * reflexivity.
      * exfalso. destruct (find_child_ok ty _ _ _ _ _ TY FS CM) as [_ NC]. congruence.
      * specialize (PRE2 eq_refl). discriminate PRE2.
  - destruct (mode =? MMixed) eqn:MM; [apply adjb_no_adjacent; exact ADJ|].
    apply N.eqb_neq in MC, MM.
    assert (G : forall prev pre l, CHILDREN ver ty mode prev pre l -> Forall (fun c => is_text c = false) l).
    { intros prev pre l. revert prev pre. induction l as [|item l IHl]; intros prev pre CK0; [constructor|].
      inversion CK0 as [|? ? ? ? c rest idx _ _ _ _ CK1|? ? ? ? v rest TO _ CK1]; subst.
      - constructor; [reflexivity|eapply IHl; exact CK1].
      - exfalso. destruct TO as (cs & _ & _ & CS & _). destruct (cdm_modes ty cs mode TY CS CM); congruence. }
    eapply G. exact CK.
Qed.

Lemma parse_element_canon fuel lfuel : rec_canon (PE fuel lfuel).
Proof.
  induction fuel as [|f IH]; intros n nm ty a c p ps st sub st' EN TY FA RQ H; [discriminate H|]. cbn [parse_element] in H.
  destruct (etype_mode ty TY) as (d & _ & CM).
  destruct (pe_loop_canon _ IH _ _ _ _ _ _ _ _ _ _ _ _ _ _ _ H TY CM ltac:(discriminate)) as (VF & more & named & -> & CO & NV & NM).
  cbn [app] in *. split; [exact VF|]. split; [reflexivity|]. split; [reflexivity|].
  intros KN. rewrite knownb_node in KN. apply orb_false_iff in KN as [KN K4]. apply orb_false_iff in KN as [KN K3].
  apply orb_false_iff in KN as [K1 K2]. apply negb_false_iff in K3.
  pose proof (CO K4) as CK.
  apply (canon_node T tab_el tab_at tab_en check_fn float_fmt float_parse (p_version st) n ty a more c nm (dt_mode d) named).
  - apply comments_okb_spec. exact K3.
  - exact EN.
  - apply attrs_ok_of_canon; assumption.
  - exact CM.
  - eapply shape_of_children; eassumption.
  - exact CK.
  - exact NV.
  - exact NM.
Qed.

(* ---------- the file header: a silent strict parse of the header attributes does not depend on the state or the mode ---------- *)
Lemma pfv_indep schema st v st' : parse_file_version true schema st = Val (Ret v st') ->
  forall s st2, parse_file_version s schema st2 = Val (Ret v st2).
Proof.
  unfold parse_file_version. cbv zeta.
  destruct (negb (bytes_eqb (hd [] (split_on 32 [] schema)) (BS "http://autosar.org/schema/r4.0"))); [discriminate|].
  match goal with |- context [version_of_filename ?x] => destruct (version_of_filename x) as [v0|] end.
  - intros [= <- <-] s st2. reflexivity.
  - intros H. exfalso.
    repeat match type of H with
           | (if ?c then _ else _) _ = _ => destruct c
           end; inv H as u1 s1 E1; exact (oe_strict_ret _ _ _ _ _ _ E1).
Qed.

Lemma pfh_indep attrs st u st' : parse_file_header true tab_at attrs st = Val (Ret u st') ->
  exists v, st' = Parser.set_version st v /\
    forall s st2, parse_file_header s tab_at attrs st2 = Val (Ret tt (Parser.set_version st2 v)).
Proof.
  unfold parse_file_header, attr_id. intros H.
  inv H as a1 s1 E1. inv E1 as r1 s1' E1'. apply lift_ret_inv in E1' as [N1 ->]. destruct r1 as [i1|]; [|discriminate E1]. injection E1 as <- <-.
  inv H as a2 s2 E2. inv E2 as r2 s2' E2'. apply lift_ret_inv in E2' as [N2 ->]. destruct r2 as [i2|]; [|discriminate E2]. injection E2 as <- <-.
  inv H as a3 s3 E3. inv E3 as r3 s3' E3'. apply lift_ret_inv in E3' as [N3 ->]. destruct r3 as [i3|]; [|discriminate E3]. injection E3 as <- <-.
  destruct (attr_string i1 attrs) as [[xmlns|]|] eqn:A1; try discriminate H.
  destruct (attr_string i2 attrs) as [[xsi|]|] eqn:A2; try discriminate H.
  destruct (attr_string i3 attrs) as [[schema|]|] eqn:A3; try discriminate H.
  destruct (negb (bytes_eqb xmlns (BS "http://autosar.org/schema/r4.0")) || negb (bytes_eqb xsi (BS "http://www.w3.org/2001/XMLSchema-instance"))) eqn:C;
    [discriminate H|].
  inv H as v s4 E4. pose proof (pfv_indep _ _ _ _ E4) as IND. rewrite (IND true st) in E4. injection E4 as <-. injection H as _ <-.
  exists v. split; [reflexivity|]. intros s st2.
  rewrite N1. change (mbind (mbind (lift (Val (Some i1))) ?g) ?k st2) with (k i1 st2). cbv beta.
  rewrite N2. change (mbind (mbind (lift (Val (Some i2))) ?g) ?k st2) with (k i2 st2). cbv beta.
  rewrite N3. change (mbind (mbind (lift (Val (Some i3))) ?g) ?k st2) with (k i3 st2). cbv beta.
  rewrite A1, A2, A3, C. unfold mbind. rewrite (IND s st2). reflexivity.
Qed.

(* ---------- C01, first half: the strictly loaded tree is a canonical root, outside the recorded classes ---------- *)
Theorem load_canon bs t st :
  load true T tab_el tab_at tab_en check_fn float_parse bs = Val (Ret t st) -> knownb T t = false ->
  forall s, RootCanon s T tab_el tab_at tab_en check_fn float_fmt float_parse (p_version st) t.
Proof.
  unfold load.
  destruct (version_of_ident "Autosar_4_0_1") as [v401|] eqn:V401; [|destruct (elem T (autosar_element T)); discriminate].
  destruct (elem T (autosar_element T)) as [e|site|] eqn:EE; try discriminate.
  unfold parse_arxml. intros H KN s.
  inv H as ev s1 E1. pose proof (vpres_inv _ _ _ _ vpres_pnext E1) as V1. destruct ev; try discriminate H.
  inv H as u2 s2 E2. injection E2 as _ <-.
  inv H as tok s3 E3. pose proof (vpres_inv _ _ _ _ vpres_pnext E3) as V3. cbn [p_version set_standalone] in V3.
  inv H as r s4 E4. destruct r as [stored token].
  pose proof (vpres_inv _ _ _ _ (vp_skip_comments _ _ _) E4) as V4.
  destruct token as [|elemname attr_text| | | |]; try discriminate H.
  inv H as nm s5 E5. apply lift_ret_inv in E5 as [NM ->].
  inv H as an s6 E6. unfold autosar_name in E6. rewrite EE in E6. injection E6 as <- <-.
  destruct nm as [n0|]; [|discriminate H]. destruct (n0 =? ed_name e) eqn:EQN; [|discriminate H]. apply N.eqb_eq in EQN. subst n0.
  unfold name_of in NM. destruct (from_bytes tab_el elemname) as [i| |] eqn:FB; try discriminate NM. injection NM as ->.
  inv H as rt s7 E7. unfold root_type, et_new in E7. rewrite EE in E7. cbn [bind lift] in E7. injection E7 as <- <-.
  set (rt := (autosar_element T, ed_type e)) in *.
  assert (RTOK : etype_ok T rt).
  { destruct (root_ok T TOK) as (e' & rt' & EE' & ER & RTOK). rewrite EE in EE'. injection EE' as <-.
    unfold et_new in ER. rewrite EE in ER. cbn in ER. injection ER as <-. exact RTOK. }
  inv H as attributes s8 E8.
  pose proof (pat_canon T tab_en check_fn float_fmt float_parse FLOAT UTF8C CLEAN_EN tab_at CLEAN_AT _ _ _ _ _ E8) as [FA RQ].
  assert (V0 : p_version s4 = v401) by (rewrite V4, V3, V1; reflexivity). rewrite V0 in FA.
  inv H as u9 s9 E9. destruct (pfh_indep _ _ _ _ E9) as (ver & -> & HDR).
  inv H as root s10 E10. inv H as u11 s11 E11. injection H as <- <-.
  pose proof (vpres_inv _ _ _ _ (vp_verify_end true) E11) as V11.
  cbn [parse_element] in E10.
  destruct (etype_mode rt RTOK) as (d & _ & CM).
  destruct (pe_loop_canon _ (parse_element_canon (List.length bs) (S (List.length bs))) _ _ _ _ _ _ _ _ _ _ _ _ _ _ _ E10 RTOK CM ltac:(discriminate))
    as (VF & more & named & -> & CO & NV & NAMED).
  cbn [app p_version Parser.set_version] in *.
  rewrite knownb_node in KN. apply orb_false_iff in KN as [KN K4]. apply orb_false_iff in KN as [KN K3].
  apply orb_false_iff in KN as [K1 K2]. apply negb_false_iff in K3.
  rewrite V11, VF.
  apply (root_canon s T tab_el tab_at tab_en check_fn float_fmt float_parse ver e v401 elemname attributes more stored (dt_mode d) named).
  - exact EE.
  - exact V401.
  - apply comments_okb_spec. exact K3.
  - split; [exact (from_bytes_only_members _ _ _ FB)|]. split; [exact (CLEAN_EL _ _ FB)|exact FB].
  - apply attrs_ok_of_canon; assumption.
  - intros st2. apply HDR.
  - exact CM.
  - eapply shape_of_children; [exact RTOK|exact CM|exact (CO K4)|exact K2].
  - exact (CO K4).
  - exact NV.
  - exact NAMED.
Qed.

(* both modes: a lenient load without warnings is a strict load (C08_agree) *)
Theorem load_canon_both (b : bool) bs t st :
  load b T tab_el tab_at tab_en check_fn float_parse bs = Val (Ret t st) -> p_warnings st = [] -> knownb T t = false ->
  forall s, RootCanon s T tab_el tab_at tab_en check_fn float_fmt float_parse (p_version st) t.
Proof.
  intros L W KN. destruct b; [exact (load_canon bs t st L KN)|].
  destruct (load_agree T tab_el tab_at tab_en check_fn float_parse bs) as (A & _).
  exact (load_canon bs t st (A t st L W) KN).
Qed.

(* ---------- C01: load -> serialize -> load is the identity, and the second serialization is byte-identical ----------
   for every accepted input whose load is silent and whose tree is outside the recorded classes; `set_version ... t = t`
   says the root already carries the canonical xsi:schemaLocation text (ArxmlFile::serialize rewrites it otherwise) *)
Theorem reload_identity (b : bool) bs t st :
  load b T tab_el tab_at tab_en check_fn float_parse bs = Val (Ret t st) -> p_warnings st = [] -> knownb T t = false ->
  Serializer.set_version T tab_at check_fn (p_version st) t = Val t ->
  forall sa, exists bs',
    serialize_file T tab_el tab_at tab_en check_fn float_fmt (p_version st) sa t = Val bs' /\
    exists st', load b T tab_el tab_at tab_en check_fn float_parse bs' = Val (Ret t st') /\
      p_warnings st' = [] /\ p_version st' = p_version st /\ p_standalone st' = sa /\
      serialize_file T tab_el tab_at tab_en check_fn float_fmt (p_version st') sa t = Val bs'.
Proof.
  intros L W KN SV sa. pose proof (load_canon_both b bs t st L W KN b) as RC.
  destruct (root_ser_total b T tab_el tab_at tab_en check_fn float_fmt float_parse (p_version st) t RC) as (body & SB).
  assert (SF : serialize_file T tab_el tab_at tab_en check_fn float_fmt (p_version st) sa t = Val (xml_header sa ++ body)).
  { unfold serialize_file. rewrite SV. cbn [bind]. rewrite SB. reflexivity. }
  exists (xml_header sa ++ body). split; [exact SF|].
  destruct (serialize_load_roundtrip b T tab_el tab_at tab_en check_fn float_fmt float_parse (p_version st) t sa _ RC SV SF)
    as (st' & L' & W' & V' & S').
  exists st'. repeat split; try assumption. rewrite V'. exact SF.
Qed.

End CanonLoad.
