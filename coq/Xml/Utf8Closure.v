(* Xml/Utf8Closure.v — UTF-8 validity (Base/Utf8.v: utf8_valid, the model of std::str::from_utf8) is closed under
   concatenation, splitting at ASCII bytes, escape_text and strict unescape_string; char::from_u32 values encode to valid
   sequences.  Discharges the hypothesis UTF8C of RoundTripCanon*.v.  No hypothesis. *)
From Coq Require Import Arith.
From AV Require Import Base.Bytes Base.Outcome Base.Utf8 Base.Radix Xml.Lexer Xml.Parser Xml.Serializer Xml.LexerProofs
  Xml.ParserCheck Xml.ParserDepth Xml.StrictValid Xml.Escape Xml.RoundTripAttrs.
Open Scope list_scope.
Open Scope N_scope.

(* a single encoded character *)
Definition vchar (ch : list N) : Prop := ch <> [] /\ utf8_chunk ch = (true, List.length ch).

Ltac chunk_cases :=
  repeat match goal with
         | |- context [if ?c then _ else _] => destruct c eqn:?
         | H : context [if ?c then _ else _] |- _ => destruct c eqn:?
         end.

(* the verdict on a character does not depend on what follows it *)
Lemma chunk_prefix ch r : vchar ch -> utf8_chunk (ch ++ r) = (true, List.length ch).
Proof.
  intros [NE H]. destruct ch as [|b0 [|b1 [|b2 [|b3 [|b4 t]]]]]; [congruence| | | | |];
    unfold utf8_chunk in *; cbn [app List.length] in *; chunk_cases; try congruence; try discriminate H;
    try (injection H as H; discriminate H); try (injection H as H; lia).
Qed.

Lemma chunk_vchar s n : s <> [] -> utf8_chunk s = (true, n) -> vchar (firstn n s) /\ (n <= List.length s)%nat /\ (1 <= n)%nat.
Proof.
  intros NE H. destruct s as [|b0 r]; [congruence|]. unfold vchar.
  destruct r as [|b1 [|b2 [|b3 t]]]; unfold utf8_chunk in *; chunk_cases; try discriminate H; injection H as <-;
    cbn [firstn List.length]; repeat split; try discriminate; try lia;
    unfold utf8_chunk; repeat match goal with H : ?c = _ |- context [?c] => rewrite H end; reflexivity.
Qed.

Lemma vchar_ascii c : c < 128 -> vchar [c].
Proof. intros L. split; [discriminate|]. unfold utf8_chunk. apply N.ltb_lt in L. rewrite L. reflexivity. Qed.

(* an ASCII first byte is a whole character; in a longer character every byte is >= 128 *)
Lemma vchar_shape ch : vchar ch -> (exists c, ch = [c] /\ c < 128) \/ Forall (fun x => 128 <= x) ch.
Proof.
  intros [NE H]. destruct ch as [|b0 r]; [congruence|]. unfold utf8_chunk in H.
  destruct (b0 <? 128) eqn:A.
  - left. injection H as H. destruct r; [|cbn in H; lia]. exists b0. split; [reflexivity|apply N.ltb_lt; exact A].
  - right. apply N.ltb_ge in A. constructor; [exact A|].
    unfold is_cont in H. unfold in_rng in H.
    destruct r as [|b1 [|b2 [|b3 [|b4 t]]]]; chunk_cases; try discriminate H; try (injection H as H; cbn in H; lia);
      repeat first [apply Forall_nil | apply Forall_cons];
      repeat match goal with
             | E : (_ && _) = true |- _ => apply andb_true_iff in E as [? ?]
             | E : (_ <=? _) = true |- _ => apply N.leb_le in E
             | E : (_ =? _) = true |- _ => apply N.eqb_eq in E
             end; lia.
Qed.

Inductive U8 : list N -> Prop :=
| u8_nil : U8 []
| u8_cons ch s : vchar ch -> U8 s -> U8 (ch ++ s).

Lemma U8_valid_fuel s : U8 s -> forall f, (List.length s < f)%nat -> utf8_valid_fuel f s = true.
Proof.
  induction 1 as [|ch s V _ IH]; intros f L; [destruct f; reflexivity|].
  destruct f as [|f]; [lia|]. cbn [utf8_valid_fuel]. destruct V as [NE C].
  destruct (ch ++ s) as [|x l] eqn:E; [reflexivity|]. rewrite <- E in *.
  rewrite (chunk_prefix ch s (conj NE C)). rewrite skipn_app_exact. apply IH.
  rewrite app_length in L. destruct ch; [congruence|cbn [List.length] in L; lia].
Qed.

Lemma valid_fuel_U8 : forall f s, (List.length s < f)%nat -> utf8_valid_fuel f s = true -> U8 s.
Proof.
  induction f as [|f IH]; intros s L V; [lia|]. cbn [utf8_valid_fuel] in V.
  destruct s as [|b0 r]; [constructor|]. destruct (utf8_chunk (b0 :: r)) as [ok n] eqn:C. destruct ok; [|discriminate V].
  destruct (chunk_vchar (b0 :: r) n ltac:(discriminate) C) as (VC & LN & N1).
  rewrite <- (firstn_skipn n (b0 :: r)). constructor; [exact VC|]. apply IH; [|exact V].
  rewrite skipn_length. cbn [List.length] in *. lia.
Qed.

Lemma valid_U8 s : utf8_valid s = true <-> U8 s.
Proof.
  unfold utf8_valid. split; [apply valid_fuel_U8; lia|]. intros H. apply U8_valid_fuel; [exact H|lia].
Qed.

Lemma U8_app a b : U8 a -> U8 b -> U8 (a ++ b).
Proof. induction 1 as [|ch s V _ IH]; intros B; [exact B|]. rewrite <- app_assoc. constructor; [exact V|exact (IH B)]. Qed.

Lemma U8_ascii l : Forall (fun c => c < 128) l -> U8 l.
Proof. induction 1 as [|c l L _ IH]; [constructor|]. change (c :: l) with ([c] ++ l). constructor; [apply vchar_ascii; exact L|exact IH]. Qed.

(* splitting at an ASCII byte *)
Lemma U8_split_ascii : forall n a c b, (List.length a <= n)%nat -> c < 128 -> U8 (a ++ c :: b) -> U8 a /\ U8 b.
Proof.
  induction n as [|n IH]; intros a c b LA LC H.
  - destruct a; [|cbn in LA; lia]. cbn [app] in H. split; [constructor|].
    inversion H as [E|ch s V US E]. destruct (vchar_shape ch V) as [(c0 & -> & _)|F].
    + cbn [app] in E. injection E as -> ->. exact US.
    + destruct ch as [|x ch']; [destruct V; congruence|]. cbn [app] in E. injection E as -> _. inversion F; lia.
  - inversion H as [E|ch s V US E]; [destruct a; discriminate E|].
    destruct a as [|a0 a']; [apply (IH [] c b); [cbn; lia|exact LC|exact H]|].
    apply app_eq_app in E as (l & [[E1 E2]|[E1 E2]]).
    + (* ch = (a0 :: a') ++ l : the ASCII byte would be inside the character, unless l = [] *)
      destruct l as [|l0 l'].
      * rewrite app_nil_r in E1. cbn [app] in E2. subst ch. rewrite <- E2 in US. split.
        -- rewrite <- (app_nil_r (a0 :: a')). constructor; [exact V|constructor].
        -- destruct (IH [] c b ltac:(cbn; lia) LC US) as [_ B]. exact B.
      * exfalso. cbn [app] in E2. injection E2 as -> _. destruct (vchar_shape ch V) as [(c0 & EC & _)|F].
        -- rewrite E1 in EC. cbn [app] in EC. injection EC as _ EC. destruct a'; discriminate EC.
        -- rewrite E1 in F. apply Forall_app in F as [_ F]. inversion F; lia.
    + (* a0 :: a' = ch ++ l *)
      rewrite E1. destruct (IH l c b) as [UL UB]; [|exact LC|rewrite <- E2; exact US|].
      * apply (f_equal (@List.length N)) in E1. rewrite app_length in E1. destruct V as [NE _]. destruct ch; [congruence|].
        cbn [List.length] in *. lia.
      * split; [constructor; assumption|exact UB].
Qed.

Lemma U8_drop_ascii p : Forall (fun c => c < 128) p -> forall X, U8 (p ++ X) -> U8 X.
Proof.
  induction 1 as [|c p L _ IH]; intros X H; [exact H|]. apply IH.
  change ((c :: p) ++ X) with ([] ++ c :: (p ++ X)) in H. apply (U8_split_ascii 0 [] c (p ++ X) (le_n _) L H).
Qed.
