(* Xml/Utf8Closure.v — UTF-8 validity (Base/Utf8.v: utf8_valid, the model of std::str::from_utf8) is closed under
   concatenation, splitting at ASCII bytes, escape_text and strict unescape_string; char::from_u32 values encode to valid
   sequences.  Discharges the hypothesis UTF8C of RoundTripCanon*.v.  No hypothesis. *)
From Coq Require Import Arith.
From AV Require Import Base.Bytes Base.Outcome Base.Utf8 Base.Radix Xml.Lexer Xml.Parser Xml.Serializer Xml.LexerProofs
  Xml.ParserCheck Xml.ParserDepth Xml.StrictValid Xml.Escape Xml.RoundTripAttrs.
Open Scope list_scope.
Open Scope N_scope.

(* a single encoded character *)
Definition vchar (ch : list N) : Prop := ch <> [] /\ utf8_chunk ch = (true, List.length ch).

Ltac chunk_cases :=
  repeat match goal with
         | |- context [if ?c then _ else _] => destruct c eqn:?
         | H : context [if ?c then _ else _] |- _ => destruct c eqn:?
         end.

(* the verdict on a character does not depend on what follows it *)
Lemma chunk_prefix ch r : vchar ch -> utf8_chunk (ch ++ r) = (true, List.length ch).
Proof.
  intros [NE H]. destruct ch as [|b0 [|b1 [|b2 [|b3 [|b4 t]]]]]; [congruence| | | | |];
    unfold utf8_chunk in *; cbn [app List.length] in *; chunk_cases; try congruence; try discriminate H;
    try (injection H as H; discriminate H); try (injection H as H; lia).
Qed.

Lemma chunk_vchar s n : s <> [] -> utf8_chunk s = (true, n) -> vchar (firstn n s) /\ (n <= List.length s)%nat /\ (1 <= n)%nat.
Proof.
  intros NE H. destruct s as [|b0 r]; [congruence|]. unfold vchar.
  destruct r as [|b1 [|b2 [|b3 t]]]; unfold utf8_chunk in *; chunk_cases; try discriminate H; injection H as <-;
    cbn [firstn List.length]; repeat split; try discriminate; try lia;
    unfold utf8_chunk; repeat match goal with H : ?c = _ |- context [?c] => rewrite H end; reflexivity.
Qed.

Lemma vchar_ascii c : c < 128 -> vchar [c].
Proof. intros L. split; [discriminate|]. unfold utf8_chunk. apply N.ltb_lt in L. rewrite L. reflexivity. Qed.

(* an ASCII first byte is a whole character; in a longer character every byte is >= 128 *)
Lemma vchar_shape ch : vchar ch -> (exists c, ch = [c] /\ c < 128) \/ Forall (fun x => 128 <= x) ch.
Proof.
  intros [NE H]. destruct ch as [|b0 r]; [congruence|]. unfold utf8_chunk in H.
  destruct (b0 <? 128) eqn:A.
  - left. injection H as H. destruct r; [|cbn in H; lia]. exists b0. split; [reflexivity|apply N.ltb_lt; exact A].
  - right. apply N.ltb_ge in A. constructor; [exact A|].
    unfold is_cont in H. unfold in_rng in H.
    destruct r as [|b1 [|b2 [|b3 [|b4 t]]]]; chunk_cases; try discriminate H; try (injection H as H; cbn in H; lia);
      repeat first [apply Forall_nil | apply Forall_cons];
      repeat match goal with
             | E : (_ && _) = true |- _ => apply andb_true_iff in E as [? ?]
             | E : (_ <=? _) = true |- _ => apply N.leb_le in E
             | E : (_ =? _) = true |- _ => apply N.eqb_eq in E
             end; lia.
Qed.

Inductive U8 : list N -> Prop :=
| u8_nil : U8 []
| u8_cons ch s : vchar ch -> U8 s -> U8 (ch ++ s).

Lemma U8_valid_fuel s : U8 s -> forall f, (List.length s < f)%nat -> utf8_valid_fuel f s = true.
Proof.
  induction 1 as [|ch s V _ IH]; intros f L; [destruct f; reflexivity|].
  destruct f as [|f]; [lia|]. cbn [utf8_valid_fuel]. destruct V as [NE C].
  destruct (ch ++ s) as [|x l] eqn:E; [reflexivity|]. rewrite <- E in *.
  rewrite (chunk_prefix ch s (conj NE C)). rewrite skipn_app_exact. apply IH.
  rewrite app_length in L. destruct ch; [congruence|cbn [List.length] in L; lia].
Qed.

Lemma valid_fuel_U8 : forall f s, (List.length s < f)%nat -> utf8_valid_fuel f s = true -> U8 s.
Proof.
  induction f as [|f IH]; intros s L V; [lia|]. cbn [utf8_valid_fuel] in V.
  destruct s as [|b0 r]; [constructor|]. destruct (utf8_chunk (b0 :: r)) as [ok n] eqn:C. destruct ok; [|discriminate V].
  destruct (chunk_vchar (b0 :: r) n ltac:(discriminate) C) as (VC & LN & N1).
  rewrite <- (firstn_skipn n (b0 :: r)). constructor; [exact VC|]. apply IH; [|exact V].
  rewrite skipn_length. cbn [List.length] in *. lia.
Qed.

Lemma valid_U8 s : utf8_valid s = true <-> U8 s.
Proof.
  unfold utf8_valid. split; [apply valid_fuel_U8; lia|]. intros H. apply U8_valid_fuel; [exact H|lia].
Qed.

Lemma U8_app a b : U8 a -> U8 b -> U8 (a ++ b).
Proof. induction 1 as [|ch s V _ IH]; intros B; [exact B|]. rewrite <- app_assoc. constructor; [exact V|exact (IH B)]. Qed.

Lemma U8_ascii l : Forall (fun c => c < 128) l -> U8 l.
Proof. induction 1 as [|c l L _ IH]; [constructor|]. change (c :: l) with ([c] ++ l). constructor; [apply vchar_ascii; exact L|exact IH]. Qed.

(* splitting at an ASCII byte *)
Lemma U8_split_ascii : forall n a c b, (List.length a <= n)%nat -> c < 128 -> U8 (a ++ c :: b) -> U8 a /\ U8 b.
Proof.
  induction n as [|n IH]; intros a c b LA LC H.
  - destruct a; [|cbn in LA; lia]. cbn [app] in H. split; [constructor|].
    inversion H as [E|ch s V US E]. destruct (vchar_shape ch V) as [(c0 & -> & _)|F].
    + cbn [app] in E. injection E as -> ->. exact US.
    + destruct ch as [|x ch']; [destruct V; congruence|]. cbn [app] in E. injection E as -> _. inversion F; lia.
  - inversion H as [E|ch s V US E]; [destruct a; discriminate E|].
    destruct a as [|a0 a']; [apply (IH [] c b); [cbn; lia|exact LC|exact H]|].
    apply app_eq_app in E as (l & [[E1 E2]|[E1 E2]]).
    + (* ch = (a0 :: a') ++ l : the ASCII byte would be inside the character, unless l = [] *)
      destruct l as [|l0 l'].
      * rewrite app_nil_r in E1. cbn [app] in E2. subst ch. rewrite <- E2 in US. split.
        -- rewrite <- (app_nil_r (a0 :: a')). constructor; [exact V|constructor].
        -- destruct (IH [] c b ltac:(cbn; lia) LC US) as [_ B]. exact B.
      * exfalso. cbn [app] in E2. injection E2 as -> _. destruct (vchar_shape ch V) as [(c0 & EC & _)|F].
        -- rewrite E1 in EC. cbn [app] in EC. injection EC as _ EC. destruct a'; discriminate EC.
        -- rewrite E1 in F. apply Forall_app in F as [_ F]. inversion F; lia.
    + (* a0 :: a' = ch ++ l *)
      rewrite E1. destruct (IH l c b) as [UL UB]; [|exact LC|rewrite <- E2; exact US|].
      * apply (f_equal (@List.length N)) in E1. rewrite app_length in E1. destruct V as [NE _]. destruct ch; [congruence|].
        cbn [List.length] in *. lia.
      * split; [constructor; assumption|exact UB].
Qed.

Lemma U8_drop_ascii p : Forall (fun c => c < 128) p -> forall X, U8 (p ++ X) -> U8 X.
Proof.
  induction 1 as [|c p L _ IH]; intros X H; [exact H|]. apply IH.
  change ((c :: p) ++ X) with ([] ++ c :: (p ++ X)) in H. apply (U8_split_ascii 0 [] c (p ++ X) (le_n _) L H).
Qed.

(* ---------- escape_text ---------- *)
Lemma escape_byte_ascii c : c < 128 -> Forall (fun x => x < 128) (escape_byte c).
Proof.
  intros L. destruct (special c) eqn:S.
  - destruct (escape_byte_special c S) as [[-> E]|[[-> E]|[[-> E]|[[-> E]|[-> E]]]]]; rewrite E; repeat constructor.
  - rewrite (escape_byte_plain c S). repeat constructor. exact L.
Qed.

Lemma U8_escape s : U8 s -> U8 (escape_text s).
Proof.
  induction 1 as [|ch s V _ IH]; [constructor|]. rewrite escape_text_app. apply U8_app; [|exact IH].
  destruct (vchar_shape ch V) as [(c & -> & L)|F].
  - cbn [escape_text flat_map]. rewrite app_nil_r. apply U8_ascii, escape_byte_ascii, L.
  - rewrite escape_text_plain.
    + rewrite <- (app_nil_r ch). constructor; [exact V|constructor].
    + apply forallb_forall. intros x Hx. rewrite Forall_forall in F. specialize (F x Hx). apply negb_true_iff.
      unfold special. repeat (apply orb_false_iff; split); apply N.eqb_neq; lia.
Qed.

(* ---------- char::from_u32 values encode to one valid character ---------- *)
Ltac bool_arith :=
  repeat match goal with
         | |- context [?a =? ?b] => destruct (N.eqb_spec a b); try lia
         | |- context [?a <? ?b] => destruct (N.ltb_spec a b); try lia
         | |- context [?a <=? ?b] => destruct (N.leb_spec a b); try lia
         end.

Lemma divmod64 v : exists q r, v / 64 = q /\ v mod 64 = r /\ v = 64 * q + r /\ r < 64.
Proof.
  exists (v / 64), (v mod 64). split; [reflexivity|]. split; [reflexivity|].
  split; [apply N.div_mod; discriminate|apply N.mod_lt; discriminate].
Qed.

Lemma vchar_encode v : is_char v = true -> vchar (utf8_encode v).
Proof.
  unfold is_char, in_rng. rewrite andb_true_iff, negb_true_iff, andb_false_iff, !N.leb_le, !N.leb_gt. intros [MAX SUR].
  destruct (divmod64 v) as (A & rA & EA & ErA & DA & LA).
  destruct (divmod64 A) as (B & rB & EB & ErB & DB & LB).
  destruct (divmod64 B) as (C & rC & EC & ErC & DC & LC).
  assert (E4096 : v / 4096 = B) by (change 4096 with (64 * 64); rewrite <- N.div_div by discriminate; rewrite EA; exact EB).
  assert (E262144 : v / 262144 = C) by (change 262144 with (4096 * 64); rewrite <- N.div_div by discriminate; rewrite E4096; exact EC).
  unfold utf8_encode. rewrite EA, ErA, E4096, E262144. rewrite ErB, ErC.
  clear EA ErA EB ErB EC ErC E4096 E262144.
  destruct (N.ltb_spec v 128); [apply vchar_ascii; assumption|].
  destruct (N.ltb_spec v 2048).
  - split; [discriminate|]. unfold utf8_chunk, in_rng, is_cont, in_rng. cbn [List.length]. bool_arith; reflexivity.
  - destruct (N.ltb_spec v 65536).
    + split; [discriminate|]. unfold utf8_chunk, in_rng, is_cont, in_rng. cbn [List.length]. bool_arith; reflexivity.
    + split; [discriminate|]. unfold utf8_chunk, in_rng, is_cont, in_rng. cbn [List.length]. bool_arith; reflexivity.
Qed.

(* ---------- strict unescaping ---------- *)
Lemma starts_with_split p : forall l, starts_with p l = true -> l = p ++ skipn (List.length p) l.
Proof.
  induction p as [|x p IH]; intros l H; [reflexivity|]. destruct l as [|y l]; [discriminate H|]. cbn [starts_with] in H.
  apply andb_true_iff in H as [E H]. apply N.eqb_eq in E. subst y. cbn [app List.length skipn]. f_equal. apply IH, H.
Qed.

Lemma U8_after_prefix p l : Forall (fun c => c < 128) p -> starts_with p l = true -> U8 l -> U8 (skipn (List.length p) l).
Proof. intros F S H. rewrite (starts_with_split p l S) in H. exact (U8_drop_ascii p F _ H). Qed.

Lemma U8_snoc_ascii acc c : U8 acc -> c < 128 -> U8 (acc ++ [c]).
Proof. intros H L. apply U8_app; [exact H|]. apply U8_ascii. repeat constructor. exact L. Qed.

Lemma U8_unescape_loop fuel : forall rem acc st u st', U8 acc -> U8 rem ->
  unescape_loop true fuel rem acc st = Val (Ret u st') -> U8 u.
Proof.
  induction fuel as [|f IH]; intros rem acc st u st' UA UR H; [discriminate H|]. cbn [unescape_loop] in H.
  destruct (find_byte 38 rem) as [pos|] eqn:F; [|injection H as <- _; apply U8_app; assumption].
  unfold find_byte in F. destruct (position_split _ _ F) as (x & Hx & SPLIT). apply N.eqb_eq in Hx. subst x.
  rewrite SPLIT in UR. destruct (U8_split_ascii (List.length (firstn pos rem)) _ 38 _ (le_n _) ltac:(reflexivity) UR) as [UP UT].
  set (rem' := skipn pos rem) in *.
  assert (ER : rem' = 38 :: skipn (S pos) rem).
  { unfold rem'. rewrite SPLIT at 1. pose proof (position_Some _ _ F) as (LT & _ & _).
    rewrite skipn_app, firstn_length. replace (Nat.min pos (List.length rem)) with pos by lia. rewrite Nat.sub_diag.
    rewrite skipn_all2 by (rewrite firstn_length; lia). reflexivity. }
  assert (UR' : U8 rem').
  { rewrite ER. change (38 :: skipn (S pos) rem) with ([38] ++ skipn (S pos) rem). constructor; [apply vchar_ascii; reflexivity|exact UT]. }
  set (acc' := acc ++ firstn pos rem) in *. assert (UA' : U8 acc') by (apply U8_app; assumption).
  assert (INV : forall a, mbind (optional_error true InvalidXmlEntity 0 0) (fun _ => unescape_loop true f (skipn 1 rem') a) st = Val (Ret u st') -> U8 u).
  { intros a HH. inv HH as u1 s1 E1. destruct (oe_strict_ret _ _ _ _ _ _ E1). }
  assert (NAMED : forall p c, Forall (fun x => x < 128) p -> c < 128 -> starts_with p rem' = true ->
            unescape_loop true f (skipn (List.length p) rem') (acc' ++ [c]) st = Val (Ret u st') -> U8 u).
  { intros p c FP LC SW HH. eapply IH; [|exact (U8_after_prefix p rem' FP SW UR')|exact HH]. apply U8_snoc_ascii; assumption. }
  assert (REF : forall endpos v, find_byte 59 rem' = Some endpos -> is_char v = true ->
            unescape_loop true f (skipn (S endpos) rem') (acc' ++ utf8_encode v) st = Val (Ret u st') -> U8 u).
  { intros endpos v FE IC HH. unfold find_byte in FE. destruct (position_split _ _ FE) as (y & Hy & SP2). apply N.eqb_eq in Hy. subst y.
    rewrite SP2 in UR'. destruct (U8_split_ascii (List.length (firstn endpos rem')) _ 59 _ (le_n _) ltac:(reflexivity) UR') as [_ UT2].
    eapply IH; [|exact UT2|exact HH]. apply U8_app; [exact UA'|]. rewrite <- (app_nil_r (utf8_encode v)).
    constructor; [apply vchar_encode; exact IC|constructor]. }
  destruct (starts_with (BS "&lt;") rem') eqn:S1; [apply (NAMED (BS "&lt;") 60 ltac:(repeat constructor) ltac:(reflexivity) S1 H)|].
  destruct (starts_with (BS "&gt;") rem') eqn:S2; [apply (NAMED (BS "&gt;") 62 ltac:(repeat constructor) ltac:(reflexivity) S2 H)|].
  destruct (starts_with (BS "&amp;") rem') eqn:S3; [apply (NAMED (BS "&amp;") 38 ltac:(repeat constructor) ltac:(reflexivity) S3 H)|].
  destruct (starts_with (BS "&apos;") rem') eqn:S4; [apply (NAMED (BS "&apos;") 39 ltac:(repeat constructor) ltac:(reflexivity) S4 H)|].
  destruct (starts_with (BS "&quot;") rem') eqn:S5; [apply (NAMED (BS "&quot;") 34 ltac:(repeat constructor) ltac:(reflexivity) S5 H)|].
  destruct (starts_with (BS "&#x") rem').
  { destruct (find_byte 59 rem') as [endpos|] eqn:F2; [|apply (INV _ H)]. cbv zeta in H.
    destruct (starts_with [43] (firstn (endpos - 3) (skipn 3 rem'))); [apply (INV _ H)|].
    destruct (from_str_radix_u 32 16 (firstn (endpos - 3) (skipn 3 rem'))) as [v|]; [|apply (INV _ H)].
    destruct (is_char v) eqn:IC; [|apply (INV _ H)]. exact (REF endpos v eq_refl IC H). }
  destruct (starts_with (BS "&#") rem').
  { destruct (find_byte 59 rem') as [endpos|] eqn:F2; [|apply (INV _ H)]. cbv zeta in H.
    destruct (starts_with [43] (firstn (endpos - 2) (skipn 2 rem'))); [apply (INV _ H)|].
    destruct (from_str_radix_u 32 10 (firstn (endpos - 2) (skipn 2 rem'))) as [v|]; [|apply (INV _ H)].
    destruct (is_char v) eqn:IC; [|apply (INV _ H)]. exact (REF endpos v eq_refl IC H). }
  apply (INV _ H).
Qed.

(* the closure used by RoundTripCanon: valid text, unescaped strictly and escaped again, is valid *)
Theorem utf8_unescape_escape raw u st st' : utf8_valid raw = true -> unescape_string true raw st = Val (Ret u st') ->
  utf8_valid (escape_text u) = true.
Proof.
  intros V H. apply valid_U8, U8_escape. apply valid_U8 in V. unfold unescape_string in H.
  destruct (find_byte 38 raw); [|injection H as <- _; exact V].
  eapply U8_unescape_loop; [constructor|exact V|exact H].
Qed.
