(* Xml/ReadingLexer.v — C01 faithfulness, the lexer: every call of ArxmlLexer::next that returns an event has consumed
   misc items (blank character data runs, processing instructions) followed by exactly the bytes of one token of the
   grammar of Xml/Reading.v (lex_next_reads); no hypothesis. *)
From Coq Require Import Arith Lia.
From AV Require Import Base.Bytes Base.Outcome Base.Utf8 Xml.Lexer Xml.Parser Xml.LexerProofs Xml.Escape Xml.RoundTripAttrs
  Xml.RoundTripLexer Xml.RoundTripLexerComment Xml.Reading.
Open Scope list_scope.
Open Scope N_scope.

(* one token: the event, its bytes, the end tag the lexer defers (empty element tag) *)
Inductive TokR : event -> list N -> option (list N) -> Prop :=
| tr_chars t : t <> [] -> no_byte 60 t -> forallb is_ws t = false -> TokR (EvChars t) t None
| tr_comment c : CommentOk c -> TokR (EvComment c) (comment_text c ++ [62]) None
| tr_header body sa : XmlDeclR body sa -> TokR (EvHeader sa) ([60; 63] ++ body ++ [63; 62]) None
| tr_end nm : no_byte 62 nm -> TokR (EvEnd nm) ([60; 47] ++ nm ++ [62]) None
| tr_begin inner name attrs :
    inner <> [] -> no_byte 62 inner -> hd 0 inner <> 47 -> hd 0 inner <> 63 -> hd 0 inner <> 33 -> last inner 0 <> 47 ->
    split_tag inner = (name, attrs) -> TokR (EvBegin name attrs) ([60] ++ inner ++ [62]) None
| tr_empty inner name attrs :
    inner <> [] -> no_byte 62 inner -> hd 0 inner <> 47 -> hd 0 inner <> 63 -> hd 0 inner <> 33 ->
    split_tag inner = (name, attrs) -> TokR (EvBegin name attrs) ([60] ++ inner ++ [47; 62]) (Some name).

Definition is_chars (ev : event) : bool := match ev with EvChars _ => true | _ => false end.
Definition at_markup (l : list N) : Prop := l = [] \/ exists r, l = 60 :: r.

Definition StepR (st : lstate) (ev : event) (st' : lstate) : Prop :=
  exists sk, WfItems sk /\ Forall is_misc sk /\
    (at_markup (l_rest st) -> head_is_text sk = false /\ (sk = [] -> is_chars ev = false)) /\
    (sk <> [] -> is_xtext (last sk (XPI [])) = true -> is_chars ev = false) /\
    ((ev = EvEOF /\ l_rest st = render_items sk /\ l_rest st' = [] /\ l_deferred st' = None) \/
     (exists bytes, TokR ev bytes (l_deferred st') /\ l_rest st = render_items sk ++ bytes ++ l_rest st' /\
                    (is_chars ev = true -> at_markup (l_rest st')))).

Lemma no_byte_of_position c l p : position (N.eqb c) l = Some p -> no_byte c (firstn p l).
Proof. intros H. exact (proj2 (proj2 (position_Some _ _ H))). Qed.

Lemma position_cut c l p : position (N.eqb c) l = Some p -> l = firstn p l ++ c :: skipn (S p) l.
Proof. intros H. destruct (position_split _ _ H) as (x & E & S). apply N.eqb_eq in E. subst x. exact S. Qed.

Lemma position_skipn c l : forall p, position (N.eqb c) l = Some p -> skipn p l = c :: skipn (S p) l.
Proof.
  induction l as [|x l IH]; intros p; cbn [position]; [discriminate|]. destruct (c =? x) eqn:E.
  - intros [= <-]. apply N.eqb_eq in E. subst x. reflexivity.
  - destruct (position (N.eqb c) l) as [q|]; [|discriminate]. cbn [option_map]. intros [= <-]. cbn [skipn]. exact (IH q eq_refl).
Qed.

Lemma render_items_cons x l : render_items (x :: l) = render x ++ render_items l.
Proof. reflexivity. Qed.
Lemma render_items_app a b : render_items (a ++ b) = render_items a ++ render_items b.
Proof. unfold render_items. rewrite map_app, concat_app. reflexivity. Qed.

(* consing a skipped item in front of the items of the rest of the step *)
Lemma step_cons x st0 st1 ev st' :
  WfX x -> is_misc x -> l_rest st0 = render x ++ l_rest st1 ->
  (is_xtext x = true -> at_markup (l_rest st1)) -> (at_markup (l_rest st0) -> is_xtext x = false) ->
  StepR st1 ev st' -> StepR st0 ev st'.
Proof.
  intros WX MX E TB AM (sk & WS & MS & HM & LT & ALT). exists (x :: sk).
  split; [constructor; [exact WX|exact WS|intros IT; exact (proj1 (HM (TB IT)))]|].
  split; [constructor; assumption|]. split; [intros A; split; [cbn [head_is_text]; exact (AM A)|discriminate]|]. split.
  - intros _ L. destruct sk as [|y sk']; [cbn [last] in L; exact (proj2 (HM (TB L)) eq_refl)|].
    apply LT; [discriminate|]. exact L.
  - destruct ALT as [(-> & R & R' & D)|(bytes & TK & R & B)].
    + left. split; [reflexivity|]. rewrite render_items_cons, E, R. auto.
    + right. exists bytes. split; [exact TK|]. split; [|exact B]. rewrite render_items_cons, E, R, <- app_assoc. reflexivity.
Qed.

Lemma step_tok st ev st' bytes : TokR ev bytes (l_deferred st') -> l_rest st = bytes ++ l_rest st' ->
  (at_markup (l_rest st) -> is_chars ev = false) -> (is_chars ev = true -> at_markup (l_rest st')) -> StepR st ev st'.
Proof.
  intros TK R AM B. exists []. split; [constructor|]. split; [constructor|].
  split; [intros A; split; [reflexivity|intros _; exact (AM A)]|]. split; [congruence|].
  right. exists bytes. auto.
Qed.

Lemma skipn_add {A} a b (l : list A) : skipn (a + b) l = skipn b (skipn a l).
Proof. revert l; induction a as [|a IH]; intros l; [reflexivity|]. destruct l as [|x l]; [destruct b; reflexivity|]. cbn. apply IH. Qed.

(* the comment branch: the bytes *)
Lemma comment_branch_bytes rest fp k :
  position (N.eqb 62) (skipn 1 rest) = Some fp -> starts_with [60; 33; 45; 45] (firstn k rest) = true ->
  ends_with [45; 45] (firstn k rest) = true -> (6 <= k)%nat ->
  comment_end (S (List.length rest)) rest (S fp) = Some k ->
  rest = comment_text (firstn (k - 2 - 4) (skipn 4 rest)) ++ 62 :: skipn (S k) rest.
Proof.
  intros P SW EW K6 CE.
  pose proof (comment_end_exact (S (List.length rest)) rest (S fp) ltac:(lia)) as EX. rewrite CE in EX.
  destruct EX as ((RK1 & RK2) & MK & FIRST).
  set (text := firstn k rest) in *. set (c := firstn (k - 2 - 4) (skipn 4 rest)).
  assert (LT : List.length text = k) by (unfold text; rewrite firstn_length; lia).
  assert (E1 : text = [60; 33; 45; 45] ++ skipn 4 text) by (apply (starts_with_true_split [60; 33; 45; 45] text SW)).
  assert (E2 : exists body, text = body ++ [45; 45]).
  { unfold ends_with in EW. cbn [rev app] in EW. pose proof (starts_with_true_split [45; 45] (rev text) EW) as R.
    exists (rev (skipn 2 (rev text))). rewrite <- (rev_involutive text) at 1. rewrite R at 1. rewrite rev_app_distr. reflexivity. }
  destruct E2 as (body & E2).
  assert (REST : rest = text ++ skipn k rest) by (unfold text; symmetry; apply firstn_skipn).
  assert (CT : comment_text c = text).
  { assert (LB : List.length body = (k - 2)%nat) by (apply (f_equal (@List.length N)) in E2; rewrite app_length in E2; cbn [List.length] in E2; lia).
    assert (S4 : skipn 4 text = skipn 4 body ++ [45; 45]).
    { rewrite E2. rewrite skipn_app. replace (4 - List.length body)%nat with O by lia. reflexivity. }
    assert (EC : c = skipn 4 body).
    { unfold c. rewrite REST at 1. rewrite skipn_app. replace (4 - List.length text)%nat with O by lia.
      change (skipn 0 (skipn k rest)) with (skipn k rest). rewrite S4, <- app_assoc. replace (k - 2 - 4)%nat with (List.length (skipn 4 body)) by (rewrite skipn_length; lia).
      apply firstn_app_exact. }
    transitivity ([60; 33; 45; 45] ++ skipn 4 text); [|symmetry; exact E1].
    unfold comment_text. rewrite EC, S4. reflexivity. }
  fold c. rewrite CT.
  (* rest[k] = '>' *)
  pose proof (starts_with_true_split _ _ MK) as SP. cbn [List.length] in SP.
  assert (SK : skipn k rest = 62 :: skipn (S k) rest).
  { assert (A3 : skipn (S k) rest = skipn 3 (skipn (k - 2) rest)) by (rewrite <- skipn_add; f_equal; lia).
    assert (A2 : skipn k rest = skipn 2 (skipn (k - 2) rest)) by (rewrite <- skipn_add; f_equal; lia).
    rewrite A2, A3. set (X := skipn 3 (skipn (k - 2) rest)) in *. rewrite SP. reflexivity. }
  rewrite <- SK. exact REST.
Qed.

Theorem lex_next_reads : forall f st line ev st',
  l_deferred st = None -> lex_next f st = Val (LOk line ev st') -> StepR st ev st'.
Proof.
  induction f as [|f IH]; intros [rest line0 deferred] line ev st' D H; cbn [l_deferred] in D; subst deferred.
  { cbn in H; discriminate H. }
  destruct rest as [|c0 tail].
  { cbn in H. injection H as _ <- <-. exists []. split; [constructor|]. split; [constructor|].
    split; [intros _; split; reflexivity|]. split; [congruence|]. left. cbn. auto. }
  destruct (N.eq_dec c0 60) as [->|N60].
  2:{ (* character data *)
      change {| l_rest := c0 :: tail; l_line := line0; l_deferred := None |} with (mk (c0 :: tail) line0 None) in H.
      rewrite (lex_chars_branch f c0 tail line0 N60) in H. cbv zeta in H.
      set (rest := c0 :: tail) in *.
      set (n := match position (N.eqb 60) rest with Some n => n | None => List.length rest end) in *.
      assert (CUT : rest = firstn n rest ++ skipn n rest) by (symmetry; apply firstn_skipn).
      assert (N6 : no_byte 60 (firstn n rest)).
      { unfold n. destruct (position (N.eqb 60) rest) as [p|] eqn:P; [exact (no_byte_of_position _ _ _ P)|].
        rewrite firstn_all. exact (position_None _ P). }
      assert (AFTER : at_markup (skipn n rest)).
      { unfold n. destruct (position (N.eqb 60) rest) as [p|] eqn:P.
        - right. rewrite (position_skipn _ _ _ P). eauto.
        - left. apply skipn_all. }
      assert (NE : firstn n rest <> []).
      { unfold n, rest. destruct (position (N.eqb 60) (c0 :: tail)) as [[|p]|] eqn:P; try discriminate.
        cbn [position] in P. destruct (60 =? c0) eqn:E; [apply N.eqb_eq in E; congruence|]. destruct (position (N.eqb 60) tail); discriminate P. }
      assert (NOTM : ~ at_markup rest) by (intros [E|(r & E)]; [discriminate E|injection E as E _; congruence]).
      destruct (forallb is_ws (firstn n rest)) eqn:WS.
      - assert (R := fun D => IH _ _ _ _ D H). cbn [l_deferred mk] in R. specialize (R eq_refl).
        refine (step_cons (XText (firstn n rest)) (mk rest line0 None) _ ev st' _ _ _ _ _ R).
        + constructor; assumption.
        + exact WS.
        + exact CUT.
        + intros _. exact AFTER.
        + intros A. destruct (NOTM A).
      - injection H as _ <- <-. apply (step_tok (mk rest line0 None) _ _ (firstn n rest)); cbn [l_deferred l_rest mk].
        + constructor; assumption.
        + exact CUT.
        + intros A. destruct (NOTM A).
        + intros _. exact AFTER. }
  (* markup *)
  destruct (position (N.eqb 62) tail) as [findpos|] eqn:P.
  2:{ cbn [lex_next l_deferred l_rest l_line] in H. rewrite P in H. discriminate H. }
  destruct findpos as [|fp]; [cbn [lex_next l_deferred l_rest l_line] in H; rewrite P in H; discriminate H|].
  pose proof (position_cut _ _ _ P) as CUT. pose proof (no_byte_of_position _ _ _ P) as N62.
  destruct tail as [|c1 tl]; [discriminate P|].
  set (tail := c1 :: tl) in *. set (inner := firstn (S fp) tail) in *. set (after := skipn (S (S fp)) tail) in *.
  assert (AM : forall e : event, at_markup (60 :: tail) -> is_chars e = false -> is_chars e = false) by auto.
  destruct (N.eq_dec c1 47) as [->|N47].
  { (* end tag *)
    cbn [lex_next l_deferred l_rest l_line] in H. rewrite P in H. injection H as _ <- <-.
    apply (step_tok _ _ _ ([60; 47] ++ skipn 1 inner ++ [62])); cbn [l_deferred l_rest].
    - constructor. unfold inner. cbn [firstn skipn]. unfold inner in N62. cbn [firstn] in N62. unfold no_byte in *. cbn [forallb] in N62.
      apply andb_prop in N62 as [_ N62]. exact N62.
    - fold tail. rewrite CUT at 1. fold inner. fold after. unfold inner. cbn [firstn skipn app]. rewrite <- app_assoc. reflexivity.
    - reflexivity.
    - discriminate. }
  destruct (N.eq_dec c1 63) as [->|N63].
  { (* processing instruction / xml declaration *)
    cbn [lex_next l_deferred l_rest l_line] in H. rewrite P in H. fold tail in H. fold inner in H. fold after in H.
    destruct ((S fp <? 2)%nat || negb (last inner 0 =? 63)) eqn:C1; [discriminate H|].
    apply orb_false_iff in C1 as [C1 C2]. rewrite C1 in H. apply Nat.ltb_ge in C1. apply negb_false_iff, N.eqb_eq in C2.
    set (body := firstn (S fp - 2) (skipn 1 inner)) in *.
    (* inner = '?' ++ body ++ '?' *)
    assert (LI : List.length inner = S fp).
    { unfold inner. apply firstn_length_le. destruct (position_Some _ _ P). lia. }
    assert (EI : inner = [63] ++ body ++ [63]).
    { assert (NEI : inner <> []) by (intros E; rewrite E in LI; discriminate LI).
      destruct (exists_last NEI) as (front & x & EF). rewrite EF in C2. rewrite last_last in C2. subst x.
      assert (LF : List.length front = fp) by (rewrite EF, app_length in LI; cbn in LI; lia).
      assert (HF : exists fr, front = 63 :: fr).
      { destruct front as [|y fr]; [cbn in LF; lia|]. exists fr. unfold inner, tail in EF. cbn [firstn app] in EF. injection EF as -> _. reflexivity. }
      destruct HF as (fr & ->). unfold body. rewrite EF. cbn [skipn app]. cbn [List.length] in LF.
      replace (S fp - 2)%nat with (List.length fr) by lia. rewrite firstn_app_exact. reflexivity. }
    assert (NB : no_byte 62 body).
    { unfold no_byte in *. rewrite EI in N62. cbn [app forallb] in N62. apply andb_prop in N62 as [_ N62].
      rewrite forallb_app in N62. apply andb_prop in N62 as [N62 _]. exact N62. }
    assert (BY : 60 :: tail = [60; 63] ++ body ++ [63; 62] ++ after).
    { rewrite CUT at 1. fold inner. fold after. rewrite EI. cbn [app]. rewrite <- !app_assoc. reflexivity. }
    destruct (bytes_eqb (hd [] (split_ws body)) (BS "xml")) eqn:XM.
    - destruct (header_attrs (List.tl (split_ws body)) [] [] None) as [[[ver enc] sa]| |] eqn:HA; try discriminate H.
      destruct (negb (bytes_eqb ver (BS "1.0")) || negb (encoding_ok enc)) eqn:C3; [discriminate H|].
      apply orb_false_iff in C3 as [V1 E1]. apply negb_false_iff in V1, E1. injection H as _ <- <-.
      apply (step_tok _ _ _ ([60; 63] ++ body ++ [63; 62])); cbn [l_deferred l_rest].
      + constructor. split; [exact NB|]. split; [exact XM|]. exists enc. split; [|exact E1].
        rewrite HA. f_equal. f_equal. f_equal. apply bytes_eqb_spec. exact V1.
      + rewrite BY. rewrite <- !app_assoc. reflexivity.
      + reflexivity.
      + discriminate.
    - assert (R := fun D => IH _ _ _ _ D H). cbn [l_deferred] in R. specialize (R eq_refl).
      refine (step_cons (XPI body) {| l_rest := 60 :: tail; l_line := line0; l_deferred := None |} _ ev st' _ _ _ _ _ R).
      + constructor; assumption.
      + exact I.
      + cbn [l_rest render]. rewrite BY. rewrite <- !app_assoc. reflexivity.
      + discriminate.
      + reflexivity. }
  destruct (N.eq_dec c1 33) as [->|N33].
  { (* comment *)
    subst inner after tail.
    cbn [lex_next l_deferred l_rest l_line] in H. rewrite P in H.
    set (rest := (60 :: 33 :: tl)) in *.
    destruct (comment_end (S (List.length rest)) rest (S (S fp))) as [k|] eqn:CE; [|discriminate H].
    destruct (k <? 6)%nat eqn:K6; [discriminate H|]. cbn [orb] in H.
    destruct (starts_with [60; 33; 45; 45] (firstn k rest)) eqn:SW; [|discriminate H]. cbn [negb orb] in H.
    destruct (ends_with [45; 45] (firstn k rest)) eqn:EW; [|discriminate H]. cbn [negb] in H.
    injection H as _ <- <-. apply Nat.ltb_ge in K6.
    apply (step_tok _ _ _ (comment_text (firstn (k - 2 - 4) (skipn 4 rest)) ++ [62])); cbn [l_deferred l_rest].
    - constructor. exact (comment_branch_ok rest (S fp) k P SW EW K6 CE).
    - rewrite <- app_assoc. exact (comment_branch_bytes rest (S fp) k P SW EW K6 CE).
    - reflexivity.
    - discriminate. }
  (* start tag / empty element tag *)
  change {| l_rest := 60 :: tail; l_line := line0; l_deferred := None |} with (mk (60 :: c1 :: tl) line0 None) in H.
  rewrite (lex_begin_branch f c1 tl fp line0 N47 N63 N33 P) in H. cbv zeta in H. fold tail in H. fold inner in H. fold after in H.
  assert (LI : List.length inner = S fp).
  { unfold inner. apply firstn_length_le. destruct (position_Some _ _ P). lia. }
  assert (HI : hd 0 inner = c1) by reflexivity.
  assert (NEI : inner <> []) by (intros E; rewrite E in LI; discriminate LI).
  destruct (last inner 0 =? 47) eqn:IE.
  - apply N.eqb_eq in IE. destruct (exists_last NEI) as (front & x & EF). rewrite EF, last_last in IE. subst x.
    rewrite EF, removelast_last in H.
    destruct (position is_ws front) as [sp|] eqn:SP; injection H as _ <- <-;
      (apply (step_tok _ _ _ ([60] ++ front ++ [47; 62])); cbn [l_deferred l_rest mk];
       [ | unfold mk; cbn [l_rest]; rewrite CUT at 1; fold inner; fold after; rewrite EF; cbn [app]; rewrite <- !app_assoc; reflexivity | reflexivity | discriminate]).
    all: assert (HF : front <> [] /\ hd 0 front = c1)
      by (pose proof EF as EF'; unfold inner, tail in EF'; cbn [firstn] in EF'; destruct front as [|y fr]; cbn [app] in EF';
          injection EF' as E1 E2; [congruence|split; [discriminate|cbn [hd]; congruence]]).
    all: destruct HF as [NF HF].
    all: assert (N62F : no_byte 62 front) by (unfold no_byte in *; rewrite EF, forallb_app in N62; apply andb_prop in N62 as [N62 _]; exact N62).
    all: apply tr_empty; try assumption; try congruence; unfold split_tag; rewrite SP; reflexivity.
  - apply N.eqb_neq in IE.
    destruct (position is_ws inner) as [sp|] eqn:SP; injection H as _ <- <-;
      (apply (step_tok _ _ _ ([60] ++ inner ++ [62])); cbn [l_deferred l_rest mk];
       [ | unfold mk; cbn [l_rest]; rewrite CUT at 1; fold inner; fold after; cbn [app]; rewrite <- !app_assoc; reflexivity | reflexivity | discriminate]).
    all: apply tr_begin; try assumption; try congruence; unfold split_tag; rewrite SP; reflexivity.
Qed.

Theorem next_reads st line ev st' : l_deferred st = None -> next st = Val (LOk line ev st') -> StepR st ev st'.
Proof. intros D H. exact (lex_next_reads _ _ _ _ _ D H). Qed.

(* a deferred end tag: nothing is consumed *)
Lemma next_deferred_reads st nm line ev st' : l_deferred st = Some nm -> next st = Val (LOk line ev st') ->
  ev = EvEnd nm /\ l_rest st' = l_rest st /\ l_deferred st' = None.
Proof.
  intros D H. unfold next, lex_fuel in H. destruct (List.length (l_rest st)); cbn [lex_next] in H; rewrite D in H; injection H as _ <- <-; auto.
Qed.
