(* Xml/ParserDepth.v — C02_depth: the recursion depth parse_element uses is exactly the element nesting depth of the
   tree it returns.  parse_element has one unit of `fuel` per recursion level (its event loops have their own fuel), so:
   if a run returns the tree t, then with ANY recursion fuel >= depth t the run is the same, and with any recursion fuel
   < depth t the run ends in `Fuel`.  For every table set, no hypothesis.
   (The stack a run needs is therefore proportional to depth t — the logic half of the stack question; the constant
   and the limit are a runtime matter.) *)
From Coq Require Import Arith.
From AV Require Import Base.Bytes Base.Outcome Base.Utf8 Hash.HashModel Spec.SpecOps Spec.Versions Xml.Lexer Xml.Parser Xml.ParserCheck.
Open Scope list_scope.
Open Scope nat_scope.

Fixpoint depth (t : etree) : nat :=
  match t with
  | ENode _ _ _ content _ =>
    S ((fix go (l : list (etree + cdata)) : nat :=
          match l with
          | [] => O
          | inl e :: l' => Nat.max (depth e) (go l')
          | inr _ :: l' => go l'
          end) content)
  end.

Fixpoint maxd (l : list (etree + cdata)) : nat :=
  match l with
  | [] => O
  | inl e :: l' => Nat.max (depth e) (maxd l')
  | inr _ :: l' => maxd l'
  end.

Lemma depth_node n ty a c cm : depth (ENode n ty a c cm) = S (maxd c).
Proof. reflexivity. Qed.

Lemma maxd_app a b : maxd (a ++ b) = Nat.max (maxd a) (maxd b).
Proof. induction a as [|[e|d] a IH]; cbn [maxd app]; [reflexivity| |exact IH]. rewrite IH. lia. Qed.

Lemma mbind_ret_step {A B} (m : M A) (f : A -> M B) st a st1 : m st = Val (Ret a st1) -> mbind m f st = f a st1.
Proof. intros E. unfold mbind. rewrite E. reflexivity. Qed.
Lemma mbind_fuel_step {A B} (m : M A) (f : A -> M B) st : m st = Fuel -> mbind m f st = Fuel.
Proof. intros E. unfold mbind. rewrite E. reflexivity. Qed.

(* one synchronous step: invert the successful run H, replay it in the goal *)
Tactic Notation "sync" hyp(H) "as" ident(a) ident(s) ident(E) :=
  apply mbind_ret_inv in H as (a & s & E & H); try rewrite (mbind_ret_step _ _ _ _ _ E).
Tactic Notation "inv" hyp(H) "as" ident(a) ident(s) ident(E) :=
  apply mbind_ret_inv in H as (a & s & E & H).

Section Depth.
Variable strict : bool.
Variable T : tables.
Variable tab_el tab_at tab_en : nametab.
Variable check_fn : N -> list N -> res bool.
Variable float_parse : list N -> option N.

Definition recT := N -> etype -> list (N * cdata) -> option (list N) -> list N -> list nat -> M etree.
Notation PL := (pe_loop strict T tab_el tab_at tab_en check_fn float_parse).
Notation PE := (parse_element strict T tab_el tab_at tab_en check_fn float_parse).

Lemma pe_loop_shape (rec : recT) k : forall name ty attrs comment pos content idx snf stored path st t st',
  PL rec k name ty attrs comment pos content idx snf stored path st = Val (Ret t st') ->
  exists more, t = ENode name ty attrs (content ++ more) comment.
Proof.
  induction k as [|k IH]; intros name ty attrs comment pos content idx snf stored path st t st' H; [discriminate H|].
  cbn [pe_loop] in H.
  inv H as u1 s1 E1. inv H as ev s2 E2. destruct ev as [sa|elem_text attr_text|elem_text|text|c|].
  - inv H as u3 s3 E3. apply IH in H as (more & ->). eauto.
  - inv H as nm s3 E3. destruct nm as [sub_name|]; [|discriminate H].
    inv H as r s4 E4. destruct r as [sub_ty idx']. inv H as u5 s5 E5. inv H as u6 s6 E6. inv H as sub_attrs s7 E7.
    inv H as sub s8 E8.
    assert (G : forall i' s' p' st0, PL rec k name ty attrs comment pos (content ++ [inl sub]) i' s' None p' st0 = Val (Ret t st') ->
                exists more, t = ENode name ty attrs (content ++ more) comment).
    { intros i' s' p' st0 H0. apply IH in H0 as (more & ->). rewrite <- app_assoc. eauto. }
    destruct ((sub_name =? name_short_name T)%N && match content with [] => true | _ :: _ => false end); [|eapply G; exact H].
    destruct (first_string sub); [|eapply G; exact H].
    inv H as u9 s9 E9. eapply G; exact H.
  - inv H as nm s3 E3. destruct nm as [n|]; [|discriminate H]. destruct (n =? name)%N; [|discriminate H].
    inv H as g1 s4 E4. inv H as named s5 E5. inv H as u6 s6 E6. injection H as <- _. exists []. rewrite app_nil_r. reflexivity.
  - inv H as spec s3 E3. destruct spec as [cs|].
    + inv H as mode sm Em.
      destruct ((mode =? MCharacters)%N && negb match content with [] => true | _ :: _ => false end).
      { inv H as ux sx Ex. apply IH in H as (more & ->). eauto. }
      inv H as value s4 E4. inv H as isr s5 E5. inv H as u6 s6 E6. apply IH in H as (more & ->). rewrite <- app_assoc. eauto.
    + inv H as u4 s4 E4. apply IH in H as (more & ->). eauto.
  - apply IH in H as (more & ->). eauto.
  - discriminate H.
Qed.

Definition rec_rel (d : nat) (rec1 rec2 : recT) : Prop :=
  forall a b c e f g st sub st1, rec1 a b c e f g st = Val (Ret sub st1) ->
    (depth sub <= d -> rec2 a b c e f g st = Val (Ret sub st1)) /\ (d < depth sub -> rec2 a b c e f g st = Fuel).

Lemma pe_loop_depth d (rec1 rec2 : recT) : rec_rel d rec1 rec2 ->
  forall k name ty attrs comment pos content idx snf stored path st t st',
  PL rec1 k name ty attrs comment pos content idx snf stored path st = Val (Ret t st') -> maxd content <= d ->
  (depth t <= S d -> PL rec2 k name ty attrs comment pos content idx snf stored path st = Val (Ret t st')) /\
  (S d < depth t -> PL rec2 k name ty attrs comment pos content idx snf stored path st = Fuel).
Proof.
  intros HR. induction k as [|k IH]; intros name ty attrs comment pos content idx snf stored path st t st' H MD; [discriminate H|].
  cbn [pe_loop] in H |- *.
  sync H as u1 s1 E1. sync H as ev s2 E2. destruct ev as [sa|elem_text attr_text|elem_text|text|c|].
  - sync H as u3 s3 E3. apply IH; assumption.
  - sync H as nm s3 E3. destruct nm as [sub_name|]; [|discriminate H].
    sync H as r s4 E4. destruct r as [sub_ty idx']. sync H as u5 s5 E5. sync H as u6 s6 E6. sync H as sub_attrs s7 E7.
    (* the recursive call *)
    inv H as sub s8 E8. destruct (HR _ _ _ _ _ _ _ _ _ E8) as [R1 R2].
    destruct (le_lt_dec (depth sub) d) as [LE|GT].
    + rewrite (mbind_ret_step _ _ _ _ _ (R1 LE)).
      assert (MD' : maxd (content ++ [inl sub]) <= d) by (rewrite maxd_app; cbn [maxd]; lia).
      destruct ((sub_name =? name_short_name T)%N && match content with [] => true | _ :: _ => false end); [|apply IH; assumption].
      destruct (first_string sub); [|apply IH; assumption].
      sync H as u9 s9 E9. apply IH; assumption.
    + rewrite (mbind_fuel_step _ _ _ (R2 GT)).
      assert (DT : S d < depth t).
      { assert (SH : exists more, t = ENode name ty attrs ((content ++ [inl sub]) ++ more) comment).
        { destruct ((sub_name =? name_short_name T)%N && match content with [] => true | _ :: _ => false end); [|eapply pe_loop_shape; exact H].
          destruct (first_string sub); [|eapply pe_loop_shape; exact H].
          inv H as u9 s9 E9. eapply pe_loop_shape; exact H. }
        destruct SH as (more & ->). rewrite depth_node, !maxd_app. cbn [maxd]. lia. }
      split; [lia|reflexivity].
  - sync H as nm s3 E3. destruct nm as [n|]; [|discriminate H]. destruct (n =? name)%N; [|discriminate H].
    sync H as g1 s4 E4. sync H as named s5 E5. sync H as u6 s6 E6. injection H as <- <-. rewrite depth_node. split; [reflexivity|lia].
  - sync H as spec s3 E3. destruct spec as [cs|].
    + sync H as mode sm Em.
      destruct ((mode =? MCharacters)%N && negb match content with [] => true | _ :: _ => false end).
      { sync H as ux sx Ex. apply IH; assumption. }
      sync H as value s4 E4. sync H as isr s5 E5. sync H as u6 s6 E6. apply IH; [assumption|]. rewrite maxd_app. cbn [maxd]. lia.
    + sync H as u4 s4 E4. apply IH; assumption.
  - apply IH; assumption.
  - discriminate H.
Qed.

Theorem parse_element_depth : forall fuel lfuel name ty attrs comment path pos st t st',
  PE fuel lfuel name ty attrs comment path pos st = Val (Ret t st') ->
  forall fuel',
    (depth t <= fuel' -> PE fuel' lfuel name ty attrs comment path pos st = Val (Ret t st')) /\
    (fuel' < depth t -> PE fuel' lfuel name ty attrs comment path pos st = Fuel).
Proof.
  induction fuel as [|f IH]; intros lfuel name ty attrs comment path pos st t st' H fuel'; [discriminate H|].
  cbn [parse_element] in H.
  destruct fuel' as [|f'].
  - split; [|reflexivity]. destruct t. rewrite depth_node. lia.
  - cbn [parse_element].
    assert (HR : rec_rel f' (PE f lfuel) (PE f' lfuel)).
    { intros a b c e g h st0 sub st1 E. apply (IH _ _ _ _ _ _ _ _ _ _ E f'). }
    destruct (pe_loop_depth f' _ _ HR _ _ _ _ _ _ _ _ _ _ _ _ _ _ H ltac:(cbn; lia)) as [A B].
    split; [intros L; apply A; lia|intros L; apply B; lia].
Qed.

Corollary parse_element_depth_le fuel lfuel name ty attrs comment path pos st t st' :
  PE fuel lfuel name ty attrs comment path pos st = Val (Ret t st') -> depth t <= fuel.
Proof.
  intros H. destruct (le_lt_dec (depth t) fuel) as [L|G]; [exact L|].
  destruct (parse_element_depth _ _ _ _ _ _ _ _ _ _ _ H fuel) as [_ B]. rewrite (B G) in H. discriminate H.
Qed.

(* the root call of a successful load: recursion fuel |bs|+1 was enough, so depth t <= |bs| + 1 *)
Theorem load_depth bs t st :
  load strict T tab_el tab_at tab_en check_fn float_parse bs = Val (Ret t st) -> depth t <= S (List.length bs).
Proof.
  unfold load.
  destruct (version_of_ident "Autosar_4_0_1") as [v401|]; [|destruct (elem T (autosar_element T)); discriminate].
  destruct (elem T (autosar_element T)) as [e|site|]; try discriminate.
  unfold parse_arxml. intros H.
  inv H as ev s1 E1. destruct ev; try discriminate H.
  inv H as u2 s2 E2. inv H as tok s3 E3. inv H as r s4 E4. destruct r as [stored token].
  destruct token; try discriminate H.
  inv H as nm s5 E5. inv H as an s6 E6. destruct nm as [n0|]; [|discriminate H].
  destruct (n0 =? an)%N; [|discriminate H].
  inv H as rt s7 E7. inv H as attributes s8 E8. inv H as u9 s9 E9. inv H as root s10 E10. inv H as u11 s11 E11.
  injection H as <- _. eapply parse_element_depth_le. exact E10.
Qed.

End Depth.
