(* Xml/StrictValidNoHoles.v — C08_no_holes on bytes, composed from C08 (StrictValid of what strict loading accepts) and
   C01 (what the loader returns is canonical and is read back from its serialization):
   a byte string accepted in strict mode — or accepted leniently without a warning — yields a tree that is StrictValid
   for the file version; and, outside the recorded classes (knownb = false), serializing that tree and loading the text
   strictly is accepted again, with the same tree, no warning, the same version, and the same text when serialized once
   more.  So the accepted tree is not an artefact of how the bytes were read: it is the tree the written document denotes,
   and that document passes strict validation.
   Hypotheses that remain, and why: canon_hyps (boolean well-formedness of the tables and name tables, [F] true for the
   regenerated tables: C01_real_canon_hyps; the std float print/parse law) — needed by the C01 half only;
   set_version t = t — ArxmlFile::serialize first rewrites the root's xsi:schemaLocation to the canonical spelling, so for
   a root with another accepted spelling the re-loaded tree equals the REWRITTEN tree (not covered). *)
From AV Require Import Base.Bytes Base.Outcome Base.Utf8 Hash.HashModel Spec.SpecOps Spec.Versions
  Xml.Lexer Xml.Parser Xml.Serializer Xml.Funnel Xml.FunnelParser Xml.StrictValidDef Xml.StrictValid
  Xml.RoundTripFile Xml.RoundTripCanon Xml.RoundTripCanonFinal Xml.RoundTripSetVersion.
Open Scope list_scope.
Open Scope N_scope.

Section NoHoles.
Variable T : tables.
Variable tab_el tab_at tab_en : nametab.
Variable check_fn : N -> list N -> res bool.
Variable float_fmt : N -> list N.
Variable float_parse : list N -> option N.

(* what C08_accepted_is_valid_partial says about an accepted tree *)
Definition AcceptedValid (ver : N) (t : etree) : Prop :=
  exists v401 name ty attrs content comment,
    version_of_ident "Autosar_4_0_1" = Some v401 /\ t = ENode name ty attrs content comment /\
    attrs_valid T check_fn v401 ty attrs /\
    children_ok T check_fn ver ty [] [] content /\ shortname_ok T ver ty content.

Lemma accepted_valid_unfold ver t :
  AcceptedValid ver t <->
  exists v401 name ty attrs content comment,
    version_of_ident "Autosar_4_0_1" = Some v401 /\ t = ENode name ty attrs content comment /\
    attrs_valid T check_fn v401 ty attrs /\
    children_ok T check_fn ver ty [] [] content /\ shortname_ok T ver ty content.
Proof. unfold AcceptedValid. split; intros H; exact H. Qed.

Theorem no_holes (b : bool) bs t st :
  load b T tab_el tab_at tab_en check_fn float_parse bs = Val (Ret t st) -> p_warnings st = [] ->
  (* (i) the accepted tree is valid for the file version, and it is what strict loading returns *)
  load true T tab_el tab_at tab_en check_fn float_parse bs = Val (Ret t st) /\
  AcceptedValid (p_version st) t /\ single_valued T t /\
  l_rest (p_lex st) = [] /\
  (* (ii) outside the recorded classes the written document is accepted strictly again, with the same tree *)
  (canon_hyps T tab_el tab_at tab_en float_fmt float_parse -> knownb T t = false ->
   Serializer.set_version T tab_at check_fn (p_version st) t = Val t ->
   forall sa, exists bs',
     serialize_file T tab_el tab_at tab_en check_fn float_fmt (p_version st) sa t = Val bs' /\
     exists st', load true T tab_el tab_at tab_en check_fn float_parse bs' = Val (Ret t st') /\
       p_warnings st' = [] /\ p_version st' = p_version st /\ AcceptedValid (p_version st') t /\
       serialize_file T tab_el tab_at tab_en check_fn float_fmt (p_version st') sa t = Val bs').
Proof.
  intros L W.
  assert (LS : load true T tab_el tab_at tab_en check_fn float_parse bs = Val (Ret t st)).
  { destruct b; [exact L|]. destruct (load_agree T tab_el tab_at tab_en check_fn float_parse bs) as (A & _). exact (A t st L W). }
  split; [exact LS|]. split; [exact (load_strict_valid T tab_el tab_at tab_en check_fn float_parse bs t st LS)|].
  split; [exact (load_single_valued T tab_el tab_at tab_en check_fn float_parse true bs t st LS)|].
  split; [exact (proj1 (load_strict_consumed T tab_el tab_at tab_en check_fn float_parse bs t st LS))|].
  intros HYP KN SV sa.
  destruct (reload_identity_closed T tab_el tab_at tab_en check_fn float_fmt float_parse HYP true bs t st LS W KN SV sa)
    as (bs' & SF & st' & L' & W' & V' & _ & SF').
  exists bs'. split; [exact SF|]. exists st'. split; [exact L'|]. split; [exact W'|]. split; [exact V'|]. split; [|exact SF'].
  exact (load_strict_valid T tab_el tab_at tab_en check_fn float_parse bs' t st' L').
Qed.

(* the same without a premise on the root's xsi:schemaLocation spelling: t' is the tree after ArxmlFile::serialize rewrote
   that attribute (Serializer.set_version; t' = t for the canonical spelling) *)
Theorem no_holes_rewritten (b : bool) bs t st t' :
  load b T tab_el tab_at tab_en check_fn float_parse bs = Val (Ret t st) -> p_warnings st = [] ->
  canon_hyps T tab_el tab_at tab_en float_fmt float_parse -> knownb T t = false ->
  Serializer.set_version T tab_at check_fn (p_version st) t = Val t' ->
  forall sa, exists bs',
    serialize_file T tab_el tab_at tab_en check_fn float_fmt (p_version st) sa t = Val bs' /\
    exists st', load true T tab_el tab_at tab_en check_fn float_parse bs' = Val (Ret t' st') /\
      p_warnings st' = [] /\ p_version st' = p_version st /\ AcceptedValid (p_version st') t' /\
      serialize_file T tab_el tab_at tab_en check_fn float_fmt (p_version st') sa t' = Val bs'.
Proof.
  intros L W HYP KN SV sa.
  assert (LS : load true T tab_el tab_at tab_en check_fn float_parse bs = Val (Ret t st)).
  { destruct b; [exact L|]. destruct (load_agree T tab_el tab_at tab_en check_fn float_parse bs) as (A & _). exact (A t st L W). }
  destruct (reload_rewritten T tab_el tab_at tab_en check_fn float_fmt float_parse HYP true bs t st t' LS W KN SV sa)
    as (bs' & SF & st' & L' & W' & V' & _ & SF').
  exists bs'. split; [exact SF|]. exists st'. split; [exact L'|]. split; [exact W'|]. split; [exact V'|]. split; [|exact SF'].
  exact (load_strict_valid T tab_el tab_at tab_en check_fn float_parse bs' t' st' L').
Qed.

End NoHoles.
