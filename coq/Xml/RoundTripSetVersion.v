(* Xml/RoundTripSetVersion.v — C01 without the premise `set_version t = t`.
   ArxmlFile::serialize first rewrites the root's xsi:schemaLocation to "http://autosar.org/schema/r4.0 " ++ filename of
   the file version (Serializer.set_version).  A silently loaded root may carry another accepted spelling (a lower case
   "autosar" prefix of the xsd name; further blank-separated parts after the xsd name), so the re-loaded tree is the
   REWRITTEN tree t'.  Here: the rewrite keeps RootCanon and is idempotent (set_version_canon), for every table set;
   the facts about the canonical texts are evaluated over the finite version list (all_values_ok). *)
From Coq Require Import Arith Lia.
From AV Require Import Base.Bytes Base.Outcome Base.Utf8 Hash.HashModel Hash.HashProofs Spec.SpecTypes Spec.SpecOps Spec.Versions
  Xml.Lexer Xml.Parser Xml.Serializer Xml.TablesOk Xml.Funnel Xml.ParserCheck Xml.ParserDepth Xml.StrictValid Xml.Escape
  Xml.RoundTripValues Xml.RoundTripAttrs Xml.RoundTripLexer Xml.RoundTripElem Xml.RoundTripFile Xml.RoundTripCanonValues
  Xml.RoundTripCanon Xml.RoundTripCanonFinal.
From AV.Gen Require Import Versions.
Open Scope list_scope.
Open Scope N_scope.

(* ---------- the canonical texts, over the finite version list ---------- *)
Definition all_vers : list N := flat_map (fun i => match ver_value i with Some v => [v] | None => [] end) (iota n_versions).

Definition xsd_of (schema : list N) : list N :=
  let raw := hd [] (tl (split_on 32 [] schema)) in
  if starts_with (BS "autosar") raw then BS "AUTOSAR" ++ skipn 7 raw else raw.

Definition value_okb (v : N) : bool :=
  match schema_location_value v with
  | Val value =>
    bytes_eqb (hd [] (split_on 32 [] value)) (BS "http://autosar.org/schema/r4.0") &&
    match version_of_filename (xsd_of value) with Some v' => v' =? v | None => false end &&
    forallb (fun c => negb (special c)) value && negb (edge_wsb value) && utf8_valid value && forallb markup_free value
  | _ => false
  end.

Lemma all_values_ok : forallb value_okb all_vers = true.
Proof. vm_compute. reflexivity. Qed.

Lemma vof_in f v : version_of_filename f = Some v -> In v all_vers.
Proof.
  unfold version_of_filename. destruct (assocB f ver_from_str) as [i|]; [|discriminate]. intros V.
  unfold all_vers. apply in_flat_map. exists i. split; [|rewrite V; left; reflexivity].
  apply iota_spec. unfold ver_value in V. destruct (nth_opt ver_enum (N.to_nat i)) eqn:E; [|discriminate].
  apply nth_opt_Some in E. unfold n_versions. lia.
Qed.

Lemma value_ok v : In v all_vers -> exists value,
  schema_location_value v = Val value /\
  (forall s st, parse_file_version s value st = Val (Ret v st)) /\
  forallb (fun c => negb (special c)) value = true /\ no_edge_ws value /\ utf8_valid value = true /\
  forallb markup_free value = true.
Proof.
  intros I. pose proof all_values_ok as A. rewrite forallb_forall in A. specialize (A v I). unfold value_okb in A.
  destruct (schema_location_value v) as [value| |]; try discriminate A. exists value. split; [reflexivity|].
  rewrite !andb_true_iff in A. destruct A as [[[[[B V] P] E] U] M]. apply negb_true_iff in E.
  split; [|split; [exact P|split; [exact (edge_wsb_false _ E)|split; assumption]]].
  intros s st. unfold parse_file_version. cbv zeta. rewrite B. cbn [negb]. fold (xsd_of value).
  destruct (version_of_filename (xsd_of value)) as [v'|]; [|discriminate V]. apply N.eqb_eq in V. subst v'. reflexivity.
Qed.

(* a silent strict parse_file_version returns a version of the list *)
Lemma pfv_in schema st v st' : parse_file_version true schema st = Val (Ret v st') -> In v all_vers.
Proof.
  unfold parse_file_version. cbv zeta.
  destruct (negb (bytes_eqb (hd [] (split_on 32 [] schema)) (BS "http://autosar.org/schema/r4.0"))); [discriminate|].
  match goal with |- context [version_of_filename ?x] => destruct (version_of_filename x) as [v0|] eqn:V end.
  - intros [= <- <-]. exact (vof_in _ _ V).
  - intros H. exfalso.
    repeat match type of H with
           | (if ?c then _ else _) _ = _ => destruct c
           end; inv H as u1 s1 E1; exact (oe_strict_ret _ _ _ _ _ _ E1).
Qed.

Lemma pfv_all schema st v st' : parse_file_version true schema st = Val (Ret v st') ->
  forall s st2, parse_file_version s schema st2 = Val (Ret v st2).
Proof.
  unfold parse_file_version. cbv zeta.
  destruct (negb (bytes_eqb (hd [] (split_on 32 [] schema)) (BS "http://autosar.org/schema/r4.0"))); [discriminate|].
  match goal with |- context [version_of_filename ?x] => destruct (version_of_filename x) as [v0|] end.
  - intros [= <- <-] s st2. reflexivity.
  - intros H. exfalso.
    repeat match type of H with
           | (if ?c then _ else _) _ = _ => destruct c
           end; inv H as u1 s1 E1; exact (oe_strict_ret _ _ _ _ _ _ E1).
Qed.

(* ---------- set_attr ---------- *)
Lemma set_attr_idem a v attrs : set_attr a v (set_attr a v attrs) = set_attr a v attrs.
Proof.
  induction attrs as [|[n old] rest IH]; cbn [set_attr]; [rewrite N.eqb_refl; reflexivity|].
  destruct (n =? a) eqn:E; cbn [set_attr]; rewrite E; [reflexivity|]. rewrite IH. reflexivity.
Qed.

Lemma attr_string_set_other n a v attrs : n <> a -> attr_string n (set_attr a v attrs) = attr_string n attrs.
Proof.
  intros NE. unfold attr_string. induction attrs as [|[m old] rest IH]; cbn [set_attr find fst].
  - destruct (a =? n) eqn:E; [apply N.eqb_eq in E; congruence|reflexivity].
  - destruct (m =? a) eqn:E; cbn [find fst].
    + apply N.eqb_eq in E. subst m. destruct (a =? n) eqn:E2; [apply N.eqb_eq in E2; congruence|reflexivity].
    + destruct (m =? n); [reflexivity|exact IH].
Qed.

Lemma attr_string_set_same a s attrs : attr_string a (set_attr a (DString s) attrs) = Some (Some s).
Proof.
  unfold attr_string. induction attrs as [|[m old] rest IH]; cbn [set_attr find fst]; [rewrite N.eqb_refl; reflexivity|].
  destruct (m =? a) eqn:E; cbn [find fst]; rewrite E; [reflexivity|exact IH].
Qed.

Lemma existsb_set_attr n a v attrs : existsb (fun x => fst x =? n) attrs = true -> existsb (fun x => fst x =? n) (set_attr a v attrs) = true.
Proof.
  induction attrs as [|[m old] rest IH]; cbn [existsb set_attr fst]; [discriminate|].
  destruct (m =? a); cbn [existsb fst]; [exact (fun H => H)|]. destruct (m =? n); [reflexivity|exact IH].
Qed.

Lemma forall_set_attr (P : N * cdata -> Prop) a v attrs :
  Forall P attrs -> P (a, v) -> Forall P (set_attr a v attrs).
Proof.
  intros F PA. induction F as [|[m old] rest PM F IH]; cbn [set_attr]; [repeat constructor; exact PA|].
  destruct (m =? a) eqn:E; [apply N.eqb_eq in E; subst m; constructor; assumption|constructor; assumption].
Qed.

Lemma find_attr_in n (attrs : list (N * cdata)) x : find (fun a => fst a =? n) attrs = Some x -> In x attrs /\ fst x = n.
Proof. intros H. apply find_some in H as [I E]. apply N.eqb_eq in E. auto. Qed.

(* ---------- the header attributes ---------- *)
Section SV.
Variable T : tables.
Variable tab_el tab_at tab_en : nametab.
Variable check_fn : N -> list N -> res bool.
Variable float_fmt : N -> list N.
Variable float_parse : list N -> option N.

Definition hdr_cond (xmlns xsi : list N) : bool :=
  negb (bytes_eqb xmlns (BS "http://autosar.org/schema/r4.0")) || negb (bytes_eqb xsi (BS "http://www.w3.org/2001/XMLSchema-instance")).

Lemma pfh_inv attrs st ver : parse_file_header true tab_at attrs st = Val (Ret tt (Parser.set_version st ver)) ->
  exists i1 i2 i3 xmlns xsi schema,
    name_of tab_at (BS "xmlns") = Val (Some i1) /\ name_of tab_at (BS "xmlns:xsi") = Val (Some i2) /\
    name_of tab_at (BS "xsi:schemaLocation") = Val (Some i3) /\
    attr_string i1 attrs = Some (Some xmlns) /\ attr_string i2 attrs = Some (Some xsi) /\ attr_string i3 attrs = Some (Some schema) /\
    hdr_cond xmlns xsi = false /\ In ver all_vers.
Proof.
  unfold parse_file_header, attr_id. intros H.
  inv H as a1 s1 E1. inv E1 as r1 s1' E1'. apply lift_ret_inv in E1' as [N1 ->]. destruct r1 as [i1|]; [|discriminate E1]. injection E1 as <- <-.
  inv H as a2 s2 E2. inv E2 as r2 s2' E2'. apply lift_ret_inv in E2' as [N2 ->]. destruct r2 as [i2|]; [|discriminate E2]. injection E2 as <- <-.
  inv H as a3 s3 E3. inv E3 as r3 s3' E3'. apply lift_ret_inv in E3' as [N3 ->]. destruct r3 as [i3|]; [|discriminate E3]. injection E3 as <- <-.
  destruct (attr_string i1 attrs) as [[xmlns|]|] eqn:A1; try discriminate H.
  destruct (attr_string i2 attrs) as [[xsi|]|] eqn:A2; try discriminate H.
  destruct (attr_string i3 attrs) as [[schema|]|] eqn:A3; try discriminate H.
  fold (hdr_cond xmlns xsi) in H. destruct (hdr_cond xmlns xsi) eqn:C; [discriminate H|].
  inv H as v s4 E4. pose proof (pfv_in _ _ _ _ E4) as IN. apply (f_equal (fun r => match r with Val (Ret _ x) => p_version x | _ => 0 end)) in H.
  cbn [modify p_version Parser.set_version] in H. subst v.
  exists i1, i2, i3, xmlns, xsi, schema. auto 10.
Qed.

Lemma pfh_build attrs ver i1 i2 i3 xmlns xsi schema :
  name_of tab_at (BS "xmlns") = Val (Some i1) -> name_of tab_at (BS "xmlns:xsi") = Val (Some i2) ->
  name_of tab_at (BS "xsi:schemaLocation") = Val (Some i3) ->
  attr_string i1 attrs = Some (Some xmlns) -> attr_string i2 attrs = Some (Some xsi) -> attr_string i3 attrs = Some (Some schema) ->
  hdr_cond xmlns xsi = false -> (forall s st, parse_file_version s schema st = Val (Ret ver st)) ->
  forall s st, parse_file_header s tab_at attrs st = Val (Ret tt (Parser.set_version st ver)).
Proof.
  intros N1 N2 N3 A1 A2 A3 C PV s st. unfold parse_file_header, attr_id.
  rewrite N1. change (mbind (mbind (lift (Val (Some i1))) ?g) ?k st) with (k i1 st). cbv beta.
  rewrite N2. change (mbind (mbind (lift (Val (Some i2))) ?g) ?k st) with (k i2 st). cbv beta.
  rewrite N3. change (mbind (mbind (lift (Val (Some i3))) ?g) ?k st) with (k i3 st). cbv beta.
  rewrite A1, A2, A3. fold (hdr_cond xmlns xsi). rewrite C. unfold mbind. rewrite (PV s st). reflexivity.
Qed.

Lemma name_of_ok tab s i : name_of tab s = Val (Some i) -> from_bytes tab s = Ok i.
Proof. unfold name_of. destruct (from_bytes tab s); [intros [= ->]; reflexivity|discriminate|discriminate]. Qed.

Lemma names_differ tab s1 s2 i1 i2 : from_bytes tab s1 = Ok i1 -> from_bytes tab s2 = Ok i2 -> s1 <> s2 -> i1 <> i2.
Proof.
  intros F1 F2 NE E. subst i2. apply from_bytes_only_members in F1. apply from_bytes_only_members in F2. congruence.
Qed.

(* ---------- the rewrite keeps RootCanon and is idempotent ---------- *)
Theorem set_version_canon ver t t' :
  RootCanon true T tab_el tab_at tab_en check_fn float_fmt float_parse ver t ->
  Serializer.set_version T tab_at check_fn ver t = Val t' ->
  (forall s, RootCanon s T tab_el tab_at tab_en check_fn float_fmt float_parse ver t') /\
  Serializer.set_version T tab_at check_fn ver t' = Val t'.
Proof.
  intros RC SV.
  destruct RC as [e v401 nm attrs content cm mode named EE V401 CMO EN [AF [specs [SP RQ]]] HDR CM SH CK NV NAMED].
  destruct (pfh_inv attrs (init_pstate [] 0 0) ver (HDR _)) as (i1 & i2 & i3 & xmlns & xsi & schema & N1 & N2 & N3 & A1 & A2 & A3 & C & IN).
  destruct (value_ok ver IN) as (value & SL & PV & PL & NW & U8 & MF).
  pose proof (name_of_ok _ _ _ N1) as F1. pose proof (name_of_ok _ _ _ N2) as F2. pose proof (name_of_ok _ _ _ N3) as F3.
  (* the old root, rebuilt for every mode *)
  assert (OLD : forall s, RootCanon s T tab_el tab_at tab_en check_fn float_fmt float_parse ver
                  (ENode (ed_name e) (autosar_element T, ed_type e) attrs content cm)).
  { intros s. apply (root_canon s T tab_el tab_at tab_en check_fn float_fmt float_parse ver e v401 nm attrs content cm mode named); try assumption.
    - split; [exact AF|]. exists specs. split; assumption.
    - intros st. apply (pfh_build attrs ver i1 i2 i3 xmlns xsi schema); try assumption.
      intros s2 st2. unfold parse_file_header, attr_id in HDR. specialize (HDR st2). revert HDR.
      rewrite N1. change (mbind (mbind (lift (Val (Some i1))) ?g) ?k st2) with (k i1 st2). cbv beta.
      rewrite N2. change (mbind (mbind (lift (Val (Some i2))) ?g) ?k st2) with (k i2 st2). cbv beta.
      rewrite N3. change (mbind (mbind (lift (Val (Some i3))) ?g) ?k st2) with (k i3 st2). cbv beta.
      rewrite A1, A2, A3. fold (hdr_cond xmlns xsi). rewrite C. intros HDR. inv HDR as v s4 E4.
      pose proof (pfv_all _ _ _ _ E4) as IND. rewrite (IND true st2) in E4. injection E4 as <-. apply (f_equal (fun r => match r with Val (Ret _ x) => p_version x | _ => 0 end)) in HDR.
      cbn [modify p_version Parser.set_version] in HDR. subst v. exact (IND s2 st2). }
  unfold Serializer.set_version in SV. rewrite F3, SL in SV. cbn [bind] in SV.
  (* the attribute is present, so its specification is found *)
  unfold attr_string in A3. destruct (find (fun a => fst a =? i3) attrs) as [[n3 old]|] eqn:FA; [|discriminate A3].
  destruct (find_attr_in _ _ _ FA) as [IA EA]. cbn [fst] in EA. subst n3.
  rewrite Forall_forall in AF. pose proof (AF _ IA) as (anm & cdid & ctype & req & vm & bytes & TS & CN & FB & FS & VM & VO & SC & MK).
  cbn [fst snd] in *. rewrite FS in SV. cbn [bind] in SV.
  destruct (check_value_string check_fn ctype value) as [ok| |] eqn:CV; try discriminate SV. cbn [bind] in SV.
  destruct ok; [|injection SV as <-; split; [exact OLD|];
    unfold Serializer.set_version; rewrite F3, SL; cbn [bind]; rewrite FS; cbn [bind]; rewrite CV; reflexivity].
  injection SV as <-.
  assert (NEW : AttrOk T tab_at tab_en check_fn float_fmt float_parse v401 (autosar_element T, ed_type e) (i3, DString value)).
  { exists anm, cdid, ctype, req, vm, (escape_text value). cbn [fst snd]. repeat split; try assumption.
    - destruct ctype as [items|fn maxlen|preserve maxlen| |]; cbn [check_value_string] in CV; try discriminate CV.
      + destruct (opt_len_gt maxlen value) eqn:LEN; [discriminate CV|]. apply vo_pattern; assumption.
      + injection CV as CV. apply negb_true_iff in CV. apply vo_string; [right; exact NW|rewrite (escape_text_plain value PL); assumption..].
    - rewrite (escape_text_plain value PL). exact MF. }
  split.
  - intros s. apply (root_canon s T tab_el tab_at tab_en check_fn float_fmt float_parse ver e v401 nm _ content cm mode named); try assumption.
    + split; [apply forall_set_attr; [apply Forall_forall; exact AF|exact NEW]|]. exists specs. split; [exact SP|].
      intros name cd c rq I R. apply existsb_set_attr. exact (RQ name cd c rq I R).
    + intros st. apply (pfh_build _ ver i1 i2 i3 xmlns xsi value); try assumption.
      * rewrite attr_string_set_other; [exact A1|]. apply (names_differ tab_at _ _ _ _ F1 F3). discriminate.
      * rewrite attr_string_set_other; [exact A2|]. apply (names_differ tab_at _ _ _ _ F2 F3). discriminate.
      * apply attr_string_set_same.
  - unfold Serializer.set_version. rewrite F3, SL. cbn [bind]. rewrite FS. cbn [bind]. rewrite CV. cbn [bind].
    rewrite set_attr_idem. reflexivity.
Qed.

End SV.

(* ---------- composed with the first half of C01 ---------- *)
Section Closed.
Variable T : tables.
Variable tab_el tab_at tab_en : nametab.
Variable check_fn : N -> list N -> res bool.
Variable float_fmt : N -> list N.
Variable float_parse : list N -> option N.
Hypothesis HYP : canon_hyps T tab_el tab_at tab_en float_fmt float_parse.

(* what the rewrite changes: nothing, or the value of the one attribute *)
Lemma set_version_shape ver t t' : Serializer.set_version T tab_at check_fn ver t = Val t' ->
  t' = t \/
  exists name ty attrs content cm a value,
    t = ENode name ty attrs content cm /\ t' = ENode name ty (set_attr a (DString value) attrs) content cm /\
    from_bytes tab_at (BS "xsi:schemaLocation") = Ok a /\ schema_location_value ver = Val value.
Proof.
  destruct t as [name ty attrs content cm]. unfold Serializer.set_version.
  destruct (from_bytes tab_at (BS "xsi:schemaLocation")) as [a| |] eqn:F; try discriminate.
  destruct (schema_location_value ver) as [value| |] eqn:SL; try discriminate. cbn [bind].
  destruct (find_attribute_spec T ty a) as [[[[[x ctype] y] z]|]| |]; try discriminate; cbn [bind]; [|intros [= <-]; left; reflexivity].
  destruct (check_value_string check_fn ctype value) as [[|]| |]; try discriminate; cbn [bind]; intros [= <-]; [|left; reflexivity].
  right. exists name, ty, attrs, content, cm, a, value. auto.
Qed.

(* load -> serialize -> load returns the tree with the rewritten schemaLocation; no premise on the root's spelling.
   The premise set_version = Val t' only says that the rewrite did not stop (a Pattern-typed attribute whose validator
   panics; for a String-typed one - the real tables - it never does). *)
Theorem reload_rewritten (b : bool) bs t st t' :
  load b T tab_el tab_at tab_en check_fn float_parse bs = Val (Ret t st) -> p_warnings st = [] -> knownb T t = false ->
  Serializer.set_version T tab_at check_fn (p_version st) t = Val t' ->
  forall sa, exists bs',
    serialize_file T tab_el tab_at tab_en check_fn float_fmt (p_version st) sa t = Val bs' /\
    exists st', load b T tab_el tab_at tab_en check_fn float_parse bs' = Val (Ret t' st') /\
      p_warnings st' = [] /\ p_version st' = p_version st /\ p_standalone st' = sa /\
      serialize_file T tab_el tab_at tab_en check_fn float_fmt (p_version st') sa t' = Val bs'.
Proof.
  intros L W KN SV sa.
  pose proof (loader_canonical T tab_el tab_at tab_en check_fn float_fmt float_parse HYP b bs t st L W KN true) as RC.
  destruct (set_version_canon T tab_el tab_at tab_en check_fn float_fmt float_parse (p_version st) t t' RC SV) as [RC' SV'].
  destruct (root_ser_total b T tab_el tab_at tab_en check_fn float_fmt float_parse (p_version st) t' (RC' b)) as (body & SB).
  assert (SF' : serialize_file T tab_el tab_at tab_en check_fn float_fmt (p_version st) sa t' = Val (xml_header sa ++ body)).
  { unfold serialize_file. rewrite SV'. cbn [bind]. rewrite SB. reflexivity. }
  assert (SF : serialize_file T tab_el tab_at tab_en check_fn float_fmt (p_version st) sa t = Val (xml_header sa ++ body)).
  { unfold serialize_file. rewrite SV. cbn [bind]. rewrite SB. reflexivity. }
  exists (xml_header sa ++ body). split; [exact SF|].
  destruct (serialize_load_roundtrip b T tab_el tab_at tab_en check_fn float_fmt float_parse (p_version st) t' sa _ (RC' b) SV' SF')
    as (st' & L' & W' & V' & S').
  exists st'. repeat split; try assumption. rewrite V'. exact SF'.
Qed.

End Closed.
