(* Xml/StrictValidSpec.v — a fact about Spec/SpecOps.v the strict parser relies on: when the version-restricted search
   of find_sub_element fails, the entry the unrestricted search finds carries a version mask that excludes the file
   version — so the fallback branch of find_element_in_spec_checked always reports ElementVersionError.
   For every table set. *)
From AV Require Import Base.Bytes Base.Outcome Hash.HashModel Spec.SpecOps Xml.TablesOk.
Open Scope list_scope.
Open Scope N_scope.

Section Spec.
Variable T : tables.

Lemma walk_groups_last ty pos :
  walk_groups T ty [pos] =
    (let* '(start, stop, d) := sub_slice T ty in
     if stop - start <=? pos then Pan "current_spec[last_idx]" else
     let* se := subel T (start + pos) in
     let* m := vinfo T (dt_sub_ver d + pos) in
     Val (Some (se, m)))%res.
Proof. reflexivity. Qed.

Lemma find_sub_nonempty fuel : forall ty target v et ixs,
  find_sub T fuel ty target v = Val (Some (et, ixs)) -> ixs <> [].
Proof.
  induction fuel as [|f IH]; intros ty target v et ixs H; [discriminate H|].
  rewrite find_sub_S in H. destruct (sub_slice T ty) as [[[start stop] d]| |]; try discriminate H. cbn [bind] in H.
  assert (LOOP : forall k pos,
    find_loop T (fun idx => find_sub T f idx target v) d start target v k pos = Val (Some (et, ixs)) -> ixs <> []);
    [|eapply LOOP; eassumption].
  clear H.
  induction k as [|k IHk]; intros pos H; [discriminate H|]. rewrite find_loop_S in H.
  destruct (subel T (start + pos)) as [[kind idx]| |]; try discriminate H. cbn [bind] in H.
  destruct (kind =? 0).
  - destruct (elem T idx) as [e| |]; try discriminate H. cbn [bind] in H.
    destruct (vinfo T (dt_sub_ver d + pos)) as [mask| |]; try discriminate H. cbn [bind] in H.
    destruct ((ed_name e =? target) && negb (N.land v mask =? 0)).
    + destruct (et_new T idx) as [et'| |]; try discriminate H. cbn [bind] in H. injection H as _ <-. discriminate.
    + apply IHk in H. exact H.
  - destruct (find_sub T f idx target v) as [[[et' ixs']|]| |]; try discriminate H.
    + injection H as _ <-. discriminate.
    + apply IHk in H. exact H.
Qed.

Lemma find_sub_none_mask fuel : forall ty target v1 v2 et ixs se m,
  find_sub T fuel ty target v1 = Val None -> find_sub T fuel ty target v2 = Val (Some (et, ixs)) ->
  walk_groups T ty ixs = Val (Some (se, m)) -> N.land v1 m = 0.
Proof.
  induction fuel as [|f IH]; intros ty target v1 v2 et ixs se m H1 H2 W; [discriminate H1|].
  rewrite find_sub_S in H1, H2. destruct (sub_slice T ty) as [[[start stop] d]| |] eqn:SS; try discriminate H1.
  cbn [bind] in H1, H2.
  assert (LOOP : forall k pos,
    find_loop T (fun idx => find_sub T f idx target v1) d start target v1 k pos = Val None ->
    find_loop T (fun idx => find_sub T f idx target v2) d start target v2 k pos = Val (Some (et, ixs)) ->
    N.land v1 m = 0); [|eapply LOOP; eassumption].
  clear H1 H2.
  induction k as [|k IHk]; intros pos H1 H2; [discriminate H2|]. rewrite find_loop_S in H1, H2.
  destruct (subel T (start + pos)) as [[kind idx]| |] eqn:ES; try discriminate H1. cbn [bind] in H1, H2.
  destruct (kind =? 0) eqn:K.
  - destruct (elem T idx) as [e| |]; try discriminate H1. cbn [bind] in H1, H2.
    destruct (vinfo T (dt_sub_ver d + pos)) as [mask| |] eqn:EV; try discriminate H1. cbn [bind] in H1, H2.
    destruct ((ed_name e =? target) && negb (N.land v2 mask =? 0)) eqn:C2.
    + destruct (et_new T idx) as [et'| |]; try discriminate H2. cbn [bind] in H2. injection H2 as _ <-.
      rewrite walk_groups_last, SS in W. cbn [bind] in W.
      destruct (stop - start <=? pos); [discriminate W|]. rewrite ES, EV in W. cbn [bind] in W. injection W as _ <-.
      apply andb_true_iff in C2 as [NM _]. rewrite NM in H1. cbn [andb] in H1.
      destruct (N.land v1 mask =? 0) eqn:Z; [apply N.eqb_eq; exact Z|]. cbn [negb] in H1.
      destruct (et_new T idx); discriminate H1.
    + destruct ((ed_name e =? target) && negb (N.land v1 mask =? 0)).
      * destruct (et_new T idx); discriminate H1.
      * eapply IHk; eassumption.
  - destruct (find_sub T f idx target v1) as [[[et1 ixs1]|]| |] eqn:R1; try discriminate H1.
    destruct (find_sub T f idx target v2) as [[[et2 ixs2]|]| |] eqn:R2; try discriminate H2.
    + injection H2 as _ <-. pose proof (find_sub_nonempty _ _ _ _ _ _ R2) as NE.
      destruct ixs2 as [|i2 r2]; [congruence|].
      rewrite walk_groups_cons2, SS in W. cbn [bind] in W.
      destruct (stop - start <=? pos); [discriminate W|]. rewrite ES in W. cbn [bind] in W. rewrite K in W.
      eapply IH; eassumption.
    + eapply IHk; eassumption.
Qed.

End Spec.
