(* Xml/LexerProofs.v — totality, termination measure and line bounds of the lexer model (Xml/Lexer.v).  C02, lexer half. *)
From Coq Require Import Arith PeanoNat.
From AV Require Import Base.Bytes Base.Outcome Base.Utf8 Xml.Lexer.
Open Scope list_scope.

(* ---------- small list facts ---------- *)
Lemma position_Some {p : N -> bool} l n : position p l = Some n ->
  (n < List.length l)%nat /\ (exists x, nth_error l n = Some x /\ p x = true) /\ forallb (fun x => negb (p x)) (firstn n l) = true.
Proof.
  revert n; induction l as [|x l IH]; intros n; cbn [position]; [discriminate|].
  destruct (p x) eqn:Px.
  - intros [= <-]. cbn. split; [lia|]. split; [eauto|reflexivity].
  - destruct (position p l) as [k|]; [|discriminate]. cbn [option_map]. intros [= <-].
    destruct (IH k eq_refl) as (L & X & F). cbn [List.length nth_error firstn forallb]. rewrite Px. cbn [negb andb].
    split; [lia|]. split; assumption.
Qed.

Lemma position_None {p : N -> bool} l : position p l = None -> forallb (fun x => negb (p x)) l = true.
Proof.
  induction l as [|x l IH]; cbn [position forallb]; [reflexivity|].
  destruct (p x); [discriminate|]. destruct (position p l); [discriminate|]. intros _. cbn. apply IH. reflexivity.
Qed.

(* ---------- the xml header attributes never panic (after fix d17bf18) ---------- *)
Lemma header_attr_total a : exists nme val, header_attr a = Val (nme, val).
Proof.
  unfold header_attr. destruct (position (N.eqb 61) a) as [pos|] eqn:P; [|eauto].
  apply position_Some in P as (L & _). destruct (Nat.eqb (List.length a) 0) eqn:E0.
  - apply Nat.eqb_eq in E0. lia.
  - eauto.
Qed.

Lemma header_attrs_total pieces : forall ver enc sa, exists v e s, header_attrs pieces ver enc sa = Val (v, e, s).
Proof.
  induction pieces as [|a rest IH]; intros; cbn [header_attrs]; [eauto|].
  destruct (header_attr_total a) as (nme & val & ->).
  repeat match goal with |- context [if ?c then _ else _] => destruct c end; apply IH.
Qed.
