(* Xml/LexerProofs.v — totality, termination measure and line bounds of the lexer model (Xml/Lexer.v).  C02, lexer half. *)
From Coq Require Import Arith PeanoNat.
From AV Require Import Base.Bytes Base.Outcome Base.Utf8 Xml.Lexer.
Open Scope list_scope.

(* ---------- small list facts ---------- *)
Lemma position_Some {p : N -> bool} l n : position p l = Some n ->
  (n < List.length l)%nat /\ (exists x, nth_error l n = Some x /\ p x = true) /\ forallb (fun x => negb (p x)) (firstn n l) = true.
Proof.
  revert n; induction l as [|x l IH]; intros n; cbn [position]; [discriminate|].
  destruct (p x) eqn:Px.
  - intros [= <-]. cbn. split; [lia|]. split; [eauto|reflexivity].
  - destruct (position p l) as [k|]; [|discriminate]. cbn [option_map]. intros [= <-].
    destruct (IH k eq_refl) as (L & X & F). cbn [List.length nth_error firstn forallb]. rewrite Px. cbn [negb andb].
    split; [lia|]. split; assumption.
Qed.

Lemma position_None {p : N -> bool} l : position p l = None -> forallb (fun x => negb (p x)) l = true.
Proof.
  induction l as [|x l IH]; cbn [position forallb]; [reflexivity|].
  destruct (p x); [discriminate|]. destruct (position p l); [discriminate|]. intros _. cbn. apply IH. reflexivity.
Qed.

(* ---------- the xml header attributes never panic (after fix d17bf18) ---------- *)
Lemma header_attr_total a : exists nme val, header_attr a = Val (nme, val).
Proof.
  unfold header_attr. destruct (position (N.eqb 61) a) as [pos|] eqn:P; [|eauto].
  apply position_Some in P as (L & _). destruct (Nat.eqb (List.length a) 0) eqn:E0.
  - apply Nat.eqb_eq in E0. lia.
  - eauto.
Qed.

Lemma header_attrs_total pieces : forall ver enc sa, exists v e s, header_attrs pieces ver enc sa = Val (v, e, s).
Proof.
  induction pieces as [|a rest IH]; intros; cbn [header_attrs]; [eauto|].
  destruct (header_attr_total a) as (nme & val & ->).
  repeat match goal with |- context [if ?c then _ else _] => destruct c end; apply IH.
Qed.

(* ---------- count_lines ---------- *)
Lemma count_lines_app a b : count_lines (a ++ b) = (count_lines a + count_lines b)%N.
Proof. unfold count_lines. rewrite filter_app, app_length. lia. Qed.

Lemma count_lines_split n l : (count_lines (firstn n l) + count_lines (skipn n l))%N = count_lines l.
Proof. rewrite <- count_lines_app, firstn_skipn. reflexivity. Qed.

Lemma count_lines_firstn_le n l : (count_lines (firstn n l) <= count_lines l)%N.
Proof. pose proof (count_lines_split n l). lia. Qed.
Lemma count_lines_skipn_le n l : (count_lines (skipn n l) <= count_lines l)%N.
Proof. pose proof (count_lines_split n l). lia. Qed.
Lemma count_lines_cons_le x l : (count_lines l <= count_lines (x :: l))%N.
Proof. change (x :: l) with ([x] ++ l). rewrite count_lines_app. lia. Qed.
Lemma count_lines_removelast_le l : (count_lines (removelast l) <= count_lines l)%N.
Proof. rewrite removelast_firstn_len. apply count_lines_firstn_le. Qed.

Lemma position_split {p : N -> bool} l n : position p l = Some n ->
  exists x, p x = true /\ l = firstn n l ++ x :: skipn (S n) l.
Proof.
  revert n; induction l as [|y l IH]; intros n; cbn [position]; [discriminate|].
  destruct (p y) eqn:Py.
  - intros [= <-]. exists y. split; [exact Py|reflexivity].
  - destruct (position p l) as [k|]; [|discriminate]. cbn [option_map]. intros [= <-].
    destruct (IH k eq_refl) as (x & Px & E). exists x. split; [exact Px|].
    cbn [firstn skipn app]. cbn [skipn] in E. rewrite <- E. reflexivity.
Qed.

(* ---------- every byte of a token comes from the input ---------- *)
Lemma Forall_firstn {A} (P : A -> Prop) n l : Forall P l -> Forall P (firstn n l).
Proof. intros H. rewrite <- (firstn_skipn n l) in H. apply Forall_app in H. apply H. Qed.
Lemma Forall_skipn {A} (P : A -> Prop) n l : Forall P l -> Forall P (skipn n l).
Proof. intros H. rewrite <- (firstn_skipn n l) in H. apply Forall_app in H. apply H. Qed.
Lemma Forall_removelast {A} (P : A -> Prop) l : Forall P l -> Forall P (removelast l).
Proof. intros H. rewrite removelast_firstn_len. apply Forall_firstn, H. Qed.

Definition opt_all (P : N -> Prop) (o : option (list N)) : Prop := match o with Some l => Forall P l | None => True end.
Definition ev_all (P : N -> Prop) (ev : event) : Prop :=
  match ev with
  | EvBegin n a => Forall P n /\ Forall P a
  | EvEnd n => Forall P n
  | EvChars t => Forall P t
  | EvComment t => Forall P t
  | EvHeader _ => True
  | EvEOF => True
  end.

(* ---------- the termination measure and the line potential ---------- *)
Definition nu (st : lstate) : nat :=
  (List.length (l_rest st) + match l_deferred st with Some _ => 1 | None => 0 end)%nat.
(* the line counter plus the line feeds still ahead never grows *)
Definition phi (st : lstate) : N := (l_line st + count_lines (l_rest st))%N.

Definition lex_spec (st : lstate) (r : res lexout) : Prop :=
  match r with
  | Val (LOk line ev st') =>
      (l_line st <= line <= l_line st')%N /\
      (exists consumed, l_rest st = consumed ++ l_rest st' /\ (l_line st' <= l_line st + count_lines consumed)%N) /\
      match ev with
      | EvEOF => l_rest st' = [] /\ l_deferred st' = None
      | _ => (nu st' < nu st)%nat
      end /\
      (forall P : N -> Prop, Forall P (l_rest st) -> opt_all P (l_deferred st) -> ev_all P ev /\ opt_all P (l_deferred st'))
  | Val (LErr line e) => (l_line st <= line <= phi st)%N
  | Pan _ => False
  | Fuel => False
  end.

Lemma lex_spec_phi st line ev st' : lex_spec st (Val (LOk line ev st')) -> (phi st' <= phi st)%N.
Proof.
  intros (_ & (c & E & L) & _). unfold phi. rewrite E, count_lines_app. lia.
Qed.

(* composing a skipped piece (ignored processing instruction, blank text) with the rest of the step *)
Lemma lex_spec_skip st mid r :
  l_deferred st = None -> l_deferred mid = None ->
  (exists consumed, l_rest st = consumed ++ l_rest mid /\ consumed <> [] /\
                    (l_line st <= l_line mid <= l_line st + count_lines consumed)%N) ->
  lex_spec mid r -> lex_spec st r.
Proof.
  intros D Dm (c & E & NE & L) H. unfold lex_spec in *.
  assert (LEN : (List.length (l_rest mid) < List.length (l_rest st))%nat).
  { rewrite E, app_length. destruct c; [congruence|cbn [List.length]; lia]. }
  destruct r as [[line ev st'|line e]| |]; try exact H.
  - destruct H as (H1 & (c2 & E2 & L2) & H3 & H4). split; [lia|]. split; [|split].
    + exists (c ++ c2). split; [rewrite E, E2, app_assoc; reflexivity|]. rewrite count_lines_app. lia.
    + destruct ev; try exact H3; unfold nu in *; rewrite D; rewrite Dm in H3; lia.
    + intros P FP _. apply H4; [|rewrite Dm; exact I]. rewrite E in FP. apply Forall_app in FP. apply FP.
  - unfold phi in *. rewrite E, count_lines_app. lia.
Qed.

Lemma comment_end_spec fuel rest : forall k k', comment_end fuel rest k = Some k' -> (k <= k' < List.length rest)%nat.
Proof.
  induction fuel as [|f IH]; intros k k'; cbn [comment_end]; [discriminate|].
  destruct (k <? List.length rest)%nat eqn:L; [|discriminate]. apply Nat.ltb_lt in L.
  destruct (starts_with [45; 45; 62] (skipn (k - 2) rest)).
  - intros [= <-]. lia.
  - intros H. apply IH in H. lia.
Qed.

Lemma skipn_S_length {A} n (l : list A) : (n < List.length l)%nat -> (List.length (skipn (S n) l) < List.length l - n)%nat.
Proof. intros H. rewrite skipn_length. lia. Qed.

Theorem lex_next_spec fuel : forall st, (List.length (l_rest st) < fuel)%nat -> lex_spec st (lex_next fuel st).
Proof.
  induction fuel as [|fuel IH]; intros [rest line deferred] LEN; cbn [l_rest] in LEN; [lia|].
  cbn [lex_next l_deferred l_rest l_line].
  destruct deferred as [name|].
  { (* deferred end element *)
    cbn [lex_spec l_line l_rest l_deferred]. split; [lia|]. split; [|split].
    - exists []. split; [reflexivity|]. cbn. lia.
    - unfold nu; cbn [l_rest l_deferred]. lia.
    - intros Q _ D. split; [exact D|exact I]. }
  destruct rest as [|c0 tail].
  { cbn [lex_spec l_line l_rest l_deferred]. split; [lia|]. split; [|split; [split; reflexivity|]].
    - exists []. split; [reflexivity|]. cbn. lia.
    - intros Q _ _. split; exact I. }
  destruct (N.eqb_spec c0 60) as [->|NE].
  2:{ (* read_characters *)
    assert (GEN : forall R, R = (c0 :: tail) ->
      lex_spec {| l_rest := R; l_line := line; l_deferred := None |}
       (let n := match position (N.eqb 60) R with Some n => n | None => List.length R end in
        let text := firstn n R in
        let line' := (line + count_lines text)%N in
        let st' := {| l_rest := skipn n R; l_line := line'; l_deferred := None |} in
        if forallb is_ws text then lex_next fuel st' else Val (LOk line' (EvChars text) st'))).
    { intros R ER. cbv zeta.
      set (n := match position (N.eqb 60) R with Some n => n | None => List.length R end).
      assert (Hn : (1 <= n <= List.length R)%nat).
      { unfold n. destruct (position (N.eqb 60) R) as [k|] eqn:P.
        - apply position_Some in P as (L & (x & Hx & Px) & _). split; [|lia].
          destruct k; [|lia]. subst R. cbn in Hx. injection Hx as <-. apply N.eqb_eq in Px. congruence.
        - subst R. cbn [List.length]. lia. }
      assert (NEc : firstn n R <> []).
      { intros E. apply (f_equal (@List.length N)) in E. rewrite firstn_length in E. cbn in E. lia. }
      destruct (forallb is_ws (firstn n R)).
      - eapply lex_spec_skip; [ | | |apply IH]; [reflexivity|reflexivity| | ].
        + cbn [l_rest l_line]. exists (firstn n R). split; [symmetry; apply firstn_skipn|]. split; [exact NEc|lia].
        + cbn [l_rest]. rewrite skipn_length. subst R. cbn [List.length] in *. lia.
      - cbn [lex_spec l_line l_rest l_deferred]. split; [lia|]. split; [|split].
        + exists (firstn n R). split; [symmetry; apply firstn_skipn|lia].
        + unfold nu; cbn [l_rest l_deferred]. rewrite skipn_length. lia.
        + intros Q FP _. split; [|exact I]. cbn [ev_all]. apply Forall_firstn, FP. }
    specialize (GEN _ eq_refl). cbv zeta in GEN.
    destruct c0 as [|p]; [exact GEN|].
    repeat (destruct p as [p|p|]; try exact GEN). congruence. }
  (* '<' *)
  destruct (position (N.eqb 62) tail) as [findpos|] eqn:P.
  2:{ cbn [lex_spec l_line]. unfold phi; cbn [l_line l_rest]. lia. }
  destruct findpos as [|fp].
  { cbn [lex_spec l_line]. unfold phi; cbn [l_line l_rest]. lia. }
  set (findpos := S fp) in *.
  destruct (position_split _ _ P) as (x & Hx & SPLIT). apply N.eqb_eq in Hx. subst x.
  pose proof (position_Some _ _ P) as (LT & _ & _).
  set (inner := firstn findpos tail) in *. set (after := skipn (S findpos) tail) in *.
  assert (LI : List.length inner = findpos) by (unfold inner; rewrite firstn_length; lia).
  assert (CL : count_lines tail = (count_lines inner + count_lines after)%N).
  { rewrite SPLIT at 1. rewrite count_lines_app. change (62 :: after)%N with ([62%N] ++ after). rewrite count_lines_app.
    change (count_lines [62%N]) with 0%N. lia. }
  assert (CLR : count_lines (60%N :: tail) = count_lines tail).
  { change (60%N :: tail) with ([60%N] ++ tail). rewrite count_lines_app. reflexivity. }
  assert (LA : (List.length after + findpos + 1 = List.length tail)%nat).
  { unfold after. rewrite skipn_length. lia. }
  assert (CONS : forall l', (l' <= line + count_lines inner)%N ->
            exists consumed, 60%N :: tail = consumed ++ after /\ (l' <= line + count_lines consumed)%N).
  { intros l' Hl. exists (60%N :: inner ++ [62%N]). split.
    - cbn [app]. rewrite <- app_assoc. cbn [app]. rewrite <- SPLIT. reflexivity.
    - change (60%N :: inner ++ [62%N]) with ([60%N] ++ inner ++ [62%N]). rewrite !count_lines_app.
      change (count_lines [60%N]) with 0%N. change (count_lines [62%N]) with 0%N. lia. }
  (* the four kinds of tag; the default branch is duplicated by the match compilation, so state it once *)
  assert (BEGIN :
    lex_spec {| l_rest := 60%N :: tail; l_line := line; l_deferred := None |}
      (let is_end := N.eqb (last inner 0%N) 47 in
       let text := if is_end then removelast inner else inner in
       let '(elemname, attributes) :=
         match position is_ws text with
         | Some sp => (firstn sp text, skipn (S sp) text)
         | None => (text, [])
         end in
       Val (LOk line (EvBegin elemname attributes)
              {| l_rest := after; l_line := (line + count_lines text)%N;
                 l_deferred := if is_end then Some elemname else None |}))).
  { cbv zeta. set (text := if N.eqb (last inner 0%N) 47 then removelast inner else inner).
    assert (CT : (count_lines text <= count_lines inner)%N).
    { unfold text. destruct (N.eqb (last inner 0%N) 47); [apply count_lines_removelast_le|lia]. }
    assert (FT : forall Q : N -> Prop, Forall Q (60%N :: tail) -> Forall Q text).
    { intros Q FP. assert (FI : Forall Q inner) by (unfold inner; apply Forall_firstn; inversion FP; assumption).
      unfold text. destruct (N.eqb (last inner 0%N) 47); [apply Forall_removelast|]; exact FI. }
    destruct (match position is_ws text with Some sp => (firstn sp text, skipn (S sp) text) | None => (text, []) end)
      as [elemname attributes] eqn:EA.
    assert (FE : forall Q : N -> Prop, Forall Q text -> Forall Q elemname /\ Forall Q attributes).
    { intros Q FP. destruct (position is_ws text) as [sp|]; injection EA as <- <-.
      - split; [apply Forall_firstn; exact FP|exact (Forall_skipn Q (S sp) text FP)].
      - split; [exact FP|constructor]. }
    cbn [lex_spec l_line l_rest l_deferred]. split; [lia|]. split; [apply CONS; lia|]. split.
    - unfold nu; cbn [l_rest l_deferred List.length]. destruct (N.eqb (last inner 0%N) 47); lia.
    - intros Q FP _. destruct (FE Q (FT Q FP)) as [F1 F2]. split; [split; assumption|].
      destruct (N.eqb (last inner 0%N) 47); [exact F1|exact I]. }
  destruct tail as [|c1 tail']; [cbn in LT; lia|].
  destruct (N.eqb_spec c1 47) as [->|N47].
  { (* end element *)
    cbn [lex_spec l_line l_rest l_deferred]. split; [lia|]. split; [apply CONS; lia|]. split.
    - unfold nu; cbn [l_rest l_deferred List.length] in *. lia.
    - intros Q FP _. split; [|exact I]. cbn [ev_all]. apply Forall_skipn. unfold inner. apply Forall_firstn.
      inversion FP; assumption. }
  destruct (N.eqb_spec c1 63) as [->|N63].
  { (* processing instruction / xml header *)
    destruct ((findpos <? 2)%nat || negb (N.eqb (last inner 0%N) 63)) eqn:PI.
    { cbn [lex_spec l_line]. unfold phi; cbn [l_line l_rest]. lia. }
    apply orb_false_iff in PI as [PI1 _]. rewrite PI1.
    set (text := firstn (findpos - 2) (skipn 1 inner)).
    assert (CT : (count_lines text <= count_lines inner)%N).
    { unfold text. etransitivity; [apply count_lines_firstn_le|apply count_lines_skipn_le]. }
    destruct (bytes_eqb (hd [] (split_ws text)) (BS "xml")).
    - destruct (header_attrs_total (tl (split_ws text)) [] [] None) as (v & e & s & ->).
      destruct (negb (bytes_eqb v (BS "1.0")) || negb (encoding_ok e)).
      + cbn [lex_spec l_line]. unfold phi; cbn [l_line l_rest]. lia.
      + cbn [lex_spec l_line l_rest l_deferred]. split; [lia|]. split; [apply CONS; lia|]. split.
        * unfold nu; cbn [l_rest l_deferred List.length] in *. lia.
        * intros Q _ _. split; exact I.
    - eapply lex_spec_skip; [ | | |apply IH]; [reflexivity|reflexivity| | ].
      + cbn [l_rest l_line]. destruct (CONS (line + count_lines text)%N ltac:(lia)) as (c & E & L).
        exists c. split; [exact E|]. split; [|lia].
        intros ->. cbn [app] in E. apply (f_equal (@List.length N)) in E. cbn [List.length] in E, LA. lia.
      + cbn [l_rest List.length] in *. lia. }
  destruct (N.eqb_spec c1 33) as [->|N33].
  { (* comment *)
    set (rest := (60 :: 33 :: tail')%N) in *.
    destruct (comment_end (S (List.length rest)) rest (S findpos)) as [k|] eqn:CE.
    2:{ cbn [lex_spec l_line]. unfold phi; cbn [l_line l_rest]. lia. }
    apply comment_end_spec in CE.
    destruct ((k <? 6)%nat || negb (starts_with [60; 33; 45; 45]%N (firstn k rest)) || negb (ends_with [45; 45]%N (firstn k rest))).
    { cbn [lex_spec l_line]. unfold phi; cbn [l_line l_rest]. lia. }
    cbn [lex_spec l_line l_rest l_deferred]. split; [lia|]. split; [|split].
    - exists (firstn (S k) rest). split; [symmetry; apply firstn_skipn|].
      pose proof (count_lines_split k (firstn (S k) rest)) as S1.
      rewrite firstn_firstn in S1. replace (Nat.min k (S k)) with k in S1 by lia. lia.
    - unfold nu; cbn [l_rest l_deferred]. rewrite skipn_length. lia.
    - intros Q FP _. split; [|exact I]. cbn [ev_all]. apply Forall_firstn, Forall_skipn, FP. }
  (* begin element: c1 is none of '/', '?', '!' *)
  cbv zeta in BEGIN.
  destruct c1 as [|p]; [exact BEGIN|].
  repeat (destruct p as [p|p|]; try exact BEGIN); congruence.
Qed.

(* C02, lexer part: `next` is total with the fuel lex_fuel *)
Theorem next_spec st : lex_spec st (next st).
Proof. unfold next, lex_fuel. apply lex_next_spec. lia. Qed.

(* ---------- all states the lexer can reach on a given input ---------- *)
Inductive lex_reach (bs : list N) : lstate -> Prop :=
| reach_new : lex_reach bs (lexer_new bs)
| reach_step st line ev st' : lex_reach bs st -> next st = Val (LOk line ev st') -> lex_reach bs st'.

Definition lex_inv (bs : list N) (st : lstate) : Prop :=
  (1 <= l_line st)%N /\ (phi st <= 1 + count_lines bs)%N.

Lemma lexer_new_rest bs : l_rest (lexer_new bs) = bs \/ l_rest (lexer_new bs) = skipn 3 bs.
Proof.
  unfold lexer_new; cbn [l_rest].
  destruct bs as [|b0 [|b1 [|b2 [|b3 r]]]]; auto;
  (destruct b0 as [|p]; auto; repeat (destruct p as [p|p|]; auto));
  (destruct b1 as [|p]; auto; repeat (destruct p as [p|p|]; auto));
  (destruct b2 as [|p]; auto; repeat (destruct p as [p|p|]; auto)).
Qed.

Lemma lexer_new_inv bs : lex_inv bs (lexer_new bs).
Proof.
  unfold lex_inv, phi. split; [cbn; lia|]. change (l_line (lexer_new bs)) with 1%N.
  destruct (lexer_new_rest bs) as [->| ->]; [lia|]. pose proof (count_lines_skipn_le 3 bs). lia.
Qed.

Lemma lex_inv_step bs st line ev st' : lex_inv bs st -> next st = Val (LOk line ev st') -> lex_inv bs st'.
Proof.
  intros [I1 I2] E. pose proof (next_spec st) as H. rewrite E in H.
  pose proof (lex_spec_phi _ _ _ _ H) as P. destruct H as (H1 & _). split; lia.
Qed.

Lemma lex_reach_inv bs st : lex_reach bs st -> lex_inv bs st.
Proof. induction 1; [apply lexer_new_inv|eapply lex_inv_step; eassumption]. Qed.

(* every line the lexer reports — with a token or with an error — lies in [1, 1 + number of line feeds] *)
Definition line_ok (bs : list N) (line : N) : Prop := (1 <= line <= 1 + count_lines bs)%N.

Lemma lex_inv_lines bs st : lex_inv bs st ->
  match next st with
  | Val (LOk line _ st') => line_ok bs line /\ lex_inv bs st'
  | Val (LErr line _) => line_ok bs line
  | _ => False
  end.
Proof.
  intros I. pose proof (next_spec st) as H. pose proof (lex_inv_step bs st) as S.
  destruct (next st) as [[line ev st'|line e]| |]; try exact H.
  - specialize (S _ _ _ I eq_refl). split; [|exact S]. destruct H as (H1 & _). destruct S as [S1 S2].
    destruct I as [I1 I2]. unfold line_ok, phi in *. lia.
  - destruct I as [I1 I2]. unfold lex_spec in H. unfold line_ok. lia.
Qed.

Theorem lexer_total bs st : lex_reach bs st ->
  match next st with
  | Val (LOk line _ _) => line_ok bs line
  | Val (LErr line _) => line_ok bs line
  | _ => False
  end.
Proof.
  intros R. pose proof (lex_inv_lines bs st (lex_reach_inv _ _ R)) as H.
  destruct (next st) as [[line ev st'|line e]| |]; try exact H. apply H.
Qed.

Theorem lexer_total_full bs st : lex_reach bs st ->
  match next st with
  | Val (LOk line ev st') =>
      (1 <= line <= 1 + count_lines bs)%N /\ (l_line st <= line <= l_line st')%N /\
      (exists consumed, l_rest st = consumed ++ l_rest st' /\ (l_line st' <= l_line st + count_lines consumed)%N) /\
      match ev with
      | EvEOF => l_rest st' = [] /\ l_deferred st' = None
      | _ => (List.length (l_rest st') + match l_deferred st' with Some _ => 1 | None => 0 end
              < List.length (l_rest st) + match l_deferred st with Some _ => 1 | None => 0 end)%nat
      end
  | Val (LErr line e) => (1 <= line <= 1 + count_lines bs)%N
  | Pan _ => False
  | Fuel => False
  end.
Proof.
  intros R. pose proof (lexer_total bs st R) as L. pose proof (next_spec st) as H.
  destruct (next st) as [[line ev st'|line e]| |]; try exact H; [|exact L].
  destruct H as (H1 & H2 & H3 & _). split; [exact L|]. split; [exact H1|]. split; [exact H2|exact H3].
Qed.

(* ---------- the comment scan has enough fuel: its `None` is "no -->", never an exhausted counter ---------- *)
Lemma comment_end_exact fuel rest : forall k, (List.length rest < k + fuel)%nat ->
  match comment_end fuel rest k with
  | Some k' => (k <= k' < List.length rest)%nat /\ starts_with [45; 45; 62]%N (skipn (k' - 2) rest) = true /\
               forall j, (k <= j < k')%nat -> starts_with [45; 45; 62]%N (skipn (j - 2) rest) = false
  | None => forall j, (k <= j < List.length rest)%nat -> starts_with [45; 45; 62]%N (skipn (j - 2) rest) = false
  end.
Proof.
  induction fuel as [|f IH]; intros k L; cbn [comment_end].
  - intros j Hj. lia.
  - destruct (k <? List.length rest)%nat eqn:C.
    + apply Nat.ltb_lt in C. destruct (starts_with [45; 45; 62]%N (skipn (k - 2) rest)) eqn:SW.
      * split; [lia|]. split; [exact SW|]. intros j Hj. lia.
      * specialize (IH (S k) ltac:(lia)). destruct (comment_end f rest (S k)) as [k'|].
        -- destruct IH as (R & SW' & FIRST). split; [lia|]. split; [exact SW'|].
           intros j Hj. destruct (Nat.eq_dec j k) as [->|NE]; [exact SW|apply FIRST; lia].
        -- intros j Hj. destruct (Nat.eq_dec j k) as [->|NE]; [exact SW|apply IH; lia].
    + apply Nat.ltb_ge in C. intros j Hj. lia.
Qed.
