(* Xml/StrictValidEntities.v — exclusion (b) of C08_accepted_is_valid_partial, as a theorem: entity syntax.
   StrictValid speaks about the stored (unescaped) text.  What strict loading accepts BEFORE unescaping is stated here,
   as a grammar: when unescape_string returns in strict mode, the text is a sequence of bytes other than '&', the five
   named references, and numeric references &#x<hex>; / &#<dec>; whose digits have no sign (fix 5f62213), parse as u32 in
   that radix (std from_str_radix: Base/Radix.v) and denote a char; the result is the text with every reference replaced
   by what it denotes; the parser state is untouched.  And conversely (unesc_complete): every such text is accepted. *)
From Coq Require Import Arith Lia.
From AV Require Import Base.Bytes Base.Outcome Base.Utf8 Base.Radix Hash.HashModel Spec.SpecOps
  Xml.Lexer Xml.Parser Xml.LexerProofs Xml.Funnel Xml.ParserCheck Xml.ParserDepth Xml.StrictValid Xml.RoundTripLexerComment Xml.Escape.
Open Scope list_scope.
Open Scope N_scope.

Inductive Unesc : list N -> list N -> Prop :=
| un_nil : Unesc [] []
| un_byte c s u : c <> 38 -> Unesc s u -> Unesc (c :: s) (c :: u)
| un_lt s u : Unesc s u -> Unesc (BS "&lt;" ++ s) (60 :: u)
| un_gt s u : Unesc s u -> Unesc (BS "&gt;" ++ s) (62 :: u)
| un_amp s u : Unesc s u -> Unesc (BS "&amp;" ++ s) (38 :: u)
| un_apos s u : Unesc s u -> Unesc (BS "&apos;" ++ s) (39 :: u)
| un_quot s u : Unesc s u -> Unesc (BS "&quot;" ++ s) (34 :: u)
| un_hex d v s u :
    forallb (fun c => negb (59 =? c)) d = true -> starts_with [43] d = false ->
    from_str_radix_u 32 16 d = Some v -> is_char v = true -> Unesc s u ->
    Unesc (BS "&#x" ++ d ++ [59] ++ s) (utf8_encode v ++ u)
| un_dec d v s u :
    forallb (fun c => negb (59 =? c)) d = true -> starts_with [43] d = false -> starts_with [120] d = false ->
    from_str_radix_u 32 10 d = Some v -> is_char v = true -> Unesc s u ->
    Unesc (BS "&#" ++ d ++ [59] ++ s) (utf8_encode v ++ u).

Lemma unesc_plain_app pre s u : forallb (fun x => negb (38 =? x)) pre = true -> Unesc s u -> Unesc (pre ++ s) (pre ++ u).
Proof.
  induction pre as [|c pre IH]; [intros _ H; exact H|]. cbn [forallb app]. intros A H. apply andb_prop in A as [C A].
  apply un_byte; [|exact (IH A H)]. intros ->. discriminate C.
Qed.

Lemma firstn_add {A} a b (l : list A) : firstn (a + b) l = firstn a l ++ firstn b (skipn a l).
Proof. revert l; induction a as [|a IH]; intros l; [reflexivity|]. destruct l as [|x l]; [destruct b; reflexivity|]. cbn. rewrite IH. reflexivity. Qed.

Lemma firstn_pre {A} (p r : list A) : firstn (List.length p) (p ++ r) = p.
Proof. induction p as [|x p IH]; [destruct r; reflexivity|]. cbn. rewrite IH. reflexivity. Qed.

(* rem' = prefix ++ digits ++ ";" ++ rest, when the first ';' is at endpos and the digits are not empty *)
Lemma ref_split (pre R : list N) endpos : starts_with pre R = true -> position (N.eqb 59) R = Some endpos ->
  (List.length pre < endpos)%nat ->
  let d := firstn (endpos - List.length pre) (skipn (List.length pre) R) in
  R = pre ++ d ++ [59] ++ skipn (S endpos) R /\ forallb (fun c => negb (59 =? c)) d = true.
Proof.
  intros SW P LT d. destruct (position_split _ _ P) as (x & PX & E). apply N.eqb_eq in PX. subst x.
  destruct (position_Some _ _ P) as (_ & _ & NO).
  pose proof (starts_with_true_split _ _ SW) as E2.
  assert (FE : firstn endpos R = pre ++ d).
  { replace endpos with (List.length pre + (endpos - List.length pre))%nat at 1 by lia. rewrite firstn_add. fold d. f_equal.
    rewrite E2 at 1. apply firstn_pre. }
  split.
  - rewrite E at 1. rewrite FE, <- app_assoc. reflexivity.
  - rewrite FE, forallb_app in NO. apply andb_prop in NO as [_ NO]. exact NO.
Qed.

Lemma unescape_loop_sound fuel : forall rem acc st u st',
  unescape_loop true fuel rem acc st = Val (Ret u st') -> st' = st /\ exists u', u = acc ++ u' /\ Unesc rem u'.
Proof.
  induction fuel as [|f IH]; intros rem acc st u st' H; [discriminate H|]. cbn [unescape_loop] in H.
  destruct (find_byte 38 rem) as [pos|] eqn:F.
  2:{ injection H as <- <-. split; [reflexivity|]. exists rem. split; [reflexivity|]. unfold find_byte in F.
      apply position_None in F. rewrite <- (app_nil_r rem) at 1. rewrite <- (app_nil_r rem) at 2. apply unesc_plain_app; [exact F|constructor]. }
  unfold find_byte in F. pose proof (position_Some _ _ F) as (LP & _ & NO).
  set (pre := firstn pos rem) in *. set (R := skipn pos rem) in *. set (acc' := acc ++ pre) in *.
  assert (ER : rem = pre ++ R) by (symmetry; apply firstn_skipn).
  assert (STEP : forall nm c, R = nm ++ skipn (List.length nm) R ->
             (forall s0 u0, Unesc s0 u0 -> Unesc (nm ++ s0) (c :: u0)) ->
             unescape_loop true f (skipn (List.length nm) R) (acc' ++ [c]) st = Val (Ret u st') ->
             st' = st /\ exists u', u = acc ++ u' /\ Unesc rem u').
  { intros nm c E K HH. apply IH in HH as (-> & u0 & -> & UN). split; [reflexivity|]. exists (pre ++ c :: u0). split.
    - unfold acc'. rewrite <- !app_assoc. reflexivity.
    - rewrite ER, E. apply unesc_plain_app; [exact NO|]. apply K, UN. }
  assert (INV : forall a, mbind (optional_error true InvalidXmlEntity 0 0) (fun _ => unescape_loop true f (skipn 1 R) a) st = Val (Ret u st') ->
                 st' = st /\ exists u', u = acc ++ u' /\ Unesc rem u').
  { intros a HH. inv HH as u1 s1 E1. destruct (oe_strict_ret _ _ _ _ _ _ E1). }
  destruct (starts_with (BS "&lt;") R) eqn:S1; [exact (STEP _ 60 (starts_with_true_split _ _ S1) un_lt H)|].
  destruct (starts_with (BS "&gt;") R) eqn:S2; [exact (STEP _ 62 (starts_with_true_split _ _ S2) un_gt H)|].
  destruct (starts_with (BS "&amp;") R) eqn:S3; [exact (STEP _ 38 (starts_with_true_split _ _ S3) un_amp H)|].
  destruct (starts_with (BS "&apos;") R) eqn:S4; [exact (STEP _ 39 (starts_with_true_split _ _ S4) un_apos H)|].
  destruct (starts_with (BS "&quot;") R) eqn:S5; [exact (STEP _ 34 (starts_with_true_split _ _ S5) un_quot H)|].
  destruct (starts_with (BS "&#x") R) eqn:S6.
  { destruct (find_byte 59 R) as [endpos|] eqn:F2; [|apply (INV _ H)]. unfold find_byte in F2. cbv zeta in H.
    destruct (starts_with [43] (firstn (endpos - 3) (skipn 3 R))) eqn:PL; [apply (INV _ H)|].
    destruct (from_str_radix_u 32 16 (firstn (endpos - 3) (skipn 3 R))) as [v|] eqn:RX; [|apply (INV _ H)].
    destruct (is_char v) eqn:IC; [|apply (INV _ H)].
    pose proof (digits_nonempty _ _ _ _ RX) as NE.
    assert (K : (3 < endpos)%nat) by (destruct (endpos - 3)%nat eqn:Z; [cbn in NE; congruence|lia]).
    destruct (ref_split (BS "&#x") R endpos S6 F2 K) as [E NS]. cbn [BS List.length] in E, NS. change (List.length (BS "&#x")) with 3%nat in *.
    apply IH in H as (-> & u0 & -> & UN). split; [reflexivity|]. exists (pre ++ utf8_encode v ++ u0). split.
    - unfold acc'. rewrite <- !app_assoc. reflexivity.
    - rewrite ER, E. apply unesc_plain_app; [exact NO|]. apply un_hex; assumption. }
  destruct (starts_with (BS "&#") R) eqn:S7.
  { destruct (find_byte 59 R) as [endpos|] eqn:F2; [|apply (INV _ H)]. unfold find_byte in F2. cbv zeta in H.
    destruct (starts_with [43] (firstn (endpos - 2) (skipn 2 R))) eqn:PL; [apply (INV _ H)|].
    destruct (from_str_radix_u 32 10 (firstn (endpos - 2) (skipn 2 R))) as [v|] eqn:RX; [|apply (INV _ H)].
    destruct (is_char v) eqn:IC; [|apply (INV _ H)].
    pose proof (digits_nonempty _ _ _ _ RX) as NE.
    assert (K : (2 < endpos)%nat) by (destruct (endpos - 2)%nat eqn:Z; [cbn in NE; congruence|lia]).
    destruct (ref_split (BS "&#") R endpos S7 F2 K) as [E NS]. change (List.length (BS "&#")) with 2%nat in *.
    assert (NX : starts_with [120] (firstn (endpos - 2) (skipn 2 R)) = false).
    { destruct (starts_with [120] (firstn (endpos - 2) (skipn 2 R))) eqn:SX; [|reflexivity]. exfalso.
      apply starts_with_true_split in SX. rewrite SX in E. rewrite E in S6. cbn in S6. discriminate S6. }
    apply IH in H as (-> & u0 & -> & UN). split; [reflexivity|]. exists (pre ++ utf8_encode v ++ u0). split.
    - unfold acc'. rewrite <- !app_assoc. reflexivity.
    - rewrite ER, E. apply unesc_plain_app; [exact NO|]. apply un_dec; assumption. }
  apply (INV _ H).
Qed.

Theorem unescape_sound text st u st' : unescape_string true text st = Val (Ret u st') -> st' = st /\ Unesc text u.
Proof.
  unfold unescape_string. destruct (find_byte 38 text) eqn:F.
  - intros H. apply unescape_loop_sound in H as (-> & u' & -> & UN). auto.
  - intros [= <- <-]. split; [reflexivity|]. unfold find_byte in F. apply position_None in F.
    rewrite <- (app_nil_r text) at 1. rewrite <- (app_nil_r text) at 2. apply unesc_plain_app; [exact F|constructor].
Qed.

(* ---------- conversely: every text of the grammar is accepted, in both modes, silently ---------- *)
Section Complete.
Variable strict : bool.

Lemma loop_byte f c s acc st : c <> 38 -> unescape_loop strict (S f) (c :: s) acc st = unescape_loop strict (S f) s (acc ++ [c]) st.
Proof.
  intros NE. cbn [unescape_loop]. unfold find_byte. cbn [position]. destruct (38 =? c) eqn:E; [apply N.eqb_eq in E; congruence|].
  destruct (position (N.eqb 38) s) as [pos|]; cbn [option_map].
  - change (firstn (S pos) (c :: s)) with (c :: firstn pos s). change (skipn (S pos) (c :: s)) with (skipn pos s).
    replace (acc ++ c :: firstn pos s) with ((acc ++ [c]) ++ firstn pos s) by (rewrite <- app_assoc; reflexivity). reflexivity.
  - replace (acc ++ c :: s) with ((acc ++ [c]) ++ s) by (rewrite <- app_assoc; reflexivity). reflexivity.
Qed.

Lemma loop_ref_pos nm d s : forallb (fun c => negb (59 =? c)) d = true -> forallb (fun c => negb (59 =? c)) nm = true ->
  find_byte 59 (nm ++ d ++ [59] ++ s) = Some (List.length nm + List.length d)%nat.
Proof.
  intros ND NN. unfold find_byte. rewrite app_assoc. cbn [app]. rewrite <- app_length.
  apply position_app_hit; [rewrite forallb_app, NN, ND; reflexivity|reflexivity].
Qed.

Lemma skipn_pre {A} (p r : list A) : skipn (List.length p) (p ++ r) = r.
Proof. induction p as [|x p IH]; [reflexivity|exact IH]. Qed.

Lemma unescape_loop_complete text u : Unesc text u ->
  forall fuel acc st, (List.length text < fuel)%nat -> unescape_loop strict fuel text acc st = Val (Ret (acc ++ u) st).
Proof.
  induction 1 as [|c s u NE UN IH|s u UN IH|s u UN IH|s u UN IH|s u UN IH|s u UN IH|d v s u ND NP RX IC UN IH|d v s u ND NP NX RX IC UN IH];
    intros fuel acc st LT; (destruct fuel as [|f]; [cbn in LT; lia|]).
  - cbn. rewrite app_nil_r. reflexivity.
  - rewrite (loop_byte f c s acc st NE), IH; [rewrite <- app_assoc; reflexivity|cbn in LT; lia].
  - cbn [unescape_loop BS]. cbn. rewrite app_nil_r. change (skipn 4 (38 :: 108 :: 116 :: 59 :: s)) with s.
    rewrite IH; [rewrite <- app_assoc; reflexivity|cbn in LT; lia].
  - cbn [unescape_loop BS]. cbn. rewrite app_nil_r. change (skipn 4 (38 :: 103 :: 116 :: 59 :: s)) with s.
    rewrite IH; [rewrite <- app_assoc; reflexivity|cbn in LT; lia].
  - cbn [unescape_loop BS]. cbn. rewrite app_nil_r. change (skipn 5 (38 :: 97 :: 109 :: 112 :: 59 :: s)) with s.
    rewrite IH; [rewrite <- app_assoc; reflexivity|cbn in LT; lia].
  - cbn [unescape_loop BS]. cbn. rewrite app_nil_r. change (skipn 6 (38 :: 97 :: 112 :: 111 :: 115 :: 59 :: s)) with s.
    rewrite IH; [rewrite <- app_assoc; reflexivity|cbn in LT; lia].
  - cbn [unescape_loop BS]. cbn. rewrite app_nil_r. change (skipn 6 (38 :: 113 :: 117 :: 111 :: 116 :: 59 :: s)) with s.
    rewrite IH; [rewrite <- app_assoc; reflexivity|cbn in LT; lia].
  - cbn [unescape_loop]. set (R := BS "&#x" ++ d ++ [59] ++ s).
    assert (F38 : find_byte 38 R = Some 0%nat) by reflexivity. rewrite F38. change (firstn 0 R) with (@nil N). change (skipn 0 R) with R. rewrite app_nil_r.
    change (starts_with (BS "&lt;") R) with false. change (starts_with (BS "&gt;") R) with false.
    change (starts_with (BS "&amp;") R) with false. change (starts_with (BS "&apos;") R) with false.
    change (starts_with (BS "&quot;") R) with false. change (starts_with (BS "&#x") R) with true. cbv iota.
    unfold R. rewrite (loop_ref_pos (BS "&#x") d s ND eq_refl). change (List.length (BS "&#x")) with 3%nat. cbv zeta.
    replace (3 + List.length d - 3)%nat with (List.length d) by lia.
    change (skipn 3 (BS "&#x" ++ d ++ [59] ++ s)) with (d ++ [59] ++ s). rewrite firstn_pre, NP, RX, IC.
    replace (S (3 + List.length d)) with (List.length (BS "&#x" ++ d ++ [59])) by (rewrite !app_length; cbn; lia).
    replace (BS "&#x" ++ d ++ [59] ++ s) with ((BS "&#x" ++ d ++ [59]) ++ s) by (rewrite <- !app_assoc; reflexivity).
    rewrite skipn_pre, IH; [rewrite <- app_assoc; reflexivity|]. unfold R in LT. rewrite !app_length in LT. cbn in LT. lia.
  - cbn [unescape_loop]. set (R := BS "&#" ++ d ++ [59] ++ s).
    assert (F38 : find_byte 38 R = Some 0%nat) by reflexivity. rewrite F38. change (firstn 0 R) with (@nil N). change (skipn 0 R) with R. rewrite app_nil_r.
    change (starts_with (BS "&lt;") R) with false. change (starts_with (BS "&gt;") R) with false.
    change (starts_with (BS "&amp;") R) with false. change (starts_with (BS "&apos;") R) with false.
    change (starts_with (BS "&quot;") R) with false.
    assert (SX : starts_with (BS "&#x") R = false).
    { unfold R. pose proof (digits_nonempty _ _ _ _ RX) as NEd. destruct d as [|x d]; [congruence|]. cbn in NX |- *.
      rewrite andb_true_r in NX. rewrite NX. reflexivity. }
    rewrite SX. change (starts_with (BS "&#") R) with true. cbv iota.
    unfold R. rewrite (loop_ref_pos (BS "&#") d s ND eq_refl). change (List.length (BS "&#")) with 2%nat. cbv zeta.
    replace (2 + List.length d - 2)%nat with (List.length d) by lia.
    change (skipn 2 (BS "&#" ++ d ++ [59] ++ s)) with (d ++ [59] ++ s). rewrite firstn_pre, NP, RX, IC.
    replace (S (2 + List.length d)) with (List.length (BS "&#" ++ d ++ [59])) by (rewrite !app_length; cbn; lia).
    replace (BS "&#" ++ d ++ [59] ++ s) with ((BS "&#" ++ d ++ [59]) ++ s) by (rewrite <- !app_assoc; reflexivity).
    rewrite skipn_pre, IH; [rewrite <- app_assoc; reflexivity|]. unfold R in LT. rewrite !app_length in LT. cbn in LT. lia.
Qed.

Lemma unesc_no_amp text u : Unesc text u -> find_byte 38 text = None -> u = text.
Proof.
  induction 1 as [|c s u NE UN IH| | | | | | |]; try (intros F; discriminate F); [reflexivity|].
  unfold find_byte. cbn [position]. destruct (38 =? c); [discriminate|]. intros F. f_equal. apply IH. unfold find_byte.
  destruct (position (N.eqb 38) s); [discriminate F|reflexivity].
Qed.

Theorem unesc_complete text u st : Unesc text u -> unescape_string strict text st = Val (Ret u st).
Proof.
  intros UN. unfold unescape_string. destruct (find_byte 38 text) eqn:F.
  - exact (unescape_loop_complete text u UN _ [] st (Nat.lt_succ_diag_r _)).
  - rewrite (unesc_no_amp _ _ UN F). reflexivity.
Qed.

End Complete.

(* strict acceptance is exactly the grammar *)
Corollary unescape_strict_iff text st u : (exists st', unescape_string true text st = Val (Ret u st')) <-> Unesc text u.
Proof.
  split; [intros (st' & H); exact (proj2 (unescape_sound _ _ _ _ H))|]. intros UN. exists st. apply unesc_complete, UN.
Qed.

(* ---------- at the value: the stored text of a plain String is the denotation of the text in the file ---------- *)
Lemma pcd_string_entities tab_en check_fn float_parse input preserve maxlen st v st' :
  parse_character_data true tab_en check_fn float_parse input (CString preserve maxlen) st = Val (Ret v st') ->
  exists trimmed u, trim_byte_string input = Val trimmed /\ v = DString u /\ Unesc (if preserve then input else trimmed) u.
Proof.
  unfold parse_character_data. intros H. inv H as trimmed s1 E1. apply lift_ret_inv in E1 as [TR ->].
  inv H as u1 s2 E2. apply guard_strict_ret in E2 as [L ->].
  inv H as text s3 E3.
  assert (TX : text = (if preserve then input else trimmed) /\ s3 = st).
  { destruct (utf8_valid (if preserve then input else trimmed)); [injection E3 as <- <-; auto|].
    inv E3 as u2 s4 E4. destruct (oe_strict_ret _ _ _ _ _ _ E4). }
  destruct TX as [-> ->]. inv H as u s4 E4. injection H as <- _. apply unescape_sound in E4 as [_ UN].
  exists trimmed, u. auto.
Qed.

(* non-vacuity: a text with all kinds of references; the signed reference is not in the grammar *)
Open Scope string_scope.
Example unesc_ex : Unesc (BS "a&#x41;&lt;&#66;&amp;") (BS "aA<B&").
Proof.
  apply un_byte; [discriminate|]. apply (un_hex (BS "41") 65 _ (BS "<B&")); try reflexivity.
  apply un_lt. apply (un_dec (BS "66") 66 _ (BS "&")); try reflexivity. apply un_amp. constructor.
Qed.
Example unesc_signed_out u : ~ Unesc (BS "&#x+41;") u.
Proof.
  intros UN. pose proof (unesc_complete true _ _ (init_pstate [] 0 0) UN) as H. vm_compute in H. discriminate H.
Qed.
Example unesc_bare_amp_out u : ~ Unesc (BS "a & b") u.
Proof.
  intros UN. pose proof (unesc_complete true _ _ (init_pstate [] 0 0) UN) as H. vm_compute in H. discriminate H.
Qed.
