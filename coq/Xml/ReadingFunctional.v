(* Xml/ReadingFunctional.v — C01 faithfulness: the AUTOSAR interpretation is a (partial) FUNCTION of the plain XML tree:
   ValueOf, InterpE / InterpKids and InterpDoc determine their result.  With C01_reads_unique: the tree the loader returns
   is THE interpretation of THE reading of the byte string. *)
From Coq Require Import Arith.
From AV Require Import Base.Bytes Base.Outcome Base.Utf8 Base.Radix Hash.HashModel Spec.SpecTypes Spec.SpecOps Spec.Versions
  Xml.Lexer Xml.Parser Xml.StrictValidDef Xml.StrictValidEntities Xml.RoundTripReload Xml.RoundTripSetVersion
  Xml.RoundTripCanonFinal Xml.Reading Xml.ReadingInterp Xml.ReadingParser Xml.ReadingUnique.
Open Scope list_scope.
Open Scope N_scope.

Lemma Unesc_functional text u1 u2 : Unesc text u1 -> Unesc text u2 -> u1 = u2.
Proof.
  intros A B. pose proof (unesc_complete true text u1 (init_pstate [] 0 0) A) as H1.
  pose proof (unesc_complete true text u2 (init_pstate [] 0 0) B) as H2. rewrite H1 in H2. injection H2 as ->. reflexivity.
Qed.

Section Functional.
Variable T : tables.
Variable tab_el tab_at tab_en : nametab.
Variable check_fn : N -> list N -> res bool.
Variable float_parse : list N -> option N.
Notation VALUEOF := (ValueOf tab_en check_fn float_parse).
Notation ATTROF := (AttrOf T tab_at tab_en check_fn float_parse).
Notation INTERPE := (InterpE T tab_el tab_at tab_en check_fn float_parse).
Notation INTERPK := (InterpKids T tab_el tab_at tab_en check_fn float_parse).

Lemma ValueOf_functional ver spec raw v1 v2 : VALUEOF ver spec raw v1 -> VALUEOF ver spec raw v2 -> v1 = v2.
Proof.
  intros A B. destruct A as [items raw item mask FB FI LV|fn ml raw L C U|p ml raw u L U UN|raw n U R|raw b U R]; inversion B; subst.
  - congruence.
  - reflexivity.
  - f_equal. eapply Unesc_functional; eassumption.
  - congruence.
  - congruence.
Qed.

Lemma AttrOf_functional ver ty xa a1 a2 : ATTROF ver ty xa a1 -> ATTROF ver ty xa a2 -> a1 = a2.
Proof.
  intros (F1 & c1 & t1 & r1 & m1 & S1 & _ & V1) (F2 & c2 & t2 & r2 & m2 & S2 & _ & V2).
  destruct a1 as [n1 v1], a2 as [n2 v2]. cbn [fst snd] in *. rewrite F1 in F2. injection F2 as <-.
  rewrite S1 in S2. injection S2 as <- <- <- <-. f_equal. exact (ValueOf_functional _ _ _ _ _ V1 V2).
Qed.

Lemma Forall2_functional {A B} (R : A -> B -> Prop) (HF : forall a b1 b2, R a b1 -> R a b2 -> b1 = b2) l :
  forall m1 m2, Forall2 R l m1 -> Forall2 R l m2 -> m1 = m2.
Proof.
  induction l as [|a l IH]; intros m1 m2 H1 H2; inversion H1; inversion H2; subst; [reflexivity|].
  f_equal; [eapply HF; eassumption|apply IH; assumption].
Qed.

Scheme InterpE_mut := Minimality for InterpE Sort Prop
  with InterpKids_mut := Minimality for InterpKids Sort Prop.

Combined Scheme Interp_mutind from InterpE_mut, InterpKids_mut.

Lemma Interp_functional ver :
  (forall ty cm x t1, INTERPE ver ty cm x t1 -> forall t2, INTERPE ver ty cm x t2 -> t1 = t2) /\
  (forall ty pend pre kids out1, INTERPK ver ty pend pre kids out1 -> forall out2, INTERPK ver ty pend pre kids out2 -> out1 = out2).
Proof.
  apply (Interp_mutind T tab_el tab_at tab_en check_fn float_parse ver
           (fun ty cm x t1 => forall t2, INTERPE ver ty cm x t2 -> t1 = t2)
           (fun ty pend pre kids out1 => forall out2, INTERPK ver ty pend pre kids out2 -> out1 = out2)).
  - intros ty cm name atts trail sc kids n attrs content FB FA _ IHK t2 H2. inversion H2; subst.
    assert (n = n0) by congruence. subst n0.
    assert (attrs = attrs0) by (eapply Forall2_functional; [exact (AttrOf_functional ver ty)|eassumption|eassumption]). subst attrs0.
    f_equal. apply IHK. assumption.
  - intros ty pend pre out2 H2. inversion H2; subst. reflexivity.
  - intros ty pend pre t r out AW _ IH out2 H2. inversion H2; subst.
    + apply IH. assumption.
    + unfold allws in AW. congruence.
    + match goal with H : INTERPE _ _ _ (XText _) _ |- _ => inversion H end.
  - intros ty pend pre t r out cs v mode NW CS CM PRE VO _ IH out2 H2. inversion H2; subst.
    + match goal with H : allws t |- _ => unfold allws in H; congruence end.
    + assert (cs = cs0) by congruence. subst cs0. assert (v = v0) by (eapply ValueOf_functional; eassumption). subst v0.
      f_equal. apply IH. assumption.
    + match goal with H : INTERPE _ _ _ (XText _) _ |- _ => inversion H end.
  - intros ty pend pre c r out _ IH out2 H2. inversion H2; subst.
    + apply IH. assumption.
    + match goal with H : INTERPE _ _ _ (XComment _) _ |- _ => inversion H end.
  - intros ty pend pre b r out _ IH out2 H2. inversion H2; subst.
    + apply IH. assumption.
    + match goal with H : INTERPE _ _ _ (XPI _) _ |- _ => inversion H end.
  - intros ty pend pre x r out sub sub_ty idx FS IE IHE _ IHK out2 H2.
    assert (EX : exists name atts trail sc kids, x = XElem name atts trail sc kids) by (inversion IE; subst; eauto 6).
    destruct EX as (name & atts & trail & sc & kids & ->).
    inversion H2 as [| | | | |ty0 pend0 pre0 x0 r0 out0 sub' sub_ty' idx' FS' IE' IK']; subst.
    assert (EN : e_name sub = e_name sub').
    { inversion IE; subst. inversion IE'; subst. cbn [e_name]. congruence. }
    rewrite <- EN in FS'. rewrite FS in FS'. injection FS' as <- _.
    pose proof (IHE _ IE') as <-. f_equal. apply IHK. assumption.
Qed.

Theorem InterpDoc_functional d ver1 t1 ver2 t2 :
  InterpDoc T tab_el tab_at tab_en check_fn float_parse d ver1 t1 ->
  InterpDoc T tab_el tab_at tab_en check_fn float_parse d ver2 t2 -> ver1 = ver2 /\ t1 = t2.
Proof.
  intros (rt & e & v401 & RT & EE & V4 & _ & name & atts & trail & sc & kids & n & attrs & content & cm & ER & -> & FB & FA & HD & IK & CM)
         (rt' & e' & v401' & RT' & EE' & V4' & _ & name' & atts' & trail' & sc' & kids' & n' & attrs' & content' & cm' & ER' & -> & FB' & FA' & HD' & IK' & CM').
  rewrite RT in RT'. injection RT' as <-. rewrite V4 in V4'. injection V4' as <-.
  rewrite ER in ER'. injection ER' as <- <- <- <- <-. rewrite FB in FB'. injection FB' as <-.
  assert (attrs = attrs') by (eapply Forall2_functional; [exact (AttrOf_functional v401 rt)|eassumption|eassumption]). subst attrs'.
  assert (ver1 = ver2).
  { destruct HD as (a1 & a2 & a3 & schema & _ & _ & F3 & _ & _ & A3 & _ & VF).
    destruct HD' as (b1 & b2 & b3 & schema' & _ & _ & F3' & _ & _ & A3' & _ & VF').
    rewrite F3 in F3'. injection F3' as <-. rewrite A3 in A3'. injection A3' as <-. congruence. }
  subst ver2. split; [reflexivity|]. subst cm cm'. f_equal. exact (proj2 (Interp_functional ver1) _ _ _ _ _ IK _ IK').
Qed.

(* the loaded tree is THE interpretation of THE reading of the byte string *)
Theorem load_faithful_unique (b : bool) bs t st :
  names_clean tab_el = true -> names_clean tab_at = true ->
  load b T tab_el tab_at tab_en check_fn float_parse bs = Val (Ret t st) -> p_warnings st = [] ->
  exists d, Reads bs d /\ InterpDoc T tab_el tab_at tab_en check_fn float_parse d (p_version st) t /\
    forall d' ver' t', Reads bs d' -> InterpDoc T tab_el tab_at tab_en check_fn float_parse d' ver' t' ->
                       d' = d /\ ver' = p_version st /\ t' = t.
Proof.
  intros CE CA L W. destruct (load_faithful_clean T tab_el tab_at tab_en check_fn float_parse CE CA b bs t st L W) as (d & R & I).
  exists d. split; [exact R|]. split; [exact I|]. intros d' ver' t' R' I'. pose proof (reads_unique bs d' d R' R) as ->.
  destruct (InterpDoc_functional d ver' t' _ t I' I) as [-> ->]. auto.
Qed.

End Functional.
