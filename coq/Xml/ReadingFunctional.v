(* Xml/ReadingFunctional.v — C01 faithfulness: the AUTOSAR interpretation is a (partial) FUNCTION of the plain XML tree:
   ValueOf, InterpE / InterpKids and InterpDoc determine their result.  With C01_reads_unique: the tree the loader returns
   is THE interpretation of THE reading of the byte string. *)
From Coq Require Import Arith.
From AV Require Import Base.Bytes Base.Outcome Base.Utf8 Base.Radix Hash.HashModel Spec.SpecTypes Spec.SpecOps Spec.Versions
  Xml.Lexer Xml.Parser Xml.StrictValidDef Xml.StrictValidEntities Xml.RoundTripReload Xml.RoundTripSetVersion
  Xml.RoundTripCanonFinal Xml.FunnelParser Xml.Reading Xml.ReadingLexer Xml.ReadingInterp Xml.ReadingParser Xml.ReadingUnique.
Open Scope list_scope.
Open Scope N_scope.

Lemma Unesc_functional text u1 u2 : Unesc text u1 -> Unesc text u2 -> u1 = u2.
Proof.
  intros A B. pose proof (unesc_complete true text u1 (init_pstate [] 0 0) A) as H1.
  pose proof (unesc_complete true text u2 (init_pstate [] 0 0) B) as H2. rewrite H1 in H2. injection H2 as ->. reflexivity.
Qed.

Section Functional.
Variable T : tables.
Variable tab_el tab_at tab_en : nametab.
Variable check_fn : N -> list N -> res bool.
Variable float_parse : list N -> option N.
Notation VALUEOF := (ValueOf tab_en check_fn float_parse).
Notation ATTROF := (AttrOf T tab_at tab_en check_fn float_parse).
Notation INTERPE := (InterpE T tab_el tab_at tab_en check_fn float_parse).
Notation INTERPK := (InterpKids T tab_el tab_at tab_en check_fn float_parse).

Lemma ValueOf_functional ver spec raw v1 v2 : VALUEOF ver spec raw v1 -> VALUEOF ver spec raw v2 -> v1 = v2.
Proof.
  intros A B. destruct A as [items raw item mask FB FI LV|fn ml raw L C U|p ml raw u L U UN|raw n U R|raw b U R]; inversion B; subst.
  - congruence.
  - reflexivity.
  - f_equal. eapply Unesc_functional; eassumption.
  - congruence.
  - congruence.
Qed.

Lemma AttrOf_functional ver ty xa a1 a2 : ATTROF ver ty xa a1 -> ATTROF ver ty xa a2 -> a1 = a2.
Proof.
  intros (F1 & c1 & t1 & r1 & m1 & S1 & _ & V1) (F2 & c2 & t2 & r2 & m2 & S2 & _ & V2).
  destruct a1 as [n1 v1], a2 as [n2 v2]. cbn [fst snd] in *. rewrite F1 in F2. injection F2 as <-.
  rewrite S1 in S2. injection S2 as <- <- <- <-. f_equal. exact (ValueOf_functional _ _ _ _ _ V1 V2).
Qed.

Lemma Forall2_functional {A B} (R : A -> B -> Prop) (HF : forall a b1 b2, R a b1 -> R a b2 -> b1 = b2) l :
  forall m1 m2, Forall2 R l m1 -> Forall2 R l m2 -> m1 = m2.
Proof.
  induction l as [|a l IH]; intros m1 m2 H1 H2; inversion H1; inversion H2; subst; [reflexivity|].
  f_equal; [eapply HF; eassumption|apply IH; assumption].
Qed.

Scheme InterpE_mut := Minimality for InterpE Sort Prop
  with InterpKids_mut := Minimality for InterpKids Sort Prop.

Combined Scheme Interp_mutind from InterpE_mut, InterpKids_mut.

Lemma Interp_functional ver :
  (forall ty cm x t1, INTERPE ver ty cm x t1 -> forall t2, INTERPE ver ty cm x t2 -> t1 = t2) /\
  (forall ty pend pre kids out1, INTERPK ver ty pend pre kids out1 -> forall out2, INTERPK ver ty pend pre kids out2 -> out1 = out2).
Proof.
  apply (Interp_mutind T tab_el tab_at tab_en check_fn float_parse ver
           (fun ty cm x t1 => forall t2, INTERPE ver ty cm x t2 -> t1 = t2)
           (fun ty pend pre kids out1 => forall out2, INTERPK ver ty pend pre kids out2 -> out1 = out2)).
  - intros ty cm name atts trail sc kids n attrs content FB FA _ IHK t2 H2. inversion H2; subst.
    assert (n = n0) by congruence. subst n0.
    assert (attrs = attrs0) by (eapply Forall2_functional; [exact (AttrOf_functional ver ty)|eassumption|eassumption]). subst attrs0.
    f_equal. apply IHK. assumption.
  - intros ty pend pre out2 H2. inversion H2; subst. reflexivity.
  - intros ty pend pre t r out AW _ IH out2 H2. inversion H2; subst.
    + apply IH. assumption.
    + unfold allws in AW. congruence.
    + match goal with H : INTERPE _ _ _ (XText _) _ |- _ => inversion H end.
  - intros ty pend pre t r out cs v mode NW CS CM PRE VO _ IH out2 H2. inversion H2; subst.
    + match goal with H : allws t |- _ => unfold allws in H; congruence end.
    + assert (cs = cs0) by congruence. subst cs0. assert (v = v0) by (eapply ValueOf_functional; eassumption). subst v0.
      f_equal. apply IH. assumption.
    + match goal with H : INTERPE _ _ _ (XText _) _ |- _ => inversion H end.
  - intros ty pend pre c r out _ IH out2 H2. inversion H2; subst.
    + apply IH. assumption.
    + match goal with H : INTERPE _ _ _ (XComment _) _ |- _ => inversion H end.
  - intros ty pend pre b r out _ IH out2 H2. inversion H2; subst.
    + apply IH. assumption.
    + match goal with H : INTERPE _ _ _ (XPI _) _ |- _ => inversion H end.
  - intros ty pend pre x r out sub sub_ty idx FS IE IHE _ IHK out2 H2.
    assert (EX : exists name atts trail sc kids, x = XElem name atts trail sc kids) by (inversion IE; subst; eauto 6).
    destruct EX as (name & atts & trail & sc & kids & ->).
    inversion H2 as [| | | | |ty0 pend0 pre0 x0 r0 out0 sub' sub_ty' idx' FS' IE' IK']; subst.
    assert (EN : e_name sub = e_name sub').
    { inversion IE; subst. inversion IE'; subst. cbn [e_name]. congruence. }
    rewrite <- EN in FS'. rewrite FS in FS'. injection FS' as <- _.
    pose proof (IHE _ IE') as <-. f_equal. apply IHK. assumption.
Qed.

Theorem InterpDoc_functional d ver1 t1 ver2 t2 :
  InterpDoc T tab_el tab_at tab_en check_fn float_parse d ver1 t1 ->
  InterpDoc T tab_el tab_at tab_en check_fn float_parse d ver2 t2 -> ver1 = ver2 /\ t1 = t2.
Proof.
  intros (rt & e & v401 & RT & EE & V4 & _ & name & atts & trail & sc & kids & n & attrs & content & cm & ER & -> & FB & FA & HD & IK & CM)
         (rt' & e' & v401' & RT' & EE' & V4' & _ & name' & atts' & trail' & sc' & kids' & n' & attrs' & content' & cm' & ER' & -> & FB' & FA' & HD' & IK' & CM').
  rewrite RT in RT'. injection RT' as <-. rewrite V4 in V4'. injection V4' as <-.
  rewrite ER in ER'. injection ER' as <- <- <- <- <-. rewrite FB in FB'. injection FB' as <-.
  assert (attrs = attrs') by (eapply Forall2_functional; [exact (AttrOf_functional v401 rt)|eassumption|eassumption]). subst attrs'.
  assert (ver1 = ver2).
  { destruct HD as (a1 & a2 & a3 & schema & _ & _ & F3 & _ & _ & A3 & _ & VF).
    destruct HD' as (b1 & b2 & b3 & schema' & _ & _ & F3' & _ & _ & A3' & _ & VF').
    rewrite F3 in F3'. injection F3' as <-. rewrite A3 in A3'. injection A3' as <-. congruence. }
  subst ver2. split; [reflexivity|]. subst cm cm'. f_equal. exact (proj2 (Interp_functional ver1) _ _ _ _ _ IK _ IK').
Qed.

(* the loaded tree is THE interpretation of THE reading of the byte string *)
Theorem load_faithful_unique (b : bool) bs t st :
  names_clean tab_el = true -> names_clean tab_at = true ->
  load b T tab_el tab_at tab_en check_fn float_parse bs = Val (Ret t st) -> p_warnings st = [] ->
  exists d, Reads bs d /\ InterpDoc T tab_el tab_at tab_en check_fn float_parse d (p_version st) t /\
    forall d' ver' t', Reads bs d' -> InterpDoc T tab_el tab_at tab_en check_fn float_parse d' ver' t' ->
                       d' = d /\ ver' = p_version st /\ t' = t.
Proof.
  intros CE CA L W. destruct (load_faithful_clean T tab_el tab_at tab_en check_fn float_parse CE CA b bs t st L W) as (d & R & I).
  exists d. split; [exact R|]. split; [exact I|]. intros d' ver' t' R' I'. pose proof (reads_unique bs d' d R' R) as ->.
  destruct (InterpDoc_functional d ver' t' _ t I' I) as [-> ->]. auto.
Qed.

(* C01_faithful with the header: the standalone flag of the loaded file is the one of the declaration of the reading *)
Theorem load_faithful_header (b : bool) bs t st :
  names_clean tab_el = true -> names_clean tab_at = true ->
  load b T tab_el tab_at tab_en check_fn float_parse bs = Val (Ret t st) -> p_warnings st = [] ->
  exists d, Reads bs d /\ InterpDoc T tab_el tab_at tab_en check_fn float_parse d (p_version st) t /\
            XmlDeclR (d_decl d) (p_standalone st).
Proof.
  intros CE CA L W.
  assert (LS : load true T tab_el tab_at tab_en check_fn float_parse bs = Val (Ret t st)).
  { destruct b; [exact L|]. destruct (load_agree T tab_el tab_at tab_en check_fn float_parse bs) as (A & _). exact (A t st L W). }
  destruct (load_standalone T tab_el tab_at tab_en check_fn float_parse true bs t st LS) as (line & sa & l1 & NX & PS).
  destruct (load_faithful T tab_el tab_at tab_en check_fn float_parse CE CA bs t st LS) as (d & R & I). exists d. split; [exact R|]. split; [exact I|].
  (* the first event of the lexer is the declaration of the (unique) reading *)
  destruct R as [EB WD]. destruct WD as (WB & MB & XD & _).
  assert (D0 : l_deferred (lexer_new bs) = None) by reflexivity.
  destruct (next_reads _ _ _ _ D0 NX) as (sk0 & WSK0 & MSK0 & _ & _ & ALT0).
  destruct ALT0 as [(EQ & _)|(bytes0 & TK0 & RB0 & _)]; [discriminate EQ|].
  assert (TH : exists body, bytes0 = [60; 63] ++ body ++ [63; 62] /\ XmlDeclR body sa) by (inversion TK0; subst; eauto).
  destruct TH as (body & -> & XD0). rewrite PS.
  destruct (lexer_new_bom bs) as (hb & EBS).
  (* both decompositions of bs start with misc items followed by a declaration: the same declaration *)
  assert (SAME : body = d_decl d).
  { set (X := render_items (d_before d) ++ 60 :: (63 :: d_decl d ++ [63; 62] ++ render_items (d_prolog d) ++ render (d_root d) ++ render_items (d_after d))).
    set (Y := render_items sk0 ++ 60 :: (63 :: body ++ [63; 62] ++ l_rest l1)).
    assert (EX : bs = (if d_bom d then bom else []) ++ X) by (rewrite EB at 1; unfold render_doc, X; reflexivity).
    assert (EY : bs = (if hb then bom else []) ++ Y) by (rewrite EBS at 1; rewrite RB0; unfold Y; cbn [app]; rewrite <- !app_assoc; reflexivity).
    assert (E : X = Y).
    { rewrite EX in EY. destruct (d_bom d), hb; cbn [app] in EY.
      - unfold bom in EY. cbn [app] in EY. injection EY as EY. exact EY.
      - exfalso. unfold bom in EY. cbn [app] in EY. symmetry in EY. unfold Y in EY.
        destruct (misc_first_byte _ _ _ _ WSK0 MSK0 EY) as [C|C]; discriminate C.
      - exfalso. unfold bom in EY. cbn [app] in EY. unfold X in EY.
        destruct (misc_first_byte _ _ _ _ WB MB EY) as [C|C]; discriminate C.
      - exact EY. }
    unfold X, Y in E.
    assert (E' : render_items (d_before d) ++ ([60; 63] ++ d_decl d ++ [63; 62] ++ (render_items (d_prolog d) ++ render (d_root d) ++ render_items (d_after d))) =
                 render_items sk0 ++ ([60; 63] ++ body ++ [63; 62] ++ l_rest l1)) by (cbn [app]; exact E).
    destruct (U1_of_U2 is_misc _ (U2_all _) (d_before d) sk0 _ _ (le_n _) WB WSK0 MB MSK0 E' (stop_decl _ _ _ XD) (stop_decl _ _ _ XD0)) as [_ E3].
    cbn [app] in E3. injection E3 as E3.
    assert (E3' : (d_decl d ++ [63]) ++ 62 :: (render_items (d_prolog d) ++ render (d_root d) ++ render_items (d_after d)) = (body ++ [63]) ++ 62 :: l_rest l1)
      by (repeat (rewrite <- ?app_assoc; cbn [app]); exact E3).
    assert (N1 : no_byte 62 (d_decl d ++ [63])) by (apply ReadingUnique.no_byte_app; split; [exact (proj1 XD)|reflexivity]).
    assert (N2 : no_byte 62 (body ++ [63])) by (apply ReadingUnique.no_byte_app; split; [exact (proj1 XD0)|reflexivity]).
    destruct (cut_unique 62 _ _ _ _ N1 N2 E3') as [ED _]. apply app_inj_tail in ED as [ED _]. symmetry. exact ED. }
  rewrite <- SAME. exact XD0.
Qed.

End Functional.
