(* Xml/RoundTripLexerComment.v — every comment token the lexer returns satisfies CommentOk: the text between "<!--" and
   the FIRST "-->" cannot produce an earlier end marker when it is written back and read again.  (So the loader can store
   a comment such as "a--b" or "a-" — "--" inside a comment is accepted — and such comments round-trip; the only
   stored comments that are not CommentsOk are lossy conversions of comments that were not UTF-8.) *)
From Coq Require Import Arith.
From AV Require Import Base.Bytes Base.Outcome Base.Utf8 Xml.Lexer Xml.Parser Xml.LexerProofs Xml.Escape Xml.RoundTripAttrs
  Xml.RoundTripLexer Xml.Utf8Closure.
Open Scope list_scope.
Open Scope N_scope.

Lemma starts_with_true_split p l : starts_with p l = true -> l = p ++ skipn (List.length p) l.
Proof. apply starts_with_split. Qed.

Lemma nth_error_firstn_lt {A} (l : list A) n j : (j < n)%nat -> nth_error (firstn n l) j = nth_error l j.
Proof.
  revert n j; induction l as [|x l IH]; intros n j L; [destruct n, j; reflexivity|].
  destruct n; [lia|]. destruct j; [reflexivity|]. cbn. apply IH. lia.
Qed.

(* the comment branch *)
Lemma comment_branch_ok rest fp k :
  position (N.eqb 62) (skipn 1 rest) = Some fp -> starts_with [60; 33; 45; 45] (firstn k rest) = true ->
  ends_with [45; 45] (firstn k rest) = true -> (6 <= k)%nat ->
  comment_end (S (List.length rest)) rest (S fp) = Some k ->
  CommentOk (firstn (k - 2 - 4) (skipn 4 rest)).
Proof.
  intros P SW EW K6 CE.
  pose proof (comment_end_exact (S (List.length rest)) rest (S fp) ltac:(lia)) as EX. rewrite CE in EX.
  destruct EX as ((RK1 & RK2) & MK & FIRST).
  set (text := firstn k rest) in *. set (c := firstn (k - 2 - 4) (skipn 4 rest)).
  assert (LT : List.length text = k) by (unfold text; rewrite firstn_length; lia).
  (* text = "<!--" ++ c ++ "--" *)
  assert (E1 : text = [60; 33; 45; 45] ++ skipn 4 text) by (apply (starts_with_true_split [60; 33; 45; 45] text SW)).
  assert (E2 : exists body, text = body ++ [45; 45]).
  { unfold ends_with in EW. cbn [rev app] in EW. pose proof (starts_with_true_split [45; 45] (rev text) EW) as R.
    exists (rev (skipn 2 (rev text))). rewrite <- (rev_involutive text) at 1. rewrite R at 1. rewrite rev_app_distr. reflexivity. }
  destruct E2 as (body & E2).
  assert (REST : rest = text ++ skipn k rest) by (unfold text; symmetry; apply firstn_skipn).
  assert (CT : comment_text c = text).
  { assert (LB : List.length body = (k - 2)%nat) by (apply (f_equal (@List.length N)) in E2; rewrite app_length in E2; cbn [List.length] in E2; lia).
    assert (S4 : skipn 4 text = skipn 4 body ++ [45; 45]).
    { rewrite E2. rewrite skipn_app. replace (4 - List.length body)%nat with O by lia. reflexivity. }
    assert (EC : c = skipn 4 body).
    { unfold c. rewrite REST at 1. rewrite skipn_app. replace (4 - List.length text)%nat with O by lia.
      change (skipn 0 (skipn k rest)) with (skipn k rest). rewrite S4, <- app_assoc. replace (k - 2 - 4)%nat with (List.length (skipn 4 body)) by (rewrite skipn_length; lia).
      apply firstn_app_exact. }
    transitivity ([60; 33; 45; 45] ++ skipn 4 text); [|symmetry; exact E1].
    unfold comment_text. rewrite EC, S4. reflexivity. }
  unfold CommentOk. rewrite CT. rewrite LT. intros j Hj.
  destruct (le_lt_dec (S fp) j) as [A|B].
  - specialize (FIRST j ltac:(lia)). rewrite REST in FIRST. rewrite starts_with_app_inside in FIRST; [exact FIRST|]. cbn [List.length]. lia.
  - (* before the first '>' there is no '>' *)
    destruct (starts_with [45; 45; 62] (skipn (j - 2) text)) eqn:M; [exfalso|reflexivity].
    pose proof (starts_with_true_split _ _ M) as SP. cbn [List.length app] in SP.
    assert (N62 : nth_error text j = Some 62).
    { rewrite <- (firstn_skipn (j - 2) text). rewrite nth_error_app2 by (rewrite firstn_length; lia).
      rewrite firstn_length. replace (j - Nat.min (j - 2) (List.length text))%nat with 2%nat by lia. rewrite SP. reflexivity. }
    pose proof (position_Some _ _ P) as (_ & _ & NO). rewrite forallb_forall in NO.
    assert (IN : In 62 (firstn fp (skipn 1 rest))).
    { assert (NR : nth_error rest j = Some 62).
      { rewrite REST. rewrite nth_error_app1 by lia. exact N62. }
      destruct rest as [|r0 rest']; [destruct j; discriminate NR|]. cbn [skipn]. destruct j as [|j']; [lia|]. cbn [nth_error] in NR.
      apply (nth_error_In (firstn fp rest') j'). rewrite nth_error_firstn_lt by lia. exact NR. }
    specialize (NO 62 IN). discriminate NO.
Qed.



Theorem lex_comment_ok : forall f st line c st', lex_next f st = Val (LOk line (EvComment c) st') -> CommentOk c.
Proof.
  induction f as [|f IH]; intros [rest line0 deferred] line c st' H.
  { destruct deferred; cbn in H; discriminate H. }
  destruct deferred as [nm|]; [cbn in H; discriminate H|].
  destruct rest as [|c0 tail]; [cbn in H; discriminate H|].
  destruct (N.eq_dec c0 60) as [->|N60].
  2:{ change {| l_rest := c0 :: tail; l_line := line0; l_deferred := None |} with (mk (c0 :: tail) line0 None) in H.
      rewrite (lex_chars_branch f c0 tail line0 N60) in H. cbv zeta in H.
      match type of H with (if ?b then _ else _) = _ => destruct b end; [exact (IH _ _ _ _ H)|discriminate H]. }
  destruct (position (N.eqb 62) tail) as [findpos|] eqn:P.
  2:{ cbn [lex_next l_deferred l_rest l_line] in H. rewrite P in H. discriminate H. }
  destruct findpos as [|fp]; [cbn [lex_next l_deferred l_rest l_line] in H; rewrite P in H; discriminate H|].
  destruct tail as [|c1 tl]; [discriminate P|].
  destruct (N.eq_dec c1 47) as [->|N47]; [cbn [lex_next l_deferred l_rest l_line] in H; rewrite P in H; discriminate H|].
  destruct (N.eq_dec c1 63) as [->|N63].
  { cbn [lex_next l_deferred l_rest l_line] in H. rewrite P in H.
    repeat match type of H with
           | (if ?b then _ else _) = _ => destruct b; try discriminate H
           | match ?x with _ => _ end = _ => destruct x; try discriminate H
           end; exact (IH _ _ _ _ H). }
  destruct (N.eq_dec c1 33) as [->|N33].
  { cbn [lex_next l_deferred l_rest l_line] in H. rewrite P in H.
    set (rest := (60 :: 33 :: tl)) in *.
    destruct (comment_end (S (List.length rest)) rest (S (S fp))) as [k|] eqn:CE; [|discriminate H].
    destruct (k <? 6)%nat eqn:K6; [discriminate H|]. cbn [orb] in H.
    destruct (starts_with [60; 33; 45; 45] (firstn k rest)) eqn:SW; [|discriminate H]. cbn [negb orb] in H.
    destruct (ends_with [45; 45] (firstn k rest)) eqn:EW; [|discriminate H]. cbn [negb] in H.
    injection H as _ <- _. apply Nat.ltb_ge in K6.
    exact (comment_branch_ok rest (S fp) k P SW EW K6 CE). }
  change {| l_rest := 60 :: c1 :: tl; l_line := line0; l_deferred := None |} with (mk (60 :: c1 :: tl) line0 None) in H.
  rewrite (lex_begin_branch f c1 tl fp line0 N47 N63 N33 P) in H. cbv zeta in H.
  match type of H with (let '(_, _) := ?x in _) = _ => destruct x end. discriminate H.
Qed.

(* the comments the loader stores: UTF-8 comments are CommentsOk as they come from the lexer *)
Corollary lexed_comment_canon st line c st' : next st = Val (LOk line (EvComment c) st') -> utf8_valid c = true ->
  CommentOk (utf8_lossy c) /\ utf8_valid (utf8_lossy c) = true.
Proof. intros H U. rewrite (utf8_lossy_valid c U). split; [exact (lex_comment_ok _ _ _ _ _ H)|exact U]. Qed.
