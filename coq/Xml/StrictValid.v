(* Xml/StrictValid.v — C08_accepted_is_valid: a tree that STRICT loading returns satisfies StrictValid
   (Xml/StrictValidDef.v) for the file's version.  For every table set, name tables, validator and float oracle.
   Method: `vpres` (a program keeps the file version; proved per combinator, then per function by a tactic) and one
   inversion lemma per parser function for strict = true, where optional_error never returns. *)
From Coq Require Import Arith.
From AV Require Import Base.Bytes Base.Outcome Base.Utf8 Base.Radix Hash.HashModel Spec.SpecOps Spec.Versions
  Xml.Lexer Xml.Parser Xml.LexerProofs Xml.TablesOk Xml.Funnel Xml.FunnelParser Xml.ParserCheck Xml.ParserDepth Xml.StrictValidDef Xml.StrictValidSpec.
Open Scope list_scope.
Open Scope N_scope.

(* ---------- the file version is not touched ---------- *)
Definition vpres {A} (m : M A) : Prop :=
  forall st, match m st with
             | Val (Ret _ st') => p_version st' = p_version st
             | Val (Raise _ st') => p_version st' = p_version st
             | _ => True
             end.

Lemma vpres_ret {A} (a : A) : vpres (ret a).                  Proof. intros st; reflexivity. Qed.
Lemma vpres_get : vpres get.                                   Proof. intros st; reflexivity. Qed.
Lemma vpres_lift {A} (r : res A) : vpres (lift r).             Proof. intros st; destruct r; cbn; auto. Qed.
Lemma vpres_mpanic {A} s : vpres (@mpanic A s).                Proof. intros st; exact I. Qed.
Lemma vpres_mfuel {A} : vpres (@mfuel A).                      Proof. intros st; exact I. Qed.
Lemma vpres_hard {A} k e i : vpres (@hard A k e i).            Proof. intros st; reflexivity. Qed.
Lemma vpres_optional_error s k e i : vpres (optional_error s k e i).
Proof. intros st; unfold optional_error; destruct s; reflexivity. Qed.
Lemma vpres_pnext : vpres pnext.
Proof. intros st; unfold pnext. destruct (next (p_lex st)) as [[line ev l'|line e]| |]; cbn; auto. Qed.
Lemma vpres_modify f : (forall st, p_version (f st) = p_version st) -> vpres (modify f).
Proof. intros H st; cbn. apply H. Qed.
Lemma vpres_bind {A B} (m : M A) (f : A -> M B) : vpres m -> (forall a, vpres (f a)) -> vpres (mbind m f).
Proof.
  intros Hm Hf st. specialize (Hm st). unfold mbind. destruct (m st) as [[a st1|e st1]| |]; auto.
  specialize (Hf a st1). destruct (f a st1) as [[b st2|e st2]| |]; auto; congruence.
Qed.
Lemma vpres_inv {A} (m : M A) st a st' : vpres m -> m st = Val (Ret a st') -> p_version st' = p_version st.
Proof. intros H E. specialize (H st). rewrite E in H. exact H. Qed.

Create HintDb vp discriminated.
#[export] Hint Resolve vpres_ret vpres_get vpres_lift vpres_mpanic vpres_mfuel vpres_hard vpres_optional_error vpres_pnext : vp.

Ltac vp_step :=
  lazymatch goal with
  | |- vpres (mbind _ _) => apply vpres_bind; [|intros]
  | |- vpres (modify _) => apply vpres_modify; intros; reflexivity
  | |- vpres (match ?x with _ => _ end) => destruct x
  | |- _ => solve [auto with vp]
  end.
Ltac vp_tac := repeat vp_step.

Lemma list_eqbN_eq a : forall b, list_eqbN a b = true -> a = b.
Proof.
  induction a as [|x a IH]; intros [|y b]; cbn [list_eqbN]; try discriminate; [reflexivity|].
  rewrite andb_true_iff, N.eqb_eq. intros [-> H]. f_equal. apply IH, H.
Qed.

Section SV.
Variable T : tables.
Variable tab_el tab_at tab_en : nametab.
Variable check_fn : N -> list N -> res bool.
Variable float_parse : list N -> option N.

Notation CV := (check_version true).
Notation PCD := (parse_character_data true tab_en check_fn float_parse).
Notation AL := (attr_loop true T tab_at tab_en check_fn float_parse).
Notation PAT := (parse_attribute_text true T tab_at tab_en check_fn float_parse).
Notation PL := (pe_loop true T tab_el tab_at tab_en check_fn float_parse).
Notation PE := (parse_element true T tab_el tab_at tab_en check_fn float_parse).

(* ----- vpres of every function used while parsing elements (any mode) ----- *)
Section VP.
Variable s : bool.
Lemma vp_check_version v k e i : vpres (check_version s v k e i).
Proof. unfold check_version. vp_tac. Qed.
Hint Resolve vp_check_version : vp.
Lemma vp_unescape_loop fuel : forall rem acc, vpres (unescape_loop s fuel rem acc).
Proof.
  induction fuel as [|f IH]; intros rem acc; cbn [unescape_loop]; [auto with vp|].
  assert (Inv : forall r a, vpres (mbind (optional_error s InvalidXmlEntity 0 0) (fun _ => unescape_loop s f r a))).
  { intros. vp_tac. }
  destruct (find_byte 38 rem) as [pos|]; [|auto with vp].
  repeat lazymatch goal with
  | |- vpres (if ?c then _ else _) => destruct c
  | |- vpres (match ?x with _ => _ end) => destruct x
  | |- vpres (unescape_loop s f _ _) => apply IH
  | |- _ => apply Inv
  end.
Qed.
Lemma vp_unescape_string input : vpres (unescape_string s input).
Proof. unfold unescape_string. destruct (find_byte 38 input); [apply vp_unescape_loop|auto with vp]. Qed.
Hint Resolve vp_unescape_string : vp.
Lemma vp_pcd input spec : vpres (parse_character_data s tab_en check_fn float_parse input spec).
Proof. unfold parse_character_data. vp_tac. Qed.
Hint Resolve vp_pcd : vp.
Lemma vp_attr_loop fuel ty : forall rem attrs, vpres (attr_loop s T tab_at tab_en check_fn float_parse fuel ty rem attrs).
Proof. induction fuel as [|f IH]; intros rem attrs; cbn [attr_loop]; [auto with vp|]. vp_tac. Qed.
Hint Resolve vp_attr_loop : vp.
Lemma vp_req_loop cur attrs l : vpres (req_loop s cur attrs l).
Proof. induction l as [|[[[name c1] c2] required] l IH]; cbn [req_loop]; [auto with vp|]. vp_tac. Qed.
Hint Resolve vp_req_loop : vp.
Lemma vp_pat ty text : vpres (parse_attribute_text s T tab_at tab_en check_fn float_parse ty text).
Proof. unfold parse_attribute_text. vp_tac. Qed.
Lemma vp_find_elem name ty : vpres (find_element_in_spec_checked s T name ty).
Proof. unfold find_element_in_spec_checked. vp_tac. Qed.
Lemma vp_conflict name ty old new : vpres (check_element_conflict s T name ty old new).
Proof. unfold check_element_conflict. vp_tac. Qed.
Lemma vp_mult name ty idx content : vpres (check_multiplicity s T name ty idx content).
Proof. unfold check_multiplicity. vp_tac. Qed.
Lemma vp_verify_end : vpres (verify_end_of_input s).
Proof.
  intros st. unfold verify_end_of_input. destruct (next (p_lex st)) as [[line ev l'|line e]| |]; cbn; auto.
  destruct ev; try (apply (vpres_optional_error s AdditionalDataError 0 0 (set_lex st l'))). reflexivity.
Qed.
End VP.

Lemma vp_skip_comments fuel : forall stored tok, vpres (skip_comments fuel stored tok).
Proof. induction fuel as [|f IH]; intros stored tok; cbn [skip_comments]; [auto with vp|]. vp_tac. Qed.

(* ----- strict mode: the funnel never returns ----- *)
Lemma oe_strict_ret k e i st u st' : optional_error true k e i st = Val (Ret u st') -> False.
Proof. unfold optional_error. discriminate. Qed.

Lemma guard_strict_ret (c : bool) k e i st u st' :
  (if c then optional_error true k e i else ret tt) st = Val (Ret u st') -> c = false /\ st' = st.
Proof. destruct c; [intros H; destruct (oe_strict_ret _ _ _ _ _ _ H)|]. intros [= <-]. auto. Qed.

Lemma get_ret_inv st a st' : get st = Val (Ret a st') -> a = st /\ st' = st.
Proof. intros [= <- <-]. auto. Qed.

Lemma check_version_ret v k e i st u st' : CV v k e i st = Val (Ret u st') -> N.land (p_version st) v <> 0.
Proof.
  unfold check_version. intros H. inv H as u1 s1 E1. injection E1 as _ <-.
  inv H as g s2 E2. apply get_ret_inv in E2 as [-> ->]. cbn [p_version set_compat] in H.
  destruct (N.land (p_version st) v =? 0) eqn:Z; [destruct (oe_strict_ret _ _ _ _ _ _ H)|]. apply N.eqb_neq. exact Z.
Qed.

(* strict unescaping never lengthens the text: every entity is at least as long as the character it denotes *)
Lemma utf8_encode_len v : (List.length (utf8_encode v) <= 4)%nat.
Proof. unfold utf8_encode. repeat match goal with |- context [if ?c then _ else _] => destruct c end; cbn; lia. Qed.

Lemma digits_nonempty bits radix s v : from_str_radix_u bits radix s = Some v -> s <> [].
Proof. destruct s; [discriminate|discriminate]. Qed.

Lemma starts_with_len pre l : starts_with pre l = true -> (List.length pre <= List.length l)%nat.
Proof.
  revert l; induction pre as [|p pre IH]; intros [|x l]; cbn [starts_with List.length]; try lia; try discriminate.
  rewrite andb_true_iff. intros [_ H]. apply IH in H. lia.
Qed.

Lemma unescape_loop_len fuel : forall rem acc st u st',
  unescape_loop true fuel rem acc st = Val (Ret u st') -> (List.length u <= List.length acc + List.length rem)%nat.
Proof.
  induction fuel as [|f IH]; intros rem acc st u st' H; [discriminate H|]. cbn [unescape_loop] in H.
  destruct (find_byte 38 rem) as [pos|] eqn:F; [|injection H as <- _; rewrite app_length; lia].
  unfold find_byte in F. pose proof (LexerProofs.position_Some _ _ F) as (LP & _ & _).
  set (rem' := skipn pos rem) in *. set (acc' := acc ++ firstn pos rem) in *.
  assert (LA : (List.length acc' + List.length rem' = List.length acc + List.length rem)%nat).
  { unfold acc', rem'. rewrite app_length, firstn_length, skipn_length. lia. }
  assert (L1 : (1 <= List.length rem')%nat) by (unfold rem'; rewrite skipn_length; lia).
  assert (STEP : forall n c, (1 <= n)%nat -> unescape_loop true f (skipn n rem') (acc' ++ [c]) st = Val (Ret u st') ->
                 (List.length u <= List.length acc + List.length rem)%nat).
  { intros n c Hn HH. apply IH in HH. rewrite app_length, skipn_length in HH. cbn [List.length] in HH. lia. }
  assert (INV : forall a, mbind (optional_error true InvalidXmlEntity 0 0) (fun _ => unescape_loop true f (skipn 1 rem') a) st = Val (Ret u st') ->
                 (List.length u <= List.length acc + List.length rem)%nat).
  { intros a HH. inv HH as u1 s1 E1. destruct (oe_strict_ret _ _ _ _ _ _ E1). }
  assert (REF : forall k endpos v, (1 <= endpos - k)%nat -> (2 <= k)%nat -> (endpos < List.length rem')%nat ->
            unescape_loop true f (skipn (S endpos) rem') (acc' ++ utf8_encode v) st = Val (Ret u st') ->
            (List.length u <= List.length acc + List.length rem)%nat).
  { intros k endpos v K1 K2 LE HH. apply IH in HH. rewrite app_length, skipn_length in HH.
    pose proof (utf8_encode_len v). lia. }
  destruct (starts_with (BS "&lt;") rem'); [eapply (STEP 4%nat); [lia|exact H]|].
  destruct (starts_with (BS "&gt;") rem'); [eapply (STEP 4%nat); [lia|exact H]|].
  destruct (starts_with (BS "&amp;") rem'); [eapply (STEP 5%nat); [lia|exact H]|].
  destruct (starts_with (BS "&apos;") rem'); [eapply (STEP 6%nat); [lia|exact H]|].
  destruct (starts_with (BS "&quot;") rem'); [eapply (STEP 6%nat); [lia|exact H]|].
  destruct (starts_with (BS "&#x") rem').
  { destruct (find_byte 59 rem') as [endpos|] eqn:F2; [|apply (INV _ H)].
    unfold find_byte in F2. pose proof (LexerProofs.position_Some _ _ F2) as (LE & _ & _).
    cbv zeta in H. destruct (starts_with [43] (firstn (endpos - 3) (skipn 3 rem'))); [apply (INV _ H)|].
    destruct (from_str_radix_u 32 16 (firstn (endpos - 3) (skipn 3 rem'))) as [v|] eqn:R; [|apply (INV _ H)].
    destruct (is_char v); [|apply (INV _ H)].
    apply digits_nonempty in R.
    assert (K : (1 <= endpos - 3)%nat).
    { destruct (endpos - 3)%nat eqn:Z; [cbn in R; congruence|lia]. }
    eapply (REF 3%nat endpos v); [lia|lia|exact LE|exact H]. }
  destruct (starts_with (BS "&#") rem').
  { destruct (find_byte 59 rem') as [endpos|] eqn:F2; [|apply (INV _ H)].
    unfold find_byte in F2. pose proof (LexerProofs.position_Some _ _ F2) as (LE & _ & _).
    cbv zeta in H. destruct (starts_with [43] (firstn (endpos - 2) (skipn 2 rem'))); [apply (INV _ H)|].
    destruct (from_str_radix_u 32 10 (firstn (endpos - 2) (skipn 2 rem'))) as [v|] eqn:R; [|apply (INV _ H)].
    destruct (is_char v); [|apply (INV _ H)].
    apply digits_nonempty in R.
    assert (K : (1 <= endpos - 2)%nat).
    { destruct (endpos - 2)%nat eqn:Z; [cbn in R; congruence|lia]. }
    eapply (REF 2%nat endpos v); [lia|lia|exact LE|exact H]. }
  apply (INV _ H).
Qed.

Lemma unescape_string_len input st u st' :
  unescape_string true input st = Val (Ret u st') -> (List.length u <= List.length input)%nat.
Proof.
  unfold unescape_string. destruct (find_byte 38 input).
  - intros H. apply unescape_loop_len in H. cbn [List.length] in H. lia.
  - intros [= <- _]. lia.
Qed.

Lemma opt_len_gt_mono maxlen a b : (List.length b <= List.length a)%nat -> opt_len_gt maxlen a = false -> opt_len_gt maxlen b = false.
Proof.
  unfold opt_len_gt. destruct maxlen as [m|]; [|reflexivity]. rewrite !N.ltb_ge. lia.
Qed.

Lemma pcd_ret input spec st v st' : PCD input spec st = Val (Ret v st') -> cdata_valid check_fn (p_version st) spec v.
Proof.
  unfold parse_character_data. intros H. inv H as trimmed s1 E1. apply lift_ret_inv in E1 as [_ ->].
  destruct spec as [items|fn maxlen|preserve maxlen| |].
  - inv H as nm s2 E2. apply lift_ret_inv in E2 as [_ ->]. destruct nm as [value|]; [|discriminate H].
    destruct (find (fun it => fst it =? value) items) as [[i0 version]|] eqn:F.
    + inv H as g s3 E3. apply get_ret_inv in E3 as [-> ->]. inv H as u s4 E4. injection H as <- _.
      apply check_version_ret in E4. pose proof (find_some _ _ F) as [_ EQ]. cbn [fst] in EQ. apply N.eqb_eq in EQ. subst i0.
      econstructor; [exact F|exact E4].
    + inv H as g s3 E3. discriminate H.
  - inv H as u1 s2 E2. apply guard_strict_ret in E2 as [L ->].
    inv H as ok s3 E3. apply lift_ret_inv in E3 as [CF ->].
    inv H as u2 s4 E4. apply guard_strict_ret in E4 as [OK ->]. apply negb_false_iff in OK. subst ok.
    destruct (utf8_valid trimmed) eqn:U.
    + injection H as <- _. constructor; assumption.
    + inv H as u3 s5 E5. destruct (oe_strict_ret _ _ _ _ _ _ E5).
  - inv H as u1 s2 E2. apply guard_strict_ret in E2 as [L ->].
    inv H as text s3 E3.
    assert (TX : text = (if preserve then input else trimmed)).
    { destruct (utf8_valid (if preserve then input else trimmed)); [injection E3 as <- _; reflexivity|].
      inv E3 as u2 s4 E4. destruct (oe_strict_ret _ _ _ _ _ _ E4). }
    inv H as u s4 E4. injection H as <- _. apply unescape_string_len in E4. rewrite TX in E4.
    constructor. eapply opt_len_gt_mono; eassumption.
  - destruct (negb (utf8_valid trimmed)); [discriminate H|].
    destruct (from_str_radix_u 64 10 trimmed).
    + injection H as <- _. constructor.
    + inv H as u1 s2 E2. destruct (oe_strict_ret _ _ _ _ _ _ E2).
  - destruct (negb (utf8_valid trimmed)); [discriminate H|].
    destruct (float_parse trimmed).
    + injection H as <- _. constructor.
    + inv H as u1 s2 E2. destruct (oe_strict_ret _ _ _ _ _ _ E2).
Qed.

Lemma attr_loop_ret fuel ty : forall rem attrs st r st',
  AL fuel ty rem attrs st = Val (Ret r st') ->
  Forall (attr_valid T check_fn (p_version st) ty) attrs -> Forall (attr_valid T check_fn (p_version st) ty) (snd r).
Proof.
  induction fuel as [|f IH]; intros rem attrs st r st' H FA; [discriminate H|]. cbn [attr_loop] in H.
  destruct (find_byte 61 rem) as [eq_pos|]; [|injection H as <- _; exact FA].
  destruct (List.length rem - eq_pos <? 3)%nat; [injection H as <- _; exact FA|].
  destruct (negb (nth (S eq_pos) rem 0 =? 34) && negb (nth (S eq_pos) rem 0 =? 39)); [injection H as <- _; exact FA|].
  destruct (find_byte (nth (S eq_pos) rem 0) (skipn (eq_pos + 2) rem)) as [endq|]; [|injection H as <- _; exact FA].
  inv H as nm s1 E1. apply lift_ret_inv in E1 as [_ ->].
  inv H as attrs' s2 E2.
  assert (A2 : Forall (attr_valid T check_fn (p_version st) ty) attrs' /\ p_version s2 = p_version st).
  { destruct nm as [attr_name|].
    - inv E2 as sp s3 E3. apply lift_ret_inv in E3 as [FS ->].
      destruct sp as [[[[cdid ctype] req] vm]|].
      + inv E2 as g s4 E4. apply get_ret_inv in E4 as [-> ->].
        inv E2 as u s5 E5. pose proof (vpres_inv _ _ _ _ (vp_check_version true _ _ _ _) E5) as V5.
        apply check_version_ret in E5.
        inv E2 as v s6 E6. pose proof (vpres_inv _ _ _ _ (vp_pcd true _ _) E6) as V6.
        apply pcd_ret in E6. rewrite V5 in E6. injection E2 as <- <-.
        split; [|congruence]. apply Forall_app. split; [exact FA|]. constructor; [|constructor].
        exists cdid, ctype, req, vm. cbn [fst snd]. auto.
      + inv E2 as g s4 E4. inv E2 as u s5 E5. destruct (oe_strict_ret _ _ _ _ _ _ E5).
    - inv E2 as g s4 E4. inv E2 as u s5 E5. destruct (oe_strict_ret _ _ _ _ _ _ E5). }
  destruct A2 as [A2 V2].
  match type of H with (if ?c then _ else _) _ = _ => destruct c end.
  - injection H as <- _. exact A2.
  - rewrite <- V2. eapply IH; [exact H|]. rewrite V2. exact A2.
Qed.

Lemma req_loop_ret cur attrs l st u st' : req_loop true cur attrs l st = Val (Ret u st') ->
  Forall (fun sp => snd sp <> 0 -> existsb (fun a => fst a =? fst (fst (fst sp))) attrs = true) l.
Proof.
  revert st. induction l as [|[[[name c1] c2] required] l IH]; intros st H; [constructor|]. cbn [req_loop] in H.
  inv H as u1 s1 E1. apply guard_strict_ret in E1 as [C ->]. constructor; [|eapply IH; exact H].
  cbn [fst snd]. intros NZ. apply andb_false_iff in C as [C|C].
  - apply negb_false_iff, N.eqb_eq in C. congruence.
  - apply negb_false_iff in C. exact C.
Qed.

Lemma pat_ret ty text st attrs st' : PAT ty text st = Val (Ret attrs st') ->
  attrs_valid T check_fn (p_version st) ty attrs.
Proof.
  unfold parse_attribute_text. intros H. inv H as r s1 E1. destruct r as [rem attrs0].
  pose proof (attr_loop_ret _ _ _ _ _ _ _ E1 (Forall_nil _)) as FA. cbn [snd] in FA.
  inv H as g s2 E2. inv H as u1 s3 E3. inv H as specs s4 E4. apply lift_ret_inv in E4 as [SL ->].
  inv H as u2 s5 E5. injection H as <- _. apply req_loop_ret in E5.
  split; [exact FA|]. intros specs' SL'. rewrite SL in SL'. injection SL' as <-.
  intros name cdid c req HIn NZ. rewrite Forall_forall in E5. specialize (E5 _ HIn NZ). cbn [fst] in E5.
  apply existsb_exists in E5 as ([a v] & HA & EQ). cbn [fst] in EQ. apply N.eqb_eq in EQ. subst a. eauto.
Qed.

Lemma find_elem_ret name ty st r st' :
  find_element_in_spec_checked true T name ty st = Val (Ret r st') ->
  find_sub_element T ty name (p_version st) = Val (Some r).
Proof.
  unfold find_element_in_spec_checked. intros H. inv H as g s1 E1. apply get_ret_inv in E1 as [-> ->].
  inv H as r1 s2 E2. apply lift_ret_inv in E2 as [F1 ->].
  destruct r1 as [x|]; [injection H as <- _; exact F1|].
  inv H as r2 s3 E3. apply lift_ret_inv in E3 as [F2 ->]. destruct r2 as [[sub idx]|]; [|discriminate H].
  inv H as vm s4 E4. apply lift_ret_inv in E4 as [GM ->]. destruct vm as [mask|]; [|discriminate H].
  inv H as u s5 E5. apply check_version_ret in E5. exfalso. apply E5.
  (* the mask of the entry found without version restriction excludes the file version *)
  unfold get_sub_element_version_mask in GM. destruct (get_sub_element_spec T ty idx) as [sp| |] eqn:GS; try discriminate GM.
  cbn [bind] in GM. destruct sp as [[se m]|]; [|discriminate GM]. cbn in GM. injection GM as <-.
  unfold get_sub_element_spec in GS. destruct idx as [|i0 rest]; [discriminate GS|].
  destruct (sub_slice T (snd ty)) as [x| |]; try discriminate GS. cbn [bind] in GS.
  unfold find_sub_element in F1, F2. eapply find_sub_none_mask; eassumption.
Qed.

Lemma conflict_ret name ty old new st u st' :
  check_element_conflict true T name ty old new st = Val (Ret u st') -> no_conflict T ty old new.
Proof.
  unfold check_element_conflict, no_conflict. destruct old as [|o old']; [auto|]. intros H.
  destruct (list_eqbN (o :: old') new) eqn:EQ; [right; left; apply list_eqbN_eq; exact EQ|].
  inv H as g s1 E1. apply lift_ret_inv in E1 as [FG ->]. inv H as d s2 E2. apply lift_ret_inv in E2 as [ED ->].
  right; right. exists g, d. split; [exact FG|]. split; [exact ED|].
  destruct (dt_mode d =? MChoice) eqn:C; [|apply N.eqb_neq; exact C].
  inv H as g1 s3 E3. destruct (oe_strict_ret _ _ _ _ _ _ H).
Qed.

Lemma mult_ret name ty idx content st u st' :
  check_multiplicity true T name ty idx content st = Val (Ret u st') -> mult_ok T ty idx name content.
Proof.
  unfold check_multiplicity, mult_ok. intros H mode mult GM MS GX NE e HIn.
  inv H as mode0 s1 E1. apply lift_ret_inv in E1 as [GM0 ->]. rewrite GM in GM0. injection GM0 as <-.
  assert (MB : (mode =? MSequence) || (mode =? MChoice) = true).
  { destruct MS as [-> | ->]; [reflexivity|]. apply orb_true_iff. right. reflexivity. }
  rewrite MB in H. inv H as m s2 E2. apply lift_ret_inv in E2 as [GX0 ->]. rewrite GX in GX0. injection GX0 as <-.
  destruct (negb (mult =? 2) && existsb (fun c => match c with inl e0 => e_name e0 =? name | inr _ => false end) content) eqn:C.
  - inv H as g s3 E3. destruct (oe_strict_ret _ _ _ _ _ _ H).
  - apply andb_false_iff in C as [C|C].
    + apply negb_false_iff, N.eqb_eq in C. congruence.
    + intros EN. assert (X : existsb (fun c => match c with inl e0 => e_name e0 =? name | inr _ => false end) content = true).
      { apply existsb_exists. exists (inl e). split; [exact HIn|]. apply N.eqb_eq. exact EN. }
      congruence.
Qed.

(* ----- the element loop ----- *)
Definition recT := N -> etype -> list (N * cdata) -> option (list N) -> list N -> list nat -> M etree.

Definition rec_sv (rec : recT) : Prop :=
  forall n ty a c p ps st sub st', attrs_valid T check_fn (p_version st) ty a -> rec n ty a c p ps st = Val (Ret sub st') ->
    StrictValid T check_fn (p_version st) sub /\ e_name sub = n /\ e_type sub = ty /\ p_version st' = p_version st.

Lemma pe_loop_sv (rec : recT) : rec_sv rec ->
  forall k name ty attrs comment pos content elem_idx snf stored path st t st',
  PL rec k name ty attrs comment pos content elem_idx snf stored path st = Val (Ret t st') ->
  (snf = true -> exists e, In (inl e) content /\ e_name e = name_short_name T) ->
  p_version st' = p_version st /\
  exists more, t = ENode name ty attrs (content ++ more) comment /\
    children_ok T check_fn (p_version st) ty elem_idx content more /\
    shortname_ok T (p_version st) ty (content ++ more).
Proof.
  intros HR. induction k as [|k IH]; intros name ty attrs comment pos content elem_idx snf stored path st t st' H SNF;
    [discriminate H|].
  cbn [pe_loop] in H.
  inv H as u1 s1 E1. injection E1 as _ <-.
  inv H as ev s2 E2. pose proof (vpres_inv _ _ _ _ vpres_pnext E2) as V2. cbn [p_version set_cur] in V2.
  destruct ev as [sa|elem_text attr_text|elem_text|text|c|].
  - inv H as u3 s3 E3. destruct (oe_strict_ret _ _ _ _ _ _ E3).
  - inv H as nm s3 E3. apply lift_ret_inv in E3 as [_ ->]. destruct nm as [sub_name|]; [|discriminate H].
    inv H as r s4 E4. pose proof (vpres_inv _ _ _ _ (vp_find_elem true _ _) E4) as V4.
    apply find_elem_ret in E4. destruct r as [sub_ty idx'].
    inv H as u5 s5 E5. pose proof (vpres_inv _ _ _ _ (vp_conflict true _ _ _ _) E5) as V5. apply conflict_ret in E5.
    inv H as u6 s6 E6.
    assert (M6 : mult_ok T ty idx' sub_name content /\ p_version s6 = p_version s5).
    { destruct content as [|c0 content'].
      - injection E6 as _ <-. split; [|reflexivity]. intros mode mult _ _ _ _ e [].
      - pose proof (vpres_inv _ _ _ _ (vp_mult true _ _ _ _) E6) as V6. apply mult_ret in E6. auto. }
    destruct M6 as [M6 V6].
    inv H as sub_attrs s7 E7. pose proof (vpres_inv _ _ _ _ (vp_pat true _ _) E7) as V7. apply pat_ret in E7.
    rewrite <- V7 in E7. inv H as sub s8 E8. destruct (HR _ _ _ _ _ _ _ _ _ E7 E8) as (SVs & NS & TS & V8).
    assert (VS : p_version s8 = p_version st) by congruence.
    assert (V7' : p_version s7 = p_version st) by congruence.
    assert (V2' : p_version s2 = p_version st) by congruence.
    rewrite V7' in SVs. rewrite V2' in E4.
    assert (FIN : forall snf2 p2 s9, p_version s9 = p_version st ->
       (snf2 = true -> exists e, In (inl e) (content ++ [inl sub]) /\ e_name e = name_short_name T) ->
       PL rec k name ty attrs comment pos (content ++ [inl sub]) idx' snf2 None p2 s9 = Val (Ret t st') ->
       p_version st' = p_version st /\
       exists more, t = ENode name ty attrs (content ++ more) comment /\
         children_ok T check_fn (p_version st) ty elem_idx content more /\
         shortname_ok T (p_version st) ty (content ++ more)).
    { intros snf2 p2 s9 V9 SNF2 HL. destruct (IH _ _ _ _ _ _ _ _ _ _ _ _ _ HL SNF2) as (VF & more & -> & CO & SN).
      rewrite V9 in *. split; [exact VF|]. exists (inl sub :: more). rewrite <- app_assoc in *. cbn [app] in *.
      split; [reflexivity|]. split; [|exact SN].
      eapply co_elem; [rewrite NS, TS; exact E4|exact E5|rewrite NS; exact M6|exact SVs|exact CO]. }
    assert (KEEP : snf = true -> exists e, In (inl e) (content ++ [inl sub]) /\ e_name e = name_short_name T).
    { intros S1. destruct (SNF S1) as (e & HIn & EN). exists e. split; [apply in_or_app; left; exact HIn|exact EN]. }
    destruct (sub_name =? name_short_name T) eqn:ISN; cbn [andb] in H; [|eapply (FIN snf); [exact VS|exact KEEP|exact H]].
    destruct (match content with [] => true | _ :: _ => false end); [|eapply (FIN snf); [exact VS|exact KEEP|exact H]].
    apply N.eqb_eq in ISN.
    assert (SNF2 : true = true -> exists e, In (inl e) (content ++ [inl sub]) /\ e_name e = name_short_name T).
    { intros _. exists sub. split; [apply in_or_app; right; left; reflexivity|congruence]. }
    destruct (first_string sub).
    + inv H as u9 s9 E9. injection E9 as _ <-. eapply (FIN true); [|exact SNF2|exact H]. cbn [p_version add_ident]. exact VS.
    + eapply (FIN true); [exact VS|exact SNF2|exact H].
  - inv H as nm s3 E3. apply lift_ret_inv in E3 as [_ ->]. destruct nm as [n|]; [|discriminate H].
    destruct (n =? name); [|discriminate H].
    inv H as g s4 E4. apply get_ret_inv in E4 as [-> ->].
    inv H as named s5 E5. apply lift_ret_inv in E5 as [NV ->].
    inv H as u6 s6 E6. apply guard_strict_ret in E6 as [C ->]. injection H as <- <-.
    split; [exact V2|]. exists []. rewrite app_nil_r. split; [reflexivity|]. split; [constructor|].
    intros NT. rewrite V2 in NV. rewrite NT in NV. injection NV as <-. rewrite andb_true_r in C.
    apply negb_false_iff in C. apply SNF, C.
  - inv H as spec s3 E3. apply lift_ret_inv in E3 as [CS ->]. destruct spec as [cs|].
    + inv H as mode sm Em. apply lift_ret_inv in Em as [_ ->].
      destruct ((mode =? MCharacters) && negb match content with [] => true | _ :: _ => false end).
      { inv H as ux sx Ex. destruct (oe_strict_ret _ _ _ _ _ _ Ex). }
      inv H as value s4 E4. pose proof (vpres_inv _ _ _ _ (vp_pcd true _ _) E4) as V4. apply pcd_ret in E4.
      inv H as isr s5 E5. apply lift_ret_inv in E5 as [_ ->].
      inv H as u6 s6 E6.
      assert (V6 : p_version s6 = p_version s4).
      { destruct value; try (injection E6 as _ <-; reflexivity). destruct isr; injection E6 as _ <-; reflexivity. }
      assert (SNF2 : snf = true -> exists e, In (inl e) (content ++ [inr value]) /\ e_name e = name_short_name T).
      { intros S1. destruct (SNF S1) as (e & HIn & EN). exists e. split; [apply in_or_app; left; exact HIn|exact EN]. }
      destruct (IH _ _ _ _ _ _ _ _ _ _ _ _ _ H SNF2) as (VF & more & -> & CO & SN).
      assert (VV : p_version s6 = p_version st) by congruence. rewrite VV in *.
      split; [exact VF|]. exists (inr value :: more). rewrite <- app_assoc in *. cbn [app] in *.
      split; [reflexivity|]. split; [|exact SN].
      eapply co_text; [|exact CO]. exists cs. split; [exact CS|]. rewrite <- V2. exact E4.
    + inv H as u4 s4 E4. destruct (oe_strict_ret _ _ _ _ _ _ E4).
  - destruct (IH _ _ _ _ _ _ _ _ _ _ _ _ _ H SNF) as (VF & more & -> & CO & SN). rewrite V2 in *. eauto.
  - discriminate H.
Qed.

Lemma parse_element_sv fuel lfuel : rec_sv (PE fuel lfuel).
Proof.
  induction fuel as [|f IH]; intros n ty a c p ps st sub st' AV H; [discriminate H|]. cbn [parse_element] in H.
  destruct (pe_loop_sv _ IH _ _ _ _ _ _ _ _ _ _ _ _ _ _ H ltac:(discriminate)) as (VF & more & -> & CO & SN).
  cbn [app] in *. split; [constructor; assumption|]. split; [reflexivity|]. split; [reflexivity|exact VF].
Qed.

(* ----- a character data element holds at most one value: both modes ----- *)
Lemma count_text_app a b : count_text (a ++ b) = (count_text a + count_text b)%nat.
Proof. unfold count_text. rewrite filter_app, app_length. reflexivity. Qed.

Section Single.
Variable s : bool.
Notation PLs := (pe_loop s T tab_el tab_at tab_en check_fn float_parse).
Notation PEs := (parse_element s T tab_el tab_at tab_en check_fn float_parse).

Definition rec_single (rec : recT) : Prop :=
  forall n ty a c p ps st sub st', rec n ty a c p ps st = Val (Ret sub st') -> single_valued T sub.

Lemma pe_loop_single (rec : recT) : rec_single rec ->
  forall k name ty attrs comment pos content elem_idx snf stored path st t st',
  PLs rec k name ty attrs comment pos content elem_idx snf stored path st = Val (Ret t st') ->
  (content_mode T ty = Val MCharacters -> (count_text content <= 1)%nat) ->
  (forall c, In (inl c) content -> single_valued T c) ->
  single_valued T t.
Proof.
  intros HR. induction k as [|k IH]; intros name ty attrs comment pos content elem_idx snf stored path st t st' H CT SC;
    [discriminate H|].
  cbn [pe_loop] in H.
  inv H as u1 s1 E1. inv H as ev s2 E2. destruct ev as [sa|elem_text attr_text|elem_text|text|c|].
  - inv H as u3 s3 E3. eapply IH; eassumption.
  - inv H as nm s3 E3. destruct nm as [sub_name|]; [|discriminate H].
    inv H as r s4 E4. destruct r as [sub_ty idx']. inv H as u5 s5 E5. inv H as u6 s6 E6. inv H as sub_attrs s7 E7.
    inv H as sub s8 E8. apply HR in E8.
    assert (CT' : content_mode T ty = Val MCharacters -> (count_text (content ++ [inl sub]) <= 1)%nat).
    { intros M. rewrite count_text_app. cbn. specialize (CT M). lia. }
    assert (SC' : forall c, In (inl c) (content ++ [inl sub]) -> single_valued T c).
    { intros c HIn. apply in_app_or in HIn as [HIn|[HIn|[]]]; [apply SC; exact HIn|]. injection HIn as <-. exact E8. }
    destruct ((sub_name =? name_short_name T) && match content with [] => true | _ :: _ => false end); [|eapply IH; eassumption].
    destruct (first_string sub); [|eapply IH; eassumption].
    inv H as u9 s9 E9. eapply IH; eassumption.
  - inv H as nm s3 E3. destruct nm as [n|]; [|discriminate H]. destruct (n =? name); [|discriminate H].
    inv H as g1 s4 E4. inv H as named s5 E5. inv H as u6 s6 E6. injection H as <- _. constructor; assumption.
  - inv H as spec s3 E3. destruct spec as [cs|].
    + inv H as mode sm Em. apply lift_ret_inv in Em as [CM ->].
      destruct ((mode =? MCharacters) && negb match content with [] => true | _ :: _ => false end) eqn:CK.
      { inv H as ux sx Ex. eapply IH; eassumption. }
      inv H as value s4 E4. inv H as isr s5 E5. inv H as u6 s6 E6.
      eapply IH; [exact H| |].
      * intros M. rewrite CM in M. injection M as ->. rewrite N.eqb_refl in CK. cbn [andb] in CK.
        apply negb_false_iff in CK. destruct content; [|discriminate CK]. cbn. lia.
      * intros c0 HIn. apply in_app_or in HIn as [HIn|[HIn|[]]]; [apply SC; exact HIn|discriminate HIn].
    + inv H as u4 s4 E4. eapply IH; eassumption.
  - eapply IH; eassumption.
  - discriminate H.
Qed.

Lemma parse_element_single fuel lfuel : rec_single (PEs fuel lfuel).
Proof.
  induction fuel as [|f IH]; intros n ty a c p ps st sub st' H; [discriminate H|]. cbn [parse_element] in H.
  eapply (pe_loop_single _ IH); [exact H|cbn; lia|intros c0 []].
Qed.

Theorem load_single_valued bs t st :
  load s T tab_el tab_at tab_en check_fn float_parse bs = Val (Ret t st) -> single_valued T t.
Proof.
  unfold load.
  destruct (version_of_ident "Autosar_4_0_1") as [v401|]; [|destruct (elem T (autosar_element T)); discriminate].
  destruct (elem T (autosar_element T)) as [e|site|]; try discriminate.
  unfold parse_arxml. intros H.
  inv H as ev s1 E1. destruct ev; try discriminate H.
  inv H as u2 s2 E2. inv H as tok s3 E3. inv H as r s4 E4. destruct r as [stored token].
  destruct token; try discriminate H.
  inv H as nm s5 E5. inv H as an s6 E6. destruct nm as [n0|]; [|discriminate H]. destruct (n0 =? an); [|discriminate H].
  inv H as rt s7 E7. inv H as attributes s8 E8. inv H as u9 s9 E9. inv H as root s10 E10. inv H as u11 s11 E11.
  injection H as <- _. eapply parse_element_single. exact E10.
Qed.
End Single.

(* ----- the whole strict load ----- *)
Theorem load_strict_valid bs t st :
  load true T tab_el tab_at tab_en check_fn float_parse bs = Val (Ret t st) ->
  exists v401 name ty attrs content comment,
    version_of_ident "Autosar_4_0_1" = Some v401 /\ t = ENode name ty attrs content comment /\
    attrs_valid T check_fn v401 ty attrs /\
    children_ok T check_fn (p_version st) ty [] [] content /\ shortname_ok T (p_version st) ty content.
Proof.
  unfold load.
  destruct (version_of_ident "Autosar_4_0_1") as [v401|]; [|destruct (elem T (autosar_element T)); discriminate].
  destruct (elem T (autosar_element T)) as [e|site|]; try discriminate.
  unfold parse_arxml. intros H.
  inv H as ev s1 E1. pose proof (vpres_inv _ _ _ _ vpres_pnext E1) as V1. destruct ev; try discriminate H.
  inv H as u2 s2 E2. injection E2 as _ <-.
  inv H as tok s3 E3. pose proof (vpres_inv _ _ _ _ vpres_pnext E3) as V3. cbn [p_version set_standalone] in V3.
  inv H as r s4 E4. destruct r as [stored token].
  pose proof (vpres_inv _ _ _ _ (vp_skip_comments _ _ _) E4) as V4.
  destruct token; try discriminate H.
  inv H as nm s5 E5. apply lift_ret_inv in E5 as [_ ->].
  inv H as an s6 E6. assert (V6 : p_version s6 = p_version s4).
  { eapply vpres_inv; [|exact E6]. unfold autosar_name. vp_tac. }
  destruct nm as [n0|]; [|discriminate H]. destruct (n0 =? an); [|discriminate H].
  inv H as rt s7 E7. assert (V7 : p_version s7 = p_version s6).
  { eapply vpres_inv; [|exact E7]. unfold root_type. vp_tac. }
  inv H as attributes s8 E8. apply pat_ret in E8.
  inv H as u9 s9 E9. inv H as root s10 E10. inv H as u11 s11 E11. injection H as <- <-.
  pose proof (vpres_inv _ _ _ _ (vp_verify_end true) E11) as V11.
  assert (V0 : p_version s7 = v401).
  { rewrite V7, V6, V4, V3, V1. reflexivity. }
  rewrite V0 in E8.
  (* the root element: its attributes were validated before the file version was known *)
  cbn [parse_element] in E10.
  destruct (pe_loop_sv _ (parse_element_sv (List.length bs) (S (List.length bs))) _ _ _ _ _ _ _ _ _ _ _ _ _ _ E10 ltac:(discriminate))
    as (VF & more & -> & CO & SN).
  cbn [app] in *. exists v401, an, rt, attributes, more, stored. rewrite V11, VF.
  split; [reflexivity|]. split; [reflexivity|]. split; [exact E8|]. split; [exact CO|exact SN].
Qed.

(* data after the root element: strict loading returns only when the lexer has reached the end of the input
   (blank text and ignored processing instructions are not tokens) *)
Theorem load_strict_consumed bs t st :
  load true T tab_el tab_at tab_en check_fn float_parse bs = Val (Ret t st) ->
  l_rest (p_lex st) = [] /\ l_deferred (p_lex st) = None.
Proof.
  unfold load.
  destruct (version_of_ident "Autosar_4_0_1") as [v401|]; [|destruct (elem T (autosar_element T)); discriminate].
  destruct (elem T (autosar_element T)) as [e|site|]; try discriminate.
  unfold parse_arxml. intros H.
  inv H as ev s1 E1. destruct ev; try discriminate H.
  inv H as u2 s2 E2. inv H as tok s3 E3. inv H as r s4 E4. destruct r as [stored token].
  destruct token; try discriminate H.
  inv H as nm s5 E5. inv H as an s6 E6. destruct nm as [n0|]; [|discriminate H]. destruct (n0 =? an); [|discriminate H].
  inv H as rt s7 E7. inv H as attributes s8 E8. inv H as u9 s9 E9. inv H as root s10 E10. inv H as u11 s11 E11.
  injection H as _ <-. unfold verify_end_of_input in E11.
  pose proof (next_spec (p_lex s10)) as SP.
  destruct (next (p_lex s10)) as [[line ev l'|line er]| |]; try discriminate E11.
  destruct ev; try (destruct (oe_strict_ret _ _ _ _ _ _ E11)).
  injection E11 as _ <-. cbn [p_lex set_lex]. destruct SP as (_ & _ & EOFC & _). exact EOFC.
Qed.

(* the same for a lenient load that collected no warning (C08_agree: it is a strict load) *)
Corollary load_lenient_clean_valid bs t st :
  load false T tab_el tab_at tab_en check_fn float_parse bs = Val (Ret t st) -> p_warnings st = [] ->
  exists v401 name ty attrs content comment,
    version_of_ident "Autosar_4_0_1" = Some v401 /\ t = ENode name ty attrs content comment /\
    attrs_valid T check_fn v401 ty attrs /\
    children_ok T check_fn (p_version st) ty [] [] content /\ shortname_ok T (p_version st) ty content.
Proof.
  intros H W. destruct (load_agree T tab_el tab_at tab_en check_fn float_parse bs) as (A & _).
  apply (load_strict_valid bs). apply A; assumption.
Qed.

End SV.
