(* Xml/TablesOk.v — the table well-formedness the loader needs, as a BOOLEAN checker `tables_ok T`, and the proof that
   under it every lookup of Spec/SpecOps.v the parser performs returns a value (no `Pan`, no `Fuel`).
   `tables_ok RT = true` for the regenerated tables is evaluated in Xml/TablesOkReal.v.
   What is checked, per datatype id < n_datatypes:
     - sub-element slice in range; every entry present with its version mask; an element entry points below n_elements,
       a group entry (kind 1) to a datatype that is again fine, with nesting below SpecOps.FUEL;
     - a datatype with content mode Characters has no sub-elements (parser.rs `panic!("accepted a sub-element ...")`);
     - attribute slice in range, every attribute with version mask and character-data spec present;
     - the character-data spec of the type present;
   and every element definition below n_elements exists and has a datatype below n_datatypes; the root element exists. *)
From Coq Require Import Arith.
From AV Require Import Base.Bytes Base.Outcome Hash.HashModel Spec.SpecOps.
Open Scope N_scope.

Definition iota (n : N) : list N := map N.of_nat (seq 0 (N.to_nat n)).
Lemma iota_spec n i : In i (iota n) <-> i < n.
Proof.
  unfold iota. rewrite in_map_iff. split.
  - intros (k & <- & Hk). apply in_seq in Hk. lia.
  - intros H. exists (N.to_nat i). split; [apply N2Nat.id|]. apply in_seq. lia.
Qed.

Section TablesOk.
Variable T : tables.

Definition slice_ok (start stop len : N) : bool := (start <=? stop) && (stop <=? len).

Fixpoint grp_ok (fuel : nat) (ty : N) : bool :=
  match fuel with
  | O => false
  | S f =>
    match T_datatypes T ty with
    | None => false
    | Some d =>
      let start := dt_sub_start d in
      let stop := dt_sub_end d in
      slice_ok start stop (n_subelements T) &&
      (negb (dt_mode d =? MCharacters) || (start =? stop)) &&
      forallb (fun pos =>
        match T_subelements T (start + pos), T_version_info T (dt_sub_ver d + pos) with
        | Some (kind, idx), Some _ => if kind =? 0 then idx <? n_elements T else (kind =? 1) && grp_ok f idx
        | _, _ => false
        end) (iota (stop - start))
    end
  end.

Definition attrs_ok (ty : N) : bool :=
  match T_datatypes T ty with
  | None => false
  | Some d =>
    let start := dt_attr_start d in
    let stop := dt_attr_end d in
    slice_ok start stop (n_attributes T) &&
    forallb (fun pos =>
      match T_attributes T (start + pos), T_version_info T (dt_attr_ver d + pos) with
      | Some (_, cdid, _), Some _ => match T_cdata T cdid with Some _ => true | None => false end
      | _, _ => false
      end) (iota (stop - start))
  end.

Definition cd_ok (ty : N) : bool :=
  match T_datatypes T ty with
  | None => false
  | Some d => (dt_cdata d =? 0) || match T_cdata T (dt_cdata d - 1) with Some _ => true | None => false end
  end.

Definition type_ok (ty : N) : bool := grp_ok FUEL ty && attrs_ok ty && cd_ok ty.

Definition elements_ok : bool :=
  forallb (fun i => match T_elements T i with Some e => ed_type e <? n_datatypes T | None => false end) (iota (n_elements T)).

Definition tables_ok : bool :=
  forallb type_ok (iota (n_datatypes T)) && elements_ok && (autosar_element T <? n_elements T).

(* ---------- characterising equations of the loops of SpecOps (they are anonymous `fix`es there) ---------- *)
Definition find_loop (rec : N -> res (option (etype * list N))) (d : dtype) (start target version : N)
  : nat -> N -> res (option (etype * list N)) :=
  fix loop (k : nat) (pos : N) {struct k} : res (option (etype * list N)) :=
  match k with
  | O => Val None
  | S k' =>
    (let* '(kind, idx) := subel T (start + pos) in
     if kind =? 0 then
       let* e := elem T idx in
       let* mask := vinfo T (dt_sub_ver d + pos) in
       if (ed_name e =? target) && negb (N.land version mask =? 0)
       then (let* et := et_new T idx in Val (Some (et, [pos])))
       else loop k' (pos + 1)
     else
       match rec idx with
       | Val (Some (et, ixs)) => Val (Some (et, pos :: ixs))
       | Val None => loop k' (pos + 1)
       | Pan s => Pan s
       | Fuel => Fuel
       end)%res
  end.

Lemma find_loop_0 rec d start target version pos : find_loop rec d start target version O pos = Val None.
Proof. reflexivity. Qed.
Lemma find_loop_S rec d start target version k pos :
  find_loop rec d start target version (S k) pos =
    (let* '(kind, idx) := subel T (start + pos) in
     if kind =? 0 then
       let* e := elem T idx in
       let* mask := vinfo T (dt_sub_ver d + pos) in
       if (ed_name e =? target) && negb (N.land version mask =? 0)
       then (let* et := et_new T idx in Val (Some (et, [pos])))
       else find_loop rec d start target version k (pos + 1)
     else
       match rec idx with
       | Val (Some (et, ixs)) => Val (Some (et, pos :: ixs))
       | Val None => find_loop rec d start target version k (pos + 1)
       | Pan s => Pan s
       | Fuel => Fuel
       end)%res.
Proof. reflexivity. Qed.

Lemma find_sub_S f ty target version :
  find_sub T (S f) ty target version =
  (let* '(start, stop, d) := sub_slice T ty in
   find_loop (fun idx => find_sub T f idx target version) d start target version (N.to_nat (stop - start)) 0)%res.
Proof. reflexivity. Qed.

Definition fattr_loop (d : dtype) (start attrname : N) : nat -> N -> res (option (N * cdspec * N * N)) :=
  fix loop (k : nat) (pos : N) {struct k} : res (option (N * cdspec * N * N)) :=
  match k with
  | O => Val None
  | S k' =>
    (let* '(name, cdid, req) := unwrap "ATTRIBUTES[i]" (T_attributes T (start + pos)) in
     if name =? attrname then
       let* ver := vinfo T (dt_attr_ver d + pos) in
       let* c := unwrap "CHARACTER_DATA[i]" (T_cdata T cdid) in
       Val (Some (cdid, c, req, ver))
     else loop k' (pos + 1))%res
  end.

Lemma fattr_loop_S d start attrname k pos :
  fattr_loop d start attrname (S k) pos =
    (let* '(name, cdid, req) := unwrap "ATTRIBUTES[i]" (T_attributes T (start + pos)) in
     if name =? attrname then
       let* ver := vinfo T (dt_attr_ver d + pos) in
       let* c := unwrap "CHARACTER_DATA[i]" (T_cdata T cdid) in
       Val (Some (cdid, c, req, ver))
     else fattr_loop d start attrname k (pos + 1))%res.
Proof. reflexivity. Qed.

Lemma find_attribute_spec_eq t attrname :
  find_attribute_spec T t attrname =
  (let* '(start, stop, d) := attr_slice T (snd t) in
   let* _ := slice_chk "ATTRIBUTES[a..b]" start stop (n_attributes T) in
   fattr_loop d start attrname (N.to_nat (stop - start)) 0)%res.
Proof. reflexivity. Qed.

Definition lattr_loop (start : N) : nat -> N -> res (list (N * N * cdspec * N)) :=
  fix loop (k : nat) (pos : N) {struct k} : res (list (N * N * cdspec * N)) :=
  match k with
  | O => Val []
  | S k' =>
    (let* '(name, cdid, req) := unwrap "ATTRIBUTES[i]" (T_attributes T (start + pos)) in
     let* c := unwrap "CHARACTER_DATA[i]" (T_cdata T cdid) in
     let* rest := loop k' (pos + 1) in
     Val ((name, cdid, c, req) :: rest))%res
  end.

Lemma lattr_loop_S start k pos :
  lattr_loop start (S k) pos =
    (let* '(name, cdid, req) := unwrap "ATTRIBUTES[i]" (T_attributes T (start + pos)) in
     let* c := unwrap "CHARACTER_DATA[i]" (T_cdata T cdid) in
     let* rest := lattr_loop start k (pos + 1) in
     Val ((name, cdid, c, req) :: rest))%res.
Proof. reflexivity. Qed.

Lemma attribute_spec_list_eq t :
  attribute_spec_list T t =
  (let* '(start, stop, d) := attr_slice T (snd t) in lattr_loop start (N.to_nat (stop - start)) 0)%res.
Proof. reflexivity. Qed.

(* ---------- a path of indices as find_sub_element returns it ---------- *)
Fixpoint path_ok (ty : N) (ixs : list N) {struct ixs} : Prop :=
  match ixs with
  | [] => False
  | i :: rest =>
    exists d kind idx m,
      T_datatypes T ty = Some d /\ slice_ok (dt_sub_start d) (dt_sub_end d) (n_subelements T) = true /\
      i < dt_sub_end d - dt_sub_start d /\ (dt_mode d =? MCharacters) = false /\
      T_subelements T (dt_sub_start d + i) = Some (kind, idx) /\ T_version_info T (dt_sub_ver d + i) = Some m /\
      match rest with
      | [] => kind = 0 /\ idx < n_elements T
      | _ :: _ => kind = 1 /\ path_ok idx rest
      end
  end.

(* an element type the parser may hold: its definition exists and its datatype is checked *)
Definition etype_ok (t : etype) : Prop :=
  fst t < n_elements T /\ snd t < n_datatypes T /\ exists e, T_elements T (fst t) = Some e /\ snd t = ed_type e.

Hypothesis OK : tables_ok = true.

Lemma ok_type ty : ty < n_datatypes T -> grp_ok FUEL ty = true /\ attrs_ok ty = true /\ cd_ok ty = true.
Proof.
  intros H. unfold tables_ok in OK. rewrite !andb_true_iff in OK. destruct OK as [[A _] _].
  rewrite forallb_forall in A. specialize (A ty (proj2 (iota_spec _ _) H)). unfold type_ok in A.
  rewrite !andb_true_iff in A. tauto.
Qed.

Lemma ok_elem i : i < n_elements T -> exists e, T_elements T i = Some e /\ ed_type e < n_datatypes T.
Proof.
  intros H. unfold tables_ok in OK. rewrite !andb_true_iff in OK. destruct OK as [[_ A] _].
  unfold elements_ok in A. rewrite forallb_forall in A. specialize (A i (proj2 (iota_spec _ _) H)).
  destruct (T_elements T i) as [e|]; [|discriminate]. exists e. split; [reflexivity|]. apply N.ltb_lt. exact A.
Qed.

Lemma ok_root : autosar_element T < n_elements T.
Proof. unfold tables_ok in OK. rewrite !andb_true_iff in OK. destruct OK as [_ A]. apply N.ltb_lt. exact A. Qed.

Lemma et_new_ok i : i < n_elements T -> exists t, et_new T i = Val t /\ etype_ok t /\ fst t = i.
Proof.
  intros H. destruct (ok_elem i H) as (e & E & L). unfold et_new, elem. rewrite E. cbn.
  exists (i, ed_type e). split; [reflexivity|]. split; [|reflexivity]. unfold etype_ok; cbn [fst snd]. eauto.
Qed.

Lemma slice_chk_ok site a b len : slice_ok a b len = true -> slice_chk site a b len = Val tt.
Proof.
  unfold slice_ok, slice_chk. rewrite andb_true_iff, !N.leb_le. intros [H1 H2].
  destruct (b <? a) eqn:E1; [apply N.ltb_lt in E1; lia|]. destruct (len <? b) eqn:E2; [apply N.ltb_lt in E2; lia|]. reflexivity.
Qed.

(* what grp_ok (S f) says, unpacked *)
Lemma grp_ok_S f ty : grp_ok (S f) ty = true ->
  exists d, T_datatypes T ty = Some d /\ slice_ok (dt_sub_start d) (dt_sub_end d) (n_subelements T) = true /\
    (dt_sub_start d <> dt_sub_end d -> (dt_mode d =? MCharacters) = false) /\
    forall pos, pos < dt_sub_end d - dt_sub_start d ->
      exists kind idx m, T_subelements T (dt_sub_start d + pos) = Some (kind, idx) /\
        T_version_info T (dt_sub_ver d + pos) = Some m /\
        ((kind = 0 /\ idx < n_elements T) \/ (kind = 1 /\ grp_ok f idx = true)).
Proof.
  cbn [grp_ok]. destruct (T_datatypes T ty) as [d|]; [|discriminate]. rewrite !andb_true_iff. intros [[S1 S2] S3].
  exists d. split; [reflexivity|]. split; [exact S1|]. split.
  - intros NE. apply orb_true_iff in S2 as [S2|S2]; [apply negb_true_iff in S2; exact S2|apply N.eqb_eq in S2; congruence].
  - intros pos Hp. rewrite forallb_forall in S3. specialize (S3 pos (proj2 (iota_spec _ _) Hp)).
    destruct (T_subelements T (dt_sub_start d + pos)) as [[kind idx]|]; [|discriminate].
    destruct (T_version_info T (dt_sub_ver d + pos)) as [m|]; [|discriminate].
    exists kind, idx, m. split; [reflexivity|]. split; [reflexivity|].
    destruct (kind =? 0) eqn:K.
    + left. split; [apply N.eqb_eq; exact K|apply N.ltb_lt; exact S3].
    + right. apply andb_true_iff in S3 as [K1 G]. split; [apply N.eqb_eq; exact K1|exact G].
Qed.

Lemma sub_slice_ok ty d : T_datatypes T ty = Some d ->
  slice_ok (dt_sub_start d) (dt_sub_end d) (n_subelements T) = true ->
  sub_slice T ty = Val (dt_sub_start d, dt_sub_end d, d).
Proof. intros E S. unfold sub_slice, dt. rewrite E. cbn [unwrap bind]. rewrite (slice_chk_ok _ _ _ _ S). reflexivity. Qed.

(* ---------- find_sub_element ---------- *)
Definition found_ok (ty : N) (r : option (etype * list N)) : Prop :=
  match r with Some (et, ixs) => etype_ok et /\ path_ok ty ixs | None => True end.

Lemma find_sub_total fuel : forall ty, grp_ok fuel ty = true ->
  forall target version, exists r, find_sub T fuel ty target version = Val r /\ found_ok ty r.
Proof.
  induction fuel as [|f IH]; intros ty G target version; [discriminate|].
  destruct (grp_ok_S _ _ G) as (d & ED & SL & MODE & ENT). rewrite find_sub_S, (sub_slice_ok _ _ ED SL). cbn [bind].
  set (start := dt_sub_start d) in *. set (stop := dt_sub_end d) in *.
  assert (LOOP : forall k pos, pos + N.of_nat k = stop - start ->
     exists r, find_loop (fun idx => find_sub T f idx target version) d start target version k pos = Val r /\ found_ok ty r).
  { induction k as [|k IHk]; intros pos Hp; [rewrite find_loop_0; exists None; split; [reflexivity|exact I]|rewrite find_loop_S].
    assert (Hlt : pos < stop - start) by lia.
    destruct (ENT pos Hlt) as (kind & idx & m & ES & EV & KIND). unfold subel. rewrite ES. cbn [unwrap bind].
    assert (NEQ : start <> stop) by lia.
    destruct KIND as [[-> Hidx]|[-> Gi]].
    - cbn [N.eqb]. destruct (ok_elem idx Hidx) as (e & EE & LE). unfold elem at 1. rewrite EE. cbn [unwrap bind].
      unfold vinfo. rewrite EV. cbn [unwrap bind].
      destruct ((ed_name e =? target) && negb (N.land version m =? 0)).
      + destruct (et_new_ok idx Hidx) as (t & -> & TOK & _). cbn [bind]. exists (Some (t, [pos])). split; [reflexivity|].
        split; [exact TOK|]. cbn [path_ok]. exists d, 0, idx, m. repeat split; auto.
      + apply IHk. lia.
    - change (1 =? 0) with false. cbv iota.
      destruct (IH idx Gi target version) as (r & -> & FR).
      destruct r as [[et ixs]|].
      + exists (Some (et, pos :: ixs)). split; [reflexivity|]. destruct FR as [F1 F2]. split; [exact F1|].
        cbn [path_ok]. exists d, 1, idx, m. repeat split; auto.
        destruct ixs; [destruct F2|]. split; [reflexivity|exact F2].
      + apply IHk. lia. }
  apply LOOP. lia.
Qed.

Lemma find_sub_element_total t target version : etype_ok t ->
  exists r, find_sub_element T t target version = Val r /\ found_ok (snd t) r.
Proof.
  intros (_ & L & _). unfold find_sub_element. apply find_sub_total. apply ok_type. exact L.
Qed.

(* ---------- walking a path again ---------- *)
Lemma walk_groups_ok : forall ixs ty, path_ok ty ixs ->
  exists idx m, walk_groups T ty ixs = Val (Some ((0, idx), m)) /\ idx < n_elements T.
Proof.
  induction ixs as [|i rest IH]; intros ty P; [destruct P|].
  cbn [path_ok] in P. destruct P as (d & kind & idx & m & ED & SL & LT & _ & ES & EV & REST).
  cbn [walk_groups]. rewrite (sub_slice_ok _ _ ED SL).
  destruct rest as [|j rest'].
  - destruct REST as [-> Hidx]. cbn [bind]. destruct (dt_sub_end d - dt_sub_start d <=? i) eqn:C; [apply N.leb_le in C; lia|].
    unfold subel, vinfo. rewrite ES, EV. cbn [unwrap bind]. eauto.
  - destruct REST as [-> P']. cbn [bind]. destruct (dt_sub_end d - dt_sub_start d <=? i) eqn:C; [apply N.leb_le in C; lia|].
    unfold subel. rewrite ES. cbn [unwrap bind]. change (1 =? 0) with false. cbv iota. apply IH. exact P'.
Qed.

Lemma path_ok_slice ty ixs : path_ok ty ixs ->
  exists d, T_datatypes T ty = Some d /\ sub_slice T ty = Val (dt_sub_start d, dt_sub_end d, d) /\ (dt_mode d =? MCharacters) = false.
Proof.
  destruct ixs as [|i rest]; [intros []|]. cbn [path_ok]. intros (d & kind & idx & m & ED & SL & _ & MODE & _).
  exists d. split; [exact ED|]. split; [apply sub_slice_ok; assumption|exact MODE].
Qed.

Lemma get_sub_element_spec_ok t ixs : path_ok (snd t) ixs ->
  exists idx m, get_sub_element_spec T t ixs = Val (Some ((0, idx), m)) /\ idx < n_elements T.
Proof.
  intros P. unfold get_sub_element_spec. destruct ixs as [|i rest]; [destruct P|].
  destruct (path_ok_slice _ _ P) as (d & _ & -> & _). cbn [bind]. apply walk_groups_ok. exact P.
Qed.

Lemma get_sub_element_version_mask_ok t ixs : path_ok (snd t) ixs ->
  exists m, get_sub_element_version_mask T t ixs = Val (Some m).
Proof.
  intros P. unfold get_sub_element_version_mask. destruct (get_sub_element_spec_ok t ixs P) as (idx & m & -> & _).
  cbn. eauto.
Qed.

Lemma get_sub_element_multiplicity_ok t ixs : path_ok (snd t) ixs ->
  exists r, get_sub_element_multiplicity T t ixs = Val r.
Proof.
  intros P. unfold get_sub_element_multiplicity. destruct (get_sub_element_spec_ok t ixs P) as (idx & m & -> & L).
  cbn [bind]. destruct (ok_elem idx L) as (e & E & _). unfold elem. rewrite E. cbn. eauto.
Qed.

Lemma walk_groups_cons2 ty i r rest :
  walk_groups T ty (i :: r :: rest) =
    (let* '(start, stop, d) := sub_slice T ty in
     if stop - start <=? i then Pan "current_spec[element_indices[idx]]" else
     let* '(kind, idx) := subel T (start + i) in
     if kind =? 0 then Val None else walk_groups T idx (r :: rest))%res.
Proof. reflexivity. Qed.

Lemma walk_groups_container : forall ixs ty, path_ok ty ixs -> (2 <= List.length ixs)%nat ->
  exists gid m d, walk_groups T ty (removelast ixs) = Val (Some ((1, gid), m)) /\ T_datatypes T gid = Some d.
Proof.
  induction ixs as [|i rest IH]; intros ty P L; [destruct P|].
  destruct rest as [|j rest']; [cbn in L; lia|].
  cbn [path_ok] in P. destruct P as (d & kind & idx & m & ED & SL & LT & _ & ES & EV & -> & P').
  change (removelast (i :: j :: rest')) with (i :: removelast (j :: rest')).
  destruct rest' as [|k rest''].
  - cbn [removelast walk_groups]. rewrite (sub_slice_ok _ _ ED SL). cbn [bind].
    destruct (dt_sub_end d - dt_sub_start d <=? i) eqn:C; [apply N.leb_le in C; lia|].
    unfold subel, vinfo. rewrite ES, EV. cbn [unwrap bind].
    destruct (path_ok_slice idx [j] P') as (d' & ED' & _). eauto.
  - remember (removelast (j :: k :: rest'')) as rl eqn:RL.
    assert (NE : rl <> []).
    { subst rl. change (removelast (j :: k :: rest'')) with (j :: removelast (k :: rest'')). discriminate. }
    destruct rl as [|r0 rl']; [congruence|].
    rewrite walk_groups_cons2, (sub_slice_ok _ _ ED SL). cbn [bind].
    destruct (dt_sub_end d - dt_sub_start d <=? i) eqn:C; [apply N.leb_le in C; lia|].
    unfold subel. rewrite ES. cbn [unwrap bind]. change (1 =? 0) with false. cbv iota.
    apply IH; [exact P'|cbn [List.length]; lia].
Qed.

Lemma get_sub_element_container_mode_ok t ixs : path_ok (snd t) ixs ->
  exists mode, get_sub_element_container_mode T t ixs = Val mode.
Proof.
  intros P. unfold get_sub_element_container_mode.
  destruct (N.of_nat (List.length ixs) <? 2) eqn:C.
  - destruct (path_ok_slice _ _ P) as (d & ED & _). unfold dt. rewrite ED. cbn. eauto.
  - apply N.ltb_ge in C. assert (L : (2 <= List.length ixs)%nat) by lia.
    destruct (walk_groups_container ixs (snd t) P L) as (gid & m & d & W & ED).
    unfold get_sub_element_spec. destruct (removelast ixs) as [|r0 rl] eqn:RL; [cbn in W; discriminate|].
    destruct (path_ok_slice _ _ P) as (d0 & _ & -> & _). cbn [bind]. rewrite W. cbn [bind].
    unfold dt. rewrite ED. cbn. eauto.
Qed.

Lemma common_group_ok : forall a b result, path_ok result a -> path_ok result b ->
  exists g d, common_group T result a b = Val g /\ T_datatypes T g = Some d /\ (dt_mode d =? MCharacters) = false.
Proof.
  induction a as [|x a' IH]; intros b result Pa Pb; [destruct Pa|].
  destruct (path_ok_slice _ _ Pa) as (d & ED & SS & MODE).
  destruct b as [|y b']; [destruct Pb|]. cbn [common_group].
  destruct (x =? y) eqn:XY; [|eauto]. apply N.eqb_eq in XY. subst y.
  cbn [path_ok] in Pa, Pb.
  destruct Pa as (d1 & kind & idx & m & ED1 & SL & LT & _ & ES & EV & RA).
  destruct Pb as (d2 & kind2 & idx2 & m2 & ED2 & _ & _ & _ & ES2 & _ & RB).
  rewrite ED in ED1, ED2. injection ED1 as <-. injection ED2 as <-. rewrite ES in ES2. injection ES2 as <- <-.
  rewrite SS. cbn [bind]. destruct (dt_sub_end d - dt_sub_start d <=? x) eqn:C; [apply N.leb_le in C; lia|].
  unfold subel. rewrite ES. cbn [unwrap bind].
  destruct a' as [|x' a''].
  - destruct RA as [-> _]. cbn [N.eqb]. eauto.
  - destruct RA as [-> PA']. change (1 =? 0) with false. cbv iota.
    destruct b' as [|y' b'']; [destruct RB; discriminate|]. destruct RB as [_ PB']. apply IH; assumption.
Qed.

Lemma find_common_group_ok t a b : path_ok (snd t) a -> path_ok (snd t) b ->
  exists g d, find_common_group T t a b = Val g /\ dt T g = Val d /\ (dt_mode d =? MCharacters) = false.
Proof.
  intros Pa Pb. destruct (common_group_ok a b (snd t) Pa Pb) as (g & d & E & ED & M).
  exists g, d. split; [exact E|]. split; [unfold dt; rewrite ED; reflexivity|exact M].
Qed.

(* ---------- attributes and character data ---------- *)
Definition cd_in_tables (c : cdspec) : Prop := exists i, T_cdata T i = Some c.

Lemma attrs_ok_unpack ty : attrs_ok ty = true ->
  exists d, T_datatypes T ty = Some d /\ slice_ok (dt_attr_start d) (dt_attr_end d) (n_attributes T) = true /\
    forall pos, pos < dt_attr_end d - dt_attr_start d ->
      exists name cdid req m c, T_attributes T (dt_attr_start d + pos) = Some (name, cdid, req) /\
        T_version_info T (dt_attr_ver d + pos) = Some m /\ T_cdata T cdid = Some c.
Proof.
  unfold attrs_ok. destruct (T_datatypes T ty) as [d|]; [|discriminate]. rewrite andb_true_iff. intros [S1 S2].
  exists d. split; [reflexivity|]. split; [exact S1|]. intros pos Hp.
  rewrite forallb_forall in S2. specialize (S2 pos (proj2 (iota_spec _ _) Hp)).
  destruct (T_attributes T (dt_attr_start d + pos)) as [[[name cdid] req]|]; [|discriminate].
  destruct (T_version_info T (dt_attr_ver d + pos)) as [m|]; [|discriminate].
  destruct (T_cdata T cdid) as [c|] eqn:EC; [|discriminate]. exists name, cdid, req, m, c. auto.
Qed.

Lemma find_attribute_spec_ok t attrname : etype_ok t ->
  exists r, find_attribute_spec T t attrname = Val r /\
    match r with Some (_, c, _, _) => cd_in_tables c | None => True end.
Proof.
  intros (_ & L & _). destruct (ok_type _ L) as (_ & A & _). destruct (attrs_ok_unpack _ A) as (d & ED & SL & ENT).
  rewrite find_attribute_spec_eq. unfold attr_slice, dt. rewrite ED. cbn [unwrap bind].
  rewrite (slice_chk_ok _ _ _ _ SL). cbn [bind].
  set (start := dt_attr_start d) in *. set (stop := dt_attr_end d) in *.
  assert (LOOP : forall k pos, pos + N.of_nat k = stop - start ->
    exists r, fattr_loop d start attrname k pos = Val r /\ match r with Some (_, c, _, _) => cd_in_tables c | None => True end).
  { induction k as [|k IHk]; intros pos Hp; [exists None; split; [reflexivity|exact I]|rewrite fattr_loop_S].
    destruct (ENT pos ltac:(lia)) as (name & cdid & req & m & c & EA & EV & EC). rewrite EA. cbn [unwrap bind].
    destruct (name =? attrname).
    - unfold vinfo. rewrite EV, EC. cbn [unwrap bind]. exists (Some (cdid, c, req, m)). split; [reflexivity|]. exists cdid. exact EC.
    - apply IHk. lia. }
  apply LOOP. lia.
Qed.

Lemma attribute_spec_list_ok t : etype_ok t -> exists l, attribute_spec_list T t = Val l.
Proof.
  intros (_ & L & _). destruct (ok_type _ L) as (_ & A & _). destruct (attrs_ok_unpack _ A) as (d & ED & SL & ENT).
  rewrite attribute_spec_list_eq. unfold attr_slice, dt. rewrite ED. cbn [unwrap bind].
  set (start := dt_attr_start d) in *. set (stop := dt_attr_end d) in *.
  assert (LOOP : forall k pos, pos + N.of_nat k = stop - start -> exists l, lattr_loop start k pos = Val l).
  { induction k as [|k IHk]; intros pos Hp; [exists []; reflexivity|rewrite lattr_loop_S].
    destruct (ENT pos ltac:(lia)) as (name & cdid & req & m & c & EA & EV & EC). rewrite EA. cbn [unwrap bind]. rewrite EC. cbn [unwrap bind].
    destruct (IHk (pos + 1) ltac:(lia)) as (l & ->). cbn [bind]. eauto. }
  apply LOOP. lia.
Qed.

Lemma etype_dt t : etype_ok t -> exists d, T_datatypes T (snd t) = Some d.
Proof.
  intros (_ & L & _). destruct (ok_type _ L) as (_ & A & _). destruct (attrs_ok_unpack _ A) as (d & ED & _). eauto.
Qed.

Lemma chardata_spec_ok t : etype_ok t ->
  exists r, chardata_spec T t = Val r /\ match r with Some c => cd_in_tables c | None => True end.
Proof.
  intros E. pose proof E as (_ & L & _). destruct (ok_type _ L) as (_ & _ & C). unfold cd_ok in C.
  unfold chardata_spec, dt. destruct (T_datatypes T (snd t)) as [d|]; [|discriminate]. cbn [unwrap bind].
  destruct (dt_cdata d =? 0); [exists None; split; [reflexivity|exact I]|]. cbn [orb] in C.
  destruct (T_cdata T (dt_cdata d - 1)) as [c|] eqn:EC; [|discriminate]. cbn [unwrap bind].
  exists (Some c). split; [reflexivity|]. exists (dt_cdata d - 1). exact EC.
Qed.

Lemma content_mode_ok t : etype_ok t -> exists m, content_mode T t = Val m.
Proof. intros E. destruct (etype_dt t E) as (d & ED). unfold content_mode, dt. rewrite ED. cbn. eauto. Qed.

Lemma is_ref_ok t : etype_ok t -> exists b, is_ref T t = Val b.
Proof. intros E. destruct (etype_dt t E) as (d & ED). unfold is_ref, dt. rewrite ED. cbn. eauto. Qed.

Lemma short_name_version_mask_ok ty : ty < n_datatypes T -> exists r, short_name_version_mask T ty = Val r.
Proof.
  intros L. destruct (ok_type _ L) as (G & _ & _). unfold FUEL in G. destruct (grp_ok_S _ _ G) as (d & ED & SL & _ & ENT).
  unfold short_name_version_mask. rewrite (sub_slice_ok _ _ ED SL). cbn [bind].
  destruct (dt_sub_start d =? dt_sub_end d) eqn:SE; [eauto|]. apply N.eqb_neq in SE.
  unfold slice_ok in SL. rewrite andb_true_iff, !N.leb_le in SL.
  destruct (ENT 0 ltac:(lia)) as (kind & idx & m & ES & EV & KIND). rewrite N.add_0_r in ES, EV.
  unfold subel. rewrite ES. cbn [unwrap bind].
  destruct KIND as [[-> Hidx]|[-> _]]; [|change (1 =? 0) with false; cbv iota; eauto].
  cbn [N.eqb]. destruct (ok_elem idx Hidx) as (e & EE & _). unfold elem. rewrite EE. cbn [unwrap bind].
  destruct (ed_name e =? name_short_name T); [|eauto]. unfold vinfo. rewrite EV. cbn. eauto.
Qed.

Lemma is_named_in_version_ok t v : etype_ok t -> exists b, is_named_in_version T t v = Val b.
Proof.
  intros (_ & L & _). unfold is_named_in_version. destruct (short_name_version_mask_ok _ L) as (r & ->). cbn. eauto.
Qed.

Lemma root_ok : exists e t, elem T (autosar_element T) = Val e /\ et_new T (autosar_element T) = Val t /\ etype_ok t.
Proof.
  destruct (ok_elem _ ok_root) as (e & E & _). destruct (et_new_ok _ ok_root) as (t & ET & TOK & _).
  exists e, t. split; [unfold elem; rewrite E; reflexivity|]. auto.
Qed.

End TablesOk.

(* ---------- name tables: from_bytes never indexes out of range ---------- *)
Definition nametab_ok (t : nametab) : bool :=
  negb (nt_mdisp t =? 0) && negb (nt_mtab t =? 0)
  && (nt_mdisp t <=? N.of_nat (List.length (nt_disp t))) && (nt_mtab t <=? N.of_nat (List.length (nt_strtab t))).

Lemma from_bytes_no_panic t s : nametab_ok t = true -> from_bytes t s <> Panic.
Proof.
  unfold nametab_ok. rewrite !andb_true_iff, !negb_true_iff, !N.leb_le. intros [[[A B] C] D].
  unfold from_bytes. destruct (hashfunc s) as [[g f1] f2]. rewrite A.
  apply N.eqb_neq in A, B.
  destruct (nth_opt (nt_disp t) (N.to_nat (g mod nt_mdisp t))) as [[d1 d2]|] eqn:E1.
  - rewrite (proj2 (N.eqb_neq _ _) B).
    match goal with |- context [nth_opt (nt_strtab t) (N.to_nat ?i)] => set (ix := i) end.
    destruct (nth_opt (nt_strtab t) (N.to_nat ix)) as [str|] eqn:E2.
    + destruct (bytes_eqb str s); discriminate.
    + exfalso. assert (L : ix < nt_mtab t) by (unfold ix; apply N.mod_lt; exact B).
      destruct (nth_opt_lt (nt_strtab t) (N.to_nat ix) ltac:(lia)) as (x & X). congruence.
  - exfalso. assert (L : g mod nt_mdisp t < nt_mdisp t) by (apply N.mod_lt; exact A).
    destruct (nth_opt_lt (nt_disp t) (N.to_nat (g mod nt_mdisp t)) ltac:(lia)) as (x & X). congruence.
Qed.
