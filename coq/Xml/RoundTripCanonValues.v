(* Xml/RoundTripCanonValues.v — C01, first half, values and attributes: what STRICT parsing returns is canonical (ValOk /
   AttrsOk) unless it belongs to a recorded class, stated as a decidable predicate on the value:
     known_valueb spec v :  a Pattern value containing one of the five escaped bytes (pattern-value-not-unescaped);
                            a String value of a non-preserving type with a blank at an end — it can only come from a
                            character reference, the literal blanks were trimmed (encoded-edge-blank-lost);
                            a String value whose ESCAPED text exceeds max_length (no real type has a max_length on a plain
                            string: unreachable with the regenerated tables, checked in RoundTripCanon.v).
   Hypotheses (Section): names in the enum table are clean; the float oracles satisfy print/parse (std law);
   UTF-8 is closed under unescape-then-escape (proved in Xml/Utf8Closure.v and discharged there). *)
From Coq Require Import Arith.
From AV Require Import Base.Bytes Base.Outcome Base.Utf8 Base.Radix Hash.HashModel Hash.HashProofs Spec.SpecOps
  Xml.Lexer Xml.Parser Xml.Serializer Xml.LexerProofs Xml.ParserProofs Xml.ParserCheck Xml.ParserDepth Xml.StrictValid
  Xml.Escape Xml.RoundTripValues Xml.RoundTripAttrs.
Open Scope list_scope.
Open Scope N_scope.

Definition edge_wsb (s : list N) : bool := match s with [] => false | c :: _ => is_ws c || is_ws (last s 0) end.

Lemma edge_wsb_false s : edge_wsb s = false -> no_edge_ws s.
Proof. destruct s as [|c s]; [exact (fun _ => I)|]. unfold edge_wsb. rewrite orb_false_iff. exact (fun H => H). Qed.

Definition known_valueb (spec : cdspec) (v : cdata) : bool :=
  match spec, v with
  | CPattern _ _, DString s => existsb special s
  | CString preserve maxlen, DString s => (negb preserve && edge_wsb s) || opt_len_gt maxlen (escape_text s)
  | _, _ => false
  end.

(* ---------- what trim_byte_string returns has no blank at either end ---------- *)
Lemma drop_ws_nonws l c r : drop_ws l = c :: r -> is_ws c = false.
Proof.
  induction l as [|x l IH]; cbn [drop_ws]; [discriminate|]. destruct (is_ws x) eqn:E; [exact IH|]. intros [= <- <-]. exact E.
Qed.

Lemma trim_no_edge input t : trim_byte_string input = Val t -> no_edge_ws t.
Proof.
  rewrite trim_byte_string_value. intros [= <-].
  set (D := drop_ws input). set (R := drop_ws (rev D)).
  destruct (rev R) as [|c t'] eqn:ER; [exact I|]. cbn [no_edge_ws]. rewrite <- ER.
  destruct R as [|r0 R'] eqn:ERR; [discriminate ER|].
  pose proof (drop_ws_nonws (rev D) r0 R' ERR) as H0.
  destruct (drop_ws_suffix (rev D)) as (n & EN). fold R in EN. rewrite ERR in EN.
  assert (ED : D = rev (r0 :: R') ++ rev (firstn n (rev D))).
  { rewrite <- rev_app_distr, EN, firstn_skipn, rev_involutive. reflexivity. }
  split.
  - rewrite ER in ED. cbn [app] in ED. exact (drop_ws_nonws input c _ ED).
  - cbn [rev]. rewrite last_last. exact H0.
Qed.

Lemma digits_val_le radix limit : forall s a v, a <= limit -> digits_val radix limit a s = Some v -> v <= limit.
Proof.
  induction s as [|c s IH]; intros a v L H; cbn [digits_val] in H; [injection H as <-; exact L|].
  destruct (digit_val radix c) as [d|]; [|discriminate H]. cbv zeta in H.
  destruct (limit <? a * radix + d) eqn:E; [discriminate H|]. apply N.ltb_ge in E. eapply IH; eassumption.
Qed.

Lemma from_str_radix_u_le bits radix s v : from_str_radix_u bits radix s = Some v -> v <= 2 ^ bits - 1.
Proof.
  unfold from_str_radix_u. intros H.
  assert (G : forall ds, digits_val radix (2 ^ bits - 1) 0 ds = Some v -> v <= 2 ^ bits - 1).
  { intros ds. apply digits_val_le. lia. }
  destruct s as [|c s']; [discriminate H|].
  destruct c as [|p]; [exact (G _ H)|].
  do 6 (destruct p as [p|p|]; try exact (G _ H)); destruct s'; try discriminate H; exact (G _ H).
Qed.

Section CanonValues.
Variable T : tables.
Variable tab_en : nametab.
Variable check_fn : N -> list N -> res bool.
Variable float_fmt : N -> list N.
Variable float_parse : list N -> option N.

(* std: printing a parsed float and parsing it again gives the same bits; the printed text is plain ASCII without blanks *)
Hypothesis FLOAT : forall s b, float_parse s = Some b ->
  no_edge_ws (float_fmt b) /\ utf8_valid (float_fmt b) = true /\ float_parse (float_fmt b) = Some b /\
  float_fmt b <> [] /\ forallb markup_free (float_fmt b) = true.
(* UTF-8 is closed under unescaping and escaping *)
Hypothesis UTF8C : forall raw u st st', utf8_valid raw = true -> unescape_string true raw st = Val (Ret u st') ->
  utf8_valid (escape_text u) = true.

Notation PCD := (parse_character_data true tab_en check_fn float_parse).
Notation VALOK := (ValOk tab_en check_fn float_fmt float_parse).

Theorem pcd_canon input spec st v st' : PCD input spec st = Val (Ret v st') ->
  VALOK (p_version st) spec v \/ known_valueb spec v = true.
Proof.
  unfold parse_character_data. intros H. inv H as trimmed s1 E1. apply lift_ret_inv in E1 as [TR ->].
  pose proof (trim_no_edge _ _ TR) as NW.
  destruct spec as [items|fn maxlen|preserve maxlen| |].
  - left. inv H as nm s2 E2. apply lift_ret_inv in E2 as [NM ->]. destruct nm as [value|]; [|discriminate H].
    unfold name_of in NM. destruct (from_bytes tab_en trimmed) as [i| |] eqn:FB; try discriminate NM. injection NM as ->.
    destruct (find (fun it => fst it =? value) items) as [[i0 version]|] eqn:F.
    + inv H as g s3 E3. apply get_ret_inv in E3 as [-> ->]. inv H as u s4 E4. injection H as <- _.
      apply check_version_ret in E4. pose proof (find_some _ _ F) as [_ EQ]. cbn [fst] in EQ. apply N.eqb_eq in EQ. subst i0.
      econstructor; [exact (from_bytes_only_members _ _ _ FB)|exact NW|exact FB|exact F|exact E4].
    + inv H as g s3 E3. discriminate H.
  - inv H as u1 s2 E2. apply guard_strict_ret in E2 as [L ->].
    inv H as ok s3 E3. apply lift_ret_inv in E3 as [CF ->].
    inv H as u2 s4 E4. apply guard_strict_ret in E4 as [OK ->]. apply negb_false_iff in OK. subst ok.
    destruct (utf8_valid trimmed) eqn:U.
    + injection H as <- _. cbn [known_valueb]. destruct (existsb special trimmed) eqn:SP; [right; reflexivity|left].
      constructor; try assumption. apply forallb_forall. intros c Hc. apply negb_true_iff.
      destruct (special c) eqn:SC; [|reflexivity]. exfalso.
      assert (X : existsb special trimmed = true) by (apply existsb_exists; eauto). congruence.
    + inv H as u3 s5 E5. destruct (oe_strict_ret _ _ _ _ _ _ E5).
  - inv H as u1 s2 E2. apply guard_strict_ret in E2 as [L ->].
    inv H as text s3 E3.
    assert (TX : text = (if preserve then input else trimmed) /\ utf8_valid text = true /\ s3 = st).
    { destruct (utf8_valid (if preserve then input else trimmed)) eqn:U; [injection E3 as <- <-; auto|].
      inv E3 as u2 s4 E4. destruct (oe_strict_ret _ _ _ _ _ _ E4). }
    destruct TX as (TX & UV & ->).
    inv H as u s4 E4. injection H as <- _. cbn [known_valueb].
    destruct ((negb preserve && edge_wsb u) || opt_len_gt maxlen (escape_text u)) eqn:K; [right; reflexivity|left].
    apply orb_false_iff in K as [K1 K2]. constructor; [|exact K2|exact (UTF8C _ _ _ _ UV E4)].
    destruct preserve; [left; reflexivity|right]. cbn [negb andb] in K1. apply edge_wsb_false, K1.
  - left. destruct (negb (utf8_valid trimmed)); [discriminate H|].
    destruct (from_str_radix_u 64 10 trimmed) as [n|] eqn:R.
    + injection H as <- _. constructor. pose proof (from_str_radix_u_le _ _ _ _ R) as LE.
      assert (0 < 2 ^ 64) by reflexivity. lia.
    + inv H as u1 s2 E2. destruct (oe_strict_ret _ _ _ _ _ _ E2).
  - left. destruct (negb (utf8_valid trimmed)); [discriminate H|].
    destruct (float_parse trimmed) as [b|] eqn:FP.
    + injection H as <- _. destruct (FLOAT _ _ FP) as (A & B & C & _). constructor; assumption.
    + inv H as u1 s2 E2. destruct (oe_strict_ret _ _ _ _ _ _ E2).
Qed.

(* ---------- the printed form of a canonical value ---------- *)
Hypothesis CLEAN_EN : forall s i, from_bytes tab_en s = Ok i -> clean_name s = true.

Lemma clean_markup_free nm : clean_name nm = true -> forallb markup_free nm = true /\ forallb is_ws nm = false.
Proof.
  intros CN. destruct (clean_name_props nm CN) as (NE & FN). split.
  - apply forallb_forall. intros c Hc. rewrite Forall_forall in FN. specialize (FN c Hc).
    unfold markup_free. apply negb_true_iff. repeat (apply orb_false_iff; split); apply N.eqb_neq; tauto.
  - destruct nm as [|c nm']; [congruence|]. inversion FN as [|? ? HC _]; subst. cbn [forallb]. destruct HC as (W & _). rewrite W. reflexivity.
Qed.

Lemma no_edge_nonblank s : s <> [] -> no_edge_ws s -> forallb is_ws s = false.
Proof. destruct s as [|c s]; [congruence|]. intros _ [H _]. cbn [forallb]. rewrite H. reflexivity. Qed.

Lemma escape_text_blank s : forallb is_ws s = false -> forallb is_ws (escape_text s) = false.
Proof.
  induction s as [|c s IH]; [discriminate|]. cbn [forallb]. intros H. rewrite escape_text_cons, forallb_app.
  destruct (is_ws c) eqn:W.
  - cbn [andb] in H. rewrite (IH H). apply andb_false_r.
  - destruct (escape_byte_edges c) as (h & l & E & HH & _). rewrite E. cbn [forallb]. rewrite HH, W. reflexivity.
Qed.

(* a canonical value prints without markup bytes; and, unless it is a blank string, not as blanks *)
Lemma valok_ser ver spec v : VALOK ver spec v ->
  exists bytes, ser_cdata tab_en float_fmt v = Val bytes /\ forallb markup_free bytes = true /\
    (match v with DString s => forallb is_ws s = false | _ => True end -> forallb is_ws bytes = false).
Proof.
  intros OK. destruct OK as [items item mask str TS NW FB FI IV|fn maxlen s PL NW LEN CF U|preserve maxlen s PW LEN U|n L|b NW U FP];
    cbn [ser_cdata].
  - rewrite TS. cbn [unwrap]. exists str. split; [reflexivity|]. destruct (clean_markup_free str (CLEAN_EN _ _ FB)) as [A B]. auto.
  - exists (escape_text s). split; [reflexivity|]. split; [apply escape_no_markup|apply escape_text_blank].
  - exists (escape_text s). split; [reflexivity|]. split; [apply escape_no_markup|apply escape_text_blank].
  - destruct (dec_of_N_spec n) as (ds & E & F & NE & V). destruct (digits_props ds F NE) as (NW & U & MF).
    exists (dec_of_N n). rewrite E. split; [reflexivity|]. split; [exact MF|]. intros _. apply no_edge_nonblank; assumption.
  - destruct (FLOAT _ _ FP) as (A & B & C & D & E). exists (float_fmt b). split; [reflexivity|]. split; [exact E|].
    intros _. apply no_edge_nonblank; assumption.
Qed.

(* ---------- attributes ---------- *)
Variable tab_at : nametab.
Hypothesis CLEAN_AT : forall s i, from_bytes tab_at s = Ok i -> clean_name s = true.

Definition known_attrb (ty : etype) (a : N * cdata) : bool :=
  match find_attribute_spec T ty (fst a) with
  | Val (Some (_, ctype, _, _)) => known_valueb ctype (snd a)
  | _ => false
  end.

Notation ATTROK := (AttrOk T tab_at tab_en check_fn float_fmt float_parse).
Notation AL := (attr_loop true T tab_at tab_en check_fn float_parse).
Notation PAT := (parse_attribute_text true T tab_at tab_en check_fn float_parse).

Definition AttrCanon (ver : N) (ty : etype) (a : N * cdata) : Prop := ATTROK ver ty a \/ known_attrb ty a = true.

Lemma attr_loop_canon fuel ty : forall rem attrs st r st',
  AL fuel ty rem attrs st = Val (Ret r st') ->
  Forall (AttrCanon (p_version st) ty) attrs -> Forall (AttrCanon (p_version st) ty) (snd r).
Proof.
  induction fuel as [|f IH]; intros rem attrs st r st' H FA; [discriminate H|]. cbn [attr_loop] in H.
  destruct (find_byte 61 rem) as [eq_pos|]; [|injection H as <- _; exact FA].
  destruct (List.length rem - eq_pos <? 3)%nat; [injection H as <- _; exact FA|].
  destruct (negb (nth (S eq_pos) rem 0 =? 34) && negb (nth (S eq_pos) rem 0 =? 39)); [injection H as <- _; exact FA|].
  destruct (find_byte (nth (S eq_pos) rem 0) (skipn (eq_pos + 2) rem)) as [endq|]; [|injection H as <- _; exact FA].
  inv H as nm s1 E1. apply lift_ret_inv in E1 as [NM ->].
  inv H as attrs' s2 E2.
  assert (A2 : Forall (AttrCanon (p_version st) ty) attrs' /\ p_version s2 = p_version st).
  { destruct nm as [attr_name|].
    - unfold name_of in NM. destruct (from_bytes tab_at (firstn eq_pos rem)) as [i| |] eqn:FB; try discriminate NM. injection NM as ->.
      inv E2 as sp s3 E3. apply lift_ret_inv in E3 as [FS ->].
      destruct sp as [[[[cdid ctype] req] vm]|].
      + inv E2 as g s4 E4. apply get_ret_inv in E4 as [-> ->].
        inv E2 as u s5 E5. pose proof (vpres_inv _ _ _ _ (vp_check_version true _ _ _ _) E5) as V5.
        apply check_version_ret in E5.
        inv E2 as v s6 E6. pose proof (vpres_inv _ _ _ _ (vp_pcd tab_en check_fn float_parse true _ _) E6) as V6.
        apply pcd_canon in E6. rewrite V5 in E6. injection E2 as <- <-.
        split; [|congruence]. apply Forall_app. split; [exact FA|]. constructor; [|constructor].
        destruct E6 as [VO|KV].
        * left. destruct (valok_ser _ _ _ VO) as (bytes & SC & MF & _).
          exists (firstn eq_pos rem), cdid, ctype, req, vm, bytes. cbn [fst snd].
          split; [exact (from_bytes_only_members _ _ _ FB)|]. split; [exact (CLEAN_AT _ _ FB)|]. auto 8.
        * right. unfold known_attrb. cbn [fst snd]. rewrite FS. exact KV.
      + inv E2 as g s4 E4. inv E2 as u s5 E5. destruct (oe_strict_ret _ _ _ _ _ _ E5).
    - inv E2 as g s4 E4. inv E2 as u s5 E5. destruct (oe_strict_ret _ _ _ _ _ _ E5). }
  destruct A2 as [A2 V2].
  match type of H with (if ?c then _ else _) _ = _ => destruct c end.
  - injection H as <- _. exact A2.
  - rewrite <- V2. eapply IH; [exact H|]. rewrite V2. exact A2.
Qed.

(* C01 first half, attributes: every attribute is AttrOk or in a recorded class; the required ones are present *)
Theorem pat_canon ty text st attrs st' : PAT ty text st = Val (Ret attrs st') ->
  Forall (AttrCanon (p_version st) ty) attrs /\
  exists specs, attribute_spec_list T ty = Val specs /\
    forall name cdid c req, In (name, cdid, c, req) specs -> req <> 0 -> existsb (fun a => fst a =? name) attrs = true.
Proof.
  unfold parse_attribute_text. intros H. inv H as r s1 E1. destruct r as [rem attrs0].
  pose proof (attr_loop_canon _ _ _ _ _ _ _ E1 (Forall_nil _)) as FA. cbn [snd] in FA.
  inv H as g s2 E2. inv H as u1 s3 E3. inv H as specs s4 E4. apply lift_ret_inv in E4 as [SL ->].
  inv H as u2 s5 E5. injection H as <- _. apply req_loop_ret in E5.
  split; [exact FA|]. exists specs. split; [exact SL|].
  intros name cdid c req HIn NZ. rewrite Forall_forall in E5. exact (E5 _ HIn NZ).
Qed.

End CanonValues.
