(* Xml/RoundTripCanonValues.v — C01, first half, values and attributes: what STRICT parsing returns is canonical (ValOk /
   AttrsOk) unless it belongs to a recorded class, stated as a decidable predicate on the value:
     known_valueb spec v :  a Pattern value containing one of the five escaped bytes (pattern-value-not-unescaped);
                            a String value of a non-preserving type with a blank at an end — it can only come from a
                            character reference, the literal blanks were trimmed (encoded-edge-blank-lost);
                            a String value whose ESCAPED text exceeds max_length (no real type has a max_length on a plain
                            string: unreachable with the regenerated tables, checked in RoundTripCanon.v).
   Hypotheses (Section): names in the enum table are clean; the float oracles satisfy print/parse (std law);
   UTF-8 is closed under unescape-then-escape (proved in Xml/Utf8Closure.v and discharged there). *)
From Coq Require Import Arith.
From AV Require Import Base.Bytes Base.Outcome Base.Utf8 Base.Radix Hash.HashModel Hash.HashProofs Spec.SpecOps
  Xml.Lexer Xml.Parser Xml.Serializer Xml.LexerProofs Xml.ParserProofs Xml.ParserCheck Xml.ParserDepth Xml.StrictValid
  Xml.Escape Xml.RoundTripValues Xml.RoundTripAttrs.
Open Scope list_scope.
Open Scope N_scope.

Definition edge_wsb (s : list N) : bool := match s with [] => false | c :: _ => is_ws c || is_ws (last s 0) end.

Lemma edge_wsb_false s : edge_wsb s = false -> no_edge_ws s.
Proof. destruct s as [|c s]; [exact (fun _ => I)|]. unfold edge_wsb. rewrite orb_false_iff. exact (fun H => H). Qed.

Definition known_valueb (spec : cdspec) (v : cdata) : bool :=
  match spec, v with
  | CPattern _ _, DString s => existsb special s
  | CString preserve maxlen, DString s => (negb preserve && edge_wsb s) || opt_len_gt maxlen (escape_text s)
  | _, _ => false
  end.

(* ---------- what trim_byte_string returns has no blank at either end ---------- *)
Lemma drop_ws_nonws l c r : drop_ws l = c :: r -> is_ws c = false.
Proof.
  induction l as [|x l IH]; cbn [drop_ws]; [discriminate|]. destruct (is_ws x) eqn:E; [exact IH|]. intros [= <- <-]. exact E.
Qed.

Lemma trim_no_edge input t : trim_byte_string input = Val t -> no_edge_ws t.
Proof.
  rewrite trim_byte_string_value. intros [= <-].
  set (D := drop_ws input). set (R := drop_ws (rev D)).
  destruct (rev R) as [|c t'] eqn:ER; [exact I|]. cbn [no_edge_ws]. rewrite <- ER.
  destruct R as [|r0 R'] eqn:ERR; [discriminate ER|].
  pose proof (drop_ws_nonws (rev D) r0 R' ERR) as H0.
  destruct (drop_ws_suffix (rev D)) as (n & EN). fold R in EN. rewrite ERR in EN.
  assert (ED : D = rev (r0 :: R') ++ rev (firstn n (rev D))).
  { rewrite <- rev_app_distr, EN, firstn_skipn, rev_involutive. reflexivity. }
  split.
  - rewrite ER in ED. cbn [app] in ED. exact (drop_ws_nonws input c _ ED).
  - cbn [rev]. rewrite last_last. exact H0.
Qed.

Lemma digits_val_le radix limit : forall s a v, a <= limit -> digits_val radix limit a s = Some v -> v <= limit.
Proof.
  induction s as [|c s IH]; intros a v L H; cbn [digits_val] in H; [injection H as <-; exact L|].
  destruct (digit_val radix c) as [d|]; [|discriminate H]. cbv zeta in H.
  destruct (limit <? a * radix + d) eqn:E; [discriminate H|]. apply N.ltb_ge in E. eapply IH; eassumption.
Qed.

Lemma from_str_radix_u_le bits radix s v : from_str_radix_u bits radix s = Some v -> v <= 2 ^ bits - 1.
Proof.
  unfold from_str_radix_u. intros H.
  assert (G : forall ds, digits_val radix (2 ^ bits - 1) 0 ds = Some v -> v <= 2 ^ bits - 1).
  { intros ds. apply digits_val_le. lia. }
  destruct s as [|c s']; [discriminate H|].
  destruct c as [|p]; [exact (G _ H)|].
  do 6 (destruct p as [p|p|]; try exact (G _ H)); destruct s'; try discriminate H; exact (G _ H).
Qed.

Section CanonValues.
Variable T : tables.
Variable tab_en : nametab.
Variable check_fn : N -> list N -> res bool.
Variable float_fmt : N -> list N.
Variable float_parse : list N -> option N.

(* std: printing a parsed float and parsing it again gives the same bits; the printed text is plain ASCII without blanks *)
Hypothesis FLOAT : forall s b, float_parse s = Some b ->
  no_edge_ws (float_fmt b) /\ utf8_valid (float_fmt b) = true /\ float_parse (float_fmt b) = Some b.
(* UTF-8 is closed under unescaping and escaping *)
Hypothesis UTF8C : forall raw u st st', utf8_valid raw = true -> unescape_string true raw st = Val (Ret u st') ->
  utf8_valid (escape_text u) = true.

Notation PCD := (parse_character_data true tab_en check_fn float_parse).
Notation VALOK := (ValOk tab_en check_fn float_fmt float_parse).

Theorem pcd_canon input spec st v st' : PCD input spec st = Val (Ret v st') ->
  VALOK (p_version st) spec v \/ known_valueb spec v = true.
Proof.
  unfold parse_character_data. intros H. inv H as trimmed s1 E1. apply lift_ret_inv in E1 as [TR ->].
  pose proof (trim_no_edge _ _ TR) as NW.
  destruct spec as [items|fn maxlen|preserve maxlen| |].
  - left. inv H as nm s2 E2. apply lift_ret_inv in E2 as [NM ->]. destruct nm as [value|]; [|discriminate H].
    unfold name_of in NM. destruct (from_bytes tab_en trimmed) as [i| |] eqn:FB; try discriminate NM. injection NM as ->.
    destruct (find (fun it => fst it =? value) items) as [[i0 version]|] eqn:F.
    + inv H as g s3 E3. apply get_ret_inv in E3 as [-> ->]. inv H as u s4 E4. injection H as <- _.
      apply check_version_ret in E4. pose proof (find_some _ _ F) as [_ EQ]. cbn [fst] in EQ. apply N.eqb_eq in EQ. subst i0.
      econstructor; [exact (from_bytes_only_members _ _ _ FB)|exact NW|exact FB|exact F|exact E4].
    + inv H as g s3 E3. discriminate H.
  - inv H as u1 s2 E2. apply guard_strict_ret in E2 as [L ->].
    inv H as ok s3 E3. apply lift_ret_inv in E3 as [CF ->].
    inv H as u2 s4 E4. apply guard_strict_ret in E4 as [OK ->]. apply negb_false_iff in OK. subst ok.
    destruct (utf8_valid trimmed) eqn:U.
    + injection H as <- _. cbn [known_valueb]. destruct (existsb special trimmed) eqn:SP; [right; reflexivity|left].
      constructor; try assumption. apply forallb_forall. intros c Hc. apply negb_true_iff.
      destruct (special c) eqn:SC; [|reflexivity]. exfalso.
      assert (X : existsb special trimmed = true) by (apply existsb_exists; eauto). congruence.
    + inv H as u3 s5 E5. destruct (oe_strict_ret _ _ _ _ _ _ E5).
  - inv H as u1 s2 E2. apply guard_strict_ret in E2 as [L ->].
    inv H as text s3 E3.
    assert (TX : text = (if preserve then input else trimmed) /\ utf8_valid text = true /\ s3 = st).
    { destruct (utf8_valid (if preserve then input else trimmed)) eqn:U; [injection E3 as <- <-; auto|].
      inv E3 as u2 s4 E4. destruct (oe_strict_ret _ _ _ _ _ _ E4). }
    destruct TX as (TX & UV & ->).
    inv H as u s4 E4. injection H as <- _. cbn [known_valueb].
    destruct ((negb preserve && edge_wsb u) || opt_len_gt maxlen (escape_text u)) eqn:K; [right; reflexivity|left].
    apply orb_false_iff in K as [K1 K2]. constructor; [|exact K2|exact (UTF8C _ _ _ _ UV E4)].
    destruct preserve; [left; reflexivity|right]. cbn [negb andb] in K1. apply edge_wsb_false, K1.
  - left. destruct (negb (utf8_valid trimmed)); [discriminate H|].
    destruct (from_str_radix_u 64 10 trimmed) as [n|] eqn:R.
    + injection H as <- _. constructor. pose proof (from_str_radix_u_le _ _ _ _ R) as LE.
      assert (0 < 2 ^ 64) by reflexivity. lia.
    + inv H as u1 s2 E2. destruct (oe_strict_ret _ _ _ _ _ _ E2).
  - left. destruct (negb (utf8_valid trimmed)); [discriminate H|].
    destruct (float_parse trimmed) as [b|] eqn:FP.
    + injection H as <- _. destruct (FLOAT _ _ FP) as (A & B & C). constructor; assumption.
    + inv H as u1 s2 E2. destruct (oe_strict_ret _ _ _ _ _ _ E2).
Qed.

End CanonValues.
