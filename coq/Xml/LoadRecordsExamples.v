(* Xml/LoadRecordsExamples.v — the record theorems on the regenerated tables. *)
From AV Require Import Base.Bytes Base.Outcome Hash.HashModel Spec.SpecTypes Spec.SpecOps Spec.SpecReal Xml.Lexer Xml.Parser
  Xml.TablesOk Xml.TablesOkReal Xml.ParserExamples Xml.LoadRecords Xml.LoadRecordsRegular Xml.LoadRecordsTree.
From AV Require Import Hash.HashRealElement Hash.HashRealAttr Hash.HashRealEnum Tree.MergeSpec Tree.LoadRefineIndex.
Open Scope list_scope.
Open Scope N_scope.

(* [F] SHORT-NAME elements and the reference type have content mode Characters in the regenerated tables *)
Lemma real_sn_chars : sn_charsb RT = true.   Proof. vm_compute. reflexivity. Qed.
Lemma real_ref_chars : ref_charsb RT = true. Proof. vm_compute. reflexivity. Qed.

(* hence, for the real loader model: *)
Theorem real_load_StOf_all s bs t st : LOAD s bs = Val (Ret t st) -> StOf RT st t.
Proof.
  intros L. exact (load_StOf_all RT tab_element tab_attr tab_enum accept_all no_float s bs t st tables_ok_real real_sn_chars real_ref_chars L).
Qed.
Theorem real_load_StOf s bs t st : LOAD s bs = Val (Ret t st) -> late_freeb RT t = true -> StOf RT st t.
Proof. intros L _. exact (real_load_StOf_all s bs t st L). Qed.

(* what is recorded (oldest first, paths as text) versus the specification-side reading *)
Definition recorded (s : bool) (d : list N) :=
  match LOAD s d with
  | Val (Ret t st) => Some (late_freeb RT t, rev (p_idents st), idents_of RT [] [] t, rev (p_refs st), refs_of RT [] t)
  | _ => None
  end.

Open Scope string_scope.
(* a regular document: named package with a named element and a reference *)
Definition doc_named := doc "<AR-PACKAGES><AR-PACKAGE><SHORT-NAME>Pkg</SHORT-NAME><ELEMENTS><SYSTEM><SHORT-NAME>Sys</SHORT-NAME><FIBEX-ELEMENTS><FIBEX-ELEMENT-REF-CONDITIONAL><FIBEX-ELEMENT-REF DEST=""ECU-INSTANCE"">/Pkg/E</FIBEX-ELEMENT-REF></FIBEX-ELEMENT-REF-CONDITIONAL></FIBEX-ELEMENTS></SYSTEM></ELEMENTS></AR-PACKAGE></AR-PACKAGES>".
(* SHORT-NAME after a named sub-tree: strict loading accepts it *)
Definition doc_late := doc "<AR-PACKAGES><AR-PACKAGE><ELEMENTS><SYSTEM><SHORT-NAME>Sys</SHORT-NAME></SYSTEM></ELEMENTS><SHORT-NAME>Pkg</SHORT-NAME></AR-PACKAGE></AR-PACKAGES>".
(* SHORT-NAME without text *)
Definition doc_nameless := doc "<AR-PACKAGES><AR-PACKAGE><SHORT-NAME/><ELEMENTS><SYSTEM><SHORT-NAME>Sys</SHORT-NAME></SYSTEM></ELEMENTS></AR-PACKAGE></AR-PACKAGES>".
(* a second SHORT-NAME: lenient only *)
Definition doc_twice := doc "<AR-PACKAGES><AR-PACKAGE><SHORT-NAME>A</SHORT-NAME><SHORT-NAME>B</SHORT-NAME><ELEMENTS><SYSTEM><SHORT-NAME>Sys</SHORT-NAME></SYSTEM></ELEMENTS></AR-PACKAGE></AR-PACKAGES>".
Open Scope list_scope.

Open Scope string_scope.
(* regular: both readings agree; identifiables /Pkg, /Pkg/Sys; one reference /Pkg/E *)
Example rec_named :
  recorded true doc_named =
  Some (true,
        [(BS "/Pkg", [0; 0]%nat); (BS "/Pkg/Sys", [0; 0; 1; 0]%nat)], [(BS "/Pkg", [0; 0]%nat); (BS "/Pkg/Sys", [0; 0; 1; 0]%nat)],
        [(BS "/Pkg/E", [0; 0; 1; 0; 1; 0; 0]%nat)], [(BS "/Pkg/E", [0; 0; 1; 0; 1; 0; 0]%nat)]).
Proof. vm_compute. reflexivity. Qed.

(* late SHORT-NAME (regression of the fixed defect: strict loading used to accept it and to index /Sys and /Pkg): strict
   loading now fails with RequiredSubelementMissing at the package; lenient loading warns with the same finding, records
   /Sys only - as the specification-side reading does *)
Definition strict_error (d : list N) : option pkind :=
  match LOAD true d with Val (Raise (ErrParse _ k _ _) _) => Some k | _ => None end.
Definition lenient_warnings (d : list N) : option (list pkind) :=
  match LOAD false d with
  | Val (Ret _ st) => Some (map (fun e => match e with ErrParse _ k _ _ => k | _ => InvalidArxmlFileHeader end) (p_warnings st))
  | _ => None
  end.
Example rec_late_fixed :
  strict_error doc_late = Some RequiredSubelementMissing /\
  lenient_warnings doc_late = Some [RequiredSubelementMissing] /\
  recorded false doc_late = Some (false, [(BS "/Sys", [0; 0; 0; 0]%nat)], [(BS "/Sys", [0; 0; 0; 0]%nat)], [], []).
Proof. repeat split; vm_compute; reflexivity. Qed.

(* <SHORT-NAME/> : no entry for the package on either side, the path stays the parent's; the readings agree *)
Example rec_nameless :
  recorded true doc_nameless = Some (true, [(BS "/Sys", [0; 0; 1; 0]%nat)], [(BS "/Sys", [0; 0; 1; 0]%nat)], [], []).
Proof. vm_compute. reflexivity. Qed.

(* a second SHORT-NAME is rejected by strict loading; lenient loading ignores it for naming: /A and /A/Sys on both sides *)
Example rec_twice_fixed :
  recorded true doc_twice = None /\
  recorded false doc_twice =
  Some (false, [(BS "/A", [0; 0]%nat); (BS "/A/Sys", [0; 0; 2; 0]%nat)],
               [(BS "/A", [0; 0]%nat); (BS "/A/Sys", [0; 0; 2; 0]%nat)], [], []).
Proof. split; vm_compute; reflexivity. Qed.
