(* Xml/LoadRecordsExamples.v — the record theorems on the regenerated tables. *)
From AV Require Import Base.Bytes Base.Outcome Hash.HashModel Spec.SpecTypes Spec.SpecOps Spec.SpecReal Xml.Lexer Xml.Parser
  Xml.TablesOk Xml.TablesOkReal Xml.ParserExamples Xml.LoadRecords Xml.LoadRecordsRegular Xml.LoadRecordsTree.
From AV Require Import Hash.HashRealElement Hash.HashRealAttr Hash.HashRealEnum Tree.MergeSpec Tree.LoadRefineIndex.
Open Scope list_scope.
Open Scope N_scope.

(* [F] SHORT-NAME elements and the reference type have content mode Characters in the regenerated tables *)
Lemma real_sn_chars : sn_charsb RT = true.   Proof. vm_compute. reflexivity. Qed.
Lemma real_ref_chars : ref_charsb RT = true. Proof. vm_compute. reflexivity. Qed.

(* hence, for the real loader model: *)
Theorem real_load_StOf s bs t st : LOAD s bs = Val (Ret t st) -> late_freeb RT t = true -> StOf RT st t.
Proof.
  intros L LF. exact (load_StOf RT tab_element tab_attr tab_enum accept_all no_float s bs t st tables_ok_real real_sn_chars real_ref_chars L
                        (late_freeb_spec RT t LF)).
Qed.

(* what is recorded (oldest first, paths as text) versus the specification-side reading *)
Definition recorded (s : bool) (d : list N) :=
  match LOAD s d with
  | Val (Ret t st) => Some (late_freeb RT t, rev (p_idents st), idents_of RT [] [] t, rev (p_refs st), refs_of RT [] t)
  | _ => None
  end.

Open Scope string_scope.
(* a regular document: named package with a named element and a reference *)
Definition doc_named := doc "<AR-PACKAGES><AR-PACKAGE><SHORT-NAME>Pkg</SHORT-NAME><ELEMENTS><SYSTEM><SHORT-NAME>Sys</SHORT-NAME><FIBEX-ELEMENTS><FIBEX-ELEMENT-REF-CONDITIONAL><FIBEX-ELEMENT-REF DEST=""ECU-INSTANCE"">/Pkg/E</FIBEX-ELEMENT-REF></FIBEX-ELEMENT-REF-CONDITIONAL></FIBEX-ELEMENTS></SYSTEM></ELEMENTS></AR-PACKAGE></AR-PACKAGES>".
(* SHORT-NAME after a named sub-tree: strict loading accepts it *)
Definition doc_late := doc "<AR-PACKAGES><AR-PACKAGE><ELEMENTS><SYSTEM><SHORT-NAME>Sys</SHORT-NAME></SYSTEM></ELEMENTS><SHORT-NAME>Pkg</SHORT-NAME></AR-PACKAGE></AR-PACKAGES>".
(* SHORT-NAME without text *)
Definition doc_nameless := doc "<AR-PACKAGES><AR-PACKAGE><SHORT-NAME/><ELEMENTS><SYSTEM><SHORT-NAME>Sys</SHORT-NAME></SYSTEM></ELEMENTS></AR-PACKAGE></AR-PACKAGES>".
(* a second SHORT-NAME: lenient only *)
Definition doc_twice := doc "<AR-PACKAGES><AR-PACKAGE><SHORT-NAME>A</SHORT-NAME><SHORT-NAME>B</SHORT-NAME><ELEMENTS><SYSTEM><SHORT-NAME>Sys</SHORT-NAME></SYSTEM></ELEMENTS></AR-PACKAGE></AR-PACKAGES>".
Open Scope list_scope.

Open Scope string_scope.
(* regular: both readings agree; identifiables /Pkg, /Pkg/Sys; one reference /Pkg/E *)
Example rec_named :
  recorded true doc_named =
  Some (true,
        [(BS "/Pkg", [0; 0]%nat); (BS "/Pkg/Sys", [0; 0; 1; 0]%nat)], [(BS "/Pkg", [0; 0]%nat); (BS "/Pkg/Sys", [0; 0; 1; 0]%nat)],
        [(BS "/Pkg/E", [0; 0; 1; 0; 1; 0; 0]%nat)], [(BS "/Pkg/E", [0; 0; 1; 0; 1; 0; 0]%nat)]).
Proof. vm_compute. reflexivity. Qed.

(* late SHORT-NAME, accepted by STRICT loading: the loader records the inner element under the parent's path (/Sys, not
   /Pkg/Sys) and then the package as /Pkg; the specification-side reading has /Sys only (the package is not named there,
   its first content item is not a SHORT-NAME): the lists differ - late_freeb = false *)
Example rec_late :
  recorded true doc_late =
  Some (false, [(BS "/Sys", [0; 0; 0; 0]%nat); (BS "/Pkg", [0; 0]%nat)], [(BS "/Sys", [0; 0; 0; 0]%nat)], [], []).
Proof. vm_compute. reflexivity. Qed.

(* <SHORT-NAME/> : no entry for the package on either side, the path stays the parent's; the readings agree *)
Example rec_nameless :
  recorded true doc_nameless = Some (true, [(BS "/Sys", [0; 0; 1; 0]%nat)], [(BS "/Sys", [0; 0; 1; 0]%nat)], [], []).
Proof. vm_compute. reflexivity. Qed.

(* a second SHORT-NAME is rejected by strict loading; lenient loading records the package twice (/A, then /A/B) and what
   follows under /A/B *)
Example rec_twice :
  recorded true doc_twice = None /\
  recorded false doc_twice =
  Some (false, [(BS "/A", [0; 0]%nat); (BS "/A/B", [0; 0]%nat); (BS "/A/B/Sys", [0; 0; 2; 0]%nat)],
               [(BS "/A", [0; 0]%nat); (BS "/A/Sys", [0; 0; 2; 0]%nat)], [], []).
Proof. split; vm_compute; reflexivity. Qed.
