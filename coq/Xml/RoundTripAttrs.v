(* Xml/RoundTripAttrs.v — C01, attributes: parse_attribute_text (ser_attrs attrs) = attrs, no error, no warning, for an
   attribute list that is canonical for its element type (AttrsOk): every attribute name is in the name table with a
   clean text (letters, digits, - _ : .), known for the type and in version, its value canonical (ValOk) and printed
   without a double quote; every required attribute present.  Both modes, every table set. *)
From Coq Require Import Arith.
From AV Require Import Base.Bytes Base.Outcome Base.Utf8 Base.Radix Hash.HashModel Spec.SpecOps
  Xml.Lexer Xml.Parser Xml.Serializer Xml.LexerProofs Xml.ParserProofs Xml.Escape Xml.RoundTripValues.
Open Scope list_scope.
Open Scope N_scope.

(* the bytes of element / attribute / enum names *)
Definition name_byte (c : N) : bool :=
  ((48 <=? c) && (c <=? 57)) || ((65 <=? c) && (c <=? 90)) || ((97 <=? c) && (c <=? 122)) ||
  (c =? 45) || (c =? 95) || (c =? 58) || (c =? 46).
Definition clean_name (nm : list N) : bool := negb (match nm with [] => true | _ => false end) && forallb name_byte nm.

Lemma name_byte_props c : name_byte c = true ->
  is_ws c = false /\ c <> 61 /\ c <> 62 /\ c <> 60 /\ c <> 47 /\ c <> 34 /\ c <> 39 /\ c <> 33 /\ c <> 63 /\ c <> 38.
Proof.
  unfold name_byte. rewrite !orb_true_iff, !andb_true_iff, !N.leb_le, !N.eqb_eq. intros H.
  assert (R : (48 <= c <= 57) \/ (65 <= c <= 90) \/ (97 <= c <= 122) \/ c = 45 \/ c = 95 \/ c = 58 \/ c = 46) by tauto.
  split; [unfold is_ws; repeat (apply orb_false_iff; split); apply N.eqb_neq; lia|]. repeat split; lia.
Qed.

Lemma clean_name_props nm : clean_name nm = true ->
  nm <> [] /\ Forall (fun c => is_ws c = false /\ c <> 61 /\ c <> 62 /\ c <> 60 /\ c <> 47 /\ c <> 34 /\ c <> 39 /\ c <> 33 /\ c <> 63 /\ c <> 38) nm.
Proof.
  unfold clean_name. rewrite andb_true_iff. intros [NE F]. split; [destruct nm; [discriminate|discriminate]|].
  rewrite forallb_forall in F. apply Forall_forall. intros c Hc. apply name_byte_props, F, Hc.
Qed.

(* ---------- list surgery ---------- *)
Lemma firstn_app_exact {A} (a b : list A) : firstn (List.length a) (a ++ b) = a.
Proof. rewrite firstn_app, Nat.sub_diag, firstn_all. cbn [firstn]. apply app_nil_r. Qed.
Lemma skipn_app_exact {A} (a b : list A) : skipn (List.length a) (a ++ b) = b.
Proof. rewrite skipn_app, Nat.sub_diag, skipn_all. reflexivity. Qed.
Lemma skipn_app_plus {A} (a b : list A) k : skipn (List.length a + k) (a ++ b) = skipn k b.
Proof.
  rewrite skipn_app. replace (List.length a + k - List.length a)%nat with k by lia.
  rewrite skipn_all2 by lia. reflexivity.
Qed.
Lemma skipn_app_S {A} (a b : list A) x : skipn (S (List.length a)) (a ++ x :: b) = b.
Proof. replace (S (List.length a)) with (List.length a + 1)%nat by lia. rewrite skipn_app_plus. reflexivity. Qed.
Lemma nth_app_plus {A} (a b : list A) k d : nth (List.length a + k) (a ++ b) d = nth k b d.
Proof. rewrite app_nth2 by lia. f_equal. lia. Qed.

Lemma find_byte_hit c pre rest : Forall (fun x => x <> c) pre -> find_byte c (pre ++ c :: rest) = Some (List.length pre).
Proof.
  intros F. unfold find_byte. apply position_app_hit; [|apply N.eqb_refl].
  apply forallb_forall. intros x Hx. rewrite Forall_forall in F. apply negb_true_iff, N.eqb_neq. intros E. apply (F x Hx). congruence.
Qed.

Lemma markup_free_no_quote bytes : forallb markup_free bytes = true -> Forall (fun x => x <> 34) bytes.
Proof.
  rewrite forallb_forall. intros H. apply Forall_forall. intros x Hx E. specialize (H x Hx). subst x. discriminate H.
Qed.

Section Attrs.
Variable strict : bool.
Variable T : tables.
Variable tab_at tab_en : nametab.
Variable check_fn : N -> list N -> res bool.
Variable float_fmt : N -> list N.
Variable float_parse : list N -> option N.
Variable ver : N.

(* one canonical attribute of an element of type ty *)
Definition AttrOk (ty : etype) (a : N * cdata) : Prop :=
  exists nm cdid ctype req vm bytes,
    to_str tab_at (fst a) = Some nm /\ clean_name nm = true /\ from_bytes tab_at nm = Ok (fst a) /\
    find_attribute_spec T ty (fst a) = Val (Some (cdid, ctype, req, vm)) /\ N.land ver vm <> 0 /\
    ValOk tab_en check_fn float_fmt float_parse ver ctype (snd a) /\
    ser_cdata tab_en float_fmt (snd a) = Val bytes /\ forallb markup_free bytes = true.

Definition AttrsOk (ty : etype) (attrs : list (N * cdata)) : Prop :=
  Forall (AttrOk ty) attrs /\
  exists specs, attribute_spec_list T ty = Val specs /\
    forall name cdid c req, In (name, cdid, c, req) specs -> req <> 0 -> existsb (fun a => fst a =? name) attrs = true.

(* the text of one attribute without its leading blank, followed by the rest *)
Lemma ser_attrs_cons name v rest nm bytes :
  to_str tab_at name = Some nm -> ser_cdata tab_en float_fmt v = Val bytes ->
  ser_attrs tab_at tab_en float_fmt ((name, v) :: rest) =
    match ser_attrs tab_at tab_en float_fmt rest with
    | Val r => Val (32 :: nm ++ [61; 34] ++ bytes ++ [34] ++ r)
    | Pan s => Pan s
    | Fuel => Fuel
    end.
Proof.
  intros E1 E2.
  change (ser_attrs tab_at tab_en float_fmt ((name, v) :: rest)) with
    (bind (unwrap "AttributeName::to_str: STRING_TABLE index" (to_str tab_at name)) (fun nm0 =>
     bind (ser_cdata tab_en float_fmt v) (fun vs =>
     bind (ser_attrs tab_at tab_en float_fmt rest) (fun r => Val ([32] ++ nm0 ++ BS "=""" ++ vs ++ [34] ++ r))))).
  rewrite E1, E2. cbn [unwrap bind]. destruct (ser_attrs tab_at tab_en float_fmt rest); reflexivity.
Qed.

Lemma ser_attrs_total ty attrs : Forall (AttrOk ty) attrs -> exists text, ser_attrs tab_at tab_en float_fmt attrs = Val text /\
  (text = [] \/ exists r, text = 32 :: r) /\ (attrs = [] -> text = []).
Proof.
  induction 1 as [|[name v] rest (nm & cdid & ctype & req & vm & bytes & TS & _ & _ & _ & _ & _ & SC & _) _ (r & SR & _)].
  - exists []. auto.
  - cbn [fst snd] in *. rewrite (ser_attrs_cons _ _ _ _ _ TS SC), SR. eexists. split; [reflexivity|]. split; [right; eauto|discriminate].
Qed.

Lemma drop_ws_cons_ws c s : is_ws c = true -> drop_ws (c :: s) = drop_ws s.
Proof. intros H. cbn [drop_ws]. rewrite H. reflexivity. Qed.

(* the loop of parse_attribute_text on the serialized list *)
Lemma attr_loop_roundtrip ty : forall attrs fuel acc st text,
  Forall (AttrOk ty) attrs -> p_version st = ver -> (List.length attrs < fuel)%nat ->
  ser_attrs tab_at tab_en float_fmt attrs = Val text ->
  exists c, attr_loop strict T tab_at tab_en check_fn float_parse fuel ty (skipn 1 text) acc st
            = Val (Ret ([], acc ++ attrs) (set_compat st c)).
Proof.
  induction attrs as [|[name v] rest IH]; intros fuel acc st text F PV L ST.
  - cbn in ST. injection ST as <-. destruct fuel as [|f]; [lia|]. exists (p_compat st). cbn [skipn attr_loop find_byte position].
    rewrite app_nil_r, set_compat_same. reflexivity.
  - inversion F as [|? ? A FR]; subst. destruct A as (nm & cdid & ctype & req & vm & bytes & TS & CN & FB & FA & IV & VO & SC & MF).
    cbn [fst snd] in *. rewrite (ser_attrs_cons _ _ _ _ _ TS SC) in ST.
    destruct (ser_attrs_total ty rest FR) as (r & SR & SHAPE & _). rewrite SR in ST. injection ST as <-.
    destruct fuel as [|f]; [lia|]. cbn [skipn]. cbn [attr_loop].
    destruct (clean_name_props nm CN) as (NE & FN).
    assert (N61 : Forall (fun x => x <> 61) nm) by (eapply Forall_impl; [|exact FN]; cbn; tauto).
    assert (NWS : Forall (fun x => is_ws x = false) nm) by (eapply Forall_impl; [|exact FN]; cbn; tauto).
    change (nm ++ [61; 34] ++ bytes ++ [34] ++ r) with (nm ++ 61 :: 34 :: bytes ++ 34 :: r).
    rewrite (find_byte_hit 61 nm (34 :: bytes ++ 34 :: r) N61).
    assert (LEN : Nat.ltb (List.length (nm ++ 61 :: 34 :: bytes ++ 34 :: r) - List.length nm) 3 = false).
    { apply Nat.ltb_ge. rewrite app_length. cbn [List.length]. rewrite !app_length. cbn [List.length]. lia. }
    rewrite LEN.
    assert (QC : nth (S (List.length nm)) (nm ++ 61 :: 34 :: bytes ++ 34 :: r) 0 = 34).
    { replace (S (List.length nm)) with (List.length nm + 1)%nat by lia. rewrite nth_app_plus. reflexivity. }
    rewrite QC. cbn [N.eqb Pos.eqb negb andb].
    rewrite (skipn_app_plus nm (61 :: 34 :: bytes ++ 34 :: r) 2).
    change (skipn 2 (61 :: 34 :: bytes ++ 34 :: r)) with (bytes ++ 34 :: r).
    rewrite (find_byte_hit 34 bytes r (markup_free_no_quote _ MF)).
    rewrite firstn_app_exact, firstn_app_exact.
    unfold name_of. rewrite FB. change (mbind (lift (Val (Some name))) ?k) with (k (Some name)). cbv beta iota.
    rewrite FA. change (mbind (lift (Val (Some (cdid, ctype, req, vm)))) ?k) with (k (Some (cdid, ctype, req, vm))). cbv beta iota.
    (* check_version and the value *)
    destruct (value_roundtrip strict tab_en check_fn float_fmt float_parse ver ctype v
                (set_compat st (N.land (p_compat st) vm)) VO ltac:(cbn; exact PV)) as (bytes' & c1 & SC' & PC).
    rewrite SC in SC'. injection SC' as <-.
    assert (STEP : forall (k : list (N * cdata) -> M (list N * list (N * cdata))),
      mbind (mbind get (fun st0 => mbind (check_version strict vm AttributeVersionError (p_cur st0) name)
               (fun _ => mbind (parse_character_data strict tab_en check_fn float_parse bytes ctype)
                  (fun v0 => ret (acc ++ [(name, v0)]))))) k st
      = k (acc ++ [(name, v)]) (set_compat (set_compat st (N.land (p_compat st) vm)) c1)).
    { intros k. rewrite <- PV in IV. apply N.eqb_neq in IV.
      cbv [mbind get check_version modify ret]. cbn [p_version set_compat]. rewrite IV.
      change (parse_character_data strict tab_en check_fn float_parse bytes ctype
                (set_compat st (N.land (p_compat st) vm))) with
             (parse_character_data strict tab_en check_fn float_parse bytes ctype (set_compat st (N.land (p_compat st) vm))).
      rewrite PC. reflexivity. }
    rewrite STEP. clear STEP.
    rewrite (skipn_app_S bytes r 34).
    set (st1 := set_compat (set_compat st (N.land (p_compat st) vm)) c1).
    assert (PV1 : p_version st1 = ver) by (cbn; exact PV).
    assert (SC1 : forall c, set_compat st1 c = set_compat st c) by (intros; reflexivity).
    destruct SHAPE as [->|(r' & ->)].
    + (* last attribute *)
      assert (rest = []).
      { destruct rest as [|[n2 v2] rest2]; [reflexivity|]. inversion FR as [|? ? A2 _]; subst.
        destruct A2 as (nm2 & ? & ? & ? & ? & b2 & TS2 & _ & _ & _ & _ & _ & SC2 & _). cbn [fst snd] in *.
        rewrite (ser_attrs_cons _ _ _ _ _ TS2 SC2) in SR. destruct (ser_attrs _ _ _ rest2); discriminate SR. }
      subst rest. cbn [drop_ws andb negb].
      destruct f as [|f']; [cbn in L; lia|]. cbn [attr_loop find_byte position].
      exists c1. unfold ret. rewrite <- (SC1 c1). unfold st1. reflexivity.
    + (* one blank, then the next attribute *)
      rewrite (drop_ws_cons_ws 32 r' eq_refl).
      assert (HD : exists h t, r' = h :: t /\ is_ws h = false).
      { destruct rest as [|[n2 v2] rest2]; [cbn in SR; discriminate SR|]. inversion FR as [|? ? A2 _]; subst.
        destruct A2 as (nm2 & ? & ? & ? & ? & b2 & TS2 & CN2 & _ & _ & _ & _ & SC2 & _). cbn [fst snd] in *.
        rewrite (ser_attrs_cons _ _ _ _ _ TS2 SC2) in SR. destruct (ser_attrs _ _ _ rest2) as [r2| |]; try discriminate SR.
        injection SR as <-. destruct (clean_name_props nm2 CN2) as (NE2 & FN2). destruct nm2 as [|h t]; [congruence|].
        inversion FN2; subst. exists h, (t ++ [61; 34] ++ b2 ++ [34] ++ r2). split; [reflexivity|tauto]. }
      destruct HD as (h & t & -> & HW). rewrite (drop_ws_head h t HW).
      assert (CND : Nat.eqb (List.length (h :: t)) (List.length (32 :: h :: t)) = false).
      { cbn [List.length]. apply Nat.eqb_neq. lia. }
      cbn [negb andb]. rewrite CND.
      destruct (IH f (acc ++ [(name, v)]) st1 (32 :: h :: t) FR PV1 ltac:(cbn [List.length] in L; lia) SR) as (c2 & E2).
      cbn [skipn] in E2. rewrite E2. exists c2. rewrite SC1, <- app_assoc. reflexivity.
Qed.

Lemma ser_attrs_shape ty attrs text : Forall (AttrOk ty) attrs -> ser_attrs tab_at tab_en float_fmt attrs = Val text ->
  (2 * List.length attrs <= List.length text)%nat /\
  ((attrs = [] /\ text = []) \/ exists h t, text = 32 :: h :: t /\ is_ws h = false).
Proof.
  intros F. revert text. induction F as [|[name v] rest A FR IH]; intros text ST.
  - cbn in ST. injection ST as <-. split; [cbn; lia|left; auto].
  - destruct A as (nm & cdid & ctype & req & vm & bytes & TS & CN & _ & _ & _ & _ & SC & _). cbn [fst snd] in *.
    rewrite (ser_attrs_cons _ _ _ _ _ TS SC) in ST. destruct (ser_attrs tab_at tab_en float_fmt rest) as [r| |]; try discriminate ST.
    injection ST as <-. destruct (IH r eq_refl) as [L _]. split.
    + cbn [List.length]. rewrite app_length. cbn [app List.length]. rewrite app_length. cbn [List.length]. lia.
    + right. destruct (clean_name_props nm CN) as (NE & FN). destruct nm as [|h t]; [congruence|]. inversion FN; subst.
      exists h, (t ++ [61; 34] ++ bytes ++ [34] ++ r). split; [reflexivity|tauto].
Qed.

Lemma req_loop_ok cur attrs specs st :
  (forall name cdid c req, In (name, cdid, c, req) specs -> req <> 0 -> existsb (fun a => fst a =? name) attrs = true) ->
  req_loop strict cur attrs specs st = Val (Ret tt st).
Proof.
  revert st. induction specs as [|[[[name cdid] c] req] specs IH]; intros st H; [reflexivity|]. cbn [req_loop].
  assert (G : negb (req =? 0) && negb (existsb (fun a => fst a =? name) attrs) = false).
  { destruct (req =? 0) eqn:Z; [reflexivity|]. apply N.eqb_neq in Z. rewrite (H name cdid c req (or_introl eq_refl) Z). reflexivity. }
  rewrite G. change (mbind (ret tt) ?k st) with (k tt st). cbv beta. apply IH. intros n2 c2 c3 r2 HIn. apply (H n2 c2 c3 r2). right. exact HIn.
Qed.

(* C01, attributes *)
Theorem attrs_roundtrip ty attrs st : AttrsOk ty attrs -> p_version st = ver ->
  exists text c, ser_attrs tab_at tab_en float_fmt attrs = Val text /\
    parse_attribute_text strict T tab_at tab_en check_fn float_parse ty text st = Val (Ret attrs (set_compat st c)).
Proof.
  intros [F (specs & SL & REQ)] PV. destruct (ser_attrs_total ty attrs F) as (text & ST & _ & _).
  destruct (ser_attrs_shape ty attrs text F ST) as [LEN SHAPE].
  destruct (attr_loop_roundtrip ty attrs (S (List.length text)) [] st text F PV ltac:(lia) ST) as (c & LOOP). cbn [app] in LOOP.
  exists text, c. split; [exact ST|]. unfold parse_attribute_text.
  assert (REM0 : match position (fun c0 => negb (is_ws c0)) text with Some p => skipn p text | None => text end = skipn 1 text).
  { destruct SHAPE as [[_ ->]|(h & t & -> & HW)]; [reflexivity|]. cbn [position is_ws N.eqb Pos.eqb orb negb].
    rewrite HW. reflexivity. }
  rewrite REM0. unfold mbind at 1. rewrite LOOP.
  cbv [mbind get ret]. cbn [negb andb].
  rewrite SL. cbn [lift]. rewrite (req_loop_ok _ _ _ _ REQ). reflexivity.
Qed.

(* the attribute text contains no '>' and, when not empty, ends with the closing quote *)
Lemma ser_attrs_bytes ty attrs text : Forall (AttrOk ty) attrs -> ser_attrs tab_at tab_en float_fmt attrs = Val text ->
  Forall (fun x => x <> 62) text /\ (text <> [] -> last text 0 = 34).
Proof.
  intros F. revert text. induction F as [|[name v] rest A FR IH]; intros text ST.
  - cbn in ST. injection ST as <-. split; [constructor|congruence].
  - destruct A as (nm & cdid & ctype & req & vm & bytes & TS & CN & _ & _ & _ & _ & SC & MF). cbn [fst snd] in *.
    rewrite (ser_attrs_cons _ _ _ _ _ TS SC) in ST. destruct (ser_attrs tab_at tab_en float_fmt rest) as [r| |]; try discriminate ST.
    injection ST as <-. destruct (IH r eq_refl) as [G L]. destruct (clean_name_props nm CN) as (_ & FN). split.
    + constructor; [discriminate|]. apply Forall_app. split; [eapply Forall_impl; [|exact FN]; cbn; tauto|].
      constructor; [discriminate|]. constructor; [discriminate|]. apply Forall_app. split.
      * rewrite forallb_forall in MF. apply Forall_forall. intros x Hx E. subst x. specialize (MF _ Hx). discriminate MF.
      * constructor; [discriminate|exact G].
    + intros _.
      assert (E : 32 :: nm ++ 61 :: 34 :: bytes ++ 34 :: r = (32 :: nm ++ 61 :: 34 :: bytes) ++ (34 :: r)).
      { cbn [app]. f_equal. rewrite <- app_assoc. reflexivity. }
      rewrite E, last_app_ne by discriminate. destruct r as [|r0 r']; [reflexivity|].
      cbn [last]. apply L. discriminate.
Qed.

(* the lexer hands over the attribute text without the blank after the element name *)
Theorem attrs_roundtrip_lexed ty attrs st text : AttrsOk ty attrs -> p_version st = ver ->
  ser_attrs tab_at tab_en float_fmt attrs = Val text ->
  exists c, parse_attribute_text strict T tab_at tab_en check_fn float_parse ty (skipn 1 text) st = Val (Ret attrs (set_compat st c)).
Proof.
  intros [F (specs & SL & REQ)] PV ST.
  destruct (ser_attrs_shape ty attrs text F ST) as [LEN SHAPE].
  assert (FU : (List.length attrs < S (List.length (skipn 1 text)))%nat).
  { destruct SHAPE as [[-> ->]|(h & t & -> & _)]; [cbn; lia|]. cbn [skipn List.length] in *. lia. }
  destruct (attr_loop_roundtrip ty attrs (S (List.length (skipn 1 text))) [] st text F PV FU ST) as (c & LOOP). cbn [app] in LOOP.
  exists c. unfold parse_attribute_text.
  assert (REM0 : match position (fun c0 => negb (is_ws c0)) (skipn 1 text) with Some p => skipn p (skipn 1 text) | None => skipn 1 text end
                 = skipn 1 text).
  { destruct SHAPE as [[_ ->]|(h & t & -> & HW)]; [reflexivity|]. cbn [skipn position]. rewrite HW. reflexivity. }
  rewrite REM0. unfold mbind at 1. rewrite LOOP.
  cbv [mbind get ret]. cbn [negb andb].
  rewrite SL. cbn [lift]. rewrite (req_loop_ok _ _ _ _ REQ). reflexivity.
Qed.

End Attrs.
