(* Xml/Funnel.v — the relational ("simulation") theory of the funnel monad of Xml/Parser.v, proved ONCE for the
   combinators.  A program of the monad is a function  m : bool -> M A  of the flag `strict`.

     agree m  :=  for every start state st (the same for both runs), the lenient run  m false st  and the strict
                  run  m true st  are "identical up to the first recoverable finding":
       lenient Ret a st'  and no warning was added   ->  strict = Ret a st'        (same value, same state)
       lenient Ret a st'  and warnings ws were added ->  strict = Raise (oldest of ws)
       lenient Raise e st' after adding ws           ->  strict = Raise (oldest of ws, or e when ws is empty)
       lenient Pan / Fuel                            ->  strict = the same, or strict stopped earlier with a Raise
     and the lenient run only ever pushes warnings on top of the list (newest first).

   The relation is closed under ret / mbind / get / modify (of a function that keeps the warning list) / lift / hard /
   mpanic / mfuel / pnext / optional_error, under case analysis on data, and — by induction on the fuel — under
   fixpoints.  `strict` is read and the warning list is written by `optional_error` only: every other primitive
   is handled through `wpres` (it does not depend on the flag and leaves the warning list alone).
   Adding a function to the parser needs one lemma:  Proof. unfold f. agree_tac. Qed.                         *)
From AV Require Import Base.Bytes Base.Outcome Xml.Lexer Xml.Parser.
Open Scope list_scope.

(* warnings are stored newest first: the oldest one is the last element *)
Fixpoint oldest (ws : list perror) : option perror :=
  match ws with
  | [] => None
  | w :: ws' => match oldest ws' with Some o => Some o | None => Some w end
  end.

Lemma oldest_app a b : oldest (a ++ b) = match oldest b with Some w => Some w | None => oldest a end.
Proof.
  induction a as [|x a IH]; cbn [app oldest].
  - destruct (oldest b); reflexivity.
  - rewrite IH. destruct (oldest b); [reflexivity|]. reflexivity.
Qed.

Lemma oldest_None ws : oldest ws = None -> ws = [].
Proof. destruct ws as [|w ws]; [reflexivity|]. cbn [oldest]. destruct (oldest ws); discriminate. Qed.

Lemma oldest_last ws w d : oldest ws = Some w -> last ws d = w.
Proof.
  induction ws as [|x ws IH]; cbn [oldest]; [discriminate|].
  destruct (oldest ws) as [o|] eqn:E.
  - intros [= <-]. destruct ws; [discriminate|]. cbn [last]. apply IH. reflexivity.
  - intros [= <-]. apply oldest_None in E. subst ws. reflexivity.
Qed.

Definition or_else (o : option perror) (e : perror) : perror := match o with Some w => w | None => e end.

(* what the strict run must be, given what the lenient run did *)
Definition agree_at {A} (lenient strict : res (step A)) (st : pstate) : Prop :=
  match lenient with
  | Val (Ret a st') =>
      exists ws, p_warnings st' = ws ++ p_warnings st /\
        match oldest ws with
        | None => strict = Val (Ret a st')
        | Some w => exists sx, strict = Val (Raise w sx)
        end
  | Val (Raise e st') =>
      exists ws, p_warnings st' = ws ++ p_warnings st /\
        exists sx, strict = Val (Raise (or_else (oldest ws) e) sx) /\ (oldest ws = None -> sx = st')
  | Pan s => strict = Pan s \/ exists w sx, strict = Val (Raise w sx)
  | Fuel => strict = Fuel \/ exists w sx, strict = Val (Raise w sx)
  end.

Definition agree {A} (m : bool -> M A) : Prop := forall st, agree_at (m false st) (m true st) st.

(* a primitive that does not look at the flag and keeps the warning list *)
Definition wpres {A} (m : M A) : Prop :=
  forall st, match m st with
             | Val (Ret _ st') => p_warnings st' = p_warnings st
             | Val (Raise _ st') => p_warnings st' = p_warnings st
             | _ => True
             end.

Lemma agree_const {A} (m : M A) : wpres m -> agree (fun _ => m).
Proof.
  intros H st. specialize (H st). unfold agree_at.
  destruct (m st) as [[a st'|e st']| |]; [| |left; reflexivity|left; reflexivity].
  - exists []. split; [exact H|]. reflexivity.
  - exists []. split; [exact H|]. exists st'. split; [reflexivity|reflexivity].
Qed.

Lemma wpres_ret {A} (a : A) : wpres (ret a).                       Proof. intros st; reflexivity. Qed.
Lemma wpres_get : wpres get.                                        Proof. intros st; reflexivity. Qed.
Lemma wpres_lift {A} (r : res A) : wpres (lift r).                  Proof. intros st; destruct r; cbn; auto. Qed.
Lemma wpres_mpanic {A} s : wpres (@mpanic A s).                     Proof. intros st; exact I. Qed.
Lemma wpres_mfuel {A} : wpres (@mfuel A).                           Proof. intros st; exact I. Qed.
Lemma wpres_hard {A} k e i : wpres (@hard A k e i).                 Proof. intros st; reflexivity. Qed.
Lemma wpres_modify f : (forall st, p_warnings (f st) = p_warnings st) -> wpres (modify f).
Proof. intros H st; cbn. apply H. Qed.
Lemma wpres_pnext : wpres pnext.
Proof. intros st; unfold pnext. destruct (next (p_lex st)) as [[line ev l'|line e]| |]; cbn; auto. Qed.

Lemma agree_ret {A} (a : A) : agree (fun _ => ret a).               Proof. apply agree_const, wpres_ret. Qed.
Lemma agree_get : agree (fun _ => get).                             Proof. apply agree_const, wpres_get. Qed.
Lemma agree_lift {A} (r : res A) : agree (fun _ => lift r).         Proof. apply agree_const, wpres_lift. Qed.
Lemma agree_mpanic {A} s : agree (fun _ => @mpanic A s).            Proof. apply agree_const, wpres_mpanic. Qed.
Lemma agree_mfuel {A} : agree (fun _ => @mfuel A).                  Proof. apply agree_const, wpres_mfuel. Qed.
Lemma agree_hard {A} k e i : agree (fun _ => @hard A k e i).        Proof. apply agree_const, wpres_hard. Qed.
Lemma agree_pnext : agree (fun _ => pnext).                         Proof. apply agree_const, wpres_pnext. Qed.
Lemma agree_modify f : (forall st, p_warnings (f st) = p_warnings st) -> agree (fun _ => modify f).
Proof. intros H. apply agree_const, wpres_modify, H. Qed.

(* THE funnel *)
Lemma agree_optional_error k e i : agree (fun s => optional_error s k e i).
Proof.
  intros st. unfold agree_at, optional_error.
  exists [ErrParse (p_line st) k e i]. split; [reflexivity|]. cbn [oldest]. exists st. reflexivity.
Qed.

Lemma agree_bind {A B} (m : bool -> M A) (f : bool -> A -> M B) :
  agree m -> (forall a, agree (fun s => f s a)) -> agree (fun s => mbind (m s) (f s)).
Proof.
  intros Hm Hf st. specialize (Hm st). unfold agree_at in Hm. unfold mbind.
  destruct (m false st) as [[a st1|e st1]| |].
  - destruct Hm as (ws1 & W1 & Hm). destruct (oldest ws1) as [w|] eqn:O1.
    + destruct Hm as (sx & ->). specialize (Hf a st1). unfold agree_at in *.
      destruct (f false a st1) as [[b st2|e2 st2]| |].
      * destruct Hf as (ws2 & W2 & _). exists (ws2 ++ ws1). split; [rewrite W2, W1, app_assoc; reflexivity|].
        rewrite oldest_app, O1. eauto.
      * destruct Hf as (ws2 & W2 & _). exists (ws2 ++ ws1). split; [rewrite W2, W1, app_assoc; reflexivity|].
        rewrite oldest_app, O1. exists sx. split; [reflexivity|discriminate].
      * right; eauto.
      * right; eauto.
    + rewrite Hm. apply oldest_None in O1. subst ws1. cbn [app] in W1.
      specialize (Hf a st1). unfold agree_at in *. rewrite W1 in Hf. exact Hf.
  - destruct Hm as (ws & W & sx & -> & E). unfold agree_at. exists ws. split; [exact W|]. exists sx. split; [reflexivity|exact E].
  - unfold agree_at. destruct Hm as [->|(w & sx & ->)]; [left; reflexivity|right; eauto].
  - unfold agree_at. destruct Hm as [->|(w & sx & ->)]; [left; reflexivity|right; eauto].
Qed.

(* verify_end_of_input is written directly on the state (it calls the lexer itself, then the funnel) *)
Lemma agree_verify_end_of_input : agree (fun s => verify_end_of_input s).
Proof.
  intros st. unfold verify_end_of_input.
  destruct (next (p_lex st)) as [[line ev l'|line e]| |].
  - destruct ev; try (exact (agree_optional_error AdditionalDataError 0 0 (set_lex st l'))).
    unfold agree_at. exists []. split; reflexivity.
  - unfold agree_at. exists []. split; [reflexivity|]. exists st. split; reflexivity.
  - left; reflexivity.
  - left; reflexivity.
Qed.

(* ---- the structural tactic ---- *)
Lemma agree_ext {A} (m m' : bool -> M A) : (forall s st, m s st = m' s st) -> agree m' -> agree m.
Proof. intros E H st. rewrite !E. apply H. Qed.

Create HintDb agree discriminated.
#[export] Hint Resolve agree_ret agree_get agree_lift agree_mpanic agree_mfuel agree_hard agree_pnext
  agree_optional_error agree_verify_end_of_input : agree.

Ltac agree_modify_tac := apply agree_modify; intros; reflexivity.

Ltac agree_step :=
  lazymatch goal with
  | |- agree (fun s => mbind (@?m s) (@?f s)) => apply (agree_bind m f); [cbv beta | cbv beta; intros]
  | |- agree (fun _ => modify _) => agree_modify_tac
  | |- agree (fun s => match ?x with _ => _ end) => destruct x
  | |- _ => solve [auto with agree]
  end.
Ltac agree_tac := cbv beta; repeat agree_step.

(* ---- consequences for a whole program, started without warnings ---- *)
Section Whole.
Context {A : Type} (m : bool -> M A) (H : agree m) (st : pstate) (W0 : p_warnings st = []).

Lemma agree_ok_clean a st' :
  m false st = Val (Ret a st') -> p_warnings st' = [] -> m true st = Val (Ret a st').
Proof.
  intros E W. specialize (H st). unfold agree_at in H. rewrite E in H. destruct H as (ws & Hw & Hs).
  rewrite W0, app_nil_r in Hw. rewrite W in Hw. subst ws. exact Hs.
Qed.

Lemma agree_ok_warned a st' w ws :
  m false st = Val (Ret a st') -> p_warnings st' = ws ++ [w] -> exists sx, m true st = Val (Raise w sx).
Proof.
  intros E W. specialize (H st). unfold agree_at in H. rewrite E in H. destruct H as (ws' & Hw & Hs).
  rewrite W0, app_nil_r in Hw. rewrite W in Hw. subst ws'.
  rewrite oldest_app in Hs. cbn [oldest] in Hs. exact Hs.
Qed.

Lemma agree_err e st' :
  m false st = Val (Raise e st') ->
  exists sx, m true st = Val (Raise (last (p_warnings st') e) sx).
Proof.
  intros E. specialize (H st). unfold agree_at in H. rewrite E in H. destruct H as (ws & Hw & sx & Hs & _).
  rewrite W0, app_nil_r in Hw. rewrite Hw. exists sx. rewrite Hs. f_equal. f_equal.
  destruct (oldest ws) as [w|] eqn:O; cbn [or_else].
  - symmetry. apply oldest_last. exact O.
  - apply oldest_None in O. rewrite O. reflexivity.
Qed.

Lemma agree_strict_ok a st' :
  m true st = Val (Ret a st') -> m false st = Val (Ret a st') /\ p_warnings st' = [].
Proof.
  intros E. specialize (H st). unfold agree_at in H. rewrite E in H.
  destruct (m false st) as [[a2 st2|e2 st2]| |].
  - destruct H as (ws & Hw & Hs). destruct (oldest ws) eqn:O.
    + destruct Hs as (sx & Hs). discriminate.
    + injection Hs as <- <-. apply oldest_None in O. subst ws. rewrite W0 in Hw. auto.
  - destruct H as (ws & Hw & sx & Hs & _). discriminate.
  - destruct H as [H1|(w & sx & H1)]; discriminate.
  - destruct H as [H1|(w & sx & H1)]; discriminate.
Qed.
End Whole.
