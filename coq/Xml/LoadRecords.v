(* Xml/LoadRecords.v — what the loader records in `identifiables` and `references` (parser.rs: ArxmlParser::identifiables,
   ::references; model: p_idents / p_refs, newest first), as functions of the RETURNED TREE, for every table set, name
   table, validator, both modes and every byte string; no hypothesis.
     pidents T path pos t : the entries in the order the parser makes them.  An entry is made at a SHORT-NAME
       sub-element that is the FIRST content item (fix of the late SHORT-NAME defect: before, at any child position) and
       whose first content item is a text: (path ++ "/" ++ text, position of the PARENT); the following siblings are parsed
       under the extended path; a SHORT-NAME without text (<SHORT-NAME/>) makes no entry and leaves the path as it is; a
       SHORT-NAME at a later position is an ordinary sub-element.
     prefs T pos t : one entry (text, position) per text item of an element whose type is the reference type.
   Theorem load_records: load s .. bs = Ret t st -> p_idents st = rev (pidents T [] [] t) /\ p_refs st = rev (prefs T [] t).
   Also `linked t`: every sub-element was found by find_sub_element in its parent's type under its own name with the type it
   carries (so an element whose type has an empty sub-element range has no sub-elements: linked_leaf). *)
From Coq Require Import Arith Lia.
From AV Require Import Base.Bytes Base.Outcome Base.Utf8 Hash.HashModel Spec.SpecTypes Spec.SpecOps Spec.Versions
  Xml.Lexer Xml.Parser Xml.TablesOk Xml.Funnel Xml.ParserCheck Xml.ParserDepth Xml.StrictValidDef.
Open Scope list_scope.
Open Scope N_scope.

(* ---------- programs that leave the two lists alone ---------- *)
Definition ipres {A} (m : M A) : Prop :=
  forall st, match m st with
             | Val (Ret _ st') => p_idents st' = p_idents st /\ p_refs st' = p_refs st
             | Val (Raise _ st') => p_idents st' = p_idents st /\ p_refs st' = p_refs st
             | _ => True
             end.

Lemma ipres_ret {A} (a : A) : ipres (ret a).                  Proof. intros st; split; reflexivity. Qed.
Lemma ipres_get : ipres get.                                   Proof. intros st; split; reflexivity. Qed.
Lemma ipres_lift {A} (r : res A) : ipres (lift r).             Proof. intros st; destruct r; cbn; auto. Qed.
Lemma ipres_mpanic {A} s : ipres (@mpanic A s).                Proof. intros st; exact I. Qed.
Lemma ipres_mfuel {A} : ipres (@mfuel A).                      Proof. intros st; exact I. Qed.
Lemma ipres_hard {A} k e i : ipres (@hard A k e i).            Proof. intros st; split; reflexivity. Qed.
Lemma ipres_optional_error s k e i : ipres (optional_error s k e i).
Proof. intros st; unfold optional_error; destruct s; split; reflexivity. Qed.
Lemma ipres_pnext : ipres pnext.
Proof. intros st; unfold pnext. destruct (next (p_lex st)) as [[line ev l'|line e]| |]; cbn; auto. Qed.
Lemma ipres_modify f : (forall st, p_idents (f st) = p_idents st /\ p_refs (f st) = p_refs st) -> ipres (modify f).
Proof. intros H st; cbn. apply H. Qed.
Lemma ipres_bind {A B} (m : M A) (f : A -> M B) : ipres m -> (forall a, ipres (f a)) -> ipres (mbind m f).
Proof.
  intros Hm Hf st. specialize (Hm st). unfold mbind. destruct (m st) as [[a st1|e st1]| |]; auto.
  specialize (Hf a st1). destruct (f a st1) as [[b st2|e st2]| |]; auto; destruct Hm, Hf; split; congruence.
Qed.
Lemma ipres_inv {A} (m : M A) st a st' : ipres m -> m st = Val (Ret a st') -> p_idents st' = p_idents st /\ p_refs st' = p_refs st.
Proof. intros H E. specialize (H st). rewrite E in H. exact H. Qed.

Create HintDb ip discriminated.
#[export] Hint Resolve ipres_ret ipres_get ipres_lift ipres_mpanic ipres_mfuel ipres_hard ipres_optional_error ipres_pnext : ip.

Ltac ip_step :=
  lazymatch goal with
  | |- ipres (mbind _ _) => apply ipres_bind; [|intros]
  | |- ipres (modify _) => apply ipres_modify; intros; split; reflexivity
  | |- ipres (match ?x with _ => _ end) => destruct x
  | |- _ => solve [auto with ip]
  end.
Ltac ip_tac := repeat ip_step.

(* ---------- the two lists as functions of the tree ---------- *)
Definition entry : Type := list N * list nat.

Section Records.
Variable T : tables.

Definition pid_go (pid : list N -> list nat -> etree -> list entry) (pos : list nat) :=
  fix go (k : nat) (path : list N) (l : list (etree + cdata)) {struct l} : list entry :=
    match l with
    | [] => []
    | inl c :: r =>
      pid path (k :: pos) c ++
      (if (e_name c =? name_short_name T) && Nat.eqb k O then
         match first_string c with
         | Some nm => (path ++ [47] ++ nm, rev pos) :: go (S k) (path ++ [47] ++ nm) r
         | None => go (S k) path r
         end
       else go (S k) path r)
    | inr _ :: r => go (S k) path r
    end.

Fixpoint pidents (path : list N) (pos : list nat) (e : etree) {struct e} : list entry :=
  match e with ENode _ _ _ content _ => pid_go pidents pos O path content end.

Definition pref_go (pr : list nat -> etree -> list entry) (isr : bool) (pos : list nat) :=
  fix go (k : nat) (l : list (etree + cdata)) {struct l} : list entry :=
    match l with
    | [] => []
    | inl c :: r => pr (k :: pos) c ++ go (S k) r
    | inr (DString s) :: r => (if isr then [(s, rev pos)] else []) ++ go (S k) r
    | inr _ :: r => go (S k) r
    end.

Definition is_ref_b (ty : etype) : bool := match is_ref T ty with Val b => b | _ => false end.

Fixpoint prefs (pos : list nat) (e : etree) {struct e} : list entry :=
  match e with ENode _ ty _ content _ => pref_go prefs (is_ref_b ty) pos O content end.

Lemma pidents_node path pos n ty a content cm : pidents path pos (ENode n ty a content cm) = pid_go pidents pos O path content.
Proof. reflexivity. Qed.
Lemma prefs_node pos n ty a content cm : prefs pos (ENode n ty a content cm) = pref_go prefs (is_ref_b ty) pos O content.
Proof. reflexivity. Qed.

(* every sub-element was found in its parent's type under its name, with the type it carries, hereditarily *)
Definition found_in (ty : etype) (c : etree) : Prop :=
  exists v idx, find_sub_element T ty (e_name c) v = Val (Some (e_type c, idx)).
Inductive linked : etree -> Prop :=
| linked_node n ty a content cm :
    (forall c, In (inl c) content -> found_in ty c) -> (forall c, In (inl c) content -> linked c) ->
    linked (ENode n ty a content cm).

(* an element whose type has no sub-element range has no sub-elements *)
Definition leaf_type (ty : etype) : bool :=
  match dt T (snd ty) with Val d => dt_sub_start d =? dt_sub_end d | _ => false end.

Variable tab_el tab_at tab_en : nametab.
Variable check_fn : N -> list N -> res bool.
Variable float_parse : list N -> option N.
Variable s : bool.
Notation PL := (pe_loop s T tab_el tab_at tab_en check_fn float_parse).
Notation PE := (parse_element s T tab_el tab_at tab_en check_fn float_parse).

(* ----- every function used while parsing, except the two `modify`s of pe_loop, leaves the lists alone ----- *)
Lemma ip_check_version v k e i : ipres (check_version s v k e i).
Proof. unfold check_version. ip_tac. Qed.
Hint Resolve ip_check_version : ip.
Lemma ip_unescape_loop fuel : forall rem acc, ipres (unescape_loop s fuel rem acc).
Proof.
  induction fuel as [|f IH]; intros rem acc; cbn [unescape_loop]; [auto with ip|].
  assert (Inv : forall r a, ipres (mbind (optional_error s InvalidXmlEntity 0 0) (fun _ => unescape_loop s f r a))).
  { intros. ip_tac. }
  destruct (find_byte 38 rem) as [pos|]; [|auto with ip].
  repeat lazymatch goal with
  | |- ipres (if ?c then _ else _) => destruct c
  | |- ipres (match ?x with _ => _ end) => destruct x
  | |- ipres (unescape_loop s f _ _) => apply IH
  | |- _ => apply Inv
  end.
Qed.
Lemma ip_unescape_string input : ipres (unescape_string s input).
Proof. unfold unescape_string. destruct (find_byte 38 input); [apply ip_unescape_loop|auto with ip]. Qed.
Hint Resolve ip_unescape_string : ip.
Lemma ip_pcd input spec : ipres (parse_character_data s tab_en check_fn float_parse input spec).
Proof. unfold parse_character_data. ip_tac. Qed.
Hint Resolve ip_pcd : ip.
Lemma ip_attr_loop fuel ty : forall rem attrs, ipres (attr_loop s T tab_at tab_en check_fn float_parse fuel ty rem attrs).
Proof. induction fuel as [|f IH]; intros rem attrs; cbn [attr_loop]; [auto with ip|]. ip_tac. Qed.
Hint Resolve ip_attr_loop : ip.
Lemma ip_req_loop cur attrs l : ipres (req_loop s cur attrs l).
Proof. induction l as [|[[[name c1] c2] required] l IH]; cbn [req_loop]; [auto with ip|]. ip_tac. Qed.
Hint Resolve ip_req_loop : ip.
Lemma ip_pat ty text : ipres (parse_attribute_text s T tab_at tab_en check_fn float_parse ty text).
Proof. unfold parse_attribute_text. ip_tac. Qed.
Lemma ip_find_elem name ty : ipres (find_element_in_spec_checked s T name ty).
Proof. unfold find_element_in_spec_checked. ip_tac. Qed.
Lemma ip_conflict name ty old new : ipres (check_element_conflict s T name ty old new).
Proof. unfold check_element_conflict. ip_tac. Qed.
Lemma ip_mult name ty idx content : ipres (check_multiplicity s T name ty idx content).
Proof. unfold check_multiplicity. ip_tac. Qed.
Lemma ip_verify_end : ipres (verify_end_of_input s).
Proof.
  intros st. unfold verify_end_of_input. destruct (next (p_lex st)) as [[line ev l'|line e]| |]; cbn; auto.
  destruct ev; try (apply (ipres_optional_error s AdditionalDataError 0 0 (set_lex st l'))). split; reflexivity.
Qed.
Lemma ip_skip_comments fuel : forall stored tok, ipres (skip_comments fuel stored tok).
Proof. induction fuel as [|f IH]; intros stored tok; cbn [skip_comments]; [auto with ip|]. ip_tac. Qed.
Lemma ip_pfv schema : ipres (parse_file_version s schema).
Proof. unfold parse_file_version, ver_or_panic. cbv zeta. ip_tac. Qed.
Hint Resolve ip_pfv : ip.
Lemma ip_pfh attrs : ipres (parse_file_header s tab_at attrs).
Proof. unfold parse_file_header, attr_id. ip_tac. Qed.


(* ----- a leaf type finds no sub-element ----- *)
Lemma leaf_no_sub ty name ver x : leaf_type ty = true -> find_sub_element T ty name ver = Val (Some x) -> False.
Proof.
  unfold leaf_type, find_sub_element. change FUEL with (S 23). rewrite find_sub_S. unfold sub_slice.
  destruct (dt T (snd ty)) as [d| |]; try discriminate. cbn [bind]. intros L. apply N.eqb_eq in L.
  destruct (slice_chk "SUBELEMENTS[a..b]" (dt_sub_start d) (dt_sub_end d) (n_subelements T)); try discriminate. cbn [bind].
  rewrite L, N.sub_diag. cbn. discriminate.
Qed.

Lemma find_elem_found name ty st r st' : find_element_in_spec_checked s T name ty st = Val (Ret r st') ->
  exists v, find_sub_element T ty name v = Val (Some r).
Proof.
  intros H. unfold find_element_in_spec_checked in H.
  inv H as g s1 E1. injection E1 as <- <-. inv H as r1 s2 E2. apply lift_ret_inv in E2 as [F1 ->].
  destruct r1 as [x|]; [injection H as <- _; eauto|].
  inv H as r2 s3 E3. apply lift_ret_inv in E3 as [F2 ->]. destruct r2 as [[sub idx]|]; [|discriminate H].
  inv H as vm s4 E4. destruct vm as [mask|]; [|discriminate H]. inv H as u5 s5 E5. injection H as <- _. eauto.
Qed.

Lemma linked_leaf n ty a content cm : linked (ENode n ty a content cm) -> leaf_type ty = true -> forall c, ~ In (inl c) content.
Proof.
  intros L LT c I. inversion L as [n0 ty0 a0 c0 cm0 H H2]; subst. destruct (H c I) as (v & idx & F). exact (leaf_no_sub _ _ _ _ LT F).
Qed.

(* ----- the loop ----- *)
Definition recT := N -> etype -> list (N * cdata) -> option (list N) -> list N -> list nat -> M etree.

Definition rec_ok (rec : recT) : Prop :=
  forall n ty a c p ps st sub st', rec n ty a c p ps st = Val (Ret sub st') ->
    p_idents st' = rev (pidents p ps sub) ++ p_idents st /\ p_refs st' = rev (prefs ps sub) ++ p_refs st /\ linked sub /\
    e_name sub = n /\ e_type sub = ty.

Lemma rev_app_acc {A} (a b x : list A) : rev (a ++ b) ++ x = rev b ++ rev a ++ x.
Proof. rewrite rev_app_distr, <- app_assoc. reflexivity. Qed.

Lemma len_snoc {A} (l : list A) x : List.length (l ++ [x]) = S (List.length l).
Proof. rewrite app_length. cbn. lia. Qed.

Lemma pe_loop_records (rec : recT) : rec_ok rec ->
  forall k name ty attrs comment pos content elem_idx snf stored path st t st',
  PL rec k name ty attrs comment pos content elem_idx snf stored path st = Val (Ret t st') ->
  exists more, t = ENode name ty attrs (content ++ more) comment /\
    p_idents st' = rev (pid_go pidents pos (List.length content) path more) ++ p_idents st /\
    p_refs st' = rev (pref_go prefs (is_ref_b ty) pos (List.length content) more) ++ p_refs st /\
    (forall c, In (inl c) more -> found_in ty c /\ linked c).
Proof.
  intros HR. induction k as [|k IH]; intros name ty attrs comment pos content elem_idx snf stored path st t st' H;
    [discriminate H|].
  cbn [pe_loop] in H.
  inv H as u1 s1 E1. injection E1 as _ <-. inv H as ev s2 E2.
  destruct (ipres_inv _ _ _ _ ipres_pnext E2) as [I2 R2]. cbn [p_idents p_refs set_cur] in I2, R2.
  assert (SKIP : forall (m : M unit) cont u sx, ipres m -> m s2 = Val (Ret u sx) ->
            PL rec k name ty attrs comment pos content elem_idx snf cont path sx = Val (Ret t st') ->
            exists more, t = ENode name ty attrs (content ++ more) comment /\
              p_idents st' = rev (pid_go pidents pos (List.length content) path more) ++ p_idents st /\
              p_refs st' = rev (pref_go prefs (is_ref_b ty) pos (List.length content) more) ++ p_refs st /\
              (forall c, In (inl c) more -> found_in ty c /\ linked c)).
  { intros m cont u sx IP EM HH. destruct (ipres_inv _ _ _ _ IP EM) as [Ix Rx].
    destruct (IH _ _ _ _ _ _ _ _ _ _ _ _ _ HH) as (more & -> & ID & RF & LC). exists more.
    rewrite ID, RF, Ix, Rx, I2, R2. auto. }
  destruct ev as [sa|elem_text attr_text|elem_text|text|c|].
  - inv H as u3 s3 E3. exact (SKIP _ _ _ _ (ipres_optional_error _ _ _ _) E3 H).
  - inv H as nm s3 E3. apply lift_ret_inv in E3 as [_ ->]. destruct nm as [sub_name|]; [|discriminate H].
    inv H as r s4 E4. destruct r as [sub_ty idx']. destruct (find_elem_found _ _ _ _ _ E4) as (fv & FOUND).
    destruct (ipres_inv _ _ _ _ (ip_find_elem _ _) E4) as [I4 R4].
    inv H as u5 s5 E5. destruct (ipres_inv _ _ _ _ (ip_conflict _ _ _ _) E5) as [I5 R5].
    inv H as u6 s6 E6.
    assert (IR6 : p_idents s6 = p_idents s5 /\ p_refs s6 = p_refs s5).
    { destruct content; [injection E6 as _ <-; auto|exact (ipres_inv _ _ _ _ (ip_mult _ _ _ _) E6)]. }
    destruct IR6 as [I6 R6].
    inv H as sub_attrs s7 E7. destruct (ipres_inv _ _ _ _ (ip_pat _ _) E7) as [I7 R7].
    inv H as sub s8 E8. destruct (HR _ _ _ _ _ _ _ _ _ E8) as (I8 & R8 & L8 & N8 & T8).
    assert (BASE : p_idents s8 = rev (pidents path (List.length content :: pos) sub) ++ p_idents st /\
                   p_refs s8 = rev (prefs (List.length content :: pos) sub) ++ p_refs st).
    { rewrite I8, R8, I7, R7, I6, R6, I5, R5, I4, R4, I2, R2. auto. }
    destruct BASE as [B1 B2].
    assert (FIN : forall path' extra sx snf',
              p_idents sx = extra ++ p_idents s8 -> p_refs sx = p_refs s8 ->
              (forall r, pid_go pidents pos (List.length content) path (inl sub :: r) =
                         pidents path (List.length content :: pos) sub ++ rev extra ++ pid_go pidents pos (S (List.length content)) path' r) ->
              PL rec k name ty attrs comment pos (content ++ [inl sub]) idx' snf' None path' sx = Val (Ret t st') ->
              exists more, t = ENode name ty attrs (content ++ more) comment /\
                p_idents st' = rev (pid_go pidents pos (List.length content) path more) ++ p_idents st /\
                p_refs st' = rev (pref_go prefs (is_ref_b ty) pos (List.length content) more) ++ p_refs st /\
                (forall c, In (inl c) more -> found_in ty c /\ linked c)).
    { intros path' extra sx snf' IX RX GO HH.
      destruct (IH _ _ _ _ _ _ _ _ _ _ _ _ _ HH) as (more & -> & ID & RF & LC). rewrite len_snoc in ID, RF.
      exists (inl sub :: more). split; [rewrite <- app_assoc; reflexivity|]. split; [|split].
      - rewrite ID, IX, B1, GO. rewrite !rev_app_acc, rev_involutive. reflexivity.
      - rewrite RF, RX, B2. cbn [pref_go]. rewrite rev_app_acc. reflexivity.
      - intros c [E|I]; [injection E as <-; split; [exists fv, idx'; rewrite N8, T8; exact FOUND|exact L8]|exact (LC c I)]. }
    rewrite <- N8 in H.
    assert (EMP : match content with [] => true | _ :: _ => false end = Nat.eqb (List.length content) O) by (destruct content; reflexivity).
    rewrite EMP in H.
    destruct ((e_name sub =? name_short_name T) && Nat.eqb (List.length content) O) eqn:SN.
    + destruct (first_string sub) as [nm|] eqn:FS.
      * inv H as u9 s9 E9. injection E9 as _ <-.
        refine (FIN (path ++ [47] ++ nm) [(path ++ [47] ++ nm, rev pos)] _ true _ _ _ H); [reflexivity|reflexivity|].
        intros r. cbn [pid_go]. rewrite SN, FS. reflexivity.
      * refine (FIN path [] _ true _ _ _ H); [reflexivity|reflexivity|]. intros r. cbn [pid_go]. rewrite SN, FS. reflexivity.
    + refine (FIN path [] _ snf _ _ _ H); [reflexivity|reflexivity|]. intros r. cbn [pid_go]. rewrite SN. reflexivity.
  - inv H as nm s3 E3. apply lift_ret_inv in E3 as [_ ->]. destruct nm as [n|]; [|discriminate H]. destruct (n =? name); [|discriminate H].
    assert (IP : ipres (mbind get (fun st0 => mbind (lift (is_named_in_version T ty (p_version st0))) (fun named =>
                   mbind (if negb snf && named then optional_error s RequiredSubelementMissing name (name_short_name T) else ret tt)
                     (fun _ => ret (ENode name ty attrs content comment)))))) by ip_tac.
    destruct (ipres_inv _ _ _ _ IP H) as [IE RE].
    inv H as g1 s4 E4. inv H as named s5 E5. inv H as u6 s6 E6. injection H as <- _.
    exists []. rewrite app_nil_r. cbn [pid_go pref_go rev app]. rewrite IE, RE, I2, R2. split; [reflexivity|]. split; [reflexivity|]. split; [reflexivity|intros c []].
  - inv H as spec s3 E3. apply lift_ret_inv in E3 as [_ ->]. destruct spec as [cs|].
    + inv H as mode sm Em. apply lift_ret_inv in Em as [_ ->].
      destruct ((mode =? MCharacters) && negb match content with [] => true | _ :: _ => false end).
      { inv H as ux sx Ex. exact (SKIP _ _ _ _ (ipres_optional_error _ _ _ _) Ex H). }
      inv H as value s4 E4. destruct (ipres_inv _ _ _ _ (ip_pcd _ _) E4) as [I4 R4].
      inv H as isr s5 E5. apply lift_ret_inv in E5 as [IS ->]. inv H as u6 s6 E6.
      assert (ISB : is_ref_b ty = isr) by (unfold is_ref_b; rewrite IS; reflexivity).
      assert (ST6 : p_idents s6 = p_idents s4 /\
                    (forall r, rev (pref_go prefs (is_ref_b ty) pos (List.length content) (inr value :: r)) ++ p_refs s4 =
                               rev (pref_go prefs (is_ref_b ty) pos (S (List.length content)) r) ++ p_refs s6)).
      { rewrite ISB. destruct value as [item|refpath|n|b]; try (injection E6 as _ <-; split; [reflexivity|intros r; reflexivity]).
        destruct isr; injection E6 as _ <-; (split; [reflexivity|]); intros r; cbn [pref_go p_refs add_ref].
        - rewrite rev_app_acc. reflexivity.
        - reflexivity. }
      destruct ST6 as [I6 R6].
      destruct (IH _ _ _ _ _ _ _ _ _ _ _ _ _ H) as (more & -> & ID & RF & LC). rewrite len_snoc in ID, RF.
      exists (inr value :: more). split; [rewrite <- app_assoc; reflexivity|]. split; [|split].
      * rewrite ID, I6, I4, I2. reflexivity.
      * rewrite RF, <- R6, R4, R2. reflexivity.
      * intros c [E|I]; [discriminate E|exact (LC c I)].
    + inv H as u4 s4 E4. exact (SKIP _ _ _ _ (ipres_optional_error _ _ _ _) E4 H).
  - exact (SKIP (ret tt) _ tt s2 (ipres_ret tt) eq_refl H).
  - discriminate H.
Qed.

Lemma parse_element_records fuel lfuel : rec_ok (PE fuel lfuel).
Proof.
  induction fuel as [|f IH]; intros n ty a c p ps st sub st' H; [discriminate H|]. cbn [parse_element] in H.
  destruct (pe_loop_records _ IH _ _ _ _ _ _ _ _ _ _ _ _ _ _ H) as (more & -> & ID & RF & LC). cbn [app List.length] in *.
  split; [exact ID|]. split; [exact RF|]. split; [constructor; intros c0 I0; apply (LC c0 I0)|split; reflexivity].
Qed.

Theorem load_records bs t st :
  load s T tab_el tab_at tab_en check_fn float_parse bs = Val (Ret t st) ->
  p_idents st = rev (pidents [] [] t) /\ p_refs st = rev (prefs [] t) /\ linked t /\
  et_new T (autosar_element T) = Val (e_type t).
Proof.
  unfold load.
  destruct (version_of_ident "Autosar_4_0_1") as [v401|]; [|destruct (elem T (autosar_element T)); discriminate].
  destruct (elem T (autosar_element T)) as [e|site|]; try discriminate.
  unfold parse_arxml. intros H.
  inv H as ev s1 E1. destruct (ipres_inv _ _ _ _ ipres_pnext E1) as [I1 R1]. destruct ev; try discriminate H.
  inv H as u2 s2 E2. injection E2 as _ <-.
  inv H as tok s3 E3. destruct (ipres_inv _ _ _ _ ipres_pnext E3) as [I3 R3]. cbn [p_idents p_refs set_standalone] in I3, R3.
  inv H as r s4 E4. destruct (ipres_inv _ _ _ _ (ip_skip_comments _ _ _) E4) as [I4 R4]. destruct r as [stored token].
  destruct token; try discriminate H.
  inv H as nm s5 E5. apply lift_ret_inv in E5 as [_ ->]. inv H as an s6 E6.
  assert (S6 : s6 = s4). { unfold autosar_name in E6. inv E6 as e0 sy Ey. apply lift_ret_inv in Ey as [_ ->]. injection E6 as _ <-. reflexivity. }
  subst s6. destruct nm as [n0|]; [|discriminate H]. destruct (n0 =? an); [|discriminate H].
  inv H as rt s7 E7. apply lift_ret_inv in E7 as [RT ->].
  inv H as attributes s8 E8. destruct (ipres_inv _ _ _ _ (ip_pat _ _) E8) as [I8 R8].
  inv H as u9 s9 E9. destruct (ipres_inv _ _ _ _ (ip_pfh _) E9) as [I9 R9].
  inv H as root s10 E10. destruct (parse_element_records _ _ _ _ _ _ _ _ _ _ _ E10) as (I10 & R10 & L10 & _ & T10).
  inv H as u11 s11 E11. destruct (ipres_inv _ _ _ _ ip_verify_end E11) as [I11 R11]. injection H as <- <-.
  rewrite I11, R11, I10, R10, I9, R9, I8, R8, I4, R4, I3, R3, I1, R1. cbn [init_pstate p_idents p_refs]. rewrite !app_nil_r, T10. auto.
Qed.

End Records.
