(* Xml/StrictValidHoles.v — the known class `empty-value-never-checked`, characterised.
   An element whose type has content mode Characters and that has NO text item (<X/> or <X></X>) is accepted by the
   loader without its value ever being passed to parse_character_data (C08_value_required_refuted).  Here: for which
   character data specifications the empty value WOULD be rejected if it were checked - that is where the hole is
   observable - first for every table set (empty_rejected / empty_accepted), then as a boolean sweep over every datatype
   of the regenerated tables with the C19 validator models (check_real) [F]. *)
From Coq Require Import Arith.
From AV Require Import Base.Bytes Base.Outcome Base.Utf8 Base.Radix Hash.HashModel Spec.SpecTypes Spec.SpecOps Spec.SpecReal Spec.Versions
  Xml.Lexer Xml.Parser Xml.TablesOk Xml.Funnel Xml.ParserCheck Xml.ParserDepth Xml.StrictValid.
From AV Require Import Regex.Regex Regex.Bisim Regex.Vexpr Tree.CheckFn Hash.HashRealEnum.
From AV.Gen Require Import RegexData XmlVexprs.
Open Scope list_scope.
Open Scope N_scope.

(* ---------- every table set ---------- *)
Section Empty.
Variable tab_en : nametab.
Variable check_fn : N -> list N -> res bool.
Variable float_parse : list N -> option N.
Notation PCD := (parse_character_data true tab_en check_fn float_parse).

(* would strict value checking reject the empty byte string for this specification? *)
Definition empty_rejectedb (cs : cdspec) : bool :=
  match cs with
  | CEnum _ => match name_of tab_en [] with Val None => true | _ => false end   (* no enumeration item has the empty name *)
  | CPattern fn _ => match check_fn fn [] with Val true => false | _ => true end
  | CString _ _ => false
  | CUInt => true                                                               (* u64::from_str_radix of nothing *)
  | CFloat => match float_parse [] with None => true | Some _ => false end
  end.

Definition texty (cs : cdspec) : bool := match cs with CPattern _ _ | CString _ _ => true | _ => false end.

Lemma trim_empty : trim_byte_string [] = Val [].
Proof. reflexivity. Qed.

(* the hole is observable: had the empty value been checked, strict loading would not have accepted it *)
Lemma empty_rejected cs st v st' : empty_rejectedb cs = true -> PCD [] cs st = Val (Ret v st') -> False.
Proof.
  intros R H. unfold parse_character_data in H. inv H as trimmed s1 E1. apply lift_ret_inv in E1 as [TR ->].
  rewrite trim_empty in TR. injection TR as <-.
  destruct cs as [items|fn maxlen|preserve maxlen| |]; cbn [empty_rejectedb] in R.
  - inv H as nm s2 E2. apply lift_ret_inv in E2 as [E2 ->]. rewrite E2 in R. destruct nm; [discriminate R|discriminate H].
  - inv H as u1 s2 E2. apply guard_strict_ret in E2 as [_ ->].
    inv H as ok s3 E3. apply lift_ret_inv in E3 as [CF ->]. rewrite CF in R.
    inv H as u2 s4 E4. apply guard_strict_ret in E4 as [OK ->]. destruct ok; discriminate.
  - discriminate R.
  - cbn in H. discriminate H.
  - change (utf8_valid []) with true in H. cbn [negb] in H. destruct (float_parse []); [discriminate R|].
    inv H as u1 s2 E2. destruct (oe_strict_ret _ _ _ _ _ _ E2).
Qed.

(* the hole is not observable: the empty value passes, as the empty string, and changes nothing in the state
   (for Enum and Float the `false` case of empty_rejectedb does not occur on the real tables: sweep_real) *)
Lemma empty_accepted cs st : empty_rejectedb cs = false -> texty cs = true -> PCD [] cs st = Val (Ret (DString []) st).
Proof.
  intros R NE. destruct cs as [items|fn maxlen|preserve maxlen| |]; try discriminate; cbn [empty_rejectedb] in R.
  - unfold parse_character_data. rewrite trim_empty. cbn [lift mbind].
    assert (L : opt_len_gt maxlen [] = false) by (destruct maxlen as [m|]; [destruct m|]; reflexivity). rewrite L.
    destruct (check_fn fn []) as [[|]| |]; try discriminate R. reflexivity.
  - unfold parse_character_data. rewrite trim_empty. cbn [lift mbind].
    assert (L : opt_len_gt maxlen (if preserve then [] else []) = false) by (destruct preserve, maxlen as [m|]; try destruct m; reflexivity).
    rewrite L. destruct preserve; reflexivity.
Qed.

End Empty.

(* ---------- the regenerated tables, with the validator models of C19 ---------- *)
Definition real_dfas (n : N) : option (list (list N) * list N) :=
  match n with
  | 2 => Some (tbl_2, acc_2) | 3 => Some (tbl_3, acc_3) | 9 => Some (tbl_9, acc_9)
  | 12 => Some (tbl_12, acc_12) | 13 => Some (tbl_13, acc_13) | 14 => Some (tbl_14, acc_14)
  | 16 => Some (tbl_16, acc_16) | 18 => Some (tbl_18, acc_18) | 21 => Some (tbl_21, acc_21)
  | 22 => Some (tbl_22, acc_22) | 25 => Some (tbl_25, acc_25) | 26 => Some (tbl_26, acc_26)
  | 28 => Some (tbl_28, acc_28)
  | _ => None
  end.

(* validate_regex_n: the hand-written validators v_n and the table-driven ones on their real tables *)
Definition check_real : N -> list N -> res bool := check_fn_model real_dfas.

(* the value specification of datatype i, when its content mode is Characters *)
Definition chars_spec_of (i : N) : option cdspec :=
  match T_datatypes RT i with
  | Some d => if dt_mode d =? MCharacters then
                (if dt_cdata d =? 0 then None else T_cdata RT (dt_cdata d - 1))
              else None
  | None => None
  end.

Definition chars_types : list (N * cdspec) :=
  flat_map (fun i => match chars_spec_of i with Some cs => [(i, cs)] | None => [] end) (iota (n_datatypes RT)).

Definition kind_of (cs : cdspec) : N :=
  match cs with CEnum _ => 0 | CPattern _ _ => 1 | CString _ _ => 2 | CUInt => 3 | CFloat => 4 end.

Definition count_kind (k : N) : nat := List.length (filter (fun p => kind_of (snd p) =? k) chars_types).

(* every Characters-mode datatype has a value specification (so chars_types lists all of them) *)
Definition chars_all_have_spec : bool :=
  forallb (fun i => match T_datatypes RT i with
                    | Some d => if dt_mode d =? MCharacters then (match chars_spec_of i with Some _ => true | None => false end) else true
                    | None => false
                    end) (iota (n_datatypes RT)).

(* the sweep: with the float oracle fp (only fp [] matters), the empty value is rejected for a Characters-mode
   datatype exactly when its specification is not a plain String *)
Definition sweep (fp : list N -> option N) : bool :=
  forallb (fun p => Bool.eqb (empty_rejectedb tab_enum check_real fp (snd p))
                             (negb (kind_of (snd p) =? 2))) chars_types.

(* the same per element definition (ELEMENTS[i].ed_type): how many definitions carry a value of each kind *)
Definition elem_kind (i : N) : option N :=
  match T_elements RT i with
  | Some e => match chars_spec_of (ed_type e) with Some cs => Some (kind_of cs) | None => None end
  | None => None
  end.
Definition elem_count (k : N) : nat :=
  List.length (filter (fun i => match elem_kind i with Some k' => k' =? k | None => false end) (iota (n_elements RT))).

(* pattern types per validator function *)
Definition fn_count (n : N) : nat :=
  List.length (filter (fun p => match snd p with CPattern fn _ => fn =? n | _ => false end) chars_types).

Definition fp_none (s : list N) : option N := None.

Lemma sweep_real : chars_all_have_spec = true /\ sweep fp_none = true /\
  (count_kind 0, count_kind 1, count_kind 2, count_kind 3, count_kind 4) = (339, 1171, 11, 2, 2)%nat /\
  forallb (fun n => match check_real n [] with Val false => true | _ => false end) (iota 29) = false /\
  forallb (fun n => match check_real n [] with Val false => true | _ => false end) (tl (iota 29)) = true /\
  name_of tab_enum [] = Val None /\
  (elem_count 0, elem_count 1, elem_count 2, elem_count 3, elem_count 4) = (422, 3390, 357, 2, 349)%nat /\
  map fst (filter (fun p => kind_of (snd p) =? 2) chars_types) = [3056; 3077; 3835; 4393; 4423; 4582; 4933; 4978; 4979; 5048; 5078] /\
  filter (fun p => negb (snd p =? 1)%nat) (map (fun n => (n, fn_count n)) (tl (iota 29))) = [(8, 2%nat); (16, 2%nat); (22, 0%nat); (24, 1145%nat); (27, 0%nat); (28, 0%nat)].
Proof. vm_compute. repeat split. Qed.

Lemma sweep_meaning fp i cs : sweep fp = true -> In (i, cs) chars_types ->
  (empty_rejectedb tab_enum check_real fp cs = true <-> kind_of cs <> 2).
Proof.
  unfold sweep. rewrite forallb_forall. intros H I. specialize (H _ I). cbn [snd] in H.
  apply Bool.eqb_prop in H. rewrite H. rewrite Bool.negb_true_iff. apply N.eqb_neq.
Qed.
