(* Xml/RoundTripReload.v — C01, the recorded classes: what IS read back.
   Outside RoundTripCanon.knownb the re-loaded tree is the tree (C01_reload_identity).  For the recorded classes the
   re-loaded tree differs (C01_reload_identity_refuted); here is the positive statement that holds for them:
     values (value_reload): a plain String without preserve_whitespace is read back with the blanks at both ends dropped
       (class encoded-edge-blank-lost: the text modulo edge blanks); a Pattern value is read back as its ESCAPED text, again
       modulo edge blanks (class pattern value containing one of the five escaped bytes: one more level of escaping per
       save/load cycle); every other canonical value unchanged;
     text items (ser_norm, reload_merged): adjacent text items of a Mixed content element are written without a
       separator, so a tree and its merged form `norm` (adjacent text items concatenated, recursively) have the SAME
       serialization, and what is read back is the merged tree whenever that is canonical (class mixed-text-split: the
       concatenated text). *)
From Coq Require Import Arith Lia.
From AV Require Import Base.Bytes Base.Outcome Base.Utf8 Base.Radix Hash.HashModel Spec.SpecTypes Spec.SpecOps
  Xml.Lexer Xml.Parser Xml.Serializer Xml.LexerProofs Xml.ParserProofs Xml.ParserDepth Xml.Escape Xml.RoundTripValues
  Xml.RoundTripElem Xml.RoundTripFile.
Open Scope list_scope.
Open Scope N_scope.

(* ---------- dropping the blanks at both ends ---------- *)
Definition strip (s : list N) : list N := rev (drop_ws (rev (drop_ws s))).

Lemma trim_strip s : trim_byte_string s = Val (strip s).
Proof. apply trim_byte_string_value. Qed.

Lemma strip_id s : no_edge_ws s -> strip s = s.
Proof. intros H. pose proof (trim_id s H) as E. rewrite trim_strip in E. congruence. Qed.

Lemma drop_ws_split l : exists W, l = W ++ drop_ws l /\ forallb is_ws W = true /\
  match drop_ws l with [] => True | c :: _ => is_ws c = false end.
Proof.
  induction l as [|x l (W & E & A & H)]; [exists []; repeat split|]. cbn [drop_ws]. destruct (is_ws x) eqn:X.
  - exists (x :: W). cbn [app forallb]. rewrite X, <- E. repeat split; assumption.
  - exists []. repeat split. exact X.
Qed.

Lemma drop_ws_ws_app W l : forallb is_ws W = true -> drop_ws (W ++ l) = drop_ws l.
Proof.
  induction W as [|x W IH]; [reflexivity|]. cbn [forallb app drop_ws]. intros H. apply andb_prop in H as [X A]. rewrite X. exact (IH A).
Qed.

Lemma forallb_rev {A} (p : A -> bool) l : forallb p (rev l) = forallb p l.
Proof.
  destruct (forallb p l) eqn:E.
  - rewrite forallb_forall in *. intros x I. apply E, in_rev, I.
  - destruct (forallb p (rev l)) eqn:E'; [|reflexivity]. rewrite forallb_forall in E'.
    assert (F : forallb p l = true) by (apply forallb_forall; intros x I; apply E', in_rev; rewrite rev_involutive; exact I). congruence.
Qed.

(* s = blanks ++ strip s ++ blanks, and strip s has no blank at either end *)
Lemma strip_split s : exists W1 W2, s = W1 ++ strip s ++ W2 /\ forallb is_ws W1 = true /\ forallb is_ws W2 = true /\
  no_edge_ws (strip s).
Proof.
  destruct (drop_ws_split s) as (W1 & E1 & A1 & H1). set (d := drop_ws s) in *.
  destruct (drop_ws_split (rev d)) as (W2 & E2 & A2 & H2). unfold strip. fold d. set (k := drop_ws (rev d)) in *.
  assert (ED : d = rev k ++ rev W2) by (rewrite <- rev_app_distr, <- E2, rev_involutive; reflexivity).
  exists W1, (rev W2). split; [rewrite <- ED; exact E1|]. split; [exact A1|]. split; [rewrite forallb_rev; exact A2|].
  destruct k as [|x k]; [exact I|]. cbn [rev] in *. unfold no_edge_ws.
  destruct (rev k ++ [x]) as [|c r] eqn:EK; [destruct (rev k); discriminate EK|]. split.
  - try rewrite EK in ED. cbn [app] in ED. rewrite ED in H1. exact H1.
  - rewrite <- EK, last_last. exact H2.
Qed.

Lemma strip_sandwich W1 c W2 : forallb is_ws W1 = true -> forallb is_ws W2 = true -> no_edge_ws c -> strip (W1 ++ c ++ W2) = c.
Proof.
  intros A1 A2 NE. unfold strip. rewrite (drop_ws_ws_app _ _ A1). destruct c as [|x c].
  - cbn [app]. rewrite (drop_ws_all _ A2). reflexivity.
  - destruct NE as [H1 H2]. cbn [app]. rewrite (drop_ws_head x _ H1). change (x :: c ++ W2) with ((x :: c) ++ W2).
    rewrite rev_app_distr, drop_ws_ws_app by (rewrite forallb_rev; exact A2).
    destruct (rev_head_last (x :: c) 0 ltac:(discriminate)) as (r & E). rewrite E, (drop_ws_head _ r H2), <- E. apply rev_involutive.
Qed.

Lemma ws_plain W : forallb is_ws W = true -> escape_text W = W.
Proof.
  intros A. apply escape_text_plain. rewrite forallb_forall in *. intros c I. specialize (A c I).
  destruct (special c) eqn:S; [|reflexivity]. destruct (escape_byte_edges c) as (_ & _ & _ & _ & _ & F). rewrite (F S) in A. discriminate A.
Qed.

(* escaping and dropping the edge blanks commute: blanks are written as they are, and an escape sequence neither begins
   nor ends with a blank *)
Lemma strip_escape s : strip (escape_text s) = escape_text (strip s).
Proof.
  destruct (strip_split s) as (W1 & W2 & E & A1 & A2 & NE). rewrite E at 1.
  rewrite !escape_text_app, (ws_plain _ A1), (ws_plain _ A2). apply strip_sandwich; [exact A1|exact A2|]. apply no_edge_ws_escape, NE.
Qed.

Lemma trim_escape s : trim_byte_string (escape_text s) = Val (escape_text (strip s)).
Proof. rewrite trim_strip, strip_escape. reflexivity. Qed.

(* ---------- values ---------- *)
Section Values.
Variable strict : bool.
Variable tab_en : nametab.
Variable check_fn : N -> list N -> res bool.
Variable float_fmt : N -> list N.
Variable float_parse : list N -> option N.
Variable ver : N.
Notation PCD := (parse_character_data strict tab_en check_fn float_parse).
Notation SCD := (ser_cdata tab_en float_fmt).

(* what loading the written text of v yields *)
Definition reload_value (spec : cdspec) (v : cdata) : cdata :=
  match spec, v with
  | CPattern _ _, DString s => DString (escape_text (strip s))
  | CString false _, DString s => DString (strip s)
  | _, _ => v
  end.

(* ValOk without the three conditions that define the recorded value classes: special bytes in a Pattern value, blanks at
   the ends; what the loader checks is required of the text it will see *)
Inductive ValLoose : cdspec -> cdata -> Prop :=
| vl_pattern fn maxlen s :
    opt_len_gt maxlen (escape_text (strip s)) = false -> check_fn fn (escape_text (strip s)) = Val true ->
    utf8_valid (escape_text (strip s)) = true -> ValLoose (CPattern fn maxlen) (DString s)
| vl_string (preserve : bool) maxlen s :
    opt_len_gt maxlen (escape_text (if preserve then s else strip s)) = false ->
    utf8_valid (escape_text (if preserve then s else strip s)) = true -> ValLoose (CString preserve maxlen) (DString s)
| vl_ok spec v : ValOk tab_en check_fn float_fmt float_parse ver spec v -> ValLoose spec v.

Lemma reload_ok spec v : ValOk tab_en check_fn float_fmt float_parse ver spec v -> reload_value spec v = v.
Proof.
  intros [items item mask str TS NW FB FI IV|fn maxlen s PL NW LEN CF U|preserve maxlen s PW LEN U|n L|b NW U FP]; cbn [reload_value]; try reflexivity.
  - rewrite (strip_id s NW), (escape_text_plain s PL). reflexivity.
  - destruct preserve; [reflexivity|]. destruct PW as [?|NW]; [discriminate|]. rewrite (strip_id s NW). reflexivity.
Qed.

Theorem value_reload spec v st : ValLoose spec v -> p_version st = ver ->
  exists bytes c, SCD v = Val bytes /\ PCD bytes spec st = Val (Ret (reload_value spec v) (set_compat st c)).
Proof.
  intros [fn maxlen s LEN CF U|preserve maxlen s LEN U|spec' v' OK] PV.
  - exists (escape_text s), (p_compat st). split; [reflexivity|]. unfold parse_character_data. rewrite trim_escape.
    change (mbind (lift (Val ?x)) ?f) with (f x). cbv beta. rewrite LEN, CF.
    unfold mbind, ret, lift. cbn [negb]. rewrite U, set_compat_same. reflexivity.
  - exists (escape_text s), (p_compat st). split; [reflexivity|]. unfold parse_character_data. rewrite trim_escape.
    change (mbind (lift (Val ?x)) ?f) with (f x). cbv beta.
    assert (RAW : (if preserve then escape_text s else escape_text (strip s)) = escape_text (if preserve then s else strip s))
      by (destruct preserve; reflexivity).
    rewrite RAW, LEN, U. unfold mbind at 1. unfold ret at 1. unfold mbind at 1. unfold ret at 1.
    unfold mbind. rewrite escape_unescape. unfold ret. rewrite set_compat_same. cbn [reload_value]. destruct preserve; reflexivity.
  - rewrite (reload_ok _ _ OK). exact (value_roundtrip strict tab_en check_fn float_fmt float_parse ver spec' v' st OK PV).
Qed.

(* two text items written one after the other are the written form of their concatenation *)
Lemma ser_text_app a b : (let* x := SCD (DString a) in let* y := SCD (DString b) in Val (x ++ y))%res = SCD (DString (a ++ b)).
Proof. cbn [ser_cdata bind]. rewrite escape_text_app. reflexivity. Qed.

End Values.

(* ---------- adjacent text items ---------- *)
(* concatenate runs of adjacent text (DString) items *)
Fixpoint merge_items (l : list (etree + cdata)) : list (etree + cdata) :=
  match l with
  | inr (DString a) :: l' =>
    match merge_items l' with
    | inr (DString b) :: r => inr (DString (a ++ b)) :: r
    | r => inr (DString a) :: r
    end
  | x :: l' => x :: merge_items l'
  | [] => []
  end.

Section Tree.
Variable T : tables.
Variable tab_el tab_at tab_en : nametab.
Variable check_fn : N -> list N -> res bool.
Variable float_fmt : N -> list N.
Notation SER := (ser_elem T tab_el tab_at tab_en float_fmt).
Notation SCD := (ser_cdata tab_en float_fmt).

(* the merged form of a tree: in every element with Mixed content, adjacent text items are concatenated *)
Fixpoint norm (t : etree) : etree :=
  match t with
  | ENode name ty attrs content cm =>
    let kids := map (fun x => match x with inl s => inl (norm s) | inr c => inr c end) content in
    ENode name ty attrs
      (match content_mode T ty with Val m => if m =? MMixed then merge_items kids else kids | _ => kids end) cm
  end.

Definition norm_item (x : etree + cdata) : etree + cdata := match x with inl s => inl (norm s) | inr c => inr c end.

Lemma norm_eq name ty attrs content cm :
  norm (ENode name ty attrs content cm) =
  ENode name ty attrs
    (match content_mode T ty with Val m => if m =? MMixed then merge_items (map norm_item content) else map norm_item content
                                | _ => map norm_item content end) cm.
Proof. reflexivity. Qed.

Lemma ser_items_merge rec l : ser_items SCD rec (merge_items l) = ser_items SCD rec l.
Proof.
  induction l as [|[sub|cd] l IH]; [reflexivity| |].
  - cbn [merge_items ser_items]. rewrite IH. reflexivity.
  - destruct cd as [i|a|n|b]; try (cbn [merge_items ser_items]; rewrite IH; reflexivity).
    cbn [merge_items]. destruct (merge_items l) as [|[sub|[i|b|n|f]] r];
      try (change (ser_items SCD rec (inr (DString a) :: ?x)) with (let* u := SCD (DString a) in let* v := ser_items SCD rec x in Val (u ++ v))%res;
           rewrite IH; reflexivity).
    change (ser_items SCD rec (inr (DString a) :: l)) with (let* u := SCD (DString a) in let* v := ser_items SCD rec l in Val (u ++ v))%res.
    rewrite <- IH. cbn [ser_items ser_cdata bind]. destruct (ser_items SCD rec r) as [x| |]; cbn [bind]; [|reflexivity|reflexivity].
    rewrite escape_text_app, app_assoc. reflexivity.
Qed.

Lemma merge_nonempty l : l <> [] -> merge_items l <> [].
Proof.
  destruct l as [|[sub|cd] l]; [congruence|discriminate|]. intros _. cbn [merge_items].
  destruct cd; try discriminate. destruct (merge_items l) as [|[sub|[]] r]; discriminate.
Qed.

Lemma ser_items_map rec rec' l : (forall s, In (inl s) l -> rec' (norm s) = rec s) ->
  ser_items SCD rec' (map norm_item l) = ser_items SCD rec l.
Proof.
  induction l as [|[sub|cd] l IH]; intros H; [reflexivity| |]; cbn [map norm_item ser_items].
  - rewrite (H sub (or_introl eq_refl)), IH; [reflexivity|]. intros s I. apply H. right. exact I.
  - rewrite IH; [reflexivity|]. intros s I. apply H. right. exact I.
Qed.

Lemma ser_subs_map rec rec' l : (forall s, In (inl s) l -> rec' (norm s) = rec s) ->
  ser_subs rec' (map norm_item l) = ser_subs rec l.
Proof.
  induction l as [|[sub|cd] l IH]; intros H; [reflexivity| |]; cbn [map norm_item ser_subs].
  - rewrite (H sub (or_introl eq_refl)), IH; [reflexivity|]. intros s I. apply H. right. exact I.
  - apply IH. intros s I. apply H. right. exact I.
Qed.

Lemma maxd_in s l : In (inl s) l -> (depth s <= maxd l)%nat.
Proof.
  induction l as [|[e|d] l IH]; cbn [In maxd]; [tauto| |].
  - intros [E|I]; [injection E as ->; lia|]. specialize (IH I). lia.
  - intros [E|I]; [discriminate E|exact (IH I)].
Qed.

(* a tree and its merged form are written as the same text *)
Theorem ser_norm t : forall indent inline, SER (norm t) indent inline = SER t indent inline.
Proof.
  remember (depth t) as n eqn:D. assert (B : (depth t <= n)%nat) by lia. clear D. revert t B.
  induction n as [|n IH]; intros [name ty attrs content cm] B indent inline; rewrite depth_node in B; [lia|].
  assert (SUB : forall i il s, In (inl s) content -> SER (norm s) i il = SER s i il).
  { intros i il s I. apply IH. pose proof (maxd_in s content I). lia. }
  rewrite norm_eq, !ser_elem_eq.
  destruct content as [|first rest]; [destruct (content_mode T ty) as [m| |]; [destruct (m =? MMixed)|..]; reflexivity|].
  set (content := first :: rest) in *.
  destruct (content_mode T ty) as [m| |] eqn:CM.
  - destruct (m =? MMixed) eqn:MX.
    + apply N.eqb_eq in MX. subst m.
      destruct (merge_items (map norm_item content)) as [|f' r'] eqn:MI; [exfalso; revert MI; apply merge_nonempty; discriminate|].
      rewrite <- MI. cbn [bind]. change (MMixed =? MCharacters) with false. change (MMixed =? MMixed) with true. cbv iota.
      rewrite ser_items_merge, (ser_items_map (fun sub => SER sub (S indent) true) (fun sub => SER sub (S indent) true)); [reflexivity|].
      intros s I. apply SUB, I.
    + unfold content at 1. cbn [map]. cbn [bind]. rewrite MX. destruct (m =? MCharacters).
      * destruct first as [s|c]; reflexivity.
      * fold (map norm_item (first :: rest)). fold content.
        rewrite (ser_subs_map (fun sub => SER sub (S indent) false) (fun sub => SER sub (S indent) false)); [reflexivity|].
        intros s I. apply SUB, I.
  - unfold content. cbn [map]. reflexivity.
  - unfold content. cbn [map]. reflexivity.
Qed.

(* merging does not touch the root's name, type, attributes or comment, so the schemaLocation rewrite commutes with it *)
Lemma set_version_norm ver t :
  Serializer.set_version T tab_at check_fn ver (norm t) =
  (let* r := Serializer.set_version T tab_at check_fn ver t in Val (norm r))%res.
Proof.
  destruct t as [name ty attrs content cm]. rewrite norm_eq. unfold Serializer.set_version.
  destruct (from_bytes tab_at (BS "xsi:schemaLocation")) as [a| |]; try reflexivity.
  destruct (schema_location_value ver) as [value| |]; try reflexivity. cbn [bind].
  destruct (find_attribute_spec T ty a) as [[[[[x ctype] y] z]|]| |]; try reflexivity; cbn [bind].
  destruct (check_value_string check_fn ctype value) as [[|]| |]; reflexivity.
Qed.

Theorem serialize_norm ver sa t : Serializer.set_version T tab_at check_fn ver t = Val t ->
  serialize_file T tab_el tab_at tab_en check_fn float_fmt ver sa (norm t) =
  serialize_file T tab_el tab_at tab_en check_fn float_fmt ver sa t.
Proof.
  intros SV. unfold serialize_file. rewrite set_version_norm, SV. cbn [bind]. rewrite ser_norm. reflexivity.
Qed.

(* what is read back from the written text of t is the merged tree, whenever that is canonical *)
Theorem reload_merged strict float_parse ver sa t bs :
  RootCanon strict T tab_el tab_at tab_en check_fn float_fmt float_parse ver (norm t) ->
  Serializer.set_version T tab_at check_fn ver t = Val t ->
  serialize_file T tab_el tab_at tab_en check_fn float_fmt ver sa t = Val bs ->
  exists st, load strict T tab_el tab_at tab_en check_fn float_parse bs = Val (Ret (norm t) st) /\
             p_warnings st = [] /\ p_version st = ver /\ p_standalone st = sa.
Proof.
  intros RC SV SF. rewrite <- (serialize_norm ver sa t SV) in SF.
  apply (serialize_load_roundtrip strict T tab_el tab_at tab_en check_fn float_fmt float_parse ver (norm t) sa bs RC); [|exact SF].
  rewrite set_version_norm, SV. reflexivity.
Qed.

End Tree.
