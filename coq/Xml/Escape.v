(* Xml/Escape.v — C01, bottom layer: escape_text (Serializer) and unescape_string (Parser) are inverse, and escaped text
   contains no markup.  For EVERY byte string, both modes, every parser state; no hypothesis. *)
From Coq Require Import Arith.
From AV Require Import Base.Bytes Base.Outcome Base.Utf8 Base.Radix Xml.Lexer Xml.Parser Xml.Serializer Xml.LexerProofs.
Open Scope list_scope.
Open Scope N_scope.

(* the five bytes escape_text replaces *)
Definition special (c : N) : bool := (c =? 60) || (c =? 62) || (c =? 38) || (c =? 34) || (c =? 39).

Lemma escape_byte_plain c : special c = false -> escape_byte c = [c].
Proof.
  unfold special, escape_byte. rewrite !orb_false_iff. intros [[[[A B] C] D] E]. rewrite A, B, C, D, E. reflexivity.
Qed.

Lemma escape_byte_special c : special c = true ->
  (c = 60 /\ escape_byte c = BS "&lt;") \/ (c = 62 /\ escape_byte c = BS "&gt;") \/ (c = 38 /\ escape_byte c = BS "&amp;") \/
  (c = 34 /\ escape_byte c = BS "&quot;") \/ (c = 39 /\ escape_byte c = BS "&apos;").
Proof.
  unfold special, escape_byte.
  destruct (c =? 60) eqn:A; [apply N.eqb_eq in A; auto|].
  destruct (c =? 62) eqn:B; [apply N.eqb_eq in B; auto|].
  destruct (c =? 38) eqn:C; [apply N.eqb_eq in C; auto 6|].
  destruct (c =? 34) eqn:D; [apply N.eqb_eq in D; auto 8|].
  destruct (c =? 39) eqn:E; [apply N.eqb_eq in E; auto 10|]. discriminate.
Qed.

Lemma escape_text_app a b : escape_text (a ++ b) = escape_text a ++ escape_text b.
Proof. unfold escape_text. apply flat_map_app. Qed.

Lemma escape_text_cons c s : escape_text (c :: s) = escape_byte c ++ escape_text s.
Proof. reflexivity. Qed.

Lemma escape_text_plain s : forallb (fun c => negb (special c)) s = true -> escape_text s = s.
Proof.
  induction s as [|c s IH]; cbn [forallb]; [reflexivity|]. rewrite andb_true_iff, negb_true_iff. intros [P Q].
  rewrite escape_text_cons, (escape_byte_plain c P), (IH Q). reflexivity.
Qed.

(* a string = its longest plain prefix, then (nothing | a special byte and the rest) *)
Lemma split_plain s : exists pre rest, s = pre ++ rest /\ forallb (fun c => negb (special c)) pre = true /\
  (rest = [] \/ exists c rest', rest = c :: rest' /\ special c = true).
Proof.
  induction s as [|c s (pre & rest & E & P & R)].
  - exists [], []. auto.
  - destruct (special c) eqn:S.
    + exists [], (c :: s). split; [reflexivity|]. split; [reflexivity|]. right. eauto.
    + exists (c :: pre), rest. split; [cbn; congruence|]. split; [cbn [forallb]; rewrite S; exact P|exact R].
Qed.

Lemma position_app_hit {p : N -> bool} pre x rest :
  forallb (fun c => negb (p c)) pre = true -> p x = true -> position p (pre ++ x :: rest) = Some (List.length pre).
Proof.
  induction pre as [|c pre IH]; cbn [forallb app position List.length]; intros P X; [rewrite X; reflexivity|].
  apply andb_true_iff in P as [P1 P2]. apply negb_true_iff in P1. rewrite P1, (IH P2 X). reflexivity.
Qed.

Lemma position_none_all {p : N -> bool} l : forallb (fun c => negb (p c)) l = true -> position p l = None.
Proof.
  induction l as [|c l IH]; cbn [forallb position]; [reflexivity|]. rewrite andb_true_iff, negb_true_iff. intros [P Q].
  rewrite P, (IH Q). reflexivity.
Qed.

Lemma plain_no_amp pre : forallb (fun c => negb (special c)) pre = true -> forallb (fun c => negb (N.eqb 38 c)) pre = true.
Proof.
  rewrite !forallb_forall. intros H c Hc. specialize (H c Hc). apply negb_true_iff in H. apply negb_true_iff.
  unfold special in H. rewrite !orb_false_iff in H. rewrite N.eqb_sym. tauto.
Qed.

Section Unescape.
Variable strict : bool.

Lemma unescape_loop_escape fuel : forall s acc st, (List.length (escape_text s) < fuel)%nat ->
  unescape_loop strict fuel (escape_text s) acc st = Val (Ret (acc ++ s) st).
Proof.
  induction fuel as [|f IH]; intros s acc st L; [lia|].
  destruct (split_plain s) as (pre & rest & -> & P & R). rewrite escape_text_app, (escape_text_plain pre P) in *.
  cbn [unescape_loop]. unfold find_byte.
  destruct R as [->|(c & rest' & -> & S)].
  - cbn [escape_text flat_map]. rewrite !app_nil_r. rewrite (position_none_all _ (plain_no_amp _ P)). reflexivity.
  - rewrite escape_text_cons in *.
    assert (HIT : forall X, position (N.eqb 38) (pre ++ 38 :: X) = Some (List.length pre)).
    { intros X. apply position_app_hit; [exact (plain_no_amp _ P)|reflexivity]. }
    assert (FS : forall X, firstn (List.length pre) (pre ++ X) = pre).
    { intros X. rewrite firstn_app, Nat.sub_diag, firstn_all. cbn [firstn]. apply app_nil_r. }
    assert (SK : forall X, skipn (List.length pre) (pre ++ X) = X).
    { intros X. rewrite skipn_app, Nat.sub_diag, skipn_all. reflexivity. }
    rewrite !app_length in L.
    destruct (escape_byte_special c S) as [[-> E]|[[-> E]|[[-> E]|[[-> E]|[-> E]]]]]; rewrite E in *;
      change (BS "&lt;") with [38; 108; 116; 59] in *; change (BS "&gt;") with [38; 103; 116; 59] in *;
      change (BS "&amp;") with [38; 97; 109; 112; 59] in *; change (BS "&quot;") with [38; 113; 117; 111; 116; 59] in *;
      change (BS "&apos;") with [38; 97; 112; 111; 115; 59] in *;
      cbn [app] in *; rewrite HIT, FS, SK; cbn [starts_with N.eqb Pos.eqb andb skipn];
      rewrite IH by (cbn [List.length] in L; lia); rewrite <- !app_assoc; reflexivity.
Qed.

(* C01, bottom: unescaping an escaped string gives the string back — value, no error, no warning, state untouched *)
Theorem escape_unescape s st : unescape_string strict (escape_text s) st = Val (Ret s st).
Proof.
  unfold unescape_string. destruct (find_byte 38 (escape_text s)) eqn:F.
  - rewrite unescape_loop_escape by lia. reflexivity.
  - (* no '&' in the escaped text: nothing was escaped *)
    destruct (split_plain s) as (pre & rest & -> & P & R). rewrite escape_text_app, (escape_text_plain pre P) in *.
    destruct R as [->|(c & rest' & -> & S)]; [cbn [escape_text flat_map]; rewrite !app_nil_r; reflexivity|].
    exfalso. rewrite escape_text_cons in F. unfold find_byte in F.
    destruct (escape_byte_special c S) as [[-> E]|[[-> E]|[[-> E]|[[-> E]|[-> E]]]]]; rewrite E in F;
      change (BS "&lt;") with [38; 108; 116; 59] in F; change (BS "&gt;") with [38; 103; 116; 59] in F;
      change (BS "&amp;") with [38; 97; 109; 112; 59] in F; change (BS "&quot;") with [38; 113; 117; 111; 116; 59] in F;
      change (BS "&apos;") with [38; 97; 112; 111; 115; 59] in F; cbn [app] in F;
      (rewrite (position_app_hit pre 38 _ (plain_no_amp _ P) eq_refl) in F; discriminate F).
Qed.
End Unescape.

(* escaped text contains none of the markup bytes 60 '<', 62 '>', 34 (double quote), 39 (single quote) *)
Definition markup_free (c : N) : bool := negb ((c =? 60) || (c =? 62) || (c =? 34) || (c =? 39)).

Theorem escape_no_markup s : forallb markup_free (escape_text s) = true.
Proof.
  induction s as [|c s IH]; [reflexivity|]. rewrite escape_text_cons, forallb_app, IH, andb_true_r.
  destruct (special c) eqn:S.
  - destruct (escape_byte_special c S) as [[-> E]|[[-> E]|[[-> E]|[[-> E]|[-> E]]]]]; rewrite E; reflexivity.
  - rewrite (escape_byte_plain c S). cbn [forallb]. rewrite andb_true_r. unfold markup_free. apply negb_true_iff.
    unfold special in S. rewrite !orb_false_iff in S. rewrite !orb_false_iff. tauto.
Qed.
