(* Xml/Serializer.v — model of the writer, over the pure element tree of Xml/Parser.v:
     ArxmlFile::serialize                      (arxmlfile.rs)   -> serialize_file
     Element::serialize_internal               (element.rs)     -> ser_elem   (three layouts by content type)
     Element::serialize_newline_indent         (element.rs)     -> newline_indent
     Element::serialize_attributes             (element.rs)     -> ser_attrs
     CharacterData::serialize_internal         (chardata.rs)    -> ser_cdata
     escape_text                               (chardata.rs)    -> escape_text
     AutosarModelRaw::set_version              (autosarmodel.rs) -> set_version  (serialize() first rewrites the root's
                                                                   xsi:schemaLocation attribute to the canonical spelling
                                                                   for the file's version: a side effect on the model)
     ElementRaw::set_attribute_internal, CharacterData::check_value (for a String value)
   A single file is modelled (the `for_file` filter keeps every sub-element when the model has one file).
   `ElementName/AttributeName/EnumItem::to_str` index STRING_TABLE with the discriminant: out of range = Pan.
   `f64::to_string` is an ORACLE (float_fmt, raw bits -> text), as is str::parse::<f64> in the parser model.
   escape_text works on chars in the Rust; all five replaced chars are ASCII and every byte of a multi-byte
   UTF-8 sequence is >= 128, so the byte-wise map below is the same function on valid UTF-8 (and total on all bytes). *)
From AV Require Import Base.Bytes Base.Outcome Hash.HashModel Spec.SpecOps Spec.Versions Xml.Lexer Xml.Parser.
Open Scope string_scope.
Open Scope list_scope.
Open Scope N_scope.

Definition escape_byte (c : N) : list N :=
  if c =? 60 then BS "&lt;"
  else if c =? 62 then BS "&gt;"
  else if c =? 38 then BS "&amp;"
  else if c =? 34 then BS "&quot;"
  else if c =? 39 then BS "&apos;"
  else [c].

Definition escape_text (s : list N) : list N := flat_map escape_byte s.

(* u64::to_string : decimal digits, most significant first *)
Fixpoint dec_digits (fuel : nat) (n : N) (acc : list N) : list N :=
  match fuel with
  | O => acc
  | S f => let acc' := (48 + n mod 10) :: acc in
           if n / 10 =? 0 then acc' else dec_digits f (n / 10) acc'
  end.
Definition dec_of_N (n : N) : list N := dec_digits (S (N.size_nat n)) n [].

Definition newline_indent (indent : nat) : list N := 10 :: List.concat (List.repeat [32; 32] indent).

Section Serializer.
Variable T : tables.
Variable tab_el tab_at tab_en : nametab.
Variable check_fn : N -> list N -> res bool.    (* validate_regex_n *)
Variable float_fmt : N -> list N.               (* ORACLE: f64::to_string on the value with these bits *)

Definition ser_cdata (c : cdata) : res (list N) :=
  match c with
  | DEnum item => unwrap "EnumItem::to_str: STRING_TABLE index" (to_str tab_en item)
  | DString s => Val (escape_text s)
  | DUInt n => Val (dec_of_N n)
  | DFloat bits => Val (float_fmt bits)
  end.

Fixpoint ser_attrs (attrs : list (N * cdata)) : res (list N) :=
  match attrs with
  | [] => Val []
  | (name, v) :: rest =>
    (let* nm := unwrap "AttributeName::to_str: STRING_TABLE index" (to_str tab_at name) in
     let* vs := ser_cdata v in
     let* r := ser_attrs rest in
     Val ([32] ++ nm ++ BS "=""" ++ vs ++ [34] ++ r))%res
  end.

Definition comment_part (comment : option (list N)) (indent : nat) (inline : bool) : list N :=
  match comment with
  | Some c => (if inline then [] else newline_indent indent) ++ BS "<!--" ++ c ++ BS "-->"
  | None => []
  end.

Fixpoint ser_elem (e : etree) (indent : nat) (inline : bool) {struct e} : res (list N) :=
  match e with
  | ENode name ty attrs content comment =>
    (let* nm := unwrap "ElementName::to_str: STRING_TABLE index" (to_str tab_el name) in
     let* ats := ser_attrs attrs in
     let pre := comment_part comment indent inline ++ (if inline then [] else newline_indent indent) in
     match content with
     | [] => Val (pre ++ [60] ++ nm ++ ats ++ [47; 62])
     | first :: _ =>
       let* mode := content_mode T ty in
       let open_tag := [60] ++ nm ++ ats ++ [62] in
       let close_tag := [60; 47] ++ nm ++ [62] in
       if mode =? MCharacters then
         (* only the FIRST content item is written, and only if it is character data *)
         let* body := match first with inr cd => ser_cdata cd | inl _ => Val [] end in
         Val (pre ++ open_tag ++ body ++ close_tag)
       else if mode =? MMixed then
         let* body :=
           (fix items (l : list (etree + cdata)) : res (list N) :=
              match l with
              | [] => Val []
              | inl sub :: l' => let* a := ser_elem sub (S indent) true in let* b := items l' in Val (a ++ b)
              | inr cd :: l' => let* a := ser_cdata cd in let* b := items l' in Val (a ++ b)
              end) content in
         Val (pre ++ open_tag ++ body ++ close_tag)
       else
         (* Sequence / Choice / Bag: sub_elements() skips character data items *)
         let* body :=
           (fix subs (l : list (etree + cdata)) : res (list N) :=
              match l with
              | [] => Val []
              | inl sub :: l' => let* a := ser_elem sub (S indent) false in let* b := subs l' in Val (a ++ b)
              | inr _ :: l' => subs l'
              end) content in
         Val (pre ++ open_tag ++ body ++ newline_indent indent ++ close_tag)
     end)%res
  end.

Definition xml_header (standalone : option bool) : list N :=
  match standalone with
  | Some true => BS "<?xml version=""1.0"" encoding=""utf-8"" standalone=""yes""?>"
  | Some false => BS "<?xml version=""1.0"" encoding=""utf-8"" standalone=""no""?>"
  | None => BS "<?xml version=""1.0"" encoding=""utf-8""?>"
  end.

(* CharacterData::check_value(&CharacterData::String(s), spec, _) *)
Definition check_value_string (spec : cdspec) (s : list N) : res bool :=
  match spec with
  | CEnum _ => Val false
  | CPattern fn maxlen => if opt_len_gt maxlen s then Val false else check_fn fn s
  | CString _ maxlen => Val (negb (opt_len_gt maxlen s))
  | CUInt => Val false
  | CFloat => Val false
  end.

(* the attribute list after set_attribute_internal found the spec and accepted the value *)
Fixpoint set_attr (name : N) (v : cdata) (attrs : list (N * cdata)) : list (N * cdata) :=
  match attrs with
  | [] => [(name, v)]
  | (n, old) :: rest => if n =? name then (n, v) :: rest else (n, old) :: set_attr name v rest
  end.

Definition schema_location_value (version : N) : res (list N) :=
  (let* fname := unwrap "AutosarVersion::filename" (filename_of_version version) in
   Val (BS "http://autosar.org/schema/r4.0 " ++ fname))%res.

(* AutosarModelRaw::set_version(new_ver) : `let _ = root.set_attribute_internal(xsiSchemalocation, value, new_ver)` *)
Definition set_version (version : N) (root : etree) : res etree :=
  match root with
  | ENode name ty attrs content comment =>
    match from_bytes tab_at (BS "xsi:schemaLocation") with
    | Ok a_schema =>
      (let* value := schema_location_value version in
       let* sp := find_attribute_spec T ty a_schema in
       match sp with
       | None => Val root
       | Some (_, ctype, _, _) =>
         let* ok := check_value_string ctype value in
         if ok then Val (ENode name ty (set_attr a_schema (DString value) attrs) content comment) else Val root
       end)%res
    | _ => Pan "AttributeName::xsiSchemalocation missing from the table"
    end
  end.

(* ArxmlFile::serialize for the only file of a model; `version` = the file's AutosarVersion as u32 *)
Definition serialize_file (version : N) (standalone : option bool) (root : etree) : res (list N) :=
  (let* root' := set_version version root in
   let* body := ser_elem root' 0 false in Val (xml_header standalone ++ body))%res.

End Serializer.

Example escape_ex : escape_text (BS "a<b>&""'") = BS "a&lt;b&gt;&amp;&quot;&apos;".
Proof. reflexivity. Qed.
Example dec_ex : dec_of_N 0 = BS "0" /\ dec_of_N 18446744073709551615 = BS "18446744073709551615" /\ dec_of_N 1050 = BS "1050".
Proof. repeat split; reflexivity. Qed.
Example indent_ex : newline_indent 2 = [10; 32; 32; 32; 32].
Proof. reflexivity. Qed.
