(* Xml/Reading.v — C01, faithfulness: a DECLARATIVE, parser-independent reading of the arxml subset of XML.
   DEFINITIONS only (proofs: Xml/ReadingLexer.v, Xml/ReadingParser.v, Xml/ReadingUnique.v).

   `xml` is a plain XML tree WITH its layout (so that the text is a function of the tree: `render`):
       XText t                          a character data run (CharData: no '<'), maximal: no two runs are neighbours
       XComment c                       <!--c-->
       XPI body                         <?body?>   (a processing instruction; skipped by the interpretation)
       XElem name atts trail sc kids    STag content ETag | EmptyElemTag (sc = true):
                                        '<' Name (S Attribute)* S? ('>' content '</' Name '>' | '/>')
       xattr                            S Name '=' (" value " | ' value ')      (Eq without blanks)
   Reads bs d : the byte string is the rendering of the document d = (BOM?, misc before the declaration, the XML
   declaration, misc / comments before the root, the root element, misc after it) and every node is well formed (WfX).
   No lexer state, no fuel, no tables: names are Names (RoundTripAttrs.clean_name: letters, digits, '-', '_', ':', '.').

   RELAXATIONS R1..R7 with respect to the XML 1.0 grammar - every one is something the loader ACCEPTS, so a sound reading has to
   allow it (examples of each on the implementation's model: Xml/ReadingExamples.v):
     R1  Comment: "--" may occur inside (only the first "-->" ends it)                              [XML: forbidden]
     R2  PI: any body without '>' - the target may be empty or not a Name, "?>" ends at the first '>' [XML: PITarget Name]
     R3  AttValue may contain '<' (and, for Pattern-typed values, '&' that starts no reference)       [XML: forbidden]
     R4  attribute names need not be unique within a tag                                             [XML: WFC unique]
     R5  white space and PIs may stand before the XML declaration                                    [XML: first]
     R6  the XML declaration is read by position of '=' and the last byte only: quotes are not checked,
         pseudo-attributes may repeat or be unknown (XmlDeclR below)                                 [XML: XMLDecl]
     R7  any byte except '<' is character data (control characters, "]]>")                           [XML: Char, no "]]>"]
   RESTRICTIONS (well-formed XML outside the subset - rejected by the loader, not read by Reads): no DOCTYPE, no CDATA
   sections, no '>' inside attribute values or PIs, no blank before '>' of an end tag or around '=', no comment after
   the root element, UTF-8 only. *)
From Coq Require Import Arith.
From AV Require Import Base.Bytes Base.Outcome Base.Utf8 Xml.Lexer Xml.RoundTripAttrs Xml.RoundTripLexer.
Open Scope list_scope.
Open Scope N_scope.

Record xattr := { xa_ws : list N; xa_name : list N; xa_quote : N; xa_value : list N }.

Inductive xml :=
| XText (t : list N)
| XComment (c : list N)
| XPI (body : list N)
| XElem (name : list N) (atts : list xattr) (trail : list N) (selfclosing : bool) (kids : list xml).

(* ---------- the text of a tree ---------- *)
Definition r_attr (a : xattr) : list N := xa_ws a ++ xa_name a ++ [61] ++ [xa_quote a] ++ xa_value a ++ [xa_quote a].
Definition r_atts (l : list xattr) : list N := List.concat (map r_attr l).

Fixpoint render (x : xml) : list N :=
  match x with
  | XText t => t
  | XComment c => comment_text c ++ [62]
  | XPI body => [60; 63] ++ body ++ [63; 62]
  | XElem name atts trail sc kids =>
    [60] ++ name ++ r_atts atts ++ trail ++
    (if sc then [47; 62]
     else [62] ++ (fix go (l : list xml) : list N := match l with [] => [] | i :: r => render i ++ go r end) kids
          ++ [60; 47] ++ name ++ [62])
  end.
Definition render_items (l : list xml) : list N := List.concat (map render l).

(* ---------- well-formedness (lexical) ---------- *)
Definition allws (l : list N) : Prop := forallb is_ws l = true.
Definition no_byte (b : N) (l : list N) : Prop := forallb (fun c => negb (b =? c)) l = true.
Definition is_xtext (x : xml) : bool := match x with XText _ => true | _ => false end.
Definition head_is_text (l : list xml) : bool := match l with x :: _ => is_xtext x | [] => false end.

Definition WfAttr (a : xattr) : Prop :=
  xa_ws a <> [] /\ allws (xa_ws a) /\ clean_name (xa_name a) = true /\ (xa_quote a = 34 \/ xa_quote a = 39) /\
  no_byte (xa_quote a) (xa_value a) /\ no_byte 62 (xa_value a).

(* the target of a processing instruction: the text up to the first blank *)
Definition pi_target (body : list N) : list N := hd [] (split_ws body).

(* what may stand between the last attribute and the end of a tag: blanks.  (Before fix of the dangling-attribute defect
   the loader also accepted, and silently ignored, `text = quote blanks` without a closing quote there.) *)
Definition WfTrail (trail : list N) : Prop := allws trail.

Inductive WfX : xml -> Prop :=
| wf_text t : t <> [] -> no_byte 60 t -> WfX (XText t)
| wf_comment c : CommentOk c -> WfX (XComment c)
| wf_pi body : no_byte 62 body -> bytes_eqb (pi_target body) (BS "xml") = false -> WfX (XPI body)
| wf_elem name atts trail sc kids :
    clean_name name = true -> Forall WfAttr atts -> WfTrail trail -> (sc = true -> kids = []) -> WfItems kids ->
    WfX (XElem name atts trail sc kids)
with WfItems : list xml -> Prop :=
| wfi_nil : WfItems []
| wfi_cons x r : WfX x -> WfItems r -> (is_xtext x = true -> head_is_text r = false) -> WfItems (x :: r).

(* white space, processing instructions (and, where allowed, comments): what may stand between the parts of a document *)
Definition is_misc (x : xml) : Prop := match x with XText t => allws t | XPI _ => True | _ => False end.
Definition is_misc_or_comment (x : xml) : Prop := match x with XText t => allws t | XPI _ | XComment _ => True | _ => False end.

(* R6: the XML declaration as the lexer reads it (Lexer.header_attrs: every blank-separated piece is name=Xvalue X) *)
Definition XmlDeclR (body : list N) (standalone : option bool) : Prop :=
  no_byte 62 body /\ bytes_eqb (pi_target body) (BS "xml") = true /\
  exists enc, header_attrs (tl (split_ws body)) [] [] None = Val (BS "1.0", enc, standalone) /\ encoding_ok enc = true.

Record doc := {
  d_bom : bool;                     (* a byte order mark in front *)
  d_before : list xml;              (* R5: misc before the declaration *)
  d_decl : list N;                  (* the body of <?xml ... ?> *)
  d_standalone : option bool;
  d_prolog : list xml;              (* misc and comments between the declaration and the root *)
  d_root : xml;
  d_after : list xml                (* misc after the root *)
}.

Definition bom : list N := [239; 187; 191].

Definition render_doc (d : doc) : list N :=
  (if d_bom d then bom else []) ++ render_items (d_before d) ++ [60; 63] ++ d_decl d ++ [63; 62] ++
  render_items (d_prolog d) ++ render (d_root d) ++ render_items (d_after d).

Definition WfDoc (d : doc) : Prop :=
  WfItems (d_before d) /\ Forall is_misc (d_before d) /\
  XmlDeclR (d_decl d) (d_standalone d) /\
  WfItems (d_prolog d) /\ Forall is_misc_or_comment (d_prolog d) /\
  (exists name atts trail sc kids, d_root d = XElem name atts trail sc kids) /\ WfX (d_root d) /\
  WfItems (d_after d) /\ Forall is_misc (d_after d).
(* (the parts are separated by markup - the declaration, the root - so character data runs of different parts are never
   neighbours) *)

Definition Reads (bs : list N) (d : doc) : Prop := bs = render_doc d /\ WfDoc d.

Lemma render_items_eq kids :
  (fix go (l : list xml) : list N := match l with [] => [] | i :: r => render i ++ go r end) kids = render_items kids.
Proof. induction kids as [|i r IH]; [reflexivity|]. unfold render_items in *. cbn [map List.concat]. rewrite <- IH. reflexivity. Qed.

Lemma render_elem name atts trail sc kids :
  render (XElem name atts trail sc kids) =
  [60] ++ name ++ r_atts atts ++ trail ++ (if sc then [47; 62] else [62] ++ render_items kids ++ [60; 47] ++ name ++ [62]).
Proof. cbn [render]. rewrite render_items_eq. reflexivity. Qed.
